/-
C03 — Keep client and collection reads never deliver bytes that mismatch the locator.
Property theorems only (helpers: Proofs/C03.lean, Proofs/C03Cache.lean, Proofs/C03Conc.lean).
Every theorem is for an arbitrary `hash : Bytes → D` and an arbitrary map `digest` from the first
32 characters of a locator to `D`; bodies, chunkings, scripts, retry counts, probe orders, numbers
of readers and schedules are universally quantified. Collision-freeness appears only as the
explicit hypothesis `NoColl`.
-/
import ArvVerif.Proofs.C03Cache
import ArvVerif.Proofs.C03Conc
import ArvVerif.Proofs.C03_Load
namespace ArvVerif.C03
variable {D : Type} [DecidableEq D]

/-- Collision-freeness for one digest: `b` is the only content with digest `h`. -/
def NoColl (hash : Bytes → D) (h : D) (b : Bytes) : Prop := ∀ x, hash x = h → x = b

/-- **Streaming reader.** Whenever `getOrHead` hands out a reader (body, expect):
(1) the body was offered by a service with status 200, and the size rule held: with a size hint
`h`, `expect = h` and a declared Content-Length equals `h`; without a hint the Content-Length was
declared and is `expect`;
(2) reading it to EOF through HashCheckingReader.Read (any chunking), (3) WriteTo, (4)
ReadFull(m)+Close succeed only if the **whole** body hashes to the locator's digest, and then
deliver exactly the body (resp. its first m bytes). -/
theorem C03_stream_sound (hash : Bytes → D) (digest : List Char → D)
    (loc : List Char) (tries : Nat) (order : List Nat) (g : G) (body : Body) (expect : Nat) (g' : G)
    (hget : getOrHead loc tries order g = (.rdr body expect, g')) :
    (∃ clen, Offered g.scripts (.ok clen body) ∧
      (∀ h, hint64 loc = some h → expect = h ∧ ∀ c, clen = some c → c = h) ∧
      (hint64 loc = none → clen = some expect)) ∧
    (∀ d, readAll hash (digest (loc.take 32)) body.fin body.together body.chunks [] = (d, .eof) →
      d = body.content ∧ hash d = digest (loc.take 32)) ∧
    (∀ d, writeTo hash (digest (loc.take 32)) body.fin body.chunks [] = (d, none) →
      d = body.content ∧ hash d = digest (loc.take 32)) ∧
    (∀ m d, readFullClose hash (digest (loc.take 32)) body m = (d, none) →
      d = body.content.take m ∧ m ≤ body.content.length ∧ hash body.content = digest (loc.take 32)) := by
  refine ⟨?_, ?_, ?_, ?_⟩
  · obtain ⟨clen, ho, ha⟩ := getOrHead_rdr loc tries order g body expect g' hget
    refine ⟨clen, ho, ?_, ?_⟩
    · intro h hh; rw [hh] at ha; exact accept200_hint h clen expect ha
    · intro hn; rw [hn] at ha; exact accept200_nohint clen expect ha
  · intro d hd
    rw [readAll_eq] at hd
    simp only [Prod.mk.injEq, List.nil_append] at hd
    obtain ⟨rfl, he⟩ := hd
    refine ⟨rfl, ?_⟩
    unfold endErr at he
    cases hf : body.fin with
    | ueof => rw [hf] at he; simp at he
    | eof =>
      rw [hf] at he
      simp only at he
      split at he
      · assumption
      · simp at he
  · intro d hd
    unfold writeTo at hd
    simp only [Prod.mk.injEq, List.nil_append] at hd
    obtain ⟨rfl, he⟩ := hd
    refine ⟨rfl, ?_⟩
    cases hf : body.fin with
    | ueof => rw [hf] at he; simp at he
    | eof =>
      rw [hf] at he
      simp only at he
      split at he
      · assumption
      · simp at he
  · intro m d hd
    obtain ⟨_, _, h3, h4, h5⟩ := readFullClose_ok hash _ body m d hd
    exact ⟨h4, h5, h3⟩

/-- Corollary under collision-freeness: a complete successful streaming read returns the block. -/
theorem C03_stream_exact (hash : Bytes → D) (digest : List Char → D) (loc : List Char) (b : Bytes)
    (hnc : NoColl hash (digest (loc.take 32)) b) (body : Body) (d : Bytes) :
    (readAll hash (digest (loc.take 32)) body.fin body.together body.chunks [] = (d, .eof) → d = b) ∧
    (writeTo hash (digest (loc.take 32)) body.fin body.chunks [] = (d, none) → d = b) ∧
    (∀ m, readFullClose hash (digest (loc.take 32)) body m = (d, none) → d = b.take m) := by
  refine ⟨?_, ?_, ?_⟩
  · intro hd
    rw [readAll_eq] at hd
    simp only [Prod.mk.injEq, List.nil_append] at hd
    obtain ⟨rfl, he⟩ := hd
    unfold endErr at he
    cases hf : body.fin with
    | ueof => rw [hf] at he; simp at he
    | eof =>
      rw [hf] at he
      simp only at he
      split at he
      · rename_i hh; exact hnc _ hh
      · simp at he
  · intro hd
    unfold writeTo at hd
    simp only [Prod.mk.injEq, List.nil_append] at hd
    obtain ⟨rfl, he⟩ := hd
    cases hf : body.fin with
    | ueof => rw [hf] at he; simp at he
    | eof =>
      rw [hf] at he
      simp only at he
      split at he
      · rename_i hh; exact hnc _ hh
      · simp at he
  · intro m hd
    obtain ⟨_, _, h3, h4, _⟩ := readFullClose_ok hash _ body m d hd
    rw [h4, hnc _ h3]

/-- **Cache.** What a fetch (kc.Get, ReadFull(expect), Close) stores without error is either the
empty block for a locator starting with the empty-block literal, or the first `n` bytes of a body
whose whole content hashes to the locator's digest, `n` being the size hint when there is one;
and BlockCache.ReadAt on such an entry returns bytes `[off, off+len)` of it. -/
theorem C03_cache_sound (hash : Bytes → D) (digest : List Char → D)
    (loc : List Char) (tries : Nat) (order : List Nat) (g : G) (e : Entry) (g' : G)
    (h : fetch hash digest loc tries order g = (e, g')) (herr : e.err = none) :
    ((emptyLocator.isPrefixOf loc = true ∧ e.data = []) ∨ SoundData hash digest loc e.data) ∧
    (∀ off len d, readAtEntry e off len = (d, none) → d = (e.data.drop off).take len ∧ off ≤ e.data.length) := by
  refine ⟨fetch_sound hash digest loc tries order g e g' h herr, ?_⟩
  intro off len d hd
  unfold readAtEntry at hd
  rw [herr] at hd
  simp only at hd
  split at hd
  · simp at hd
  · simp only [Prod.mk.injEq, and_true] at hd
    exact ⟨hd.symm, by omega⟩

/-- Corollary: with collision-freeness for the locator's digest, the empty-block literal being
the digest of the empty content, and a size hint equal to the block's size, a cached read that
succeeds returns exactly bytes `[off, off+len)` of the block. -/
theorem C03_cache_exact (hash : Bytes → D) (digest : List Char → D)
    (hEmpty : hash [] = digest (emptyLocator.take 32))
    (loc : List Char) (b : Bytes) (hnc : NoColl hash (digest (loc.take 32)) b)
    (hhint : hint64 loc = some b.length)
    (tries : Nat) (order : List Nat) (g : G) (e : Entry) (g' : G)
    (h : fetch hash digest loc tries order g = (e, g'))
    (off len : Nat) (d : Bytes) (hread : readAtEntry e off len = (d, none)) :
    d = (b.drop off).take len := by
  have herr : e.err = none := by
    unfold readAtEntry at hread
    cases he : e.err with
    | none => rfl
    | some x => rw [he] at hread; simp at hread
  have hb := fetch_exact hash digest hEmpty loc b hnc hhint tries order g e g' h herr
  have := (C03_cache_sound hash digest loc tries order g e g' h herr).2 off len d hread
  rw [this.1, hb]

/-- Outcomes a fetch for cache key `k` can report: the model's `fetch` on some locator with that
key (restricted by `okLoc`), any retry count, probe order and server scripts. -/
def FetchOutcome (hash : Bytes → D) (digest : List Char → D) (okLoc : List Char → Prop)
    (k : Key) (e : Entry) : Prop :=
  ∃ loc tries order g, okLoc loc ∧ loc.take 32 = k ∧ (fetch hash digest loc tries order g).1 = e

/-- A datum is good for key `k` when it is sound for some admissible locator with that key. -/
def GoodFor (hash : Bytes → D) (digest : List Char → D) (okLoc : List Char → Prop) (k : Key) (d : Bytes) : Prop :=
  ∃ loc, okLoc loc ∧ loc.take 32 = k ∧
    ((emptyLocator.isPrefixOf loc = true ∧ d = []) ∨ SoundData hash digest loc d)

/-- **A bad response is never kept to satisfy later reads.** In every state reachable by any
interleaving of any number of readers (`lookup`), fetch completions with any outcome the fetch can
produce (`fetchDone`), and deletions (`sweep`):
(1) every finished, error-free cache entry holds sound data;
(2) every value BlockCache.Get returned to a reader without error is sound data for the key the
reader asked for;
(3) a finished entry holding an error is not served: the next lookup of its key returns nothing,
replaces it by a pending entry and starts a new fetch which that reader waits for. -/
theorem C03_bad_never_cached (hash : Bytes → D) (digest : List Char → D) (okLoc : List Char → Prop)
    (s : CS) (hr : Reach (FetchOutcome hash digest okLoc) s) :
    (∀ k e, s.cache k = some (.done e) → e.err = none → GoodFor hash digest okLoc k e.data) ∧
    (∀ r k e, (r, k, e) ∈ s.results → e.err = none → GoodFor hash digest okLoc k e.data) ∧
    (∀ r k e err, s.cache k = some (.done e) → e.err = some err →
      (apply s (.lookup r k)).cache k = some (.pending (k, s.nextFid)) ∧
      (apply s (.lookup r k)).results = s.results ∧
      (r, k, (k, s.nextFid)) ∈ (apply s (.lookup r k)).waiting) := by
  have inv := inv_reach _ s hr
  have good : ∀ k e, FetchOutcome hash digest okLoc k e → e.err = none → GoodFor hash digest okLoc k e.data := by
    intro k e ⟨loc, tries, order, g, hok, hk, hf⟩ herr
    refine ⟨loc, hok, hk, ?_⟩
    exact fetch_sound hash digest loc tries order g e (fetch hash digest loc tries order g).2
      (by rw [← hf]) herr
  refine ⟨fun k e hc he => good k e (inv.cacheDone k e hc) he,
          fun r k e hm he => good k e (inv.results (r, k, e) hm) he, ?_⟩
  intro r k e err hc he
  obtain ⟨h1, h2, _, h4⟩ := lookup_err_refetches s r k e err hc he
  exact ⟨h1, h2, h4⟩

/-- Corollary: if all locators in use are consistent with a block store (`blocks k` is the only
content with digest `digest k`, and every locator's size hint is that block's size), then in every
reachable state every error-free cache entry for `k` and every error-free result for `k` is
exactly `blocks k`. -/
theorem C03_bad_never_cached_exact (hash : Bytes → D) (digest : List Char → D)
    (hEmpty : hash [] = digest (emptyLocator.take 32))
    (blocks : Key → Bytes) (hnc : ∀ k, NoColl hash (digest k) (blocks k))
    (s : CS)
    (hr : Reach (FetchOutcome hash digest (fun loc => hint64 loc = some (blocks (loc.take 32)).length)) s) :
    (∀ k e, s.cache k = some (.done e) → e.err = none → e.data = blocks k) ∧
    (∀ r k e, (r, k, e) ∈ s.results → e.err = none → e.data = blocks k) := by
  have inv := inv_reach _ s hr
  have exact : ∀ k e, FetchOutcome hash digest (fun loc => hint64 loc = some (blocks (loc.take 32)).length) k e →
      e.err = none → e.data = blocks k := by
    intro k e ⟨loc, tries, order, g, hok, hk, hf⟩ herr
    rw [← hk]
    exact fetch_exact hash digest hEmpty loc (blocks (loc.take 32)) (hnc _) hok tries order g e
      (fetch hash digest loc tries order g).2 (by rw [← hf]) herr
  exact ⟨fun k e hc he => exact k e (inv.cacheDone k e hc) he,
         fun r k e hm he => exact k e (inv.results (r, k, e) hm) he⟩

/-- **Faulty answers end in errors** (under collision-freeness for the locator's digest `check`,
`b` the block):
(a) a body whose content differs from the block in any way (flipped bits, short, long, other
data — with or without a declared length), or that ends with a transport error, makes every way
of consuming it fail: Read-to-EOF, WriteTo, ReadFull(m)+Close for every m, and the cache fetch;
(b) a correct but shorter-than-expected body fails the cache fetch;
(c) a Content-Length that differs from the size hint, or no Content-Length and no hint, is
rejected by getOrHead at once (error class `proto`), whatever the body;
(d) a cache entry holding an error gives ReadAt = (no bytes, that error), storedSegment.ReadAt
passes it on without bytes, and File.Read returns no bytes and an error. -/
theorem C03_error_not_data (hash : Bytes → D) (check : D) (b : Bytes) (hnc : NoColl hash check b) :
    (∀ body : Body, (body.content ≠ b ∨ body.fin = .ueof) →
      (readAll hash check body.fin body.together body.chunks []).2 ≠ .eof ∧
      (writeTo hash check body.fin body.chunks []).2 ≠ none ∧
      (∀ m, (readFullClose hash check body m).2 ≠ none) ∧
      (∀ bufsize expect, (fetchBody hash check bufsize body expect).err ≠ none)) ∧
    (∀ (body : Body) (bufsize expect : Nat), body.content.length < expect →
      (fetchBody hash check bufsize body expect).err ≠ none) ∧
    ((∀ h c, c ≠ h → accept200 (some h) (some c) = none) ∧ accept200 none none = none ∧
     (∀ hint clen body s rest g retry, (popResp g.scripts s).1 = .ok clen body → accept200 hint clen = none →
        (tryServers hint (s :: rest) g retry).1 = .proto)) ∧
    ((∀ (e : Entry) err off len, e.err = some err → readAtEntry e off len = ([], some err)) ∧
     (∀ (se : Seg) plen off err (backend : Nat → Nat → Bytes × Option Err),
        (∀ l o, backend l o = ([], some err)) →
        (segReadAt backend se plen off).1 = [] ∧ (segReadAt backend se plen off).2 ≠ none) ∧
     (∀ segs p plen err (segRead : Seg → Nat → Nat → Bytes × Option Err) d e p',
        (∀ s pl off, segRead s pl off = ([], some err)) →
        fileRead segRead segs p plen = some (d, e, p') → d = [] ∧ e ≠ none)) := by
  have bad : ∀ body : Body, (body.content ≠ b ∨ body.fin = .ueof) →
      ¬ (body.fin = .eof ∧ hash body.content = check) := by
    intro body hb ⟨h1, h2⟩
    rcases hb with hb | hb
    · exact hb (hnc _ h2)
    · rw [h1] at hb; cases hb
  refine ⟨?_, ?_, ⟨?_, ?_, ?_⟩, ⟨?_, ?_, ?_⟩⟩
  · intro body hb
    have nb := bad body hb
    refine ⟨?_, ?_, ?_, ?_⟩
    · rw [readAll_eq]
      simp only [List.nil_append]
      intro he
      apply nb
      unfold endErr at he
      cases hf : body.fin with
      | ueof => rw [hf] at he; simp at he
      | eof =>
        rw [hf] at he
        simp only at he
        split at he
        · exact ⟨rfl, by assumption⟩
        · simp at he
    · unfold writeTo
      simp only [List.nil_append]
      intro he
      apply nb
      cases hf : body.fin with
      | ueof => rw [hf] at he; simp at he
      | eof =>
        rw [hf] at he
        simp only at he
        split at he
        · exact ⟨rfl, by assumption⟩
        · simp at he
    · intro m he
      apply nb
      obtain ⟨h1, _, h3, _, _⟩ := readFullClose_ok hash check body m (readFullClose hash check body m).1 (by rw [← he])
      exact ⟨h1, h3⟩
    · intro bufsize expect he
      apply nb
      obtain ⟨h1, h2, _, _, _⟩ := fetchBody_ok hash check bufsize body expect _ rfl he
      exact ⟨h1, h2⟩
  · intro body bufsize expect hlt he
    obtain ⟨_, _, _, h4, _⟩ := fetchBody_ok hash check bufsize body expect _ rfl he
    omega
  · intro h c hc
    simp only [accept200]
    split
    · rename_i heq; exact absurd heq.symm hc
    · rfl
  · rfl
  · intro hint clen body s rest g retry hp ha
    unfold tryServers
    generalize popResp g.scripts s = p at hp
    obtain ⟨r, sc⟩ := p
    simp only at hp
    subst hp
    simp [ha]
  · intro e err off len he
    simp [readAtEntry, he]
  · intro se plen off err backend hfail
    exact segReadAt_backend_error se plen off err backend hfail
  · intro segs p plen err segRead d e p' hfail h
    exact fileRead_backend_error segs p plen err segRead hfail d e p' h

/-- **storedSegment.ReadAt bounds.** For any block reader: either the offset is beyond the segment
and EOF is returned without touching the block, or exactly one read of the block is made, for
`min(len p, length-off)` bytes at `offset+off` — a range inside `[offset, offset+length)`.
On a verified block that covers the segment the result is exactly those bytes of the segment, and
the error is EOF iff the request was cut at the segment's end. -/
theorem C03_readat_bounds (se : Seg) (plen off : Nat) :
    (∀ backend : Nat → Nat → Bytes × Option Err,
      (se.length < off ∧ segReadAt backend se plen off = ([], some .eof)) ∨
      (off ≤ se.length ∧ ∃ l o, se.offset ≤ o ∧ o + l ≤ se.offset + se.length ∧
        o = se.offset + off ∧ l = min plen (se.length - off) ∧
        (segReadAt backend se plen off).1 = (backend l o).1 ∧
        ((backend l o).2 ≠ none → (segReadAt backend se plen off).2 = (backend l o).2) ∧
        ((backend l o).2 = none →
          (segReadAt backend se plen off).2 = if se.length - off < plen then some .eof else none))) ∧
    (∀ blk : Bytes, off ≤ se.length → se.offset + se.length ≤ blk.length →
      segReadAt (fun l o => readAtEntry { data := blk, err := none } o l) se plen off =
        ((((blk.drop se.offset).take se.length).drop off).take plen,
         if se.length - off < plen then some .eof else none) ∧
      ((((blk.drop se.offset).take se.length).drop off).take plen).length = min plen (se.length - off)) := by
  refine ⟨fun backend => segReadAt_call backend se plen off, ?_⟩
  intro blk hoff hin
  refine ⟨segReadAt_verified blk se plen off hoff hin, ?_⟩
  simp
  omega

/-- **File.Read delivers only bytes of verified blocks, at the positions the manifest names.**
Over a verified block store (`blocks i` is what the cache returns for block i, without error) and
segments that lie inside their blocks, whatever filenode.Read returns for any pointer and any
buffer size is either nothing or a piece `drop o |> take plen` of one segment of the file, i.e. of
bytes `[offset, offset+length)` of that segment's block. -/
theorem C03_file_read_sound (blocks : Nat → Bytes) (segs : List Seg)
    (hin : ∀ s ∈ segs, s.offset + s.length ≤ (blocks s.blk).length)
    (p : Ptr) (plen : Nat) (d : Bytes) (e : Option Err) (p' : Ptr)
    (h : fileRead (fun s pl off => segReadAt (fun l o => readAtEntry { data := blocks s.blk, err := none } o l) s pl off)
          segs p plen = some (d, e, p')) :
    d = [] ∨ ∃ s ∈ segs, ∃ o, o ≤ s.length ∧
      d = ((((blocks s.blk).drop s.offset).take s.length).drop o).take plen := by
  unfold fileRead at h
  split at h
  · simp at h
  · rename_i p1 _
    split at h
    · simp at h; left; exact h.1
    · rename_i s hs
      have hmem : s ∈ segs := List.mem_of_getElem? hs
      have hd : d = (segReadAt (fun l o => readAtEntry { data := blocks s.blk, err := none } o l) s plen p1.segOff).1 := by
        dsimp only at h
        split at h
        · simp at h; exact h.1.symm
        · split at h <;> (simp at h; exact h.1.symm)
      by_cases hoff : p1.segOff ≤ s.length
      · right
        refine ⟨s, hmem, p1.segOff, hoff, ?_⟩
        rw [hd, segReadAt_verified (blocks s.blk) s plen p1.segOff hoff (hin s hmem)]
      · left
        rw [hd]
        unfold segReadAt
        have : s.length < p1.segOff := by omega
        simp [this]

/-- **A handle's Read/Seek sequence reads the flat file.** For any collection loaded by the model's
loadManifest (any number of streams, files, tokens), over a verified block store whose blocks have
the sizes the locators name: every file's segments are non-empty and inside their blocks, and for
every file, every starting pointer satisfying the pointer invariant (in particular a fresh handle)
and **every** sequence of `Read(n)` / `Seek(off, whence)` calls (SeekStart, SeekCurrent, SeekEnd, any signed
offset; a negative target fails and leaves the handle where it was), the calls all return, and their results
are those of a plain file holding `fileContent` — each Read delivers the bytes at the handle's
offset (at least one unless nothing was asked or the offset is at the end, never more than asked),
advances the offset by what it delivered, and reports EOF only when the request reaches beyond
the end of the file and always at or beyond the end. -/
theorem C03_file_sequence {ι : Type} [BEq ι] (blocks : Nat → Bytes) (size : Nat → Nat)
    (hlen : ∀ i, size i ≤ (blocks i).length)
    (streams : List (List (Nat × Nat) × List (Nat × Nat × ι)))
    (hstreams : ∀ st ∈ streams, BlocksOK size st.1)
    (files : List (ι × List Seg)) (hload : loadManifestN streams [] = some files)
    (f : ι × List Seg) (hf : f ∈ files) :
    SegsPos f.2 ∧ SegsIn blocks f.2 ∧
    ∀ (p : Ptr), PtrOK f.2 p → ∀ ops : List FOp,
      ∃ rs, runFile (vRead blocks) f.2 p ops = some rs ∧ Follows (fileContent blocks f.2) p.off ops rs := by
  have hwf := loadManifestN_wf size streams hstreams [] (by simp) files hload f hf
  obtain ⟨hpos, hin⟩ := segsWF_pos_in size blocks hlen f.2 hwf
  exact ⟨hpos, hin, fun p hok ops => runFile_follows blocks f.2 hin hpos ops p hok⟩

/-- **filehandle.Seek, every whence.** The position reported is the target offset (`off`, `pos + off`,
`size + off`) and is the handle's new offset; the call fails exactly when the target is negative and then
changes nothing; the pointer invariant is kept (a changed offset always marks the pointer stale, so the
next Read recomputes the segment position from the offset — it is never advanced incrementally by Seek);
SeekStart with a non-negative offset is `fileSeek`. -/
theorem C03_seek_whence (segs : List Seg) (size : Nat) (p : Ptr) (w : Whence) (off : Int) (hok : PtrOK segs p) :
    PtrOK segs (fileSeekW size p w off).1 ∧
    (fileSeekW size p w off).1.off = seekPos size p.off w off ∧
    ((fileSeekW size p w off).2 = none ↔ seekTarget size p.off w off < 0) ∧
    (∀ n, (fileSeekW size p w off).2 = some n → (fileSeekW size p w off).1.off = n ∧
      (n : Int) = seekTarget size p.off w off) ∧
    ((fileSeekW size p w off).2 = none → (fileSeekW size p w off).1 = p) ∧
    (∀ n : Nat, fileSeekW size p .start (n : Int) = (fileSeek p n, some n)) :=
  ⟨ptrOK_fileSeekW segs size p w off hok, fileSeekW_off size p w off, (fileSeekW_pos size p w off).1,
   (fileSeekW_pos size p w off).2.1, (fileSeekW_pos size p w off).2.2, fun n => fileSeekW_start size p n⟩

/-- One File.Read, exactly: before the end of the file it returns `min(len p, bytes left in the
segment holding the offset)` bytes — the flat content at the offset — and at or beyond the end
nothing with EOF. A fresh handle and every pointer produced by Read or Seek satisfy the invariant. -/
theorem C03_file_read_exact (blocks : Nat → Bytes) (segs : List Seg) (hin : SegsIn blocks segs)
    (hpos : SegsPos segs) (p : Ptr) (hok : PtrOK segs p) (plen : Nat) :
    PtrOK segs {} ∧ (∀ off, PtrOK segs (fileSeek p off)) ∧
    (fileSize segs ≤ p.off →
      ∃ p', fileRead (vRead blocks) segs p plen = some ([], some .eof, p') ∧ p'.off = p.off ∧ PtrOK segs p') ∧
    (p.off < fileSize segs →
      ∃ d e p', fileRead (vRead blocks) segs p plen = some (d, e, p') ∧
        d = ((fileContent blocks segs).drop p.off).take d.length ∧
        (∃ s o, o < s.length ∧ s ∈ segs ∧ d.length = min plen (s.length - o)) ∧
        p'.off = p.off + d.length ∧ PtrOK segs p' ∧
        (e = none ∨ (e = some .eof ∧ p'.off = fileSize segs ∧ fileSize segs < p.off + plen))) :=
  ⟨ptrOK_init segs, fun off => ptrOK_fileSeek segs p off hok,
   fun hge => fileRead_at_end blocks segs p plen hge,
   fun hlt => fileRead_before_end blocks segs hin hpos p hok plen hlt⟩

/-- **No answer makes the cached read crash** (finding F3a, fixed). For every locator (any size
hint, also one that does not fit 32 bits, or none), retry count, probe order and server script
(any Content-Length, any body), the fetch of BlockCache.Get ends in data or in an error class
other than `panic`; and an accepted answer whose size exceeds the buffer (`bufSize loc`, from the
32-bit parse of the hint, default 64 MiB) is an error with no data, whatever the body. -/
theorem C03_fetch_never_panics (hash : Bytes → D) (digest : List Char → D)
    (loc : List Char) (tries : Nat) (order : List Nat) (g : G) :
    (fetch hash digest loc tries order g).1.err ≠ some .panic ∧
    (∀ check body expect, bufSize loc < expect →
      fetchBody hash check (bufSize loc) body expect = { data := [], err := some .proto }) := by
  refine ⟨fetch_ne_panic hash digest loc tries order g, ?_⟩
  intro check body expect h
  simp [fetchBody, h]

/-! ## The consistency hypothesis is needed (notes O2, O3)

`C03_cache_exact` and `C03_bad_never_cached_exact` assume that every locator's size hint is the size
of the content with its MD5 — which is what the property quantifies over ("block contents/sizes").
The two theorems below show that this hypothesis cannot be dropped for the current code: with
collision-freeness alone, a locator whose hint is smaller than the content, answered without
Content-Length by the complete, correctly hashing body, stores and serves a truncated block, and —
the cache being keyed by the hash only — that entry is what any other reader of the same hash gets. -/

def hypBlock : Bytes := [1, 2, 3]
def hypLoc : List Char := "0123456789abcdef0123456789abcdef+2".toList
def hypG : G := { scripts := [[.ok none { chunks := [[1, 2, 3]] }]] }

theorem C03_hint_hypothesis_needed :
    NoColl (fun x : Bytes => x) hypBlock hypBlock ∧
    hint64 hypLoc = some 2 ∧ hypBlock.length = 3 ∧
    (fetch (fun x : Bytes => x) (fun _ => hypBlock) hypLoc 1 [0] hypG).1 = { data := [1, 2], err := none } ∧
    readAtEntry (fetch (fun x : Bytes => x) (fun _ => hypBlock) hypLoc 1 [0] hypG).1 0 3 = ([1, 2], none) := by
  refine ⟨fun _ h => h, by decide, rfl, by decide, by decide⟩

theorem C03_shared_key_hypothesis_needed :
    ∃ s : CS, Reach (FetchOutcome (fun x : Bytes => x) (fun _ => hypBlock) (fun _ => True)) s ∧
      -- reader 1 asked for the key after the truncated entry was stored and got it without error
      (1, hypLoc.take 32, ({ data := [1, 2], err := none } : Entry)) ∈ s.results ∧
      ({ data := [1, 2], err := none } : Entry).data ≠ hypBlock := by
  let k : Key := hypLoc.take 32
  let e : Entry := { data := [1, 2], err := none }
  refine ⟨apply (apply (apply CS.init (.lookup 0 k)) (.fetchDone (k, 0) e)) (.lookup 1 k), ?_, ?_, by decide⟩
  · refine .step _ _ (.step _ _ (.step _ _ .init trivial) ?_) trivial
    exact ⟨hypLoc, 1, [0], hypG, trivial, rfl, by decide⟩
  · decide

/-! ## Non-vacuity -/

/-- `NoColl` is satisfiable by a non-trivial instance (an injective hash). -/
example : NoColl (fun x : Bytes => x) [1, 2, 3] [1, 2, 3] := fun _ h => h

/-- …and the hypotheses of `C03_bad_never_cached_exact` hold for `hash = id`, `digest` any map
whose value at the empty-block key is `[]`. -/
example : ∃ (digest : List Char → Bytes) (blocks : Key → Bytes),
    (fun x : Bytes => x) [] = digest (emptyLocator.take 32) ∧ ∀ k, NoColl (fun x : Bytes => x) (digest k) (blocks k) :=
  ⟨fun _ => [], fun _ => [], rfl, fun _ _ h => h⟩

def exLoc : List Char := "0123456789abcdef0123456789abcdef+3".toList
def exBody : Body := { chunks := [[1, 2], [3]] }
def exG : G := { scripts := [[.status 503, .ok (some 3) exBody], [.status 404]] }

/-- `getOrHead` does hand out readers: first round 503 from service 0 and 404 from service 1,
second round the body from service 0. -/
example : (getOrHead exLoc 2 [0, 1] exG).1 = .rdr exBody 3 := by decide

/-- a fetch without error exists, with non-trivial data (hash = id, digest maps the key to the block) -/
example : (fetch (fun x : Bytes => x) (fun _ => [1, 2, 3]) exLoc 2 [0, 1] exG).1 = { data := [1, 2, 3], err := none } := by
  decide

/-- and a corrupted body produces an error entry -/
example : (fetch (fun x : Bytes => x) (fun _ => [1, 2, 4]) exLoc 2 [0, 1] exG).1.err = some .badChecksum := by
  decide

/-- Why `C03_cache_sound` says "the first n bytes" and the exact statement needs a consistent size
hint (notes O3): a locator whose hint (2) is smaller than the content, answered without
Content-Length by the full, correctly hashing body, is stored as the first 2 bytes. -/
example : (fetch (fun x : Bytes => x) (fun _ => [1, 2, 3]) "0123456789abcdef0123456789abcdef+2".toList 1 [0]
    { scripts := [[.ok none exBody]] }).1 = { data := [1, 2], err := none } := by decide

/-- …while the same answer with its Content-Length declared is rejected at once. -/
example : (fetch (fun x : Bytes => x) (fun _ => [1, 2, 3]) "0123456789abcdef0123456789abcdef+2".toList 1 [0]
    { scripts := [[.ok (some 3) exBody]] }).1.err = some .proto := by decide

/-- `C03_file_sequence` on a concrete two-stream collection: file 7 is made of bytes 2..5 of the
stream [0,1,2] ++ [3,4,5] and byte 0 of the second stream; read 3, seek 1, read 10, read 1, read 1. -/
def exBlocks : Nat → Bytes := fun i => if i = 0 then [0, 1, 2] else [3, 4, 5]

example :
    ((loadManifestN [([(0, 3), (1, 3)], [(2, 3, (7 : Nat))]), ([(1, 3)], [(0, 1, 7)])] []).map
        (fun files => files.map (fun f => (f.1, runFile (vRead exBlocks) f.2 {} [.read 3, .seek 1, .read 10, .read 1, .read 1])))
      : Option (List (Nat × Option (List (Bytes × Option Err))))) =
      some [(7, some [([2], none), ([3, 4], none), ([3], none), ([], some .eof)])] := by
  rfl

/-- relative seeks on a file of three 3-byte segments: read 1, skip ahead 4 into the next segment
(SeekCurrent), read; skip over a whole segment; SeekEnd −2; a negative target leaves the handle alone -/
example :
    runFile (vRead (fun i => [10 * i.toUInt8, 10 * i.toUInt8 + 1, 10 * i.toUInt8 + 2]))
      [⟨0, 0, 3⟩, ⟨1, 0, 3⟩, ⟨2, 0, 3⟩] {}
      [.read 1, .seekW .cur 4, .read 2, .seekW .cur (-5), .read 1, .seekW .cur 6, .read 5,
       .seekW .fromEnd (-2), .read 1, .seekW .cur (-20), .read 5] =
      some [([0], none), ([12], none), ([1], none), ([22], some .eof), ([21], none), ([22], some .eof)] := by
  rfl

/-- F3a witnesses in the model: a hint of 2^31 answered without Content-Length, and a hint-less locator
answered with Content-Length 70 000 000, are errors (they used to be `panic`). -/
example : (fetch (fun x : Bytes => x) (fun _ => [1, 2, 3]) "0123456789abcdef0123456789abcdef+2147483648".toList 1 [0]
    { scripts := [[.ok none exBody]] }).1 = { data := [], err := some .proto } := by decide
example : (fetch (fun x : Bytes => x) (fun _ => [1, 2, 3]) "0123456789abcdef0123456789abcdef".toList 1 [0]
    { scripts := [[.ok (some 70000000) exBody]] }).1 = { data := [], err := some .proto } := by decide

/-- the transition system reaches states with finished entries and delivered results -/
example (out : Key → Entry → Prop) (k : Key) (e : Entry) (h : out k e) :
    Reach out (apply (apply (apply CS.init (.lookup 0 k)) (.lookup 1 k)) (.fetchDone (k, 0) e)) :=
  .step _ _ (.step _ _ (.step _ _ .init trivial) trivial) h

example : (apply (apply (apply CS.init (.lookup 0 ['k'])) (.lookup 1 ['k'])) (.fetchDone (['k'], 0) ⟨[7], none⟩)).results
    = [(1, ['k'], ⟨[7], none⟩), (0, ['k'], ⟨[7], none⟩)] := by decide

/-- a segment inside a block, read with a buffer larger than what is left -/
example : segReadAt (fun l o => readAtEntry { data := [0, 1, 2, 3, 4, 5, 6, 7], err := none } o l)
    { blk := 0, offset := 2, length := 4 } 10 1 = ([3, 4, 5], some .eof) := by decide

end ArvVerif.C03
