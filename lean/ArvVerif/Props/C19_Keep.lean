/-
C19 property theorems, keepstore part: everything one keepstore process sends to other clusters on
its remote GET path, over its whole life (model: Model/C19_Keep.lean).
-/
import ArvVerif.Proofs.C19_Keep
namespace ArvVerif.C19

/-! ## the caller's token -/

/-- `GetAPIToken`: `OAuth2 <t>` and `Bearer <t>` (one or more white-space characters after the
scheme word) give `t` when `t` does not start with white space and has no line feed; a value that
does not start with one of the two scheme words followed by white space gives no token (401); only
the FIRST Authorization header value is read. -/
theorem C19_keepstore_get_token (t : Str) (c : Char) (ws : Str) (more : List Str)
    (hc : isReSpace c = true) (hws : ∀ x ∈ ws, isReSpace x = true)
    (ht0 : ∀ x r, t = x :: r → isReSpace x = false) (hnl : '\n' ∉ t) :
    getAPIToken ((sOAuth2 ++ c :: ws ++ t) :: more) = t ∧
    getAPIToken ((sBearerWord ++ c :: ws ++ t) :: more) = t ∧
    getAPIToken [] = [] ∧
    (∀ v, sOAuth2.isPrefixOf v = false → sBearerWord.isPrefixOf v = false → getAPIToken (v :: more) = []) ∧
    (∀ v, getAPIToken (v :: more) = getAPIToken [v]) := by
  have hdw : ((c :: ws ++ t).dropWhile isReSpace) = t := by
    have : ∀ (l : Str), (∀ x ∈ l, isReSpace x = true) → (l ++ t).dropWhile isReSpace = t := by
      intro l
      induction l with
      | nil =>
        intro _
        cases t with
        | nil => rfl
        | cons x r => simp [ht0 x r rfl]
      | cons y l ih =>
        intro h
        simp only [List.cons_append, List.dropWhile_cons, h y (List.mem_cons_self ..), if_true]
        exact ih (fun x hx => h x (List.mem_cons_of_mem _ hx))
    have h2 := this (c :: ws) (by
      intro x hx
      simp only [List.mem_cons] at hx
      rcases hx with rfl | hx
      · exact hc
      · exact hws x hx)
    simpa using h2
  have htw : t.takeWhile (fun x => x != '\n') = t := by
    have : ∀ (l : Str), '\n' ∉ l → l.takeWhile (fun x => x != '\n') = l := by
      intro l
      induction l with
      | nil => intro _; rfl
      | cons y l ih =>
        intro h
        have hy : y ≠ '\n' := fun e => h (e ▸ List.mem_cons_self ..)
        simp only [List.takeWhile_cons, bne_iff_ne, ne_eq, hy, not_false_eq_true, if_true]
        rw [ih (fun hm => h (List.mem_cons_of_mem _ hm))]
    exact this t hnl
  refine ⟨?_, ?_, rfl, ?_, fun v => rfl⟩
  · have : keepAuthToken (sOAuth2 ++ c :: ws ++ t) = some t := by
      unfold keepAuthToken
      have h1 : sOAuth2.isPrefixOf (sOAuth2 ++ c :: ws ++ t) = true := by simp [sOAuth2]
      have h2 : (sOAuth2 ++ c :: ws ++ t).drop 6 = c :: (ws ++ t) := by simp [sOAuth2]
      simp only [h1, Bool.true_or, if_true, h2, hc]
      have := hdw
      simp only [List.cons_append] at this
      rw [this, htw]
    simp only [getAPIToken, this]
  · have : keepAuthToken (sBearerWord ++ c :: ws ++ t) = some t := by
      unfold keepAuthToken
      have h1 : sBearerWord.isPrefixOf (sBearerWord ++ c :: ws ++ t) = true := by simp [sBearerWord]
      have h2 : (sBearerWord ++ c :: ws ++ t).drop 6 = c :: (ws ++ t) := by simp [sBearerWord]
      simp only [h1, Bool.or_true, if_true, h2, hc]
      have := hdw
      simp only [List.cons_append] at this
      rw [this, htw]
    simp only [getAPIToken, this]
  · intro v h1 h2
    simp [getAPIToken, keepAuthToken, h1, h2]

/-! ## what a keepstore process sends to other clusters -/

/-- **Every request of every history.** A keepstore process with configured remotes `cfg` and any
client cache `cached` serves any sequence of remote GET requests (any Authorization header values,
any locators). For the request `q` of the sequence and everything `st` it causes to be sent:

* a request to a remote cluster's API endpoint (the two requests that build that remote's keep
  client) carries `Authorization: OAuth2 xxx` — a constant, no function of any caller's
  credentials, of this or of an earlier request — and goes to a configured remote that the locator
  of THIS request names in a `+R` hint and that was not in the cache the process started with;
* a block request carries `OAuth2 <t>` where `t = SaltToken(tok, r)` for the token `tok` of THIS
  request's first Authorization value and a configured remote `r` named by a `+R` hint of THIS
  request's locator (no memory of earlier requests); with a 20-byte MAC `t` never needs salting;
  it goes to a keep service of `r` — or to `keep.<x>.arvadosapi.com` for a `+K@<x>` hint that the
  caller's locator carries (see F19d below). -/
theorem C19_keepstore_process (mac : Str → Str → List UInt8) (cfg : List Str) :
    ∀ (reqs : List KeepReq) (cached : List Str) (q : KeepReq) (st : KeepStep),
    (q, st) ∈ reqs.zip (keepProc mac cfg cached reqs) →
    (∀ r a, (KeepEvent.discovery r a ∈ st.events ∨ KeepEvent.services r a ∈ st.events) →
      a = "OAuth2 xxx".toList ∧ r ∈ cfg ∧ r ∉ cached ∧
      ∃ p ∈ q.hash :: q.hints, isRemoteHint p = true ∧ hintRemote p = r) ∧
    (∀ d loc a, KeepEvent.block d loc a ∈ st.events →
      ∃ r t, r ∈ cfg ∧ (∃ p ∈ q.hash :: q.hints, isRemoteHint p = true ∧ hintRemote p = r) ∧
        saltToken mac (getAPIToken q.auths) r = .ok t ∧ a = sOAuth2sp ++ t ∧
        ((∀ k m, (mac k m).length = 20) → ¬ MustSalt t) ∧
        (d = .svc r ∨ ∃ x, d = .ext x ∧ (sKAt ++ x) ∈ q.hash :: q.hints ∧ x.length = 5)) := by
  intro reqs
  induction reqs with
  | nil => intro cached q st h; simp [keepProc] at h
  | cons q0 reqs ih =>
    intro cached q st h
    simp only [keepProc, List.zip_cons_cons, List.mem_cons] at h
    rcases h with h | h
    · simp only [Prod.mk.injEq] at h
      obtain ⟨rfl, rfl⟩ := h
      obtain ⟨_, hev⟩ := keepProxyGet_spec mac cfg cached q.auths q.hash q.hints
      refine ⟨?_, ?_⟩
      · intro r a hmem
        rcases hmem with hmem | hmem
        · obtain ⟨h1, h2, h3, h4⟩ := hev _ hmem
          exact ⟨h3, h1, h2, h4⟩
        · obtain ⟨h1, h2, h3, h4⟩ := hev _ hmem
          exact ⟨h3, h1, h2, h4⟩
      · intro d loc a hmem
        obtain ⟨r, t, ⟨g1, g2, g3⟩, ha, hd⟩ := hev _ hmem
        exact ⟨r, t, g1, g2, g3, ha, fun hmac => not_mustSalt_of_saltToken_ok mac hmac _ r t g3, hd⟩
    · obtain ⟨hsub, _⟩ := keepProxyGet_spec mac cfg cached q0.auths q0.hash q0.hints
      obtain ⟨i1, i2⟩ := ih _ q st h
      refine ⟨?_, i2⟩
      intro r a hmem
      obtain ⟨h1, h2, h3, h4⟩ := i1 r a hmem
      exact ⟨h1, h2, fun hx => h3 (hsub r hx), h4⟩

/-- Once a remote has a keep client it keeps it: the client cache only grows, and a remote whose
`+R` hint was processed (configured remote) is in the cache afterwards — so the two client-building
requests happen on the first use of a remote only (previous theorem: never for a cached remote). -/
theorem C19_keepstore_cache_grows (mac : Str → Str → List UInt8) (cfg cached : List Str) (q : KeepReq) :
    ∀ x ∈ cached, x ∈ (keepProxyGet mac cfg cached q.auths q.hash q.hints).1 :=
  (keepProxyGet_spec mac cfg cached q.auths q.hash q.hints).1

/-! ## F19d: a `+K@<cluster>` hint sends the token salted for R to another cluster

Full statement: every block request carries the caller's token salted for the cluster it goes to. -/

def C19_keepstore_dest_Full : Prop :=
  ∀ (mac : Str → Str → List UInt8) (cfg cached : List Str) (q : KeepReq) (d : KeepDest) (loc a : Str),
    KeepEvent.block d loc a ∈ (keepProxyGet mac cfg cached q.auths q.hash q.hints).2.events →
    ∃ t, saltToken mac (getAPIToken q.auths) (destCluster d) = .ok t ∧ a = sOAuth2sp ++ t

/-- a MAC whose value depends on the message (the remote id) -/
def macW : Str → Str → List UInt8 := fun _ m => List.replicate 20 (UInt8.ofNat (m.headD 'a').toNat)

def witnessF19d : KeepReq :=
  { auths := ["Bearer v2/u/secret".toList], hash := "acbd18db4cc2f85cedef654fccc4a4d8".toList,
    hints := ["3".toList, "Rzzzzz-sig@5f000000".toList, "K@yyyyy".toList] }

/-- The witness: remote `zzzzz` configured, locator `<hash>+3+Rzzzzz-<sig>+K@yyyyy`. The request to
`keep.yyyyy.arvadosapi.com` carries the token salted for `zzzzz`, which cluster `yyyyy` can replay
at `zzzzz`. -/
theorem C19_keepstore_dest_full_fails : ¬ C19_keepstore_dest_Full := by
  intro h
  have hmem : KeepEvent.block (.ext "yyyyy".toList)
      "acbd18db4cc2f85cedef654fccc4a4d8+3+Asig@5f000000+K@yyyyy".toList
      (sOAuth2sp ++ saltedForm macW "u".toList "secret".toList "zzzzz".toList) ∈
      (keepProxyGet macW ["zzzzz".toList] [] witnessF19d.auths witnessF19d.hash witnessF19d.hints).2.events := by
    decide
  obtain ⟨t, h1, h2⟩ := h macW ["zzzzz".toList] [] witnessF19d _ _ _ hmem
  have h3 : saltToken macW (getAPIToken witnessF19d.auths) "yyyyy".toList =
      .ok (saltedForm macW "u".toList "secret".toList "yyyyy".toList) := by rfl
  simp only [destCluster] at h1
  rw [h3] at h1
  cases h1
  revert h2
  decide

/-- What holds: a block request goes to a keep service of the remote `r` the token was salted for,
unless the caller's locator carries a `+K@<x>` hint — then also to `keep.<x>.arvadosapi.com`. In
particular: no 7-character `+K@` part in the locator ⇒ every block request carries the caller's
token salted for the cluster it goes to. -/
theorem C19_keepstore_dest_partial (mac : Str → Str → List UInt8) (cfg cached : List Str) (q : KeepReq)
    (hk : ∀ p ∈ q.hash :: q.hints, isProxyHint p = false) (d : KeepDest) (loc a : Str)
    (hmem : KeepEvent.block d loc a ∈ (keepProxyGet mac cfg cached q.auths q.hash q.hints).2.events) :
    ∃ t, saltToken mac (getAPIToken q.auths) (destCluster d) = .ok t ∧ a = sOAuth2sp ++ t ∧
      ∃ r, d = .svc r ∧ r ∈ cfg := by
  obtain ⟨r, t, ⟨g1, _, g3⟩, ha, hd⟩ := (keepProxyGet_spec mac cfg cached q.auths q.hash q.hints).2 _ hmem
  rcases hd with rfl | ⟨x, rfl, hx, hlen⟩
  · exact ⟨t, g3, ha, r, rfl, g1⟩
  · exfalso
    have := hk _ hx
    simp [isProxyHint, sKAt, hlen] at this

/-! ## Non-vacuity -/

-- C19_keepstore_get_token: separators and a token as the theorem wants them
example : isReSpace ' ' = true ∧ (∀ x ∈ ['\t', ' '], isReSpace x = true) ∧ '\n' ∉ "v2/u/s".toList := by decide
example : ∀ x r, "v2/u/s".toList = x :: r → isReSpace x = false := by
  intro x r h
  simp only [String.toList] at h
  obtain ⟨rfl, _⟩ := h
  decide
example : getAPIToken ["Bearer \t v2/u/s".toList, "Bearer other".toList] = "v2/u/s".toList := by decide
example : getAPIToken ["bearer v2/u/s".toList] = [] := by decide

-- C19_keepstore_process: a fresh process, two requests for the same remote by two users: the
-- client is built on the first request only, each block request carries its own caller's token
example : keepProc macW ["zzzzz".toList] []
    [⟨["OAuth2 v2/a/s".toList], "h".toList, ["Rzzzzz-sig".toList]⟩,
     ⟨["OAuth2 v2/b/s".toList], "h".toList, ["Rzzzzz-sig".toList]⟩] =
    [⟨404, [.discovery "zzzzz".toList "OAuth2 xxx".toList, .services "zzzzz".toList "OAuth2 xxx".toList,
            .block (.svc "zzzzz".toList) "h+Asig".toList
              (sOAuth2sp ++ saltedForm macW "a".toList "s".toList "zzzzz".toList)]⟩,
     ⟨404, [.block (.svc "zzzzz".toList) "h+Asig".toList
              (sOAuth2sp ++ saltedForm macW "b".toList "s".toList "zzzzz".toList)]⟩] := by decide

-- C19_keepstore_dest_partial: the hypothesis holds for an ordinary signed remote locator
example : ∀ p ∈ ["acbd18db4cc2f85cedef654fccc4a4d8".toList, "3".toList, "Rzzzzz-sig@5f000000".toList],
    isProxyHint p = false := by decide

end ArvVerif.C19
