/-
C05, the sweep around balanceBlock (Model/C05_Run.lean): from what the keepstores and the API server
answer to the inputs of `plan`, and from the result of `plan` to what is sent.

* `C05_index_mtime_faithful` — the index parser's rescaling of timestamps is exact for nanosecond
  timestamps and for timestamps in seconds.
* `C05_sweep_trash_backed` — hand-off to keepstore: every trash request computed in a sweep names a
  writable mount of a writable service and carries, as `block_mtime`, exactly the (rescaled) timestamp
  of an index entry for that block served for that mount's device, and that timestamp is older than
  MinMtime — for every arrival order of index entries and collections.
* `C05_sweep_desired` — the desired replication balanceBlock works with is the maximum over the
  collections referencing the block *as fetched*; `C05_sweep_desired_full`: as stored (the attribute
  `storage_classes_desired` is selected since the fix: commit for finding F05b); `C05_sweep_desired_Old_Full`
  / `_old_full_fails` / `_old_partial` / `C05_sweep_trash_safe_old_fails_F05b`: regression statements about
  the select list before the fix.
* `C05_sweep_trash_safe` — the central clause composed with the gathering layer.
* `C05_sweep_sent` — nothing is sent unless the commit option is set and CheckSanityLate passed.
-/
import ArvVerif.Props.C05
import ArvVerif.Proofs.C05Run
namespace ArvVerif.C05

/-! ## index timestamps -/

/-- `KeepService.index` keeps a nanosecond timestamp (≥ 1e12) as it is and converts a timestamp in
seconds (anything before the year 2262) exactly, so the age test `t < MinMtime` that balanceBlock
makes on the rescaled value is the age test on the replica's real timestamp. -/
theorem C05_index_mtime_faithful (v minMtime : Int) :
    (1000000000000 ≤ v → normMtime v = v) ∧
    (0 ≤ v → v ≤ 9223372036 → normMtime v = v * 1000000000 ∧
      (normMtime v < minMtime ↔ v * 1000000000 < minMtime)) := by
  refine ⟨normMtime_ns, fun h0 h1 => ?_⟩
  have := normMtime_seconds (v := v) (by omega) h1
  exact ⟨this, by rw [this]⟩

example : normMtime 1600000000 = 1600000000000000000 ∧ normMtime 1600000000000000000 = 1600000000000000000 ∧
    normMtime 999999999999 = wrap64 999999999999000000000 := by decide

/-! ## hand-off: a trash request names exactly the observed timestamp of the replica it is about -/

/-- One sweep, any block `b`, any arrival order `ops` of the index entries (applied to every mount of
the cleaned-up layout through the mount `rep` chose for its device) and of the collections: every
trash request `plan` computes for the gathered block
* is older than MinMtime,
* names a mount that is writable on a service that is writable (as reported), and
* carries as timestamp the rescaled timestamp of an index entry for `b` in the index that was
  applied to that very mount — the request is `{bare hash, that timestamp, that mount's UUID}`. -/
theorem C05_sweep_trash_backed (dflt : Class) (sel : Bool) (defRepl : Nat) (idx : Nat → List IdxEntry)
    (rep : Nat → Nat) (svcs : List RawService) (colls : List Coll) (b : Nat) (ops : List BlockOp)
    (hperm : ops.Perm (blockOps sel defRepl idx rep (effMounts dflt (cleanupMounts svcs)) colls b))
    (rank : Nat → Nat) (devLess : Dev → Dev → Bool) (minMtime : Int) (sorter : Class → List Slot → List Slot)
    (hok : PlanPerm (envOf rank devLess minMtime (gather dflt ops)) dflt sorter svcs (gather dflt ops).replicas)
    (s : Slot) (t : Int)
    (ht : (s, t) ∈ (plan (envOf rank devLess minMtime (gather dflt ops)) dflt sorter svcs
            (gather dflt ops).replicas).trashes)
    (blkid hash size : List Char) (hb : blkid = hash ++ '+' :: size) (hl : hash.length = 32)
    (uuidOf : Nat → List Char) :
    t < minMtime ∧
    (∃ sv ∈ svcs, ∃ rm ∈ sv.mounts, rm.id = s.mnt.id ∧ sv.id = s.mnt.srv ∧ rm.ro = false ∧ sv.ro = false) ∧
    (∃ e ∈ idx (rep s.mnt.id), e.blk = b ∧ t = normMtime e.raw) ∧
    trashReq blkid uuidOf s t = ⟨hash, t, uuidOf s.mnt.id⟩ := by
  have hp : (s, Change.trash t) ∈ (plan (envOf rank devLess minMtime (gather dflt ops)) dflt sorter svcs
      (gather dflt ops).replicas).changes := mem_trashes.1 ht
  have h1 := C05_no_trash_newer_than_ttl (envOf rank devLess minMtime (gather dflt ops)) _ sorter _
    (gather dflt ops).replicas (s, Change.trash t) t hp rfl
  have h2 := C05_no_trash_on_readonly (envOf rank devLess minMtime (gather dflt ops)) sorter
    (gather dflt ops).replicas dflt svcs hok (s, Change.trash t) t hp rfl
  have h3 := (C05_json_shape (envOf rank devLess minMtime (gather dflt ops)) _ sorter _
    (gather dflt ops).replicas hok blkid hash size hb hl uuidOf uuidOf).1 s t ht
  obtain ⟨hloc, _, hrep, _, _, _⟩ := h3
  obtain ⟨r, hr, hrm, hrt⟩ := replicaOn_mem hrep
  obtain ⟨m, _, e, he, heb, hre⟩ := gathered_replica_backed hperm hr
  refine ⟨h1.2, h2, ⟨e, ?_, heb, ?_⟩, ?_⟩
  · have : m.id = s.mnt.id := by rw [← hrm, hre]
    rw [← this]; exact he
  · rw [← hrt, hre]
  · have hloc' : locatorOf blkid = hash := hloc
    simp only [trashReq, hloc']

/-- non-vacuity: two single-mount services, the second reporting seconds; block 0 is unreferenced
garbage with an old replica on each; a collection wants block 1. Both replicas of block 0 are
trashed with the rescaled timestamps. -/
example :
    let svcs : List RawService := [⟨0, false, [⟨0, 0, false, 1, []⟩]⟩, ⟨1, false, [⟨1, 0, false, 1, []⟩]⟩]
    let idx : Nat → List IdxEntry := fun id => if id = 0 then [⟨0, 1599999990000000000⟩] else [⟨0, 1599999980⟩]
    let ops := blockOps false 2 idx id (effMounts 0 (cleanupMounts svcs)) [⟨7, none, [], [1]⟩] 0
    let env := envOf (fun s => s) (fun a b => decide (a < b)) 1600000000000000000 (gather 0 ops)
    (plan env 0 (wSorter env) svcs (gather 0 ops).replicas).trashes.map (fun p => (p.1.mnt.id, p.2)) =
      [(0, 1599999990000000000), (1, 1599999980000000000)] := by decide

/-! ## desired replication -/

/-- The desired replication balanceBlock reads for class `c` after any arrival order is the largest
replication asked for by a collection that references the block and — as far as keep-balance was
told (`fetchedClasses`) — wants it in `c` (no class = `default`); replication_desired null counts as
the cluster default. -/
theorem C05_sweep_desired (dflt c : Class) (sel : Bool) (defRepl : Nat) (idx : Nat → List IdxEntry)
    (rep : Nat → Nat) (mounts : List Mount) (colls : List Coll) (b : Nat) (ops : List BlockOp)
    (hperm : ops.Perm (blockOps sel defRepl idx rep mounts colls b)) :
    (∀ coll ∈ colls, b ∈ coll.blocks → c ∈ collClasses dflt (fetchedClasses sel coll) →
      coll.repl.getD defRepl ≤ desiredOf (gather dflt ops) c) ∧
    (desiredOf (gather dflt ops) c = 0 ∨
      ∃ coll ∈ colls, b ∈ coll.blocks ∧ c ∈ collClasses dflt (fetchedClasses sel coll) ∧
        desiredOf (gather dflt ops) c = coll.repl.getD defRepl) := by
  obtain ⟨hge, hatt⟩ := desiredOf_gather_max dflt c ops
  constructor
  · intro coll hc hb hcl
    have hmem : collOp sel defRepl coll ∈ ops := by
      apply hperm.mem_iff.2
      unfold blockOps
      exact List.mem_append_right _ (mem_collOps.2 ⟨coll, hc, hb, rfl⟩)
    have := hge _ hmem
    rw [askOf_collOp, if_pos hcl] at this
    exact this
  · rcases hatt with h0 | ⟨op, hop, hval⟩
    · exact Or.inl h0
    · rcases askOf_blockOps (dflt := dflt) (c := c) (hperm.mem_iff.1 hop) with hz | ⟨coll, hc, hb, rfl⟩
      · left; rw [hval, hz]
      · rw [askOf_collOp] at hval
        by_cases hcl : c ∈ collClasses dflt (fetchedClasses sel coll)
        · rw [if_pos hcl] at hval
          exact Or.inr ⟨coll, hc, hb, hcl, hval⟩
        · rw [if_neg hcl] at hval
          exact Or.inl hval

/-- Full strength (the code after the fix: commit for F05b, `selClassesNow`): a collection that
references the block and asks for class `c` in `storage_classes_desired` (none = default) bounds the
desired replication of `c` from below, whatever the arrival order — so with `C05_sweep_desired` the
desired replication balanceBlock works with is exactly the maximum over the collections as stored. -/
theorem C05_sweep_desired_full (dflt c : Class) (defRepl : Nat) (idx : Nat → List IdxEntry) (rep : Nat → Nat)
    (mounts : List Mount) (colls : List Coll) (b : Nat) (ops : List BlockOp)
    (hperm : ops.Perm (blockOps selClassesNow defRepl idx rep mounts colls b)) :
    ∀ coll ∈ colls, b ∈ coll.blocks → c ∈ collClasses dflt coll.classes →
      coll.repl.getD defRepl ≤ desiredOf (gather dflt ops) c := by
  intro coll hc hb hin
  apply (C05_sweep_desired dflt c selClassesNow defRepl idx rep mounts colls b ops hperm).1 coll hc hb
  have : fetchedClasses selClassesNow coll = coll.classes := rfl
  rw [this]
  exact hin

/-- Regression (finding F05b): the same statement about the select list before the fix
(`selectedAttrsOld`, without `storage_classes_desired`). -/
def C05_sweep_desired_Old_Full : Prop :=
  ∀ (dflt c : Class) (defRepl : Nat) (idx : Nat → List IdxEntry) (rep : Nat → Nat) (mounts : List Mount)
    (colls : List Coll) (b : Nat) (ops : List BlockOp),
    ops.Perm (blockOps selClassesOld defRepl idx rep mounts colls b) →
    ∀ coll ∈ colls, b ∈ coll.blocks → c ∈ collClasses dflt coll.classes →
      coll.repl.getD defRepl ≤ desiredOf (gather dflt ops) c

/-- F05b: it did not hold. A collection asking for replication 2 in class 1 left the desired
replication of class 1 at 0 (and raised that of `default`). -/
theorem C05_sweep_desired_old_full_fails : ¬ C05_sweep_desired_Old_Full := by
  intro h
  have := h 0 1 2 (fun _ => []) id [] [⟨1, some 2, [1], [0]⟩] 0
    (blockOps selClassesOld 2 (fun _ => []) id [] [⟨1, some 2, [1], [0]⟩] 0) (List.Perm.refl _)
    ⟨1, some 2, [1], [0]⟩ (by simp) (by decide) (by decide)
  revert this
  decide

/-- …it held only when no collection named a class other than `default`. -/
theorem C05_sweep_desired_old_partial (dflt c : Class) (defRepl : Nat) (idx : Nat → List IdxEntry) (rep : Nat → Nat)
    (mounts : List Mount) (colls : List Coll) (b : Nat) (ops : List BlockOp)
    (hperm : ops.Perm (blockOps selClassesOld defRepl idx rep mounts colls b))
    (hcl : ∀ coll ∈ colls, collClasses dflt coll.classes = [dflt]) :
    ∀ coll ∈ colls, b ∈ coll.blocks → c ∈ collClasses dflt coll.classes →
      coll.repl.getD defRepl ≤ desiredOf (gather dflt ops) c := by
  intro coll hc hb hin
  apply (C05_sweep_desired dflt c selClassesOld defRepl idx rep mounts colls b ops hperm).1 coll hc hb
  rw [hcl coll hc] at hin
  have : fetchedClasses selClassesOld coll = [] := rfl
  rw [this]
  exact hin

/-- the same for any code that selects the attribute -/
theorem C05_sweep_desired_selected (dflt c : Class) (defRepl : Nat) (idx : Nat → List IdxEntry) (rep : Nat → Nat)
    (mounts : List Mount) (colls : List Coll) (b : Nat) (ops : List BlockOp)
    (hperm : ops.Perm (blockOps true defRepl idx rep mounts colls b)) :
    ∀ coll ∈ colls, b ∈ coll.blocks → c ∈ collClasses dflt coll.classes →
      coll.repl.getD defRepl ≤ desiredOf (gather dflt ops) c :=
  fun coll hc hb hin =>
    (C05_sweep_desired dflt c true defRepl idx rep mounts colls b ops hperm).1 coll hc hb hin

example : collClasses 0 ([] : List Class) = [0] ∧ collClasses 0 [0] = [0] ∧ selClassesNow = true ∧
    selClassesOld = false := by decide

/-! ## the central clause through the gathering layer -/

/-- For every block of a sweep and every arrival order: carrying out the computed trash requests
while no pull succeeds leaves every class with at least min(desired, previously existing)
replication over distinct physical devices — `desired` being what was gathered
(`C05_sweep_desired`: the maximum over the collections as fetched). -/
theorem C05_sweep_trash_safe (dflt : Class) (ops : List BlockOp) (rank : Nat → Nat) (devLess : Dev → Dev → Bool)
    (minMtime : Int) (sorter : Class → List Slot → List Slot) (svcs : List RawService)
    (hok : PlanPerm (envOf rank devLess minMtime (gather dflt ops)) dflt sorter svcs (gather dflt ops).replicas)
    (hid : RawDistinctIds svcs) (hcons : RawDeviceConsistent svcs)
    (c : Class) (hd : desiredOf (gather dflt ops) c ≠ 0) :
    min (desiredOf (gather dflt ops) c)
        (physRepl c (plan (envOf rank devLess minMtime (gather dflt ops)) dflt sorter svcs
          (gather dflt ops).replicas).heldBefore) ≤
      physRepl c (plan (envOf rank devLess minMtime (gather dflt ops)) dflt sorter svcs
        (gather dflt ops).replicas).heldAfter :=
  C05_trash_safe_plan (envOf rank devLess minMtime (gather dflt ops)) sorter (gather dflt ops).replicas
    dflt svcs hok hid hcons c hd

/-! F05b at the level of the trash lists (the first corpus witness; layout in Proofs/C05Run.lean): two
`archive` (class 1) mounts and two `default` (class 0) mounts, each on its own service, all holding
an old replica; one collection asks for replication 2 in `archive`. -/

/-- Regression: with the select list before the fix the sweep gathered desired 2 for `default` and 0
for `archive`, so both `archive` replicas were trashed: class 1 went from 2 to 0 although the
collection wants 2 there. -/
theorem C05_sweep_trash_safe_old_fails_F05b :
    PlanOK f05bEnv 0 (wSorter f05bEnv) f05bSvcs (gather 0 f05bOps).replicas ∧
    desiredOf (gather 0 f05bOps) 1 = 0 ∧ desiredOf (gather 0 f05bOps) 0 = 2 ∧
    physRepl 1 f05bResult.heldBefore = 2 ∧ physRepl 1 f05bResult.heldAfter = 0 := by
  refine ⟨?_, by decide, by decide, by decide, by decide⟩
  unfold PlanOK BalanceOK
  rw [show classesOf 0 (cleanupMounts f05bSvcs) = [0, 1] from by decide]
  simp only [RunOK]
  decide

/-- the same sweep with the fixed select list: desired 2 for `archive`, its two replicas stay (the
two `default` replicas go) -/
example :
    PlanOK f05bEnvNow 0 (wSorter f05bEnvNow) f05bSvcs (gather 0 f05bOpsNow).replicas ∧
    desiredOf (gather 0 f05bOpsNow) 1 = 2 ∧ desiredOf (gather 0 f05bOpsNow) 0 = 0 ∧
    physRepl 1 f05bResultNow.heldBefore = 2 ∧ physRepl 1 f05bResultNow.heldAfter = 2 ∧
    f05bResultNow.trashes.map (fun p => p.1.mnt.id) = [2, 3] := by
  refine ⟨?_, by decide, by decide, by decide, by decide, by decide⟩
  unfold PlanOK BalanceOK
  rw [show classesOf 0 (cleanupMounts f05bSvcs) = [0, 1] from by decide]
  simp only [RunOK]
  decide

/-! ## what is sent -/

/-- A change set leaves the process only if the commit option is set and CheckSanityLate passed —
at least one collection was scanned, some block has desired replication > 0 and the default
replication is ≥ 1 — and then it is the computed list. -/
theorem C05_sweep_sent {α : Type} (cfg : RunCfg) (ncoll : Nat) (states : List BlockSt) (commit : Bool)
    (computed l : List α) (h : sentList commit (sanityLate cfg ncoll states) computed = some l) :
    commit = true ∧ l = computed ∧ ncoll ≠ 0 ∧ (∃ bs ∈ states, ∃ p ∈ bs.desired, 0 < p.2) ∧ 1 ≤ cfg.defRepl := by
  unfold sentList at h
  by_cases hc : (commit && (sanityLate cfg ncoll states).isNone) = true
  · rw [if_pos hc] at h
    have hc' := Bool.and_eq_true_iff.1 hc
    have hnone : sanityLate cfg ncoll states = none := by
      cases hs : sanityLate cfg ncoll states with
      | none => rfl
      | some e => rw [hs] at hc'; cases hc'.2
    refine ⟨hc'.1, by cases h; rfl, ?_⟩
    unfold sanityLate at hnone
    by_cases h1 : ncoll = 0
    · simp [h1] at hnone
    · simp only [h1, if_false] at hnone
      by_cases h2 : (!(states.any fun bs => bs.desired.any fun p => decide (0 < p.2))) = true
      · simp [h2] at hnone
      · simp only [h2] at hnone
        by_cases h3 : cfg.defRepl < 1
        · simp [h3] at hnone
        · refine ⟨h1, ?_, by omega⟩
          have h2' : (states.any fun bs => bs.desired.any fun p => decide (0 < p.2)) = true := by
            cases hx : (states.any fun bs => bs.desired.any fun p => decide (0 < p.2)) with
            | true => rfl
            | false => rw [hx] at h2; exact absurd rfl h2
          obtain ⟨bs, hbs, hany⟩ := List.any_eq_true.1 h2'
          obtain ⟨p, hp, hpos⟩ := List.any_eq_true.1 hany
          exact ⟨bs, hbs, p, hp, by simpa using hpos⟩
  · rw [if_neg hc] at h; cases h

example : sentList true (sanityLate ⟨true, true, false, 2, 0, false⟩ 1 [⟨none, 1, [], [(0, 2)]⟩]) [1, 2] = some [1, 2] ∧
    sentList true (sanityLate ⟨true, true, false, 2, 0, false⟩ 0 [⟨none, 1, [], [(0, 2)]⟩]) [1, 2] = none ∧
    sentList false (sanityLate ⟨true, false, false, 2, 0, false⟩ 1 [⟨none, 1, [], [(0, 2)]⟩]) [1, 2] = none ∧
    clearCount ⟨true, true, false, 2, 0, false⟩ 3 = 3 ∧ clearCount ⟨true, true, true, 2, 0, false⟩ 3 = 0 := by decide

end ArvVerif.C05
