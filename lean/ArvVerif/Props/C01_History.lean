/-
C01 property theorems over histories: the clauses of the property hold at *every* step of *every*
sequence of GET/HEAD/PUT requests interleaved with arbitrary changes of the stored bytes (any mount,
any block path, any new content, any number of times, before or after successful reads).
-/
import ArvVerif.Model.C01_History
import ArvVerif.Props.C01
namespace ArvVerif.C01
set_option linter.unusedSectionVars false

section
variable {δ β : Type} [DecidableEq δ] [DecidableEq β]

/-- What the property text demands of a GET/HEAD answer `r` for `h` over mounts `vols`. -/
def ReadSound (hash : β → δ) (size : β → Nat) (vols : List (Vol δ β)) (h : δ) (r : GetResp β) (isHead : Bool) :
    Prop :=
  -- success only with an intact stored copy, the reported length being its length
  (r.status = 200 → ∃ b, (if isHead then r.body = none else r.body = some b) ∧
      r.contentLength = some (size b) ∧ Intact hash size h b ∧ ∃ v ∈ vols, v.files h = some b) ∧
  -- an intact copy anywhere is found, whatever sits on the other mounts
  ((∃ v ∈ vols, ∃ b, v.files h = some b ∧ Intact hash size h b) → r.status = 200) ∧
  -- otherwise an error status instead of data
  (r.status ≠ 200 → r.body = none ∧ r.contentLength = none ∧ (r.status = 404 ∨ r.status = 500))

/-- What the property text (plus the frame) demands of one step of a trace. -/
def StepSound (hash : β → δ) (size : β → Nat) (s : Step δ β) : Prop :=
  match s.ev, s.obs with
  | .get h, .get r => s.after = s.before ∧ ReadSound hash size s.before h r false
  | .head h, .head r => s.after = s.before ∧ ReadSound hash size s.before h r true
  | .put h body _, .put r =>
    Pointwise (Frame h body) s.before s.after ∧
    (r.status = 200 →
      hash body = h ∧ size body ≤ blockSize ∧
      (∃ v' ∈ s.after, v'.ro = false ∧ v'.files h = some body) ∧
      ∃ b', (handleGet hash size s.after h).status = 200 ∧ (handleGet hash size s.after h).body = some b' ∧
        hash b' = h ∧ (NoColl hash h body → b' = body)) ∧
    (r.status ≠ 200 → s.after = s.before)
  | .fault i h c, .fault => s.after = corruptAt s.before i h c
  | _, _ => False

theorem readSound_get (hash : β → δ) (size : β → Nat) (vols : List (Vol δ β)) (h : δ) :
    ReadSound hash size vols h (handleGet hash size vols h) false := by
  refine ⟨?_, ?_, ?_⟩
  · intro h200
    rcases C01_get_sound hash size vols h h200 with ⟨b, hb, hcl, hh, hs, hv⟩
    exact ⟨b, by simpa using hb, hcl, ⟨hh, hs⟩, hv⟩
  · rintro ⟨v, hv, b, hf, hint⟩
    rcases C01_get_skips_corrupt hash size vols h b ⟨v, hv, hf⟩ hint with ⟨_, h200, _⟩
    exact h200
  · intro hne
    unfold handleGet at hne ⊢
    cases hg : getBlock hash size vols h with
    | ok b => simp [hg] at hne
    | err e => cases e <;> simp [getErrStatus]

theorem readSound_head (hash : β → δ) (size : β → Nat) (vols : List (Vol δ β)) (h : δ) :
    ReadSound hash size vols h (handleHead hash size vols h) true := by
  have hg := readSound_get hash size vols h
  refine ⟨?_, ?_, ?_⟩
  · intro h200
    rcases hg.1 (by simpa [handleHead] using h200) with ⟨b, _, hcl, hint, hv⟩
    exact ⟨b, by simp [handleHead], by simpa [handleHead] using hcl, hint, hv⟩
  · intro hex
    simpa [handleHead] using hg.2.1 hex
  · intro hne
    have := hg.2.2 (by simpa [handleHead] using hne)
    exact ⟨by simp [handleHead], by simpa [handleHead] using this.2.1, by simpa [handleHead] using this.2.2⟩

/-- One event, from any state: the step is sound. -/
theorem stepEvent_sound (hash : β → δ) (size : β → Nat) (vols : List (Vol δ β)) (rr : Nat) (e : Event δ β) :
    StepSound hash size
      { before := vols, ev := e, obs := (stepEvent hash size vols rr e).1,
        after := (stepEvent hash size vols rr e).2.1 } := by
  cases e with
  | get h => exact ⟨rfl, readSound_get hash size vols h⟩
  | head h => exact ⟨rfl, readSound_head hash size vols h⟩
  | put h body cl =>
    refine ⟨C01_put_frame hash size vols rr h body cl, ?_, ?_⟩
    · intro h200
      have hack := C01_put_ack_hash hash size vols rr h body cl h200
      rcases C01_put_ack_then_get hash size vols rr h body cl h200 with ⟨b', hs, hb, _, hh, hnc⟩
      exact ⟨hack.1, hack.2, C01_put_stores_on_writable hash size vols rr h body cl h200, b', hs, hb, hh, hnc⟩
    · intro hne
      exact C01_put_error_no_change hash size vols rr h body cl hne
  | fault i h c => exact rfl

/-- **Every step of every history is sound**: whatever requests and whatever changes of the stored
bytes came before (successful reads of the same block included), a GET/HEAD succeeds only with an
intact copy stored *now*, finds an intact copy if one is stored *now*, and answers 404/500 without
data otherwise; an acknowledged PUT has the right digest, leaves its body on a writable mount and an
immediate GET serves an intact copy; a refused PUT changes nothing; a fault changes one block path. -/
theorem C01_history_sound (hash : β → δ) (size : β → Nat) :
    ∀ (evs : List (Event δ β)) (vols : List (Vol δ β)) (rr : Nat),
      ∀ s ∈ runHistory hash size evs vols rr, StepSound hash size s := by
  intro evs
  induction evs with
  | nil => intro vols rr s hs; simp [runHistory] at hs
  | cons e rest ih =>
    intro vols rr s hs
    simp only [runHistory, List.mem_cons] at hs
    rcases hs with hs | hs
    · subst hs; exact stepEvent_sound hash size vols rr e
    · exact ih _ _ s hs

/-- The steps of a trace are chained: each starts from the mounts the previous one left. -/
def Chained : List (Vol δ β) → List (Step δ β) → Prop
  | _, [] => True
  | vols, s :: rest => s.before = vols ∧ Chained s.after rest

theorem C01_history_chained (hash : β → δ) (size : β → Nat) :
    ∀ (evs : List (Event δ β)) (vols : List (Vol δ β)) (rr : Nat),
      Chained vols (runHistory hash size evs vols rr) ∧
      (runHistory hash size evs vols rr).map (·.ev) = evs := by
  intro evs
  induction evs with
  | nil => intro vols rr; simp [runHistory, Chained]
  | cons e rest ih =>
    intro vols rr
    have := ih (stepEvent hash size vols rr e).2.1 (stepEvent hash size vols rr e).2.2
    simp only [runHistory, Chained, List.map_cons, true_and]
    exact ⟨this.1, by rw [this.2]⟩

/-- A fault touches one block path of one mount: every other mount, and every other block path of
that mount, and the mount's flags are as before. -/
theorem C01_fault_frame (vols : List (Vol δ β)) (i : Nat) (h : δ) (c : β) (j : Nat) (v : Vol δ β)
    (hv : vols[j]? = some v) :
    ∃ v', (corruptAt vols i h c)[j]? = some v' ∧ v'.ro = v.ro ∧ v'.full = v.full ∧ v'.repl = v.repl ∧
      (∀ k, k ≠ h → v'.files k = v.files k) ∧
      (j ≠ i → v' = v) ∧ (j = i → v'.files h = some c) := by
  unfold corruptAt
  rw [List.getElem?_modify, hv]
  by_cases hij : i = j
  · subst hij
    refine ⟨{ v with files := update v.files h c }, by simp, rfl, rfl, rfl, ?_,
      fun hne => absurd rfl hne, fun _ => by simp [update]⟩
    intro k hk; simp [update, hk]
  · refine ⟨v, by simp [hij], rfl, rfl, rfl, fun _ _ => rfl, fun _ => rfl, fun hji => absurd hji.symm hij⟩

end

/-! ## Non-vacuity: a concrete history with a read, a silent same-size decay, a read, a repair -/
section Examples

/-- one writable mount holding [1,2,3] under 6 (toy hash: the sum) -/
def hxVol : Vol Nat (List Nat) := ⟨false, false, 1, fun k => if k = 6 then some [1, 2, 3] else none⟩

def hxHistory : List (Event Nat (List Nat)) :=
  [.get 6, .head 6, .fault 0 6 [1, 2, 4], .get 6, .head 6, .put 6 [1, 2, 3] true, .get 6]

def hxStatuses : List (Step Nat (List Nat)) → List Nat
  | [] => []
  | s :: rest =>
    (match s.obs with
      | .get r => r.status
      | .head r => r.status
      | .put r => r.status
      | .fault => 0) :: hxStatuses rest

-- read twice (200), the copy decays to another three-element list, both reads now answer 500,
-- the PUT repairs it (the corrupt copy is replaced), the read is served again
example : hxStatuses (runHistory exHash List.length hxHistory [hxVol] 0) = [200, 200, 0, 500, 500, 200, 200] := by
  decide
-- the hypotheses of the "intact copy is found" clause are satisfiable after a fault on another mount
example : ∃ v ∈ corruptAt [hxVol, hxVol] 0 6 [9], ∃ b, v.files 6 = some b ∧ Intact exHash List.length 6 b :=
  ⟨hxVol, by simp [corruptAt], [1, 2, 3], by decide, by decide, by decide⟩

end Examples

end ArvVerif.C01
