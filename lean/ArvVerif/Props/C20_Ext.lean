/-
C20, extension round: property theorems about (1) the literal Go loop with its `batch` variable,
(2) the total number of backend calls of a request, (3) context cancellation after the first error.
-/
import ArvVerif.Proofs.C20_Ext
namespace ArvVerif.C20

/-- The loop exactly as written in Go — separate `batch` slice, rebuilt only `if len(batch) >
len(todo)` — sends `todo` as the batch at every call: it is the model's `clusterLoop`, for every
backend, fuel and todo. (So a delivered uuid is never asked for again.) -/
theorem C20_go_loop_is_model_loop (B : Backend) (ropts : Opts) (fuel : Nat) (todo : List Uuid) (idx : Nat) :
    clusterLoopGo B ropts fuel todo todo idx = clusterLoop B ropts fuel todo idx :=
  loopGo_eq B ropts fuel todo idx

/-- **Total call bound.** A split request makes, over all clusters and for arbitrary backends, at most
as many backend calls as it requests well-formed uuids, hence at most `MaxItemsPerResponse`. -/
theorem C20_total_calls (cfg : Cfg) (o : Opts) (gs : List (ClusterId × List Uuid))
    (hplan : plan cfg.localId cfg.maxItems o = .split gs) :
    totalCalls (run cfg o) ≤ (gs.map (fun g => g.2.length)).sum ∧
    (((gs.map (fun g => g.2.length)).sum : Nat) : Int) ≤ cfg.maxItems := by
  obtain ⟨m, -, hgs, -, -, -, -, -, -, hmax, -, -⟩ := plan_split _ _ _ _ hplan
  constructor
  · have hlog : (run cfg o).log = gs.map (fun g => (g.1, (runCluster cfg o g.1 g.2).log)) := by
      rw [run_of_split cfg o _ hplan]
      split <;> simp [splitResults, List.map_map, Function.comp_def]
    unfold totalCalls
    rw [hlog, List.map_map]
    exact sum_le_sum gs _ _ (fun g _ => (runCluster_not_starved cfg o g.1 g.2).2)
  · rw [hgs, groups_sum]; exact hmax

/-! ### context cancellation -/

/-- A cancellation schedule is possible only if it has a cause: when some cluster is reached by the
cancellation while still running, some other cluster failed by itself (`cancel()` is called only on
receipt of an error, list.go:281-286). -/
def ValidCut (cfg : Cfg) (o : Opts) (gs : List (ClusterId × List Uuid)) (cut : ClusterId → Option Nat) : Prop :=
  (∃ g ∈ gs, affected cfg o cut g = true) →
    ∃ g ∈ gs, affected cfg o cut g = false ∧ (runCluster cfg o g.1 g.2).stop ≠ .done

theorem cut_results (cfg : Cfg) (o : Opts) (gs : List (ClusterId × List Uuid)) (cut : ClusterId → Option Nat)
    (h : ∀ g ∈ gs, affected cfg o cut g = false) :
    gs.map (fun g => (g.1, runClusterCut cfg o g.1 g.2 (cut g.1))) = splitResults cfg o gs := by
  unfold splitResults
  apply List.map_congr_left
  intro g hg
  rw [runClusterCut_unaffected cfg o cut g (h g hg)]

/-- **Cancellation never turns a failure into a partial success and never changes which errors can
be returned.** For a split request, arbitrary backends and any cancellation schedule `cut`:
* if no cluster is reached by the cancellation, nothing changes (`runCancel = run`);
* a success under the schedule is the success of the undisturbed request (same items);
* if some cluster is reached by the cancellation the outcome is an error, never a list;
* under a schedule that has a cause (`ValidCut`), the possible returned errors are a non-empty list
  of 404/502, each the genuine failure of a cluster not reached by the cancellation, and each also
  a possible error of the undisturbed request. -/
theorem C20_cancel (cfg : Cfg) (o : Opts) (gs : List (ClusterId × List Uuid)) (cut : ClusterId → Option Nat)
    (hplan : plan cfg.localId cfg.maxItems o = .split gs) :
    ((∀ g ∈ gs, affected cfg o cut g = false) → runCancel cfg o cut false = run cfg o) ∧
    (∀ items, (runCancel cfg o cut false).out = .ok items → (run cfg o).out = .ok items) ∧
    ((∃ g ∈ gs, affected cfg o cut g = true) → ∃ ss, (runCancel cfg o cut false).out = .err ss) ∧
    (ValidCut cfg o gs cut → ∀ ss, (runCancel cfg o cut false).out = .err ss →
      ss ≠ [] ∧ ∀ s ∈ ss, (s = 404 ∨ s = 502) ∧
        (∃ g ∈ gs, affected cfg o cut g = false ∧ (runCluster cfg o g.1 g.2).stop = .failed s) ∧
        ∃ ss', (run cfg o).out = .err ss' ∧ s ∈ ss') := by
  have hunf : runCancel cfg o cut false =
      (if (gs.map (fun g => (g.1, runClusterCut cfg o g.1 g.2 (cut g.1)))).filterMap (fun r => r.2.stop.status?) = [] then
        ⟨.ok (mergePages ((gs.map (fun g => (g.1, runClusterCut cfg o g.1 g.2 (cut g.1)))).flatMap (fun r => r.2.pages))),
          (gs.map (fun g => (g.1, runClusterCut cfg o g.1 g.2 (cut g.1)))).map (fun r => (r.1, r.2.log))⟩
      else
        ⟨.err ((gs.filter (fun g => !affected cfg o cut g)).filterMap
          (fun g => (runCluster cfg o g.1 g.2).stop.status?)),
          (gs.map (fun g => (g.1, runClusterCut cfg o g.1 g.2 (cut g.1)))).map (fun r => (r.1, r.2.log))⟩) := by
    unfold runCancel; rw [hplan]; simp
  -- an affected cluster makes the error list of the cut results non-empty
  have haff : (∃ g ∈ gs, affected cfg o cut g = true) →
      (gs.map (fun g => (g.1, runClusterCut cfg o g.1 g.2 (cut g.1)))).filterMap (fun r => r.2.stop.status?) ≠ [] := by
    rintro ⟨g, hg, ha⟩ hnil
    have := (errs_nil_iff _).mp hnil (g.1, runClusterCut cfg o g.1 g.2 (cut g.1)) (List.mem_map.mpr ⟨g, hg, rfl⟩)
    rw [runClusterCut_affected cfg o cut g ha] at this
    cases this
  have hnone : (∀ g ∈ gs, affected cfg o cut g = false) → runCancel cfg o cut false = run cfg o := by
    intro h
    have hflt : gs.filter (fun g => !affected cfg o cut g) = gs := by
      apply List.filter_eq_self.mpr; intro g hg; simp [h g hg]
    rw [hunf, cut_results cfg o gs cut h, hflt, run_of_split cfg o _ hplan]
    have : gs.filterMap (fun g => (runCluster cfg o g.1 g.2).stop.status?) =
        (splitResults cfg o gs).filterMap (fun r => r.2.stop.status?) := by
      simp [splitResults, List.filterMap_map, Function.comp_def]
    rw [this]
  refine ⟨hnone, ?_, ?_, ?_⟩
  · intro items hok
    by_cases hall : ∀ g ∈ gs, affected cfg o cut g = false
    · rw [hnone hall] at hok; exact hok
    · exfalso
      have : ∃ g ∈ gs, affected cfg o cut g = true := by
        apply Classical.byContradiction
        intro hcon
        apply hall
        intro g hg
        cases ha : affected cfg o cut g with
        | false => rfl
        | true => exact absurd ⟨g, hg, ha⟩ hcon
      rw [hunf, if_neg (haff this)] at hok
      cases hok
  · intro h
    rw [hunf, if_neg (haff h)]
    exact ⟨_, rfl⟩
  · intro hvalid ss herr
    rw [hunf] at herr
    split at herr
    · cases herr
    · rename_i hne
      cases herr
      -- a root exists: either some cluster is affected (ValidCut gives a root) or none is (then some uncut cluster fails)
      have hroot : ∃ g ∈ gs, affected cfg o cut g = false ∧ (runCluster cfg o g.1 g.2).stop ≠ .done := by
        by_cases hex : ∃ g ∈ gs, affected cfg o cut g = true
        · exact hvalid hex
        · have hall : ∀ g ∈ gs, affected cfg o cut g = false := by
            intro g hg
            cases ha : affected cfg o cut g with
            | false => rfl
            | true => exact absurd ⟨g, hg, ha⟩ hex
          rw [cut_results cfg o gs cut hall] at hne
          apply Classical.byContradiction
          intro hcon
          apply hne
          apply (errs_nil_iff _).mpr
          intro r hr
          obtain ⟨g, hg, rfl⟩ := List.mem_map.mp hr
          apply Classical.byContradiction
          intro hnd
          exact hcon ⟨g, hg, hall g hg, hnd⟩
      have hgen : ∀ s, s ∈ (gs.filter (fun g => !affected cfg o cut g)).filterMap
            (fun g => (runCluster cfg o g.1 g.2).stop.status?) →
          ∃ g ∈ gs, affected cfg o cut g = false ∧ (runCluster cfg o g.1 g.2).stop = .failed s := by
        intro s hs
        obtain ⟨g, hgf, hst⟩ := List.mem_filterMap.mp hs
        obtain ⟨hg, hna⟩ := List.mem_filter.mp hgf
        refine ⟨g, hg, by simpa using hna, ?_⟩
        cases hstop : (runCluster cfg o g.1 g.2).stop with
        | done => rw [hstop] at hst; simp at hst
        | failed s' => rw [hstop] at hst; simp at hst; rw [hst]
        | starved => exact absurd hstop (runCluster_not_starved cfg o g.1 g.2).1
      constructor
      · obtain ⟨g, hg, hna, hnd⟩ := hroot
        intro hnil
        have hmem : g ∈ gs.filter (fun g => !affected cfg o cut g) := List.mem_filter.mpr ⟨hg, by simp [hna]⟩
        cases hstop : (runCluster cfg o g.1 g.2).stop with
        | done => exact hnd hstop
        | failed s =>
          have : s ∈ (gs.filter (fun g => !affected cfg o cut g)).filterMap
              (fun g => (runCluster cfg o g.1 g.2).stop.status?) :=
            List.mem_filterMap.mpr ⟨g, hmem, by simp [hstop]⟩
          rw [hnil] at this; cases this
        | starved => exact absurd hstop (runCluster_not_starved cfg o g.1 g.2).1
      · intro s hs
        obtain ⟨g, hg, hna, hst⟩ := hgen s hs
        refine ⟨runCluster_failed cfg o g.1 g.2 s hst, ⟨g, hg, hna, hst⟩, ?_⟩
        rw [run_of_split cfg o _ hplan]
        have hmem : s ∈ (splitResults cfg o gs).filterMap (fun r => r.2.stop.status?) :=
          List.mem_filterMap.mpr ⟨(g.1, runCluster cfg o g.1 g.2), List.mem_map.mpr ⟨g, hg, rfl⟩, by simp [hst]⟩
        split
        · rename_i hnil; rw [hnil] at hmem; cases hmem
        · exact ⟨_, rfl, hmem⟩

/-- **The caller's context ends mid-request** (client disconnect, request timeout): every cluster still
running when the cancellation reaches it fails, and so does the request — the outcome is an error
(502 for such a cluster, or the genuine 404/502 of a cluster that failed by itself), never the pages
merged so far. If the cancellation reaches no cluster, nothing changes. Arbitrary backends. -/
theorem C20_caller_cancel (cfg : Cfg) (o : Opts) (gs : List (ClusterId × List Uuid)) (cut : ClusterId → Option Nat)
    (hplan : plan cfg.localId cfg.maxItems o = .split gs) :
    ((∀ g ∈ gs, affected cfg o cut g = false) → runCancel cfg o cut true = run cfg o) ∧
    ((∃ g ∈ gs, affected cfg o cut g = true) →
      ∃ ss, (runCancel cfg o cut true).out = .err ss ∧ 502 ∈ ss ∧ ∀ s ∈ ss, s = 404 ∨ s = 502) := by
  have hunf : runCancel cfg o cut true =
      (if (gs.map (fun g => (g.1, runClusterCut cfg o g.1 g.2 (cut g.1)))).filterMap (fun r => r.2.stop.status?) = [] then
        ⟨.ok (mergePages ((gs.map (fun g => (g.1, runClusterCut cfg o g.1 g.2 (cut g.1)))).flatMap (fun r => r.2.pages))),
          (gs.map (fun g => (g.1, runClusterCut cfg o g.1 g.2 (cut g.1)))).map (fun r => (r.1, r.2.log))⟩
      else
        ⟨.err ((gs.filter (fun g => !affected cfg o cut g)).filterMap
            (fun g => (runCluster cfg o g.1 g.2).stop.status?) ++
          (gs.filter (fun g => affected cfg o cut g)).map (fun _ => 502)),
          (gs.map (fun g => (g.1, runClusterCut cfg o g.1 g.2 (cut g.1)))).map (fun r => (r.1, r.2.log))⟩) := by
    unfold runCancel; rw [hplan]; simp
  constructor
  · intro h
    have hflt : gs.filter (fun g => !affected cfg o cut g) = gs := by
      apply List.filter_eq_self.mpr; intro g hg; simp [h g hg]
    have hflt2 : gs.filter (fun g => affected cfg o cut g) = [] := by
      apply List.filter_eq_nil_iff.mpr; intro g hg; simp [h g hg]
    rw [hunf, cut_results cfg o gs cut h, hflt, hflt2, run_of_split cfg o _ hplan]
    have : gs.filterMap (fun g => (runCluster cfg o g.1 g.2).stop.status?) =
        (splitResults cfg o gs).filterMap (fun r => r.2.stop.status?) := by
      simp [splitResults, List.filterMap_map, Function.comp_def]
    rw [this]; simp
  · rintro ⟨g, hg, ha⟩
    have hne : (gs.map (fun g => (g.1, runClusterCut cfg o g.1 g.2 (cut g.1)))).filterMap
        (fun r => r.2.stop.status?) ≠ [] := by
      intro hnil
      have := (errs_nil_iff _).mp hnil (g.1, runClusterCut cfg o g.1 g.2 (cut g.1)) (List.mem_map.mpr ⟨g, hg, rfl⟩)
      rw [runClusterCut_affected cfg o cut g ha] at this
      cases this
    rw [hunf, if_neg hne]
    refine ⟨_, rfl, ?_, ?_⟩
    · apply List.mem_append.mpr; right
      exact List.mem_map.mpr ⟨g, List.mem_filter.mpr ⟨hg, ha⟩, rfl⟩
    · intro s hs
      rcases List.mem_append.mp hs with hs | hs
      · obtain ⟨g', hgf, hst⟩ := List.mem_filterMap.mp hs
        cases hstop : (runCluster cfg o g'.1 g'.2).stop with
        | done => rw [hstop] at hst; simp at hst
        | failed s' =>
          rw [hstop] at hst; simp at hst; subst hst
          exact runCluster_failed cfg o g'.1 g'.2 s' hstop
        | starved => exact absurd hstop (runCluster_not_starved cfg o g'.1 g'.2).1
      · obtain ⟨_, _, rfl⟩ := List.mem_map.mp hs
        exact Or.inr rfl

/-! ### conn.go UserList with a LoginCluster -/

/-- When is a user list request diverted to the login cluster. -/
theorem C20_userlist_detour_iff (localId login : ClusterId) (o : Opts) :
    userListDetour localId login o = false ↔ (login = [] ∨ login = localId ∨ o.bypass = true) := by
  unfold userListDetour
  cases hb : o.bypass <;> by_cases h1 : login = [] <;> by_cases h2 : login = localId <;> simp [h1, h2]

/-- **UserList without detour.** Without a LoginCluster, with the local cluster as LoginCluster, or
with bypass_federation, `Conn.UserList` is the generated federated list (`run`), and the user cache
is not touched. -/
theorem C20_userlist_plain (cfg : Cfg) (login : ClusterId) (fails : Bool) (o : Opts)
    (h : userListDetour cfg.localId login o = false) :
    (runUserList cfg login fails o).out = (run cfg o).out ∧
    (runUserList cfg login fails o).log = (run cfg o).log ∧
    (runUserList cfg login fails o).detour = none ∧ (runUserList cfg login fails o).update = none := by
  unfold runUserList
  simp [h]

/-- the uuids cached locally: those returned uuids that start with the LoginCluster id, once each -/
def cachedUuids (login : ClusterId) (items : List Obj) : List Uuid :=
  dedup ((pageUuids items).filter (hasPrefix login))

theorem cachedUuids_spec (login : ClusterId) (items : List Obj) :
    (cachedUuids login items).Nodup ∧
    ∀ u, u ∈ cachedUuids login items ↔ (u ∈ pageUuids items ∧ hasPrefix login u = true) := by
  refine ⟨nodup_dedup _, fun u => ?_⟩
  unfold cachedUuids
  rw [mem_dedup, List.mem_filter]

/-- **UserList with a LoginCluster.** Exactly one list call is made — to `chooseBackend(LoginCluster)`
with the options unchanged, no uuid splitting — and an error of that backend is passed on. -/
theorem C20_userlist_detour (cfg : Cfg) (login : ClusterId) (fails : Bool) (o : Opts)
    (h : userListDetour cfg.localId login o = true) :
    (runUserList cfg login fails o).log = [] ∧
    (runUserList cfg login fails o).detour = some (o, chooseBackend cfg login o 0) ∧
    (∀ s, chooseBackend cfg login o 0 = .error s →
      (runUserList cfg login fails o).out = .err [s] ∧ (runUserList cfg login fails o).update = none) := by
  unfold runUserList
  simp only [h, if_true]
  cases hr : chooseBackend cfg login o 0 with
  | error s =>
    refine ⟨rfl, rfl, ?_⟩
    intro s' hs; cases hs; exact ⟨rfl, rfl⟩
  | page items =>
    simp only
    refine ⟨?_, ?_, ?_⟩
    · split
      · rfl
      · split <;> rfl
    · split
      · rfl
      · split <;> rfl
    · intro s hs; cases hs

/-- … and a page is passed on as it is, after the returned uuids of the LoginCluster (`cachedUuids`)
have been handed to the local `UserBatchUpdate` (not called when there is none); if that update fails
the request fails without items. -/
theorem C20_userlist_detour_page (cfg : Cfg) (login : ClusterId) (fails : Bool) (o : Opts)
    (h : userListDetour cfg.localId login o = true) (items : List Obj)
    (hr : chooseBackend cfg login o 0 = .page items) :
    (cachedUuids login items = [] →
      (runUserList cfg login fails o).out = .ok items ∧ (runUserList cfg login fails o).update = none) ∧
    (cachedUuids login items ≠ [] →
      (runUserList cfg login fails o).update = some (cachedUuids login items, fails) ∧
      (fails = false → (runUserList cfg login fails o).out = .ok items) ∧
      (fails = true → (runUserList cfg login fails o).out = .err [0])) := by
  unfold runUserList cachedUuids
  simp only [h, if_true, hr]
  constructor
  · intro hu; simp [hu]
  · intro hu
    cases fails <;> simp [hu]

/-! Non-vacuity: a schedule with a cause, on a concrete instance (unknown cluster yyyyy fails with 404
at once; remote bbbbb, which would page twice, sees the cancelled context at its second call). -/

def cB1 : Uuid := "bbbbb-4zz18-000000000000001".toList
def cB2 : Uuid := "bbbbb-4zz18-000000000000002".toList
def cY1 : Uuid := "yyyyy-4zz18-000000000000001".toList

def cCfg : Cfg :=
  { localId := "aaaaa".toList, maxItems := 10, localB := fun _ _ => .page []
    remotes := fun c => if c = "bbbbb".toList then some (fun o _ =>
      match o.filters with
      | [f] => match f.operand with
        | .slist batch => .page ((([⟨cB1, 1⟩, ⟨cB2, 2⟩] : List Obj).filter (fun h => decide (h.uuid ∈ batch))).take 1)
        | _ => .page []
      | _ => .page []) else none }

def cOpts : Opts :=
  { filters := [⟨sUuid, sIn, .slist [cB1, cB2, cY1]⟩], count := sNone, limit := -1, offset := 0,
    order := [], select := none, bypass := false, fwd := [] }

def cCut : ClusterId → Option Nat := fun c => if c = "bbbbb".toList then some 1 else none

example : plan cCfg.localId cCfg.maxItems cOpts =
    .split [("bbbbb".toList, [cB1, cB2]), ("yyyyy".toList, [cY1])] := by decide
example : (run cCfg cOpts).out = .err [404] := by decide
-- bbbbb is reached by the cancellation while still running; yyyyy is the cause
example : affected cCfg cOpts cCut ("bbbbb".toList, [cB1, cB2]) = true ∧
    affected cCfg cOpts cCut ("yyyyy".toList, [cY1]) = false := by decide
-- the outcome is still the genuine 404, not bbbbb's late 502, and not a partial list
example : (runCancel cCfg cOpts cCut false).out = .err [404] := by decide

-- the caller's context ends while bbbbb (the only involved cluster, no failing one) is at its second call:
-- the request fails with 502 and does not return object 1, which had been merged already
example : runLogItems (run cCfg { cOpts with filters := [⟨sUuid, sIn, .slist [cB1, cB2]⟩] }) =
    [⟨cB1, 1⟩, ⟨cB2, 2⟩] ∧
    (runCancel cCfg { cOpts with filters := [⟨sUuid, sIn, .slist [cB1, cB2]⟩] } cCut true).out = .err [502] := by
  decide

end ArvVerif.C20
