/-
C09 — property theorems about reading a saved text back through `loadManifest` (`C10.fsLoad`).
-/
import ArvVerif.Proofs.C09_Marker
import ArvVerif.Proofs.C09_Reload
import ArvVerif.Props.C09
namespace ArvVerif.C09

open ArvVerif.C08 (Seg FileNode Store)
open ArvVerif.C10 (bSlash bSpace fsEscape joinWith)

variable {max : Nat} {hash : Bytes → C08.Loc}

/-- **The empty-directory marker through `loadManifest`.** For every directory path of proper names
(without 0x7f) and every tree built so far in which no ancestor-or-self of that directory is a file:
the line `<escaped name> d41d8cd98f00b204e9800998ecf8427e+0 0:0:\056` is accepted, the directory and all
its ancestors exist afterwards, no file is added or changed, and no other directory appears. -/
theorem C09_marker_line_loads (path : List Bytes) (hpath : PathOK path) (t : C10.FsTree)
    (hnofile : ∀ pre, pre ≠ [] → pre <+: path → t.files.any (·.1 = pre) = false) :
    ∃ t', C10.fsLine (joinWith bSpace [fsEscape (prefixOf path), emptyLoc, markerTok]) t = some t' ∧
      t'.files = t.files ∧
      (∀ d ∈ t'.dirs, d ∈ t.dirs ∨ ∃ pre, pre ≠ [] ∧ pre <+: path ∧ d = pre) ∧
      (∀ d ∈ t.dirs, d ∈ t'.dirs) ∧
      (∀ pre, pre ≠ [] → pre <+: path → pre ∈ t'.dirs) :=
  fsLine_marker path hpath t hnofile

/-- non-vacuity: the marker of `./d/e` on a tree holding the file `./a` -/
example : (C10.fsLine (joinWith bSpace [fsEscape (prefixOf [[100], [101]]), emptyLoc, markerTok]) ⟨[], [([[97]], [])]⟩).map
    (fun t' => (t'.dirs, t'.files)) = some ([[[100]], [[100], [101]]], [([[97]], [])]) := by decide +kernel

/-- **The whole saved text through `loadManifest`** (`_partial`: trees without empty directories
below the root, i.e. texts without marker lines — a marker line on its own is
`C09_marker_line_loads`, their mixture is checked differentially). After a successful save of a closed
tree in which no file has the path of a directory and whose saved sizes the loader can represent:
`loadManifest` accepts the text; the loaded tree has, for every file of the saved tree, a file with
exactly that key whose stored segments read exactly the file's bytes, has no other file, and every
directory it created is a directory of the tree. -/
theorem C09_marshal_fsLoad_partial (hh : HashOK hash) {k : Keep} {t : Tree9} (hok : SaveOK max hash k t) (hnd : NoDel t)
    (hclosed : TreeClosed t) (hclash : ∀ d ∈ t, ∀ f ∈ d.files, d.path ++ [f.1] ∉ dirPaths t)
    (hnoempty : ∀ d ∈ t, d.isEmpty = true → d.path = [])
    {txt : Bytes} (h : (marshal9 hash max k t).2.2 = MRes.ok txt)
    (hfit : ∀ L, parse9 txt = some L → ∀ s ∈ streamsOf L, C10.FitsFs s) :
    ∃ tr, C10.fsLoad txt = some tr ∧
      (∀ d ∈ (marshal9 hash max k t).2.1, ∀ f ∈ d.files, ∃ e ∈ tr.files, e.1 = d.path ++ [f.1] ∧
        C10.segBytes (blkOf (marshal9 hash max k t).1.store) e.2 = C08.abs (marshal9 hash max k t).1.store f.2) ∧
      (∀ e ∈ tr.files, ∃ d ∈ (marshal9 hash max k t).2.1, ∃ f ∈ d.files, e.1 = d.path ++ [f.1]) ∧
      (∀ p ∈ tr.dirs, p ∈ dirPaths t) := by
  obtain ⟨r1, r2, r3, _, _, r6⟩ := marshal9_run (max := max) hh hok
  obtain ⟨_, L, h1, h2⟩ := C09_marshal_valid hh hok hnd h
  obtain ⟨_, a2, _, a4⟩ := TreeKept.abs_eq r3 r2.ext hok.wf
  have hshape := TreeKept.shape r3
  -- no marker line
  have hm : markersOf L = [] := by
    rw [treeLines_markers _ L h1]
    have : ((marshal9 hash max k t).2.1.filter fun d => d.isEmpty && !d.path.isEmpty) = [] := by
      rw [List.filter_eq_nil_iff]
      intro d' hd'
      obtain ⟨d, hd, e1, e2, e3⟩ := hshape d' hd'
      have hie : d'.isEmpty = d.isEmpty := by
        unfold Dir9.isEmpty
        rw [e2]
        have : d'.files.isEmpty = d.files.isEmpty := by
          have hl := congrArg List.length e3
          simp only [List.length_map] at hl
          cases hf' : d'.files <;> cases hf : d.files <;> simp_all
        rw [this]
      by_cases he : d.isEmpty = true
      · have := hnoempty d hd he
        simp [hie, he, e1, this]
      · simp [hie, he]
    rw [this]; rfl
  have hspec := parseSpec_of_parse9 txt L h2 hm
  -- the paths of the text are the file paths of the tree
  have hnoslash : ∀ d ∈ (marshal9 hash max k t).2.1, (∀ c ∈ d.path, bSlash ∉ c) ∧ ∀ f ∈ d.files, bSlash ∉ f.1 :=
    r1.shape.noslash
  have hpaths : ∀ p ∈ C10.pathsOf (streamsOf L), ∃ d ∈ (marshal9 hash max k t).2.1, ∃ f ∈ d.files,
      p = prefixOf (d.path ++ [f.1]) := by
    intro p hp
    unfold C10.pathsOf at hp
    rw [List.mem_eraseDups, List.mem_flatMap] at hp
    obtain ⟨s, hs, hp⟩ := hp
    obtain ⟨ft, hft, rfl⟩ := List.mem_map.mp hp
    obtain ⟨d, hd, _, e, hem, rfl⟩ := treeLines_streams _ L h1 s hs
    simp only [streamOfEmit, List.mem_map, List.mem_reverse] at hft
    obtain ⟨q, hq, rfl⟩ := hft
    obtain ⟨_, _, _, h4⟩ := emitFiles_spec (max := max) (hash := hash) d.files _ e (einv_init _)
      (fun f hf => r1.wf d hd f.2 (List.mem_map.mpr ⟨f, hf, rfl⟩)) hem
    rcases h4 q hq with ⟨f, hf, hn⟩ | h'
    · exact ⟨d, hd, f, hf, by simp only [streamOfEmit]; rw [pathOf_prefixOf, hn]⟩
    · cases h'
  have hclosed' : TreeClosed (marshal9 hash max k t).2.1 := by
    constructor
    · intro d' hd' hne
      obtain ⟨d, hd, e1, _, _⟩ := hshape d' hd'
      rw [a2, e1]
      exact hclosed.parent d hd (by rw [← e1]; exact hne)
    · intro d' hd' hsub
      obtain ⟨d, hd, e1, e2, _⟩ := hshape d' hd'
      obtain ⟨c, hc, n, hcn⟩ := hclosed.child d hd (by rw [← e2]; exact hsub)
      have : c.path ∈ dirPaths (marshal9 hash max k t).2.1 := by
        rw [a2]; exact List.mem_map.mpr ⟨c, hc, rfl⟩
      obtain ⟨c', hc', hcp⟩ := List.mem_map.mp this
      exact ⟨c', hc', n, by rw [hcp, hcn, e1]⟩
  have hclash' : ∀ d ∈ (marshal9 hash max k t).2.1, ∀ f ∈ d.files, d.path ++ [f.1] ∉ dirPaths (marshal9 hash max k t).2.1 := by
    intro d' hd' f' hf'
    obtain ⟨d, hd, e1, _, e3⟩ := hshape d' hd'
    have : f'.1 ∈ d.files.map (·.1) := by rw [← e3]; exact List.mem_map.mpr ⟨f', hf', rfl⟩
    obtain ⟨f, hf, hn⟩ := List.mem_map.mp this
    rw [a2, e1, ← hn]
    exact hclash d hd f hf
  -- no path is both file and directory
  have htree : C10.TreeConsistent (streamsOf L) := by
    intro a ha b hb
    obtain ⟨d1, hd1, f1, hf1, rfl⟩ := hpaths a ha
    obtain ⟨d2, hd2, f2, hf2, rfl⟩ := hpaths b hb
    cases hpre : C10.isDirPrefix (prefixOf (d1.path ++ [f1.1])) (prefixOf (d2.path ++ [f2.1])) with
    | false => rfl
    | true =>
      exfalso
      have hs1 : ∀ c ∈ d1.path ++ [f1.1], bSlash ∉ c := by
        intro c hc; rcases List.mem_append.mp hc with hc | hc
        · exact (hnoslash d1 hd1).1 c hc
        · simp at hc; subst hc; exact (hnoslash d1 hd1).2 f1 hf1
      have hs2 : ∀ c ∈ d2.path ++ [f2.1], bSlash ∉ c := by
        intro c hc; rcases List.mem_append.mp hc with hc | hc
        · exact (hnoslash d2 hd2).1 c hc
        · simp at hc; subst hc; exact (hnoslash d2 hd2).2 f2 hf2
      obtain ⟨x, rest, hxr⟩ := isDirPrefix_comps hs1 hs2 hpre
      have hdrop : d2.path = d1.path ++ [f1.1] ++ (x :: rest).dropLast := by
        have := congrArg List.dropLast hxr
        rw [List.dropLast_concat, List.dropLast_append_of_ne_nil (by simp)] at this
        exact this
      have hin : d1.path ++ [f1.1] ++ (x :: rest).dropLast ∈ dirPaths (marshal9 hash max k t).2.1 := by
        rw [← hdrop]; exact List.mem_map.mpr ⟨d2, hd2, rfl⟩
      exact hclash' d1 hd1 f1 hf1 (hclosed'.prefixes _ _ hin)
  obtain ⟨tr, hload, hinv⟩ := fsLoad_inv txt (streamsOf L) hspec (hfit L h2) htree
  have hblk : ∀ s ∈ streamsOf L, ∀ b ∈ s.blocks, (blkOf (marshal9 hash max k t).1.store b.text).length = b.size := by
    intro s hs b hb
    obtain ⟨d, hd, _, e, hem, rfl⟩ := treeLines_streams _ L h1 s hs
    obtain ⟨hinvE, _, _, _⟩ := emitFiles_spec (max := max) (hash := hash) d.files _ e (einv_init _)
      (fun f hf => r1.wf d hd f.2 (List.mem_map.mpr ⟨f, hf, rfl⟩)) hem
    simp only [streamOfEmit] at hb
    by_cases hbe : e.blocksRev.isEmpty = true
    · rw [if_pos hbe] at hb
      simp only [List.mem_singleton] at hb
      subst hb
      -- the placeholder: size 0; Keep may or may not hold the empty block
      simp only [blkOf]
      cases hst : (marshal9 hash max k t).1.store emptyLoc with
      | none => rfl
      | some x =>
        have := r1.keep.ok _ _ hst
        have hl := hh.loc x
        rw [← this, emptyLoc_ok] at hl
        simp only [Option.some.injEq, C10.Loc.mk.injEq] at hl
        simp [hl.2]
    · rw [if_neg hbe] at hb
      obtain ⟨x, hx, hxl⟩ := hinvE.blk b (List.mem_reverse.mp hb)
      simp [blkOf, hx, hxl]
  -- keys
  have hkeyok : ∀ d ∈ (marshal9 hash max k t).2.1, ∀ f ∈ d.files, C10.KeyOk (d.path ++ [f.1]) := by
    intro d hd f hf
    refine ⟨by simp, ?_, ?_⟩
    · unfold C10.componentsOk
      rw [List.all_eq_true]
      intro c hc
      rcases List.mem_append.mp hc with hc | hc
      · obtain ⟨h1, h2, h3, _⟩ := r1.paths d hd c hc
        simp [h1, h2, h3]
      · simp at hc; subst hc
        obtain ⟨h1, h2, h3, _⟩ := r1.names d hd f hf
        simp [h1, h2, h3]
    · intro c hc
      rcases List.mem_append.mp hc with hc | hc
      · exact (hnoslash d hd).1 c hc
      · simp at hc; subst hc; exact (hnoslash d hd).2 f hf
  -- every processed token belongs to a file of the tree
  have hdone : ∀ q ∈ (C10.manifestContribs (streamsOf L)).map (·.1), ∃ d ∈ (marshal9 hash max k t).2.1, ∃ f ∈ d.files,
      q = prefixOf (d.path ++ [f.1]) := by
    intro q hq
    apply hpaths
    simp only [C10.manifestContribs, C10.contribsOf, List.map_flatMap, List.map_map, List.mem_flatMap, List.mem_map,
      Function.comp] at hq
    obtain ⟨s, hs, ft, hft, rfl⟩ := hq
    unfold C10.pathsOf
    rw [List.mem_eraseDups, List.mem_flatMap]
    exact ⟨s, hs, List.mem_map.mpr ⟨ft, hft, rfl⟩⟩
  have hfilekey : ∀ e ∈ tr.files, ∃ d ∈ (marshal9 hash max k t).2.1, ∃ f ∈ d.files, e.1 = d.path ++ [f.1] := by
    intro e he
    obtain ⟨hko, hin, _⟩ := hinv.files e he
    obtain ⟨d, hd, f, hf, hq⟩ := hdone _ hin
    exact ⟨d, hd, f, hf, C10.pathOfKey_inj hko (hkeyok d hd f hf) hq⟩
  refine ⟨tr, hload, ?_, hfilekey, ?_⟩
  · intro d hd f hf
    obtain ⟨e, hem, hs, p, hp, hpn⟩ := file_has_token h1 hd hf
    have hc : (C10.pathOf (prefixOf d.path) f.1, C10.resolveTok (streamOfEmit d.path e).blocks 0 p.off p.len) ∈
        C10.manifestContribs (streamsOf L) := by
      unfold C10.manifestContribs C10.contribsOf
      rw [List.mem_flatMap]
      refine ⟨_, hs, List.mem_map.mpr ⟨⟨p.off, p.len, p.name⟩, ?_, by simp [streamOfEmit, hpn]⟩⟩
      simp only [streamOfEmit, List.mem_map, List.mem_reverse]
      exact ⟨p, hp, rfl⟩
    obtain ⟨ent, hent, hpe⟩ := hinv.has _ hc
    obtain ⟨hko, _, hseg⟩ := hinv.files ent hent
    have hkey : ent.1 = d.path ++ [f.1] := by
      apply C10.pathOfKey_inj hko (hkeyok d hd f hf)
      rw [hpe]; exact pathOf_prefixOf d.path f.1
    refine ⟨ent, hent, hkey, ?_⟩
    rw [hseg, C10.contribOf_manifest, C10.resolve_bytes _ _ _ hblk, hpe]
    exact treeLines_content (max := max) (hash := hash) _ L r1.shape
      (fun d hd f hf => r1.wf d hd f.2 (List.mem_map.mpr ⟨f, hf, rfl⟩)) h1 d hd f hf
  · intro p hp
    obtain ⟨_, e, he, x, rest, hxr⟩ := hinv.dirs p hp
    obtain ⟨d, hd, f, hf, hk⟩ := hfilekey e he
    rw [← a2]
    have hdrop : d.path = p ++ (x :: rest).dropLast := by
      have := congrArg List.dropLast (hk.symm.trans hxr)
      rw [List.dropLast_concat, List.dropLast_append_of_ne_nil (by simp)] at this
      exact this
    apply hclosed'.prefixes ((x :: rest).dropLast) p
    rw [← hdrop]
    exact List.mem_map.mpr ⟨d, hd, rfl⟩

/-! ### non-vacuity of `C09_marshal_fsLoad_partial` -/

/-- root file `a` (two buffered segments), directory `d` holding the empty file `x y`; no empty directory -/
def exTree2 : Tree9 :=
  [⟨[], [([97], ⟨[Seg.mem [1, 2, 3] C08.Flush.none, Seg.mem [4] C08.Flush.none], 4, 0⟩)], 1⟩,
   ⟨[[100]], [([120, 32, 121], FileNode.empty)], 0⟩]

example : SaveOK 4 exHash exKeep0 exTree2 := by
  refine ⟨⟨fun l b h => (by cases h), fun b hb => (by cases hb)⟩, ?_, by decide, ?_, ?_, ?_, ?_⟩
  · intro d hd fn hfn s hs
    simp only [exTree2, List.mem_cons, List.not_mem_nil, or_false] at hd
    rcases hd with rfl | rfl
    · simp only [List.map_cons, List.map_nil, List.mem_singleton] at hfn
      subst hfn
      simp only [List.mem_cons, List.not_mem_nil, or_false] at hs
      rcases hs with rfl | rfl
      · exact ⟨by decide, by decide, fun i l h => (by cases h)⟩
      · exact ⟨by decide, by decide, fun i l h => (by cases h)⟩
    · simp only [List.map_cons, List.map_nil, List.mem_singleton] at hfn
      subst hfn; cases hs
  · intro d hd
    simp only [exTree2, List.mem_cons, List.not_mem_nil, or_false] at hd
    rcases hd with rfl | rfl <;> decide
  · intro d hd c hc
    simp only [exTree2, List.mem_cons, List.not_mem_nil, or_false] at hd
    rcases hd with rfl | rfl
    · cases hc
    · simp only [List.mem_singleton] at hc; subst hc; exact ⟨by decide, by decide, by decide, by decide⟩
  · intro d hd f hf
    simp only [exTree2, List.mem_cons, List.not_mem_nil, or_false] at hd
    rcases hd with rfl | rfl
    · simp only [List.mem_singleton] at hf; subst hf; exact ⟨by decide, by decide, by decide, by decide⟩
    · simp only [List.mem_singleton] at hf; subst hf; exact ⟨by decide, by decide, by decide, by decide⟩
  · intro d hd f hf loc size off len hs
    simp only [exTree2, List.mem_cons, List.not_mem_nil, or_false] at hd
    rcases hd with rfl | rfl
    · simp only [List.mem_singleton] at hf; subst hf
      simp only [List.mem_cons, List.not_mem_nil, or_false] at hs
      rcases hs with hs | hs <;> cases hs
    · simp only [List.mem_singleton] at hf; subst hf; cases hs

example : TreeClosed exTree2 := by
  constructor
  · intro d hd hne
    simp only [exTree2, List.mem_cons, List.not_mem_nil, or_false] at hd
    rcases hd with rfl | rfl
    · exact absurd rfl hne
    · decide
  · intro d hd hsub
    simp only [exTree2, List.mem_cons, List.not_mem_nil, or_false] at hd
    rcases hd with rfl | rfl
    · exact ⟨_, List.mem_cons_of_mem _ List.mem_cons_self, [100], rfl⟩
    · simp at hsub

example : ∀ d ∈ exTree2, ∀ f ∈ d.files, d.path ++ [f.1] ∉ dirPaths exTree2 := by
  intro d hd f hf
  simp only [exTree2, List.mem_cons, List.not_mem_nil, or_false] at hd
  rcases hd with rfl | rfl <;> (simp only [List.mem_singleton] at hf; subst hf; decide)

example : ∀ d ∈ exTree2, d.isEmpty = true → d.path = [] := by
  intro d hd he
  simp only [exTree2, List.mem_cons, List.not_mem_nil, or_false] at hd
  rcases hd with rfl | rfl <;> simp [Dir9.isEmpty] at he

/-- the saved text of that tree parses and the loader can represent the sizes in it -/
example : (match (marshal9 exHash 4 exKeep0 exTree2).2.2 with
    | MRes.ok txt =>
      (match parse9 txt with
       | some L => (streamsOf L).all (fun s => s.blocks.all (fun b => decide (b.size < C10.two31)) &&
           decide (C10.streamLen s.blocks < C10.two63))
       | none => false)
    | _ => false) = true := by decide +kernel

end ArvVerif.C09
