/-
C09 — property theorems about reading a saved text back through `loadManifest` (`C10.fsLoad`).
-/
import ArvVerif.Proofs.C09_Marker
import ArvVerif.Proofs.C09_Wf
import ArvVerif.Proofs.C09_Glue
import ArvVerif.Props.C09
namespace ArvVerif.C09

open ArvVerif.C08 (Seg FileNode Store)
open ArvVerif.C10 (bSlash bSpace fsEscape joinWith)

variable {max : Nat} {hash : Bytes → C08.Loc}

/-- **The empty-directory marker through `loadManifest`.** For every directory path of proper names
(without 0x7f) and every tree built so far in which no ancestor-or-self of that directory is a file:
the line `<escaped name> d41d8cd98f00b204e9800998ecf8427e+0 0:0:\056` is accepted, the directory and all
its ancestors exist afterwards, no file is added or changed, and no other directory appears. -/
theorem C09_marker_line_loads (path : List Bytes) (hpath : PathOK path) (t : C10.FsTree)
    (hnofile : ∀ pre, pre ≠ [] → pre <+: path → t.files.any (·.1 = pre) = false) :
    ∃ t', C10.fsLine (joinWith bSpace [fsEscape (prefixOf path), emptyLoc, markerTok]) t = some t' ∧
      t'.files = t.files ∧
      (∀ d ∈ t'.dirs, d ∈ t.dirs ∨ ∃ pre, pre ≠ [] ∧ pre <+: path ∧ d = pre) ∧
      (∀ d ∈ t.dirs, d ∈ t'.dirs) ∧
      (∀ pre, pre ≠ [] → pre <+: path → pre ∈ t'.dirs) :=
  fsLine_marker path hpath t hnofile

/-- non-vacuity: the marker of `./d/e` on a tree holding the file `./a` -/
example : (C10.fsLine (joinWith bSpace [fsEscape (prefixOf [[100], [101]]), emptyLoc, markerTok]) ⟨[], [([[97]], [])]⟩).map
    (fun t' => (t'.dirs, t'.files)) = some ([[[100]], [[100], [101]]], [([[97]], [])]) := by decide +kernel

/-- **`loadManifest` on any text of the C09 grammar** (streams of the published grammar mixed with
empty-directory markers, any spelling of the names the grammar allows): if the loader can represent
the sizes, no path is both file and directory, and no file path is a marker directory or an ancestor
of one, then `loadManifest` accepts the text and builds exactly what it builds for the text WITHOUT the
marker lines (for which `C10_fs_agrees` / `FsInv` say: the files are the manifest's paths, each with
`resolve`'s segments) plus the marker directories and their ancestors — same files, same segments. -/
theorem C09_loader_reads_markers (txt : Bytes) (L : List Line9) (hvalid : parse9 txt = some L)
    (hfit : ∀ s ∈ streamsOf L, C10.FitsFs s) (htree : C10.TreeConsistent (streamsOf L))
    (hmark : ∀ p ∈ C10.pathsOf (streamsOf L), ∀ n ∈ markersOf L, p ≠ n ∧ C10.isDirPrefix p n = false) :
    ∃ tr tr1, C10.fsLoad txt = some tr ∧ C10.FsInv (C10.manifestContribs (streamsOf L)) tr1 ∧
      tr.files = tr1.files ∧ ∀ d, d ∈ tr.dirs ↔ (d ∈ tr1.dirs ∨ d ∈ markerDirs L) :=
  fsLoad_mixed txt L hvalid hfit htree hmark

/-- **`loadManifest` makes every ancestor directory of every file**, for ANY text it accepts (inside the
grammar or not): in the tree it returns, every non-empty prefix of the directory part of a file's key is a
directory. -/
theorem C09_loader_makes_ancestors (txt : Bytes) (tr : C10.FsTree) (h : C10.fsLoad txt = some tr) :
    ∀ e ∈ tr.files, ∀ pre, pre ≠ [] → pre <+: e.1.dropLast → pre ∈ tr.dirs :=
  fun e he => fsLoad_cover txt tr h e.1 (List.mem_map.mpr ⟨e, he, rfl⟩)

/-- **The tree `loadManifest` builds is a well-formed tree**, for ANY text it accepts (inside the grammar
or not): file keys are pairwise distinct, directories are pairwise distinct, no path is both a file and a
directory, every component of every path is a proper name (not empty, not `.`/`..`, no `/`), and every
directory is listed after its parent. (Together with `C09_loader_makes_ancestors` this is what building
C08's directory tables from the flat image needs.) -/
theorem C09_loader_tree_wellformed (txt : Bytes) (tr : C10.FsTree) (h : C10.fsLoad txt = some tr) :
    (tr.files.map (·.1)).Nodup ∧ tr.dirs.Nodup ∧ (∀ e ∈ tr.files, e.1 ∉ tr.dirs) ∧
    (∀ d ∈ tr.dirs, d ≠ [] ∧ ∀ c ∈ d, NameOK c) ∧ (∀ e ∈ tr.files, e.1 ≠ [] ∧ ∀ c ∈ e.1, NameOK c) ∧
    ParentFirst tr.dirs := by
  have hw := fsLoad_wf txt tr h
  exact ⟨hw.keysNodup, hw.dirsNodup, fun e he => hw.disjoint e.1 (List.mem_map.mpr ⟨e, he, rfl⟩), hw.dirComps,
    fun e he => hw.keyComps e.1 (List.mem_map.mpr ⟨e, he, rfl⟩), hw.parentFirst⟩

/-- **The whole saved text through `loadManifest`.** After a successful save of a closed tree in which
no file has the path of a directory and whose saved sizes the loader can represent: `loadManifest`
accepts the text (marker lines included); the loaded tree has, for every file of the saved tree, a
file with exactly that key whose stored segments read exactly the file's bytes, and no other file;
and its directories are exactly the directories of the saved tree below the root — empty ones (own
marker), ones holding only sub-directories, ones holding files. -/
theorem C09_marshal_fsLoad (hh : HashOK hash) {k : Keep} {t : Tree9} (hok : SaveOK max hash k t) (hnd : NoDel t)
    (hclosed : TreeClosed t) (hclash : ∀ d ∈ t, ∀ f ∈ d.files, d.path ++ [f.1] ∉ dirPaths t)
    {txt : Bytes} (h : (marshal9 hash max k t).2.2 = MRes.ok txt)
    (hfit : ∀ L, parse9 txt = some L → ∀ s ∈ streamsOf L, C10.FitsFs s) :
    ∃ tr, C10.fsLoad txt = some tr ∧
      (∀ d ∈ (marshal9 hash max k t).2.1, ∀ f ∈ d.files, ∃ e ∈ tr.files, e.1 = d.path ++ [f.1] ∧
        C10.segBytes (blkOf (marshal9 hash max k t).1.store) e.2 = C08.abs (marshal9 hash max k t).1.store f.2) ∧
      (∀ e ∈ tr.files, ∃ d ∈ (marshal9 hash max k t).2.1, ∃ f ∈ d.files, e.1 = d.path ++ [f.1]) ∧
      (∀ p ∈ tr.dirs, p ∈ dirPaths t) ∧
      (∀ p ∈ dirPaths t, p ≠ [] → p ∈ tr.dirs) := by
  obtain ⟨r1, r2, r3, _, _, r6⟩ := marshal9_run (max := max) hh hok
  obtain ⟨_, L, h1, h2⟩ := C09_marshal_valid hh hok hnd h
  obtain ⟨_, a2, _, a4⟩ := TreeKept.abs_eq r3 r2.ext hok.wf
  have hshape := TreeKept.shape r3
  -- the paths of the text are the file paths of the tree
  have hnoslash : ∀ d ∈ (marshal9 hash max k t).2.1, (∀ c ∈ d.path, bSlash ∉ c) ∧ ∀ f ∈ d.files, bSlash ∉ f.1 :=
    r1.shape.noslash
  have hpaths : ∀ p ∈ C10.pathsOf (streamsOf L), ∃ d ∈ (marshal9 hash max k t).2.1, ∃ f ∈ d.files,
      p = prefixOf (d.path ++ [f.1]) := by
    intro p hp
    unfold C10.pathsOf at hp
    rw [List.mem_eraseDups, List.mem_flatMap] at hp
    obtain ⟨s, hs, hp⟩ := hp
    obtain ⟨ft, hft, rfl⟩ := List.mem_map.mp hp
    obtain ⟨d, hd, _, e, hem, rfl⟩ := treeLines_streams _ L h1 s hs
    simp only [streamOfEmit, List.mem_map, List.mem_reverse] at hft
    obtain ⟨q, hq, rfl⟩ := hft
    obtain ⟨_, _, _, h4⟩ := emitFiles_spec (max := max) (hash := hash) d.files _ e (einv_init _)
      (fun f hf => r1.wf d hd f.2 (List.mem_map.mpr ⟨f, hf, rfl⟩)) hem
    rcases h4 q hq with ⟨f, hf, hn⟩ | h'
    · exact ⟨d, hd, f, hf, by simp only [streamOfEmit]; rw [pathOf_prefixOf, hn]⟩
    · cases h'
  have hclosed' : TreeClosed (marshal9 hash max k t).2.1 := by
    constructor
    · intro d' hd' hne
      obtain ⟨d, hd, e1, _, _⟩ := hshape d' hd'
      rw [a2, e1]
      exact hclosed.parent d hd (by rw [← e1]; exact hne)
    · intro d' hd' hsub
      obtain ⟨d, hd, e1, e2, _⟩ := hshape d' hd'
      obtain ⟨c, hc, n, hcn⟩ := hclosed.child d hd (by rw [← e2]; exact hsub)
      have : c.path ∈ dirPaths (marshal9 hash max k t).2.1 := by
        rw [a2]; exact List.mem_map.mpr ⟨c, hc, rfl⟩
      obtain ⟨c', hc', hcp⟩ := List.mem_map.mp this
      exact ⟨c', hc', n, by rw [hcp, hcn, e1]⟩
  have hclash' : ∀ d ∈ (marshal9 hash max k t).2.1, ∀ f ∈ d.files, d.path ++ [f.1] ∉ dirPaths (marshal9 hash max k t).2.1 := by
    intro d' hd' f' hf'
    obtain ⟨d, hd, e1, _, e3⟩ := hshape d' hd'
    have : f'.1 ∈ d.files.map (·.1) := by rw [← e3]; exact List.mem_map.mpr ⟨f', hf', rfl⟩
    obtain ⟨f, hf, hn⟩ := List.mem_map.mp this
    rw [a2, e1, ← hn]
    exact hclash d hd f hf
  -- no path is both file and directory
  have htree : C10.TreeConsistent (streamsOf L) := by
    intro a ha b hb
    obtain ⟨d1, hd1, f1, hf1, rfl⟩ := hpaths a ha
    obtain ⟨d2, hd2, f2, hf2, rfl⟩ := hpaths b hb
    cases hpre : C10.isDirPrefix (prefixOf (d1.path ++ [f1.1])) (prefixOf (d2.path ++ [f2.1])) with
    | false => rfl
    | true =>
      exfalso
      have hs1 : ∀ c ∈ d1.path ++ [f1.1], bSlash ∉ c := by
        intro c hc; rcases List.mem_append.mp hc with hc | hc
        · exact (hnoslash d1 hd1).1 c hc
        · simp at hc; subst hc; exact (hnoslash d1 hd1).2 f1 hf1
      have hs2 : ∀ c ∈ d2.path ++ [f2.1], bSlash ∉ c := by
        intro c hc; rcases List.mem_append.mp hc with hc | hc
        · exact (hnoslash d2 hd2).1 c hc
        · simp at hc; subst hc; exact (hnoslash d2 hd2).2 f2 hf2
      obtain ⟨x, rest, hxr⟩ := isDirPrefix_comps hs1 hs2 hpre
      have hdrop : d2.path = d1.path ++ [f1.1] ++ (x :: rest).dropLast := by
        have := congrArg List.dropLast hxr
        rw [List.dropLast_concat, List.dropLast_append_of_ne_nil (by simp)] at this
        exact this
      have hin : d1.path ++ [f1.1] ++ (x :: rest).dropLast ∈ dirPaths (marshal9 hash max k t).2.1 := by
        rw [← hdrop]; exact List.mem_map.mpr ⟨d2, hd2, rfl⟩
      exact hclash' d1 hd1 f1 hf1 (hclosed'.prefixes _ _ hin)
  -- the markers are directories of the tree
  have hmarkers : ∀ n ∈ markersOf L, ∃ d ∈ (marshal9 hash max k t).2.1, n = prefixOf d.path ∧ d.isEmpty = true ∧ d.path ≠ [] := by
    intro n hn
    rw [treeLines_markers _ L h1] at hn
    obtain ⟨d, hd, rfl⟩ := List.mem_map.mp hn
    obtain ⟨hd1, hd2⟩ := List.mem_filter.mp hd
    simp only [Bool.and_eq_true, Bool.not_eq_true', List.isEmpty_eq_false_iff] at hd2
    exact ⟨d, hd1, rfl, hd2.1, hd2.2⟩
  have hmark : ∀ p ∈ C10.pathsOf (streamsOf L), ∀ n ∈ markersOf L, p ≠ n ∧ C10.isDirPrefix p n = false := by
    intro p hp n hn
    obtain ⟨d1, hd1, f1, hf1, rfl⟩ := hpaths p hp
    obtain ⟨d2, hd2, rfl, _, _⟩ := hmarkers n hn
    have hs1 : ∀ c ∈ d1.path ++ [f1.1], bSlash ∉ c := by
      intro c hc; rcases List.mem_append.mp hc with hc | hc
      · exact (hnoslash d1 hd1).1 c hc
      · simp at hc; subst hc; exact (hnoslash d1 hd1).2 f1 hf1
    constructor
    · intro heq
      have e1 := splitOn_prefixOf _ hs1
      rw [heq, splitOn_prefixOf _ (hnoslash d2 hd2).1] at e1
      have : d2.path = d1.path ++ [f1.1] := (List.cons.inj e1).2
      exact hclash' d1 hd1 f1 hf1 (by rw [← this]; exact List.mem_map.mpr ⟨d2, hd2, rfl⟩)
    · cases hpre : C10.isDirPrefix (prefixOf (d1.path ++ [f1.1])) (prefixOf d2.path) with
      | false => rfl
      | true =>
        exfalso
        obtain ⟨x, rest, hxr⟩ := isDirPrefix_comps hs1 (hnoslash d2 hd2).1 hpre
        have hin : d1.path ++ [f1.1] ++ (x :: rest) ∈ dirPaths (marshal9 hash max k t).2.1 := by
          rw [← hxr]; exact List.mem_map.mpr ⟨d2, hd2, rfl⟩
        exact hclash' d1 hd1 f1 hf1 (hclosed'.prefixes _ _ hin)
  obtain ⟨tr, tr1, hload, hinv, hfiles, hdirs⟩ := fsLoad_mixed txt L h2 (hfit L h2) htree hmark
  have hblk : ∀ s ∈ streamsOf L, ∀ b ∈ s.blocks, (blkOf (marshal9 hash max k t).1.store b.text).length = b.size := by
    intro s hs b hb
    obtain ⟨d, hd, _, e, hem, rfl⟩ := treeLines_streams _ L h1 s hs
    obtain ⟨hinvE, _, _, _⟩ := emitFiles_spec (max := max) (hash := hash) d.files _ e (einv_init _)
      (fun f hf => r1.wf d hd f.2 (List.mem_map.mpr ⟨f, hf, rfl⟩)) hem
    simp only [streamOfEmit] at hb
    by_cases hbe : e.blocksRev.isEmpty = true
    · rw [if_pos hbe] at hb
      simp only [List.mem_singleton] at hb
      subst hb
      -- the placeholder: size 0; Keep may or may not hold the empty block
      simp only [blkOf]
      cases hst : (marshal9 hash max k t).1.store emptyLoc with
      | none => rfl
      | some x =>
        have := r1.keep.ok _ _ hst
        have hl := hh.loc x
        rw [← this, emptyLoc_ok] at hl
        simp only [Option.some.injEq, C10.Loc.mk.injEq] at hl
        simp [hl.2]
    · rw [if_neg hbe] at hb
      obtain ⟨x, hx, hxl⟩ := hinvE.blk b (List.mem_reverse.mp hb)
      simp [blkOf, hx, hxl]
  -- keys
  have hkeyok : ∀ d ∈ (marshal9 hash max k t).2.1, ∀ f ∈ d.files, C10.KeyOk (d.path ++ [f.1]) := by
    intro d hd f hf
    refine ⟨by simp, ?_, ?_⟩
    · unfold C10.componentsOk
      rw [List.all_eq_true]
      intro c hc
      rcases List.mem_append.mp hc with hc | hc
      · obtain ⟨h1, h2, h3, _⟩ := r1.paths d hd c hc
        simp [h1, h2, h3]
      · simp at hc; subst hc
        obtain ⟨h1, h2, h3, _⟩ := r1.names d hd f hf
        simp [h1, h2, h3]
    · intro c hc
      rcases List.mem_append.mp hc with hc | hc
      · exact (hnoslash d hd).1 c hc
      · simp at hc; subst hc; exact (hnoslash d hd).2 f hf
  -- every processed token belongs to a file of the tree
  have hdone : ∀ q ∈ (C10.manifestContribs (streamsOf L)).map (·.1), ∃ d ∈ (marshal9 hash max k t).2.1, ∃ f ∈ d.files,
      q = prefixOf (d.path ++ [f.1]) := by
    intro q hq
    apply hpaths
    simp only [C10.manifestContribs, C10.contribsOf, List.map_flatMap, List.map_map, List.mem_flatMap, List.mem_map,
      Function.comp] at hq
    obtain ⟨s, hs, ft, hft, rfl⟩ := hq
    unfold C10.pathsOf
    rw [List.mem_eraseDups, List.mem_flatMap]
    exact ⟨s, hs, List.mem_map.mpr ⟨ft, hft, rfl⟩⟩
  have hfilekey : ∀ e ∈ tr.files, ∃ d ∈ (marshal9 hash max k t).2.1, ∃ f ∈ d.files, e.1 = d.path ++ [f.1] := by
    intro e he
    rw [hfiles] at he
    obtain ⟨hko, hin, _⟩ := hinv.files e he
    obtain ⟨d, hd, f, hf, hq⟩ := hdone _ hin
    exact ⟨d, hd, f, hf, C10.pathOfKey_inj hko (hkeyok d hd f hf) hq⟩
  have hfilesIn : ∀ d ∈ (marshal9 hash max k t).2.1, ∀ f ∈ d.files, ∃ e ∈ tr.files, e.1 = d.path ++ [f.1] ∧
      C10.segBytes (blkOf (marshal9 hash max k t).1.store) e.2 = C08.abs (marshal9 hash max k t).1.store f.2 := by
    intro d hd f hf
    obtain ⟨e, hem, hs, p, hp, hpn⟩ := file_has_token h1 hd hf
    have hc : (C10.pathOf (prefixOf d.path) f.1, C10.resolveTok (streamOfEmit d.path e).blocks 0 p.off p.len) ∈
        C10.manifestContribs (streamsOf L) := by
      unfold C10.manifestContribs C10.contribsOf
      rw [List.mem_flatMap]
      refine ⟨_, hs, List.mem_map.mpr ⟨⟨p.off, p.len, p.name⟩, ?_, by simp [streamOfEmit, hpn]⟩⟩
      simp only [streamOfEmit, List.mem_map, List.mem_reverse]
      exact ⟨p, hp, rfl⟩
    obtain ⟨ent, hent, hpe⟩ := hinv.has _ hc
    obtain ⟨hko, _, hseg⟩ := hinv.files ent hent
    have hkey : ent.1 = d.path ++ [f.1] := by
      apply C10.pathOfKey_inj hko (hkeyok d hd f hf)
      rw [hpe]; exact pathOf_prefixOf d.path f.1
    refine ⟨ent, by rw [hfiles]; exact hent, hkey, ?_⟩
    rw [hseg, C10.contribOf_manifest, C10.resolve_bytes _ _ _ hblk, hpe]
    exact treeLines_content (max := max) (hash := hash) _ L r1.shape
      (fun d hd f hf => r1.wf d hd f.2 (List.mem_map.mpr ⟨f, hf, rfl⟩)) h1 d hd f hf
  refine ⟨tr, hload, hfilesIn, hfilekey, ?_, ?_⟩
  · intro p hp
    rw [← a2]
    rcases (hdirs p).mp hp with hp1 | hp2
    · obtain ⟨_, e, he, x, rest, hxr⟩ := hinv.dirs p hp1
      obtain ⟨d, hd, f, hf, hk⟩ := hfilekey e (by rw [hfiles]; exact he)
      have hdrop : d.path = p ++ (x :: rest).dropLast := by
        have := congrArg List.dropLast (hk.symm.trans hxr)
        rw [List.dropLast_concat, List.dropLast_append_of_ne_nil (by simp)] at this
        exact this
      apply hclosed'.prefixes ((x :: rest).dropLast) p
      rw [← hdrop]
      exact List.mem_map.mpr ⟨d, hd, rfl⟩
    · obtain ⟨n, hn, hk⟩ := mem_markerDirs L p hp2
      obtain ⟨d, hd, rfl, _, _⟩ := hmarkers n hn
      have hcomps : compsOfName (prefixOf d.path) = d.path := by
        unfold compsOfName; rw [splitOn_prefixOf _ (hnoslash d hd).1]; rfl
      rw [hcomps] at hk
      obtain ⟨_, q, hq⟩ := mem_dirPrefixes.mp hk
      apply hclosed'.prefixes q p
      rw [hq]
      exact List.mem_map.mpr ⟨d, hd, rfl⟩
  · intro p hp hne
    rw [← a2] at hp
    obtain ⟨d0, hd0, rfl⟩ := List.mem_map.mp hp
    have hns : ∀ d ∈ (marshal9 hash max k t).2.1, ∀ c ∈ d.path, bSlash ∉ c := fun d hd => (hnoslash d hd).1
    obtain ⟨n, hn, q, hq, hnq⟩ := (dirs_recovered h1 hclosed' hns d0.path hne (hns d0 hd0)).mp hp
    obtain ⟨d, hd, hnd', hkind⟩ := treeLines_names_kind _ L h1 n hn
    -- the directory the line names lies at or below `d0`
    have hpath : d.path = d0.path ++ q := by
      have e1 := splitOn_prefixOf d.path (hns d hd)
      have e2 := splitOn_prefixOf (d0.path ++ q) (by
        intro c hc; rcases List.mem_append.mp hc with hc | hc
        · exact hns d0 hd0 c hc
        · exact hq c hc)
      rw [← hnd', hnq, e2] at e1
      exact ((List.cons.inj e1).2).symm
    rcases hkind with hf | ⟨he, hne'⟩
    · -- a directory with a file: the loader made the file, hence every ancestor
      obtain ⟨f, hf⟩ : ∃ f, f ∈ d.files := by
        cases hd' : d.files with
        | nil => exact absurd hd' hf
        | cons a b => exact ⟨a, by simp⟩
      obtain ⟨e, he, hk, _⟩ := hfilesIn d hd f hf
      have hcov := fsLoad_cover txt tr hload e.1 (List.mem_map.mpr ⟨e, he, rfl⟩)
      rw [hk, List.dropLast_concat, hpath] at hcov
      exact hcov d0.path hne (List.prefix_append _ _)
    · apply (hdirs d0.path).mpr
      right
      have hn' : prefixOf d.path ∈ markersOf L := by
        rw [treeLines_markers _ L h1]
        exact List.mem_map.mpr ⟨d, List.mem_filter.mpr ⟨hd, by simp [he, hne']⟩, rfl⟩
      have hcomps : compsOfName (prefixOf d.path) = d.path := by
        unfold compsOfName; rw [splitOn_prefixOf _ (hns d hd)]; rfl
      apply mem_markerDirs_of L _ hn'
      rw [hcomps, hpath]
      exact mem_dirPrefixes.mpr ⟨hne, List.prefix_append _ _⟩

/-- `C09_marshal_fsLoad` with the structural hypotheses decided by execution: the model driver evaluates
`shapeOK` on the directory list of EVERY save it runs (`guardShape`; a failed check prints `glue`, which never
agrees with the implementation), and `shapeOK` implies "closed" and "no file at a directory's path". -/
theorem C09_marshal_fsLoad_checked (hh : HashOK hash) {k : Keep} {t : Tree9} (hok : SaveOK max hash k t) (hnd : NoDel t)
    (hshape : shapeOK t = true)
    {txt : Bytes} (h : (marshal9 hash max k t).2.2 = MRes.ok txt)
    (hfit : ∀ L, parse9 txt = some L → ∀ s ∈ streamsOf L, C10.FitsFs s) :
    ∃ tr, C10.fsLoad txt = some tr ∧
      (∀ d ∈ (marshal9 hash max k t).2.1, ∀ f ∈ d.files, ∃ e ∈ tr.files, e.1 = d.path ++ [f.1] ∧
        C10.segBytes (blkOf (marshal9 hash max k t).1.store) e.2 = C08.abs (marshal9 hash max k t).1.store f.2) ∧
      (∀ e ∈ tr.files, ∃ d ∈ (marshal9 hash max k t).2.1, ∃ f ∈ d.files, e.1 = d.path ++ [f.1]) ∧
      (∀ p ∈ tr.dirs, p ∈ dirPaths t) ∧
      (∀ p ∈ dirPaths t, p ≠ [] → p ∈ tr.dirs) := by
  obtain ⟨c1, c2, _⟩ := shapeOK_sound t hshape
  exact C09_marshal_fsLoad hh hok hnd c1 c2 h hfit

/-- the example tree below passes the check; a list whose directory `d/e` lacks its parent does not -/
example : shapeOK [⟨[], [([97], FileNode.empty)], 1⟩, ⟨[[100]], [], 1⟩, ⟨[[100], [101]], [], 0⟩] = true := by decide +kernel
example : shapeOK [⟨[], [([97], FileNode.empty)], 0⟩, ⟨[[100], [101]], [], 0⟩] = false := by decide +kernel
example : shapeOK [⟨[], [([100], FileNode.empty)], 1⟩, ⟨[[100]], [], 0⟩] = false := by decide +kernel

/-! ### non-vacuity of `C09_marshal_fsLoad` (and, through it, of `C09_loader_reads_markers`) -/

/-- root file `a` (two buffered segments), directory `d` holding the empty file `x y` and the empty directory `e` -/
def exTree2 : Tree9 :=
  [⟨[], [([97], ⟨[Seg.mem [1, 2, 3] C08.Flush.none, Seg.mem [4] C08.Flush.none], 4, 0⟩)], 1⟩,
   ⟨[[100]], [([120, 32, 121], FileNode.empty)], 1⟩,
   ⟨[[100], [101]], [], 0⟩]

example : SaveOK 4 exHash exKeep0 exTree2 := by
  refine ⟨⟨fun l b h => (by cases h), fun b hb => (by cases hb)⟩, ?_, by decide, ?_, ?_, ?_, ?_⟩
  · intro d hd fn hfn s hs
    simp only [exTree2, List.mem_cons, List.not_mem_nil, or_false] at hd
    rcases hd with rfl | rfl | rfl
    · simp only [List.map_cons, List.map_nil, List.mem_singleton] at hfn
      subst hfn
      simp only [List.mem_cons, List.not_mem_nil, or_false] at hs
      rcases hs with rfl | rfl
      · exact ⟨by decide, by decide, fun i l h => (by cases h)⟩
      · exact ⟨by decide, by decide, fun i l h => (by cases h)⟩
    · simp only [List.map_cons, List.map_nil, List.mem_singleton] at hfn
      subst hfn; cases hs
    · cases hfn
  · intro d hd
    simp only [exTree2, List.mem_cons, List.not_mem_nil, or_false] at hd
    rcases hd with rfl | rfl | rfl <;> decide
  · intro d hd c hc
    simp only [exTree2, List.mem_cons, List.not_mem_nil, or_false] at hd
    rcases hd with rfl | rfl | rfl
    · cases hc
    · simp only [List.mem_singleton] at hc; subst hc; exact ⟨by decide, by decide, by decide, by decide⟩
    · simp only [List.mem_cons, List.not_mem_nil, or_false] at hc
      rcases hc with rfl | rfl <;> exact ⟨by decide, by decide, by decide, by decide⟩
  · intro d hd f hf
    simp only [exTree2, List.mem_cons, List.not_mem_nil, or_false] at hd
    rcases hd with rfl | rfl | rfl
    · simp only [List.mem_singleton] at hf; subst hf; exact ⟨by decide, by decide, by decide, by decide⟩
    · simp only [List.mem_singleton] at hf; subst hf; exact ⟨by decide, by decide, by decide, by decide⟩
    · cases hf
  · intro d hd f hf loc size off len hs
    simp only [exTree2, List.mem_cons, List.not_mem_nil, or_false] at hd
    rcases hd with rfl | rfl | rfl
    · simp only [List.mem_singleton] at hf; subst hf
      simp only [List.mem_cons, List.not_mem_nil, or_false] at hs
      rcases hs with hs | hs <;> cases hs
    · simp only [List.mem_singleton] at hf; subst hf; cases hs
    · cases hf

example : TreeClosed exTree2 := by
  constructor
  · intro d hd hne
    simp only [exTree2, List.mem_cons, List.not_mem_nil, or_false] at hd
    rcases hd with rfl | rfl | rfl
    · exact absurd rfl hne
    · decide
    · decide
  · intro d hd hsub
    simp only [exTree2, List.mem_cons, List.not_mem_nil, or_false] at hd
    rcases hd with rfl | rfl | rfl
    · exact ⟨_, List.mem_cons_of_mem _ List.mem_cons_self, [100], rfl⟩
    · exact ⟨_, List.mem_cons_of_mem _ (List.mem_cons_of_mem _ List.mem_cons_self), [101], rfl⟩
    · simp at hsub

example : ∀ d ∈ exTree2, ∀ f ∈ d.files, d.path ++ [f.1] ∉ dirPaths exTree2 := by
  intro d hd f hf
  simp only [exTree2, List.mem_cons, List.not_mem_nil, or_false] at hd
  rcases hd with rfl | rfl | rfl
  · simp only [List.mem_singleton] at hf; subst hf; decide
  · simp only [List.mem_singleton] at hf; subst hf; decide
  · cases hf

/-- the saved text has a marker line, and `loadManifest` reads it into the directory `d/e` -/
example : (match (marshal9 exHash 4 exKeep0 exTree2).2.2 with
    | MRes.ok txt => ((parse9 txt).map markersOf, (C10.fsLoad txt).map (fun tr => (tr.dirs, tr.files.map (·.1))))
    | _ => (none, none)) =
    (some [[46, 47, 100, 47, 101]], some ([[[100]], [[100], [101]]], [[[97]], [[100], [120, 32, 121]]])) := by
  decide +kernel

/-- the saved text of that tree parses and the loader can represent the sizes in it -/
example : (match (marshal9 exHash 4 exKeep0 exTree2).2.2 with
    | MRes.ok txt =>
      (match parse9 txt with
       | some L => (streamsOf L).all (fun s => s.blocks.all (fun b => decide (b.size < C10.two31)) &&
           decide (C10.streamLen s.blocks < C10.two63))
       | none => false)
    | _ => false) = true := by decide +kernel

end ArvVerif.C09
