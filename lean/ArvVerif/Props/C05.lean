import ArvVerif.Model.C05
namespace ArvVerif.C05
end ArvVerif.C05
