/-
C05 — keep-balance never trashes a replica that is still needed or too new.

All theorems are about `balanceBlock env classes sorter mounts reps` (Model/C05.lean) for ANY number
of services, mounts and classes, any flags, replication counts, device ids and timestamps, and for
EVERY behaviour of the unstable per-class sort: `sorter` is arbitrary, the only hypothesis
(`BalanceOK` / `PlanOK`) is that each of its calls during the run returned a permutation of its
input that is sorted w.r.t. the code's comparator. `plan` adds cleanupMounts and setupLookupTables
in front.

Findings. `C05_trash_safe_Full` (the central clause at full strength) is FALSE of the model and of
the code (F1, F2 — `C05_trash_safe_full_fails`); it is proved under one mount per server and no
device mounted twice (`C05_trash_safe_partial`). `C05_lost_Full` is false when no mount is writable
(F12 — `C05_lost_full_fails`); `C05_lost_reported` is the exact characterisation.
-/
import ArvVerif.Proofs.C05Lost
import ArvVerif.Proofs.C05Setup
import ArvVerif.Proofs.C05Witness
namespace ArvVerif.C05

variable (env : Env) (classes : List Class) (sorter : Class → List Slot → List Slot)
  (mounts : List Mount) (reps : List Replica)

/-- `plan`'s sort calls all returned sorted permutations -/
def PlanOK (env : Env) (dflt : Class) (sorter : Class → List Slot → List Slot)
    (svcs : List RawService) (reps : List Replica) : Prop :=
  BalanceOK env (classesOf dflt (cleanupMounts svcs)) sorter (effMounts dflt (cleanupMounts svcs)) reps

/-! ## trash: age -/

/-- Every emitted trash names a slot that holds a replica with exactly that mtime, and the mtime is
older than `MinMtime` (now − BlobSignatureTTL). No hypothesis at all (not even on the sort). -/
theorem C05_no_trash_newer_than_ttl (p : Slot × Change) (t : Int)
    (hp : p ∈ (balanceBlock env classes sorter mounts reps).changes) (ht : p.2 = .trash t) :
    p.1.repl = some t ∧ t < env.minMtime := by
  have h := mem_changes hp
  have := change_trash (h.2 ▸ ht)
  exact ⟨this.1, this.2.2⟩

example : ∃ p ∈ okResult.changes, p.2 = .trash 800 := by decide

/-! ## trash: read-only -/

/-- No trash names a read-only mount (read-only as balanceBlock sees it, i.e. after
setupLookupTables merged the server flag into the mount flag). -/
theorem C05_no_trash_on_readonly_mount (hok : BalanceOK env classes sorter mounts reps)
    (p : Slot × Change) (t : Int)
    (hp : p ∈ (balanceBlock env classes sorter mounts reps).changes) (ht : p.2 = .trash t) :
    p.1.mnt.ro = false ∧ p.1.mnt ∈ mounts := by
  have h := mem_changes hp
  have htr := change_trash (h.2 ▸ ht)
  have hq := final_forall (fun s => (s.repl.isSome = true → s.mnt.ro = true → s.want = true) ∧ s.mnt ∈ mounts)
    (fun s hs => ⟨fun _ _ => rfl, hs.2⟩) hok
    (fun s hs => by
      have := mem_initSlots hs
      refine ⟨fun h1 h2 => ?_, this.1⟩
      rw [this.2.2, h1, h2]; rfl) p.1 h.1
  refine ⟨?_, hq.2⟩
  cases hro : p.1.mnt.ro with
  | false => rfl
  | true =>
    have := hq.1 (by rw [htr.1]; rfl) hro
    rw [htr.2.1] at this; cases this

/-- End to end: a trash computed from the discovered layout names a mount that is not read-only and
sits on a service that is not read-only. -/
theorem C05_no_trash_on_readonly (dflt : Class) (svcs : List RawService)
    (hok : PlanOK env dflt sorter svcs reps) (p : Slot × Change) (t : Int)
    (hp : p ∈ (plan env dflt sorter svcs reps).changes) (ht : p.2 = .trash t) :
    ∃ sv ∈ svcs, ∃ rm ∈ sv.mounts, rm.id = p.1.mnt.id ∧ sv.id = p.1.mnt.srv ∧ rm.ro = false ∧ sv.ro = false := by
  have h := C05_no_trash_on_readonly_mount env _ sorter _ reps hok p t hp ht
  obtain ⟨s, hs, rm, hrm, e⟩ := mem_effMounts.1 h.2
  obtain ⟨s0, hs0, m0, hm0, e1, e2, rfl, _⟩ := mem_cleanup_mount hs hrm
  have hro : m0.ro = false ∧ s0.ro = false := by
    have := h.1
    rw [e] at this
    simpa [effMount, e2] using this
  refine ⟨s0, hs0, m0, hm0, ?_, ?_, hro.1, hro.2⟩
  · rw [e]; simp [effMount]
  · rw [e]; simp [effMount, e1]

/-- non-vacuity: on a layout with read-only mounts and a read-only service a trash is still issued
somewhere (service 0), and nothing is trashed on the read-only ones -/
example :
    PlanOK roEnv 1 (wSorter roEnv) rawLayout roReps ∧
    ((plan roEnv 1 (wSorter roEnv) rawLayout roReps).changes.map (fun p => (p.1.mnt.id, p.2))) =
      [(2, .stay), (0, .trash 900), (3, .stay)] := by
  refine ⟨?_, by decide⟩
  unfold PlanOK BalanceOK
  rw [show classesOf 1 (cleanupMounts rawLayout) = [1, 3] from by decide]
  simp only [RunOK]
  decide

/-! ## trash: under-replication -/

/-- If the code's own under-replication test fires for some class of the loop (the in-class
replication it counts is below desired), no trash is emitted for the block at all. -/
theorem C05_underreplicated_no_trash (hok : BalanceOK env classes sorter mounts reps)
    (c : Class) (hc : c ∈ classes) (hd : env.desired c ≠ 0)
    (hu : classRepl c (initSlots mounts reps) < env.desired c) :
    ∀ p ∈ (balanceBlock env classes sorter mounts reps).changes, ∀ t, p.2 ≠ .trash t := by
  intro p hp t ht
  have h := mem_changes hp
  have htr := change_trash (h.2 ▸ ht)
  have hur : (balanceBlock env classes sorter mounts reps).final.underrep = true :=
    runClasses_underrep env sorter c classes _ hok hc hd hu
  -- every final slot with a replica is wanted
  have hs := h.1
  unfold finalWant at hs
  obtain ⟨s0, _, e⟩ := List.mem_map.1 hs
  have hr0 : s0.repl = some t := by rw [← e] at htr; simpa using htr.1
  have hw : (finalSlot (balanceBlock env classes sorter mounts reps).final s0).want = true := by
    unfold finalSlot
    rw [hr0]
    simp only [hur, Bool.true_or, if_true]
  rw [e, htr.2.1] at hw
  cases hw

/-- …and that test is sound for the physical reading when no device is mounted twice: a class
whose replication over distinct devices is below desired blocks every trash. (False with a device
mounted on two servers: F1.) -/
theorem C05_underreplicated_sound (hok : BalanceOK env classes sorter mounts reps)
    (hid : mounts.Pairwise (fun a b => a.id ≠ b.id)) (hdev : mounts.Pairwise (fun a b => a.dev = b.dev → a.dev = 0))
    (c : Class) (hc : c ∈ classes) (hd : env.desired c ≠ 0)
    (hu : physRepl c (balanceBlock env classes sorter mounts reps).heldBefore < env.desired c) :
    ∀ p ∈ (balanceBlock env classes sorter mounts reps).changes, ∀ t, p.2 ≠ .trash t := by
  apply C05_underreplicated_no_trash env classes sorter mounts reps hok c hc hd
  have hap : mounts.Pairwise DevApart := (hid.and hdev).imp (fun {a b} h => ⟨h.1, h.2⟩)
  have hap0 : ((initSlots mounts reps).map (·.mnt)).Pairwise DevApart := by rw [initSlots_mnt]; exact hap
  have hrel := runClasses_coreRel env sorter classes _ hok
  have hrelF := (coreRel_finalWant (balanceBlock env classes sorter mounts reps).final).trans hrel
  have hapF := devApart_pairwise_of_perm (coreRel_mnt_perm hrelF) hap0
  have e := physRepl_before env reps c _ (balanceBlock env classes sorter mounts reps).final hapF
  have e' : physRepl c (balanceBlock env classes sorter mounts reps).heldBefore =
      ssum (haveTerm c) (finalWant (balanceBlock env classes sorter mounts reps).final) := e
  rw [e', haveSum_coreRel c hrelF, ← classRepl_eq_ssum] at hu
  exact hu

/-- non-vacuity: desired 3 with two replicas (one badly placed and old) — nothing is trashed -/
example :
    let env := wEnv (fun c => if c = 0 then 3 else 0)
    BalanceOK env [0] (wSorter env) okMounts okReps ∧ okMounts.Pairwise DevApart ∧
    physRepl 0 (balanceBlock env [0] (wSorter env) okMounts okReps).heldBefore = 3 ∧
    BalanceOK env [0] (wSorter env) okMounts [⟨2, 2, 900⟩, ⟨3, 3, 800⟩] ∧
    physRepl 0 (balanceBlock env [0] (wSorter env) okMounts [⟨2, 2, 900⟩, ⟨3, 3, 800⟩]).heldBefore = 2 := by
  refine ⟨?_, by unfold DevApart; decide, by decide, ?_, by decide⟩ <;>
  · unfold BalanceOK; simp only [RunOK]; decide

/-! ## pulls -/

/-- Every pull targets a writable mount of the layout that lacks the block, is emitted only when
the block has a replica, and names as source the service of a replica (`blk.Replicas[0]`). -/
theorem C05_pull_targets (hok : BalanceOK env classes sorter mounts reps)
    (p : Slot × Change) (src : Option Nat)
    (hp : p ∈ (balanceBlock env classes sorter mounts reps).changes) (hpull : p.2 = .pull src) :
    p.1.mnt ∈ mounts ∧ p.1.mnt.ro = false ∧ replicaOn reps p.1.mnt.id = none ∧
    ∃ r ∈ reps, src = some r.srv := by
  have h := mem_changes hp
  have hpl := change_pull (h.2 ▸ hpull)
  have hq := final_forall (fun s => s.mnt ∈ mounts ∧ s.repl = replicaOn reps s.mnt.id)
    (fun s hs => hs) hok (fun s hs => ⟨(mem_initSlots hs).1, (mem_initSlots hs).2.1⟩) p.1 h.1
  obtain ⟨r, rest, hr, hsrc⟩ := hpl.2.2.2
  exact ⟨hq.1, hpl.2.2.1, by rw [← hq.2]; exact hpl.1, r, by rw [hr]; exact List.mem_cons_self .., hsrc⟩

example : okMounts.Pairwise Apart ∧ ∃ p ∈ okResult.changes, p.2 = .pull (some 1) := by
  refine ⟨by unfold Apart; decide, by decide⟩

/-! ## lost -/

/-- Exactly when `lost` is reported: the block has no replica, some class of the loop has desired
> 0, and some mount is writable. -/
theorem C05_lost_reported (hok : BalanceOK env classes sorter mounts reps) (hid : DistinctIds mounts) :
    (balanceBlock env classes sorter mounts reps).lost = true ↔
      reps = [] ∧ (∃ c ∈ classes, env.desired c ≠ 0) ∧ ∃ m ∈ mounts, m.ro = false := by
  constructor
  · intro hl
    unfold Result.lost at hl
    obtain ⟨p, hp, hpl⟩ := List.any_eq_true.1 hl
    have hpl' : p.2 = .lost := by simpa using hpl
    have h := mem_changes hp
    have hch := change_lost.1 (h.2 ▸ hpl')
    refine ⟨hch.2.2, ?_, ?_⟩
    · -- some class is active, otherwise nothing is ever wanted
      apply Classical.byContradiction
      intro hno
      have hz : ∀ c ∈ classes, env.desired c = 0 := by
        intro c hc
        apply Classical.byContradiction
        intro hne
        exact hno ⟨c, hc, hne⟩
      have hfin : (balanceBlock env classes sorter mounts reps).final =
          { slots := initSlots mounts reps, utd := [], underrep := false } :=
        runClasses_all_zero env sorter classes _ hz
      have hs := h.1
      rw [hfin] at hs
      unfold finalWant at hs
      obtain ⟨s0, hs0, e⟩ := List.mem_map.1 hs
      have hr0 : s0.repl = none := by rw [← e] at hch; simpa using hch.1
      have : finalSlot { slots := initSlots mounts reps, utd := [], underrep := false } s0 = s0 := by
        unfold finalSlot; rw [hr0]
      rw [this] at e
      have hw0 := (mem_initSlots hs0).2.2
      rw [hr0] at hw0
      rw [← e] at hch
      rw [hw0] at hch
      cases hch.2.1
    · have hinv : EmptyWantWritable (balanceBlock env classes sorter mounts reps).final :=
        runClasses_inv env sorter EmptyWantWritable
          (fun c b _ hS hI => classIter_emptyWantWritable env c _ b hS.1 hI) classes _ hok
          (initSlots_emptyWantWritable mounts reps hid)
      have hs := h.1
      unfold finalWant at hs
      obtain ⟨s0, hs0, e⟩ := List.mem_map.1 hs
      have hr0 : s0.repl = none := by rw [← e] at hch; simpa using hch.1
      have hfs : finalSlot (balanceBlock env classes sorter mounts reps).final s0 = s0 := by
        unfold finalSlot; rw [hr0]
      rw [hfs] at e
      rw [← e] at hch
      have hro := hinv.2 s0 hs0 hch.1 hch.2.1
      have hm := runClasses_forall (fun s => s.mnt ∈ mounts) (fun s hs => hs) env sorter classes _ hok
        (fun s hs => (mem_initSlots hs).1) s0 hs0
      exact ⟨s0.mnt, hm, hro⟩
  · rintro ⟨hreps, hact, ⟨m, hm, hro⟩⟩
    subst hreps
    have hnone0 : ∀ s ∈ initSlots mounts [], s.repl = none := by
      intro s hs; rw [(mem_initSlots hs).2.1]; rfl
    have hw0 : ∃ w ∈ initSlots mounts [], w.mnt.ro = false := by
      refine ⟨{ mnt := m, repl := replicaOn [] m.id, want := (replicaOn [] m.id).isSome && m.ro }, ?_, hro⟩
      unfold initSlots
      exact List.mem_map.2 ⟨m, hm, rfl⟩
    obtain ⟨s, hs, hw⟩ := runClasses_wants env sorter classes _ hok hnone0 hw0 hact
    have hnone : s.repl = none :=
      runClasses_forall (fun s => s.repl = none) (fun s hs => hs) env sorter classes _ hok hnone0 s hs
    unfold Result.lost
    rw [List.any_eq_true]
    refine ⟨(finalSlot (balanceBlock env classes sorter mounts []).final s,
      change env [] (finalSlot (balanceBlock env classes sorter mounts []).final s)), ?_, ?_⟩
    · unfold balanceBlock
      exact List.mem_map.2 ⟨_, List.mem_map.2 ⟨s, hs, rfl⟩, rfl⟩
    · have hfs : finalSlot (balanceBlock env classes sorter mounts []).final s = s := by
        unfold finalSlot; rw [hnone]
      rw [hfs, change_lost.2 ⟨hnone, hw, rfl⟩]
      rfl

/-- The property's wording at full strength: a referenced block (desired > 0 for a class of the
loop) without any replica is reported lost. -/
def C05_lost_Full : Prop :=
  ∀ (env : Env) (classes : List Class) (sorter : Class → List Slot → List Slot) (mounts : List Mount),
    BalanceOK env classes sorter mounts [] → DistinctIds mounts → (∃ c ∈ classes, env.desired c ≠ 0) →
    (balanceBlock env classes sorter mounts []).lost = true

/-- F12: with one read-only mount, desired 2 and no replica, nothing is reported. -/
theorem C05_lost_full_fails : ¬ C05_lost_Full := by
  intro h
  have := h f12Env [0] (wSorter f12Env) f12Mounts
    (by unfold BalanceOK; simp only [RunOK]; decide) (by unfold DistinctIds; decide) ⟨0, by decide, by decide⟩
  revert this
  decide

/-- what does hold: lost is reported as soon as some mount is writable -/
theorem C05_lost_partial (hok : BalanceOK env classes sorter mounts []) (hid : DistinctIds mounts)
    (hact : ∃ c ∈ classes, env.desired c ≠ 0) (hw : ∃ m ∈ mounts, m.ro = false) :
    (balanceBlock env classes sorter mounts []).lost = true :=
  (C05_lost_reported env classes sorter mounts [] hok hid).2 ⟨rfl, hact, hw⟩

example : BalanceOK okEnv [0] (wSorter okEnv) okMounts [] ∧ DistinctIds okMounts ∧
    (balanceBlock okEnv [0] (wSorter okEnv) okMounts []).lost = true := by
  refine ⟨?_, by unfold DistinctIds; decide, by decide⟩
  unfold BalanceOK; simp only [RunOK]; decide

/-! ## what is sent to keepstore -/

/-- A trash request carries the bare hash (first 32 characters of the block id), the mtime that was
observed for the replica on that mount (the last index entry naming it), and that mount's UUID;
a pull request carries the bare hash, the URL of the service of `blk.Replicas[0]`, and the target
mount's UUID. The JSON texts have exactly the keepstore field names. -/
theorem C05_json_shape (hok : BalanceOK env classes sorter mounts reps)
    (blkid hash size : List Char) (hb : blkid = hash ++ '+' :: size) (hl : hash.length = 32)
    (uuidOf urlOf : Nat → List Char) :
    (∀ s t, (s, t) ∈ (balanceBlock env classes sorter mounts reps).trashes →
      let q := trashReq blkid uuidOf s t
      q.locator = hash ∧ q.blockMtime = t ∧ replicaOn reps s.mnt.id = some t ∧ q.mountUUID = uuidOf s.mnt.id ∧
      s.mnt ∈ mounts ∧
      q.json = "{\"locator\":" ++ quote hash ++ ",\"block_mtime\":" ++ toString t ++ ",\"mount_uuid\":" ++
        quote (uuidOf s.mnt.id) ++ "}") ∧
    (∀ s src, (s, Change.pull (some src)) ∈ (balanceBlock env classes sorter mounts reps).changes →
      let q := pullReq blkid uuidOf urlOf s src
      q.locator = hash ∧ q.servers = [urlOf src] ∧ (∃ r ∈ reps, r.srv = src) ∧ q.mountUUID = uuidOf s.mnt.id ∧
      q.json = "{\"locator\":" ++ quote hash ++ ",\"servers\":[" ++ quote (urlOf src) ++ "],\"mount_uuid\":" ++
        quote (uuidOf s.mnt.id) ++ "}") := by
  have hloc : locatorOf blkid = hash := by
    unfold locatorOf; rw [hb, ← hl]; simp
  constructor
  · intro s t hst
    have hp := mem_trashes.1 hst
    have h := mem_changes hp
    have htr := change_trash (show change env reps s = Change.trash t from h.2.symm)
    have hq := final_forall (fun s => s.mnt ∈ mounts ∧ s.repl = replicaOn reps s.mnt.id)
      (fun s hs => hs) hok (fun s hs => ⟨(mem_initSlots hs).1, (mem_initSlots hs).2.1⟩) s h.1
    refine ⟨hloc, rfl, by rw [← hq.2]; exact htr.1, rfl, hq.1, ?_⟩
    simp only [TrashReq.json, trashReq, hloc]
  · intro s src hp
    have hpl := C05_pull_targets env classes sorter mounts reps hok _ _ hp rfl
    obtain ⟨r, hr, hsrc⟩ := hpl.2.2.2
    refine ⟨hloc, rfl, ⟨r, hr, by simpa using hsrc.symm⟩, rfl, ?_⟩
    simp only [PullReq.json, pullReq, hloc, List.map_cons, List.map_nil]
    rfl

example : (trashReq "acbd18db4cc2f85cedef654fccc4a4d8+3".toList (fun _ => "zzzzz-nyw5e-000000000000000".toList)
    ⟨mkMount 0 0 0 [0], some 12345, false⟩ 12345).json =
    "{\"locator\":\"acbd18db4cc2f85cedef654fccc4a4d8\",\"block_mtime\":12345,\"mount_uuid\":\"zzzzz-nyw5e-000000000000000\"}" := by
  decide

/-! ## cleanupMounts / setupLookupTables -/

/-- After cleanupMounts no read-only mount shares a non-blank device with a writable mount; nothing
else is dropped (a writable mount, or a mount whose device is not read-write anywhere, is kept); and
every replication count is ≥ 1. -/
theorem C05_cleanup_drops_ro_duplicates (svcs : List RawService) :
    (∀ s ∈ cleanupMounts svcs, ∀ m ∈ s.mounts, m.ro = true → m.dev ≠ 0 →
      ∀ s' ∈ cleanupMounts svcs, ∀ m' ∈ s'.mounts, m'.dev = m.dev → m'.ro = true) ∧
    (∀ s0 ∈ svcs, ∀ m0 ∈ s0.mounts, (m0.ro = false ∨ (rwDevs svcs).contains m0.dev = false) →
      ∃ s ∈ cleanupMounts svcs, s.id = s0.id ∧ s.ro = s0.ro ∧ fixRepl m0 ∈ s.mounts) ∧
    (∀ s ∈ cleanupMounts svcs, ∀ m ∈ s.mounts, 1 ≤ m.repl) :=
  ⟨cleanup_no_ro_duplicate svcs, fun s0 hs0 m0 hm0 h => cleanup_keeps svcs s0 hs0 m0 hm0 h, cleanup_repl_pos svcs⟩

example : (cleanupMounts rawLayout).map (fun s => s.mounts.map (fun m => (m.id, m.repl))) = [[(0, 2)], [(2, 1)], [(3, 1)]] := by
  decide

/-- setupLookupTables: the mounts balanceBlock sees are the mounts of the services, read-only if the
mount or its service is, in class `default` when they list none; `bal.classes` is `default` plus
every listed class, sorted, without duplicates. -/
theorem C05_setup_tables (dflt : Class) (svcs : List RawService) :
    (∀ m, m ∈ effMounts dflt svcs ↔ ∃ s ∈ svcs, ∃ rm ∈ s.mounts, m = effMount dflt s rm) ∧
    (∀ s rm, (effMount dflt s rm).ro = (rm.ro || s.ro) ∧
      (effMount dflt s rm).classes = (if rm.classes.isEmpty then [dflt] else rm.classes)) ∧
    (∀ c, c ∈ classesOf dflt svcs ↔ c = dflt ∨ ∃ m ∈ allRawMounts svcs, c ∈ m.classes) ∧
    (classesOf dflt svcs).Pairwise (· ≤ ·) ∧ (classesOf dflt svcs).Nodup :=
  ⟨fun _ => mem_effMounts, fun _ _ => ⟨rfl, rfl⟩, (classesOf_spec dflt svcs).1, (classesOf_spec dflt svcs).2.1,
    (classesOf_spec dflt svcs).2.2⟩

example : classesOf 1 (cleanupMounts rawLayout) = [1, 3] ∧
    (effMounts 1 (cleanupMounts rawLayout)).map (fun m => (m.id, m.ro, m.classes)) =
      [(0, false, [1]), (2, true, [1]), (3, true, [3])] := by decide

/-! ## the central clause -/

/-- mounts of one device agree on classes and replication (a device has one configuration) -/
def DeviceConsistent (mounts : List Mount) : Prop :=
  ∀ a ∈ mounts, ∀ b ∈ mounts, a.dev ≠ 0 → a.dev = b.dev → a.classes = b.classes ∧ a.repl = b.repl

/-- `C05_trash_safe` at full strength: carrying out every computed trash request while no pull
succeeds leaves each class of the loop with desired d > 0 at replication ≥ min(d, previous),
counted over distinct physical devices — for every layout. -/
def C05_trash_safe_Full : Prop :=
  ∀ (env : Env) (classes : List Class) (sorter : Class → List Slot → List Slot) (mounts : List Mount)
    (reps : List Replica),
    BalanceOK env classes sorter mounts reps → DistinctIds mounts → DeviceConsistent mounts →
    ∀ c ∈ classes, env.desired c ≠ 0 →
      min (env.desired c) (physRepl c (balanceBlock env classes sorter mounts reps).heldBefore) ≤
        physRepl c (balanceBlock env classes sorter mounts reps).heldAfter

/-- the F1 layout (a device mounted on two servers) refutes the full statement: before 2, after 1 -/
theorem C05_trash_safe_fails_F1 :
    BalanceOK f1Env [0] (wSorter f1Env) f1Mounts f1Reps ∧ DistinctIds f1Mounts ∧ DeviceConsistent f1Mounts ∧
    f1Mounts.Pairwise (fun a b => a.srv ≠ b.srv) ∧
    physRepl 0 f1Result.heldBefore = 2 ∧ physRepl 0 f1Result.heldAfter = 1 := by
  refine ⟨?_, by unfold DistinctIds; decide, by unfold DeviceConsistent; decide, by decide, by decide, by decide⟩
  unfold BalanceOK; simp only [RunOK]; decide

/-- the F2 layout (two mounts on one server, no shared device) refutes it too: before 2, after 1 -/
theorem C05_trash_safe_fails_F2 :
    BalanceOK f2Env [0, 1] (wSorter f2Env) f2Mounts f2Reps ∧ DistinctIds f2Mounts ∧ DeviceConsistent f2Mounts ∧
    f2Mounts.Pairwise (fun a b => a.dev = b.dev → a.dev = 0) ∧
    physRepl 1 f2Result.heldBefore = 2 ∧ physRepl 1 f2Result.heldAfter = 1 := by
  refine ⟨?_, by unfold DistinctIds; decide, by unfold DeviceConsistent; decide, by decide, by decide, by decide⟩
  unfold BalanceOK; simp only [RunOK]; decide

theorem C05_trash_safe_full_fails : ¬ C05_trash_safe_Full := by
  intro h
  have w := C05_trash_safe_fails_F1
  have := h f1Env [0] (wSorter f1Env) f1Mounts f1Reps w.1 w.2.1 w.2.2.1 0 (by decide) (by decide)
  have e1 : physRepl 0 (balanceBlock f1Env [0] (wSorter f1Env) f1Mounts f1Reps).heldBefore = 2 := w.2.2.2.2.1
  have e2 : physRepl 0 (balanceBlock f1Env [0] (wSorter f1Env) f1Mounts f1Reps).heldAfter = 1 := w.2.2.2.2.2
  rw [e1, e2] at this
  revert this
  decide

/-- the same from F2 alone: excluding shared devices is not enough -/
theorem C05_trash_safe_full_fails_F2 : ¬ C05_trash_safe_Full := by
  intro h
  have w := C05_trash_safe_fails_F2
  have := h f2Env [0, 1] (wSorter f2Env) f2Mounts f2Reps w.1 w.2.1 w.2.2.1 1 (by decide) (by decide)
  have e1 : physRepl 1 (balanceBlock f2Env [0, 1] (wSorter f2Env) f2Mounts f2Reps).heldBefore = 2 := w.2.2.2.2.1
  have e2 : physRepl 1 (balanceBlock f2Env [0, 1] (wSorter f2Env) f2Mounts f2Reps).heldAfter = 1 := w.2.2.2.2.2
  rw [e1, e2] at this
  revert this
  decide

/-- no device id is used by two mounts (blank ids are private) -/
def NoSharedDevice (mounts : List Mount) : Prop := mounts.Pairwise (fun a b => a.dev = b.dev → a.dev = 0)
/-- no two mounts on one server -/
def OneMountPerServer (mounts : List Mount) : Prop := mounts.Pairwise (fun a b => a.srv ≠ b.srv)

/-- `C05_trash_safe` for layouts with one mount per server and no shared device: for every class of
the loop with desired d > 0, after executing all trashes (no pull succeeding) the replication of
the class over distinct physical devices is ≥ min(d, what it was). Any number of services and
classes, any flags/replication/timestamps, every behaviour of the unstable sort. -/
theorem C05_trash_safe_partial (hok : BalanceOK env classes sorter mounts reps)
    (hid : DistinctIds mounts) (hdev : NoSharedDevice mounts) (hsrv : OneMountPerServer mounts)
    (c : Class) (hc : c ∈ classes) (hd : env.desired c ≠ 0) :
    min (env.desired c) (physRepl c (balanceBlock env classes sorter mounts reps).heldBefore) ≤
      physRepl c (balanceBlock env classes sorter mounts reps).heldAfter := by
  apply trash_safe_of_apart env classes sorter mounts reps hok _ c hc hd
  unfold DistinctIds at hid
  unfold NoSharedDevice at hdev
  unfold OneMountPerServer at hsrv
  exact ((hid.and hsrv).and hdev).imp (fun {a b} h => ⟨h.1.1, h.1.2, h.2⟩)

/-- Weaker hypothesis for servers with several mounts: no shared device, and every replica of the
block sits on a mount of class `c` (nothing outside the class can absorb the protection — the
ingredient of F2). Any number of mounts per server. -/
theorem C05_trash_safe_partial_multimount (hok : BalanceOK env classes sorter mounts reps)
    (hid : DistinctIds mounts) (hdev : NoSharedDevice mounts)
    (c : Class) (hc : c ∈ classes) (hd : env.desired c ≠ 0)
    (hall : ∀ m ∈ mounts, (replicaOn reps m.id).isSome = true → inClass c m = true) :
    min (env.desired c) (physRepl c (balanceBlock env classes sorter mounts reps).heldBefore) ≤
      physRepl c (balanceBlock env classes sorter mounts reps).heldAfter := by
  apply trash_safe_of_inclass env classes sorter mounts reps hok _ c hc hd hall
  unfold DistinctIds at hid
  unfold NoSharedDevice at hdev
  exact (hid.and hdev).imp (fun {a b} h => ⟨h.1, h.2⟩)

/-- In particular a cluster without storage classes (every mount in the one class), with any number
of mounts per server and no shared device, is safe. -/
theorem C05_trash_safe_single_class (hok : BalanceOK env classes sorter mounts reps)
    (hid : DistinctIds mounts) (hdev : NoSharedDevice mounts)
    (c : Class) (hc : c ∈ classes) (hd : env.desired c ≠ 0) (hall : ∀ m ∈ mounts, inClass c m = true) :
    min (env.desired c) (physRepl c (balanceBlock env classes sorter mounts reps).heldBefore) ≤
      physRepl c (balanceBlock env classes sorter mounts reps).heldAfter :=
  C05_trash_safe_partial_multimount env classes sorter mounts reps hok hid hdev c hc hd (fun m hm _ => hall m hm)

/-- non-vacuity: two servers with two mounts each (distinct devices, all in class 0), replicas on
three mounts, desired 2: one replica is trashed, two remain -/
example :
    let ms : List Mount := [mkMount 0 0 1 [0], mkMount 1 0 2 [0], mkMount 2 1 3 [0], mkMount 3 1 4 [0]]
    let rs : List Replica := [⟨0, 0, 900⟩, ⟨1, 0, 901⟩, ⟨2, 1, 902⟩]
    BalanceOK okEnv [0] (wSorter okEnv) ms rs ∧ DistinctIds ms ∧ NoSharedDevice ms ∧ (∀ m ∈ ms, inClass 0 m = true) ∧
    physRepl 0 (balanceBlock okEnv [0] (wSorter okEnv) ms rs).heldBefore = 3 ∧
    physRepl 0 (balanceBlock okEnv [0] (wSorter okEnv) ms rs).heldAfter = 2 := by
  refine ⟨?_, by unfold DistinctIds; decide, by unfold NoSharedDevice; decide, by decide, by decide, by decide⟩
  unfold BalanceOK; simp only [RunOK]; decide

/-- non-vacuity: in the quadrant, a layout with a pull, a kept-because-new, a protected and a
trashed replica; replication 2 before among old+new, 2 after -/
example : BalanceOK okEnv [0] (wSorter okEnv) okMounts okReps ∧ DistinctIds okMounts ∧ NoSharedDevice okMounts ∧
    OneMountPerServer okMounts ∧ physRepl 0 okResult.heldBefore = 3 ∧ physRepl 0 okResult.heldAfter = 2 ∧
    okResult.changes.map (fun p => (p.1.mnt.id, p.2)) = [(0, .pull (some 1)), (1, .stay), (2, .stay), (3, .trash 800)] := by
  refine ⟨?_, by unfold DistinctIds; decide, by unfold NoSharedDevice; decide, by unfold OneMountPerServer; decide,
    by decide, by decide, by decide⟩
  unfold BalanceOK; simp only [RunOK]; decide

end ArvVerif.C05
