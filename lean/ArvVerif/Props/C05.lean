/-
C05 — keep-balance never trashes a replica that is still needed or too new.

All theorems are about `balanceBlock env classes sorter mounts reps` (Model/C05.lean, the code after
the fix: commits for F1, F2, F12) for ANY number of services, mounts and classes, any flags,
replication counts, device ids (blank, unique, shared between servers) and timestamps, and for EVERY
behaviour of the unstable per-class sort: `sorter` is arbitrary, the only hypothesis (`BalancePerm` /
`PlanPerm`) is that each of its calls during the run returned a permutation of its input — not even
that it is sorted (`BalanceOK`, what `sort.Slice` guarantees, implies it). `plan` adds cleanupMounts and setupLookupTables in front.

The central clause `C05_trash_safe`, the physical under-replication clause and the lost clause hold
at full strength: no hypothesis on servers, devices or classes beyond (a) mount identities are
distinct (pointer identity in Go) and (b) mounts of one device agree on classes and replication
(a device has one configuration).
-/
import ArvVerif.Proofs.C05Lost
import ArvVerif.Proofs.C05Setup
import ArvVerif.Proofs.C05Plan
import ArvVerif.Proofs.C05Enum
import ArvVerif.Proofs.C05BlockState
import ArvVerif.Proofs.C05_Comparator
import ArvVerif.Proofs.C05Witness
namespace ArvVerif.C05

variable (env : Env) (classes : List Class) (sorter : Class → List Slot → List Slot)
  (mounts : List Mount) (reps : List Replica)

/-- `plan`'s sort calls all returned sorted permutations (what `sort.Slice` guarantees) -/
def PlanOK (env : Env) (dflt : Class) (sorter : Class → List Slot → List Slot)
    (svcs : List RawService) (reps : List Replica) : Prop :=
  BalanceOK env (classesOf dflt (cleanupMounts svcs)) sorter (effMounts dflt (cleanupMounts svcs)) reps

/-- `plan`'s sort calls all returned permutations (all the theorems below need) -/
def PlanPerm (env : Env) (dflt : Class) (sorter : Class → List Slot → List Slot)
    (svcs : List RawService) (reps : List Replica) : Prop :=
  BalancePerm env (classesOf dflt (cleanupMounts svcs)) sorter (effMounts dflt (cleanupMounts svcs)) reps

/-- The hypothesis of every theorem below, `BalancePerm`/`PlanPerm` ("each sort call returned some
permutation of its input"), holds for the real sort (`BalanceOK`: a permutation that is moreover
sorted w.r.t. the code's comparator) and for every choice the executable model makes from its
enumeration of possible sort results — so the theorems cover the code for every behaviour of the
unstable sort, and every outcome the model driver prints. -/
theorem C05_hypothesis_covers_sort_and_model (env : Env) (classes : List Class)
    (sorter : Class → List Slot → List Slot) (mounts : List Mount) (reps : List Replica) :
    (BalanceOK env classes sorter mounts reps → BalancePerm env classes sorter mounts reps) ∧
    ((∀ c l, ∃ rs, allSorted (less env c) l = some rs ∧ sorter c l ∈ rs) →
      BalancePerm env classes sorter mounts reps) :=
  ⟨BalanceOK.toPerm, fun h => runPerm_of_enumerated env sorter h classes _⟩

/-- The comparator balanceBlock hands to `sort.Slice` is a strict weak order whenever
`rendezvousLess` compares a weight of the device id (it compares MD5 digests; the driver's
`devLess` is of this form), and then the model's enumeration of sort results is EXACT: the lists it
produces for a class iteration are precisely the permutations of the slots that are sorted w.r.t.
the comparator — everything an unstable sort may return and nothing else. So the correspondence
check's membership test `implementation ∈ allowed(model)` neither misses an admissible behaviour
(no false alarm) nor admits an inadmissible one. -/
theorem C05_enumeration_exact (env : Env) (c : Class) (hw : DevLessByWeight env)
    (l : List Slot) (rs : List (List Slot)) (h : allSorted (less env c) l = some rs) (r : List Slot) :
    StrictWeak (less env c) ∧ (r ∈ rs ↔ IsSorted (less env c) l r) :=
  ⟨less_strictWeak env c hw, allSorted_exact (less_strictWeak env c hw) l rs h r⟩

/-- …and it does not depend on the order in which the slots reach the sort (the model driver
forgets that order between class iterations): permuted inputs have the same set of results. -/
theorem C05_enumeration_order_independent (env : Env) (c : Class) (hw : DevLessByWeight env)
    (l l' : List Slot) (hp : l.Perm l') (rs rs' : List (List Slot))
    (h : allSorted (less env c) l = some rs) (h' : allSorted (less env c) l' = some rs') (r : List Slot) :
    r ∈ rs ↔ r ∈ rs' := by
  rw [(C05_enumeration_exact env c hw l rs h r).2, (C05_enumeration_exact env c hw l' rs' h' r).2]
  unfold IsSorted
  constructor
  · rintro ⟨h1, h2⟩; exact ⟨h1.trans hp, h2⟩
  · rintro ⟨h1, h2⟩; exact ⟨h1.trans hp.symm, h2⟩

/-- non-vacuity: two blank-device mounts of one server compare equal, so there are exactly two
sorted orders; the witnesses' `devLess` is a weight comparison -/
example : DevLessByWeight okEnv ∧
    (allSorted (less okEnv 0) (initSlots [mkMount 0 0 0 [0], mkMount 1 0 0 [0], mkMount 2 1 0 [0]] [])).map
      (fun rs => rs.map (fun r => r.map (fun s => s.mnt.id))) = some [[0, 1, 2], [1, 0, 2]] :=
  ⟨⟨fun d => d, fun _ _ => rfl⟩, by decide⟩

/-! ## trash: age -/

/-- Every emitted trash names a slot that holds a replica with exactly that mtime, and the mtime is
older than `MinMtime` (now − BlobSignatureTTL). No hypothesis at all (not even on the sort). -/
theorem C05_no_trash_newer_than_ttl (p : Slot × Change) (t : Int)
    (hp : p ∈ (balanceBlock env classes sorter mounts reps).changes) (ht : p.2 = .trash t) :
    p.1.repl = some t ∧ t < env.minMtime := by
  have h := mem_changes hp
  have := change_trash (h.2 ▸ ht)
  exact ⟨this.1, this.2.2⟩

example : ∃ p ∈ okResult.changes, p.2 = .trash 800 := by decide

/-! ## trash: read-only -/

/-- No trash names a read-only mount (read-only as balanceBlock sees it, i.e. after
setupLookupTables merged the server flag into the mount flag). -/
theorem C05_no_trash_on_readonly_mount (hok : BalancePerm env classes sorter mounts reps)
    (p : Slot × Change) (t : Int)
    (hp : p ∈ (balanceBlock env classes sorter mounts reps).changes) (ht : p.2 = .trash t) :
    p.1.mnt.ro = false ∧ p.1.mnt ∈ mounts := by
  have h := mem_changes hp
  have htr := change_trash (h.2 ▸ ht)
  have hq := final_forall (fun s => (s.repl.isSome = true → s.mnt.ro = true → s.want = true) ∧ s.mnt ∈ mounts)
    (fun s hs => ⟨fun _ _ => rfl, hs.2⟩) hok
    (fun s hs => by
      have := mem_initSlots hs
      refine ⟨fun h1 h2 => ?_, this.1⟩
      rw [this.2.2, h1, h2]; rfl) p.1 h.1
  refine ⟨?_, hq.2⟩
  cases hro : p.1.mnt.ro with
  | false => rfl
  | true =>
    have := hq.1 (by rw [htr.1]; rfl) hro
    rw [htr.2.1] at this; cases this

/-- End to end: a trash computed from the discovered layout names a mount that is not read-only and
sits on a service that is not read-only. -/
theorem C05_no_trash_on_readonly (dflt : Class) (svcs : List RawService)
    (hok : PlanPerm env dflt sorter svcs reps) (p : Slot × Change) (t : Int)
    (hp : p ∈ (plan env dflt sorter svcs reps).changes) (ht : p.2 = .trash t) :
    ∃ sv ∈ svcs, ∃ rm ∈ sv.mounts, rm.id = p.1.mnt.id ∧ sv.id = p.1.mnt.srv ∧ rm.ro = false ∧ sv.ro = false := by
  have h := C05_no_trash_on_readonly_mount env _ sorter _ reps hok p t hp ht
  obtain ⟨s, hs, rm, hrm, e⟩ := mem_effMounts.1 h.2
  obtain ⟨s0, hs0, m0, hm0, e1, e2, rfl, _⟩ := mem_cleanup_mount hs hrm
  have hro : m0.ro = false ∧ s0.ro = false := by
    have := h.1
    rw [e] at this
    simpa [effMount, e2] using this
  refine ⟨s0, hs0, m0, hm0, ?_, ?_, hro.1, hro.2⟩
  · rw [e]; simp [effMount]
  · rw [e]; simp [effMount, e1]

/-- non-vacuity: on a layout with read-only mounts and a read-only service a trash is still issued
somewhere (service 0), and nothing is trashed on the read-only ones -/
example :
    PlanOK roEnv 1 (wSorter roEnv) rawLayout roReps ∧
    ((plan roEnv 1 (wSorter roEnv) rawLayout roReps).changes.map (fun p => (p.1.mnt.id, p.2))) =
      [(2, .stay), (0, .trash 900), (3, .stay)] := by
  refine ⟨?_, by decide⟩
  unfold PlanOK BalanceOK
  rw [show classesOf 1 (cleanupMounts rawLayout) = [1, 3] from by decide]
  simp only [RunOK]
  decide

/-! ## trash: under-replication -/

/-- If for ANY storage class with desired > 0 — offered by some mount or not — the replication of the
block, counted over distinct physical devices, is below desired, no trash is emitted for the block
at all. (For a class that no mount offers the replication is 0, so this always applies: a block
wanted in such a class is never trashed.) -/
theorem C05_underreplicated_no_trash (hok : BalancePerm env classes sorter mounts reps)
    (hid : DistinctIds mounts) (hcons : DeviceConsistent mounts)
    (c : Class) (hd : env.desired c ≠ 0)
    (hu : physRepl c (balanceBlock env classes sorter mounts reps).heldBefore < env.desired c) :
    ∀ p ∈ (balanceBlock env classes sorter mounts reps).changes, ∀ t, p.2 ≠ .trash t := by
  intro p hp t ht
  have h := mem_changes hp
  have htr := change_trash (h.2 ▸ ht)
  have hur : (balanceBlock env classes sorter mounts reps).final.underrep = true := by
    by_cases hc : c ∈ classes
    · apply underrep_of_phys env classes sorter mounts reps hok hid hcons c hc hd
      have hrel : CoreRel (finalWant (balanceBlock env classes sorter mounts reps).final) (initSlots mounts reps) :=
        (coreRel_finalWant _).trans (runClasses_coreRel env sorter classes _ hok)
      have hkc : KeyConsistent c (heldOf (initSlots mounts reps)) := by
        apply (keyConsistent_of c hid hcons).sub
        intro m hm
        obtain ⟨s, hs, e1, _⟩ := mem_heldOf.1 hm
        rw [← e1]; exact (mem_initSlots hs).1
      have e : (balanceBlock env classes sorter mounts reps).heldBefore =
          heldOf (finalWant (balanceBlock env classes sorter mounts reps).final) :=
        heldBefore_eq env reps _ _ _
      rw [e] at hu
      rw [physRepl_congr c _ _ hkc (fun m => (heldOf_coreRel hrel m).symm)]
      exact hu
    · exact underrep_of_unoffered env classes sorter mounts reps c hc hd
  have hs := h.1
  unfold finalWant at hs
  obtain ⟨s0, _, e⟩ := List.mem_map.1 hs
  have hr0 : s0.repl = some t := by rw [← e] at htr; simpa using htr.1
  have hw : (finalSlot (balanceBlock env classes sorter mounts reps).final s0).want = true := by
    unfold finalSlot
    rw [hr0]
    simp only [hur, Bool.true_or, if_true]
  rw [e, htr.2.1] at hw
  cases hw

/-- non-vacuity: desired 3 with two replicas (one badly placed and old) — nothing is trashed; and
the F1 layout with desired 3: device 7 is mounted twice but counts once (2 < 3), nothing trashed -/
example :
    let env := wEnv [(0, 3)]
    BalanceOK env [0] (wSorter env) okMounts [⟨2, 2, 900⟩, ⟨3, 3, 800⟩] ∧ DistinctIds okMounts ∧
    DeviceConsistent okMounts ∧
    physRepl 0 (balanceBlock env [0] (wSorter env) okMounts [⟨2, 2, 900⟩, ⟨3, 3, 800⟩]).heldBefore = 2 ∧
    BalanceOK env [0] (wSorter env) f1Mounts f1Reps ∧ DeviceConsistent f1Mounts ∧
    physRepl 0 (balanceBlock env [0] (wSorter env) f1Mounts f1Reps).heldBefore = 2 := by
  refine ⟨?_, by unfold DistinctIds; decide, by unfold DeviceConsistent; decide, by decide, ?_,
    by unfold DeviceConsistent; decide, by decide⟩ <;>
  · unfold BalanceOK; simp only [RunOK]; decide

/-- the F05a layout (two old replicas on `default` mounts, the block wanted only in class 5, which
no mount offers): nothing is trashed any more -/
example : f05aEnv.desired 5 = 2 ∧ physRepl 5 f05aResult.heldBefore = 0 ∧
    f05aResult.changes.map (fun p => (p.1.mnt.id, p.2)) = [(0, .stay), (1, .stay)] := by decide

/-! ## pulls -/

/-- Every pull targets a writable mount of the layout that lacks the block, is emitted only when
the block has a replica, and names as source the service of a replica (`blk.Replicas[0]`). -/
theorem C05_pull_targets (hok : BalancePerm env classes sorter mounts reps)
    (p : Slot × Change) (src : Option Nat)
    (hp : p ∈ (balanceBlock env classes sorter mounts reps).changes) (hpull : p.2 = .pull src) :
    p.1.mnt ∈ mounts ∧ p.1.mnt.ro = false ∧ replicaOn reps p.1.mnt.id = none ∧
    ∃ r ∈ reps, src = some r.srv := by
  have h := mem_changes hp
  have hpl := change_pull (h.2 ▸ hpull)
  have hq := final_forall (fun s => s.mnt ∈ mounts ∧ s.repl = replicaOn reps s.mnt.id)
    (fun s hs => hs) hok (fun s hs => ⟨(mem_initSlots hs).1, (mem_initSlots hs).2.1⟩) p.1 h.1
  obtain ⟨r, rest, hr, hsrc⟩ := hpl.2.2.2
  exact ⟨hq.1, hpl.2.2.1, by rw [← hq.2]; exact hpl.1, r, by rw [hr]; exact List.mem_cons_self .., hsrc⟩

example : ∃ p ∈ okResult.changes, p.2 = .pull (some 1) := by decide

/-! ## lost -/

/-- A block is reported lost exactly when it has no replica anywhere and is referenced: desired > 0
for some storage class, offered by a mount or not — whatever the mounts are. -/
theorem C05_lost_reported :
    (balanceBlock env classes sorter mounts reps).lost = true ↔
      reps = [] ∧ ∃ c, env.desired c ≠ 0 := by
  show lostFlag env reps (balanceBlock env classes sorter mounts reps).changes = true ↔ _
  unfold lostFlag
  rw [Bool.or_eq_true, Bool.and_eq_true, wantsSome_iff]
  constructor
  · rintro (hl | ⟨he, c, hd, _⟩)
    · obtain ⟨p, hp, hpl⟩ := List.any_eq_true.1 hl
      have hpl' : p.2 = .lost := by simpa using hpl
      have h := mem_changes hp
      have hch := change_lost.1 (h.2 ▸ hpl')
      refine ⟨hch.2.2, ?_⟩
      -- some class of the loop is active, otherwise nothing is ever wanted
      apply Classical.byContradiction
      intro hno
      have hz : ∀ c ∈ classes, env.desired c = 0 := by
        intro c _
        apply Classical.byContradiction
        intro hne
        exact hno ⟨c, hne⟩
      have hfin : (balanceBlock env classes sorter mounts reps).final = initState env classes mounts reps :=
        runClasses_all_zero env sorter classes _ hz
      have hs := h.1
      rw [hfin] at hs
      unfold finalWant at hs
      obtain ⟨s0, hs0, e⟩ := List.mem_map.1 hs
      have hs0' : s0 ∈ initSlots mounts reps := hs0
      have hr0 : s0.repl = none := by rw [← e] at hch; simpa using hch.1
      have : finalSlot (initState env classes mounts reps) s0 = s0 := by
        unfold finalSlot; rw [hr0]
      rw [this] at e
      have hw0 := (mem_initSlots hs0').2.2
      rw [hr0] at hw0
      rw [← e] at hch
      rw [hw0] at hch
      cases hch.2.1
    · exact ⟨by simpa using he, c, hd⟩
  · rintro ⟨hreps, c, hd⟩
    right
    exact ⟨by rw [hreps]; rfl, c, hd, rfl⟩

/-- the F12 layout (one read-only mount, desired 2, no replica) is now reported; a block that
nobody references is not -/
example : f12Result.lost = true ∧
    (balanceBlock (wEnv []) [0] (wSorter (wEnv [])) f12Mounts []).lost = false ∧
    (balanceBlock f05aEnv [0] (wSorter f05aEnv) f05aMounts []).lost = true := by
  refine ⟨by decide, by decide, by decide⟩

/-! ## what is sent to keepstore -/

/-- A trash request carries the bare hash (first 32 characters of the block id), the mtime that was
observed for the replica on that mount (the last index entry naming it), and that mount's UUID;
a pull request carries the bare hash, the URL of the service of `blk.Replicas[0]`, and the target
mount's UUID. The JSON texts have exactly the keepstore field names. -/
theorem C05_json_shape (hok : BalancePerm env classes sorter mounts reps)
    (blkid hash size : List Char) (hb : blkid = hash ++ '+' :: size) (hl : hash.length = 32)
    (uuidOf urlOf : Nat → List Char) :
    (∀ s t, (s, t) ∈ (balanceBlock env classes sorter mounts reps).trashes →
      let q := trashReq blkid uuidOf s t
      q.locator = hash ∧ q.blockMtime = t ∧ replicaOn reps s.mnt.id = some t ∧ q.mountUUID = uuidOf s.mnt.id ∧
      s.mnt ∈ mounts ∧
      q.json = "{\"locator\":" ++ quote hash ++ ",\"block_mtime\":" ++ toString t ++ ",\"mount_uuid\":" ++
        quote (uuidOf s.mnt.id) ++ "}") ∧
    (∀ s src, (s, Change.pull (some src)) ∈ (balanceBlock env classes sorter mounts reps).changes →
      let q := pullReq blkid uuidOf urlOf s src
      q.locator = hash ∧ q.servers = [urlOf src] ∧ (∃ r ∈ reps, r.srv = src) ∧ q.mountUUID = uuidOf s.mnt.id ∧
      q.json = "{\"locator\":" ++ quote hash ++ ",\"servers\":[" ++ quote (urlOf src) ++ "],\"mount_uuid\":" ++
        quote (uuidOf s.mnt.id) ++ "}") := by
  have hloc : locatorOf blkid = hash := by
    unfold locatorOf; rw [hb, ← hl]; simp
  constructor
  · intro s t hst
    have hp := mem_trashes.1 hst
    have h := mem_changes hp
    have htr := change_trash (show change env reps s = Change.trash t from h.2.symm)
    have hq := final_forall (fun s => s.mnt ∈ mounts ∧ s.repl = replicaOn reps s.mnt.id)
      (fun s hs => hs) hok (fun s hs => ⟨(mem_initSlots hs).1, (mem_initSlots hs).2.1⟩) s h.1
    refine ⟨hloc, rfl, by rw [← hq.2]; exact htr.1, rfl, hq.1, ?_⟩
    simp only [TrashReq.json, trashReq, hloc]
  · intro s src hp
    have hpl := C05_pull_targets env classes sorter mounts reps hok _ _ hp rfl
    obtain ⟨r, hr, hsrc⟩ := hpl.2.2.2
    refine ⟨hloc, rfl, ⟨r, hr, by simpa using hsrc.symm⟩, rfl, ?_⟩
    simp only [PullReq.json, pullReq, hloc, List.map_cons, List.map_nil]
    rfl

example : (trashReq "acbd18db4cc2f85cedef654fccc4a4d8+3".toList (fun _ => "zzzzz-nyw5e-000000000000000".toList)
    ⟨mkMount 0 0 0 [0], some 12345, false⟩ 12345).json =
    "{\"locator\":\"acbd18db4cc2f85cedef654fccc4a4d8\",\"block_mtime\":12345,\"mount_uuid\":\"zzzzz-nyw5e-000000000000000\"}" := by
  decide

/-! ## cleanupMounts / setupLookupTables -/

/-- After cleanupMounts no read-only mount shares a non-blank device with a writable mount; nothing
else is dropped (a writable mount, or a mount whose device is not read-write anywhere, is kept); and
every replication count is ≥ 1. -/
theorem C05_cleanup_drops_ro_duplicates (svcs : List RawService) :
    (∀ s ∈ cleanupMounts svcs, ∀ m ∈ s.mounts, m.ro = true → m.dev ≠ 0 →
      ∀ s' ∈ cleanupMounts svcs, ∀ m' ∈ s'.mounts, m'.dev = m.dev → m'.ro = true) ∧
    (∀ s0 ∈ svcs, ∀ m0 ∈ s0.mounts, (m0.ro = false ∨ (rwDevs svcs).contains m0.dev = false) →
      ∃ s ∈ cleanupMounts svcs, s.id = s0.id ∧ s.ro = s0.ro ∧ fixRepl m0 ∈ s.mounts) ∧
    (∀ s ∈ cleanupMounts svcs, ∀ m ∈ s.mounts, 1 ≤ m.repl) :=
  ⟨cleanup_no_ro_duplicate svcs, fun s0 hs0 m0 hm0 h => cleanup_keeps svcs s0 hs0 m0 hm0 h, cleanup_repl_pos svcs⟩

example : (cleanupMounts rawLayout).map (fun s => s.mounts.map (fun m => (m.id, m.repl))) = [[(0, 2)], [(2, 1)], [(3, 1)]] := by
  decide

/-- setupLookupTables: the mounts balanceBlock sees are the mounts of the services, read-only if the
mount or its service is, in class `default` when they list none; `bal.classes` is `default` plus
every listed class, sorted, without duplicates. -/
theorem C05_setup_tables (dflt : Class) (svcs : List RawService) :
    (∀ m, m ∈ effMounts dflt svcs ↔ ∃ s ∈ svcs, ∃ rm ∈ s.mounts, m = effMount dflt s rm) ∧
    (∀ s rm, (effMount dflt s rm).ro = (rm.ro || s.ro) ∧
      (effMount dflt s rm).classes = (if rm.classes.isEmpty then [dflt] else rm.classes)) ∧
    (∀ c, c ∈ classesOf dflt svcs ↔ c = dflt ∨ ∃ m ∈ allRawMounts svcs, c ∈ m.classes) ∧
    (classesOf dflt svcs).Pairwise (· ≤ ·) ∧ (classesOf dflt svcs).Nodup :=
  ⟨fun _ => mem_effMounts, fun _ _ => ⟨rfl, rfl⟩, (classesOf_spec dflt svcs).1, (classesOf_spec dflt svcs).2.1,
    (classesOf_spec dflt svcs).2.2⟩

example : classesOf 1 (cleanupMounts rawLayout) = [1, 3] ∧
    (effMounts 1 (cleanupMounts rawLayout)).map (fun m => (m.id, m.ro, m.classes)) =
      [(0, false, [1]), (2, true, [1]), (3, true, [3])] := by decide

/-! ## how a block's state is gathered (block_state.go) -/

/-- Whatever the order in which index entries and collections arrive: the desired replication
balanceBlock reads for class `c` is the largest replication any collection referencing the block
asks for in `c` (a collection that lists no class counts for `default`) — it is never lowered — and
the replicas are the index entries in arrival order. -/
theorem C05_gather_desired_is_max (dflt : Class) (ops : List BlockOp) (c : Class) :
    desiredOf (gather dflt ops) c = ops.foldl (wantStepOf dflt c) 0 ∧
    (gather dflt ops).replicas = ops.filterMap BlockOp.repOf := by
  constructor
  · exact foldl_applyOp_desired dflt c ops BlockSt.empty
  · have := foldl_applyOp_replicas dflt ops BlockSt.empty
    simpa [gather, BlockSt.empty] using this

example :
    let ops : List BlockOp := [.coll (some 1) [] 2, .rep ⟨0, 0, 900⟩, .coll (some 2) [3, 0] 1, .coll none [3] 4]
    desiredOf (gather 0 ops) 0 = 2 ∧ desiredOf (gather 0 ops) 3 = 4 ∧ desiredOf (gather 0 ops) 7 = 0 ∧
    (gather 0 ops).replicas = [⟨0, 0, 900⟩] ∧ lostRefs (gather 0 ops) = [] ∧
    lostRefs (gather 0 [.coll (some 1) [] 2, .coll (some 5) [] 1, .coll (some 1) [3] 1]) = [1, 5] := by decide

/-! ## the central clause -/

/-- `C05_trash_safe`, at full strength: for every layout and every block, carrying out every
computed trash request while no pull succeeds leaves each class of the loop with desired d > 0 at
replication ≥ min(d, what it was), counted over distinct physical devices (a trash on any view of a
device is taken to remove the device's replica) — for every class, offered by some mount or not. Any number of services, mounts per server and
classes; devices blank, unique or shared; any flags, replication counts and timestamps; every
behaviour of the unstable sort. -/
theorem C05_trash_safe (hok : BalancePerm env classes sorter mounts reps)
    (hid : DistinctIds mounts) (hcons : DeviceConsistent mounts)
    (c : Class) (hd : env.desired c ≠ 0) :
    min (env.desired c) (physRepl c (balanceBlock env classes sorter mounts reps).heldBefore) ≤
      physRepl c (balanceBlock env classes sorter mounts reps).heldAfter := by
  by_cases hc : c ∈ classes
  · apply trash_safe_of_guar env classes sorter mounts reps hok hid hcons c
    have hid0 : IdsDistinct (initState env classes mounts reps).slots := by
      show DistinctIds ((initSlots mounts reps).map (·.mnt))
      rw [initSlots_mnt]; exact hid
    exact runClasses_guar env sorter c classes _ hok hid0 hc hd
  · -- a class that no mount offers: the block counts as under-replicated, nothing is trashed
    exact trash_safe_of_underrep env classes sorter mounts reps hok hid hcons c
      (underrep_of_unoffered env classes sorter mounts reps c hc hd)

/-- End to end from the discovered layout (`plan` = cleanupMounts, setupLookupTables,
balanceBlock), with the hypotheses stated on what the keepstore servers report: the mounts are
distinct objects and mounts of one device report the same classes and replication. The hypotheses
of the block-level theorem are derived (`plan_distinctIds`, `plan_deviceConsistent`). -/
theorem C05_trash_safe_plan (dflt : Class) (svcs : List RawService) (hok : PlanPerm env dflt sorter svcs reps)
    (hid : RawDistinctIds svcs) (hcons : RawDeviceConsistent svcs)
    (c : Class) (hd : env.desired c ≠ 0) :
    min (env.desired c) (physRepl c (plan env dflt sorter svcs reps).heldBefore) ≤
      physRepl c (plan env dflt sorter svcs reps).heldAfter :=
  C05_trash_safe env _ sorter _ reps hok (plan_distinctIds dflt svcs hid) (plan_deviceConsistent dflt svcs hcons) c hd

/-- the same for the under-replication clause -/
theorem C05_underreplicated_no_trash_plan (dflt : Class) (svcs : List RawService)
    (hok : PlanPerm env dflt sorter svcs reps) (hid : RawDistinctIds svcs) (hcons : RawDeviceConsistent svcs)
    (c : Class) (hd : env.desired c ≠ 0)
    (hu : physRepl c (plan env dflt sorter svcs reps).heldBefore < env.desired c) :
    ∀ p ∈ (plan env dflt sorter svcs reps).changes, ∀ t, p.2 ≠ .trash t :=
  C05_underreplicated_no_trash env _ sorter _ reps hok (plan_distinctIds dflt svcs hid)
    (plan_deviceConsistent dflt svcs hcons) c hd hu

example : RawDistinctIds rawLayout ∧ RawDeviceConsistent rawLayout := by
  refine ⟨by unfold RawDistinctIds; decide, by unfold RawDeviceConsistent; decide⟩

/-- Device consistency cannot be dropped: "replication of class c over distinct physical devices"
has no meaning when two servers report one device in different classes. Device 7 is in class 0
according to server 0 and in class 1 according to server 1; class 0 desired 1: the replica on
device 8 is trashed, and the surviving device 7 counts for class 0 or not depending on the view. -/
theorem C05_trash_safe_needs_device_consistency :
    ¬ (∀ (env : Env) (classes : List Class) (sorter : Class → List Slot → List Slot) (mounts : List Mount)
        (reps : List Replica), BalanceOK env classes sorter mounts reps → DistinctIds mounts →
        ∀ c, env.desired c ≠ 0 →
          min (env.desired c) (physRepl c (balanceBlock env classes sorter mounts reps).heldBefore) ≤
            physRepl c (balanceBlock env classes sorter mounts reps).heldAfter) := by
  intro h
  have := h ncEnv [0, 1] (wSorter ncEnv) ncMounts ncReps
    (by unfold BalanceOK; simp only [RunOK]; decide) (by unfold DistinctIds; decide) 0 (by decide)
  have e1 : physRepl 0 (balanceBlock ncEnv [0, 1] (wSorter ncEnv) ncMounts ncReps).heldBefore = 1 := by decide
  have e2 : physRepl 0 (balanceBlock ncEnv [0, 1] (wSorter ncEnv) ncMounts ncReps).heldAfter = 0 := by decide
  rw [e1, e2] at this
  revert this
  decide

/-- non-vacuity, and the layouts on which the code failed before the fix: commits:
F1 (device 7 mounted on two servers; ranks empty, empty, 7, 7, 8-old; desired 2): device 8 is now
kept (2 → 2); F2 (class 1 desired 2; two class-1 mounts on server 0, a class-0 mount on server 1,
all holding the block): nothing is trashed (2 → 2); and a layout where something IS trashed: four
single-mount servers, replicas new/old/old, desired 2: the worst-placed old replica goes (3 → 2). -/
example :
    BalanceOK f1Env [0] (wSorter f1Env) f1Mounts f1Reps ∧ DistinctIds f1Mounts ∧ DeviceConsistent f1Mounts ∧
    physRepl 0 f1Result.heldBefore = 2 ∧ physRepl 0 f1Result.heldAfter = 2 ∧
    BalanceOK f2Env [0, 1] (wSorter f2Env) f2Mounts f2Reps ∧ DistinctIds f2Mounts ∧ DeviceConsistent f2Mounts ∧
    physRepl 1 f2Result.heldBefore = 2 ∧ physRepl 1 f2Result.heldAfter = 2 ∧
    BalanceOK okEnv [0] (wSorter okEnv) okMounts okReps ∧ DistinctIds okMounts ∧ DeviceConsistent okMounts ∧
    physRepl 0 okResult.heldBefore = 3 ∧ physRepl 0 okResult.heldAfter = 2 ∧
    okResult.changes.map (fun p => (p.1.mnt.id, p.2)) = [(0, .pull (some 1)), (1, .stay), (2, .stay), (3, .trash 800)] := by
  refine ⟨?_, by unfold DistinctIds; decide, by unfold DeviceConsistent; decide, by decide, by decide,
    ?_, by unfold DistinctIds; decide, by unfold DeviceConsistent; decide, by decide, by decide,
    ?_, by unfold DistinctIds; decide, by unfold DeviceConsistent; decide, by decide, by decide, by decide⟩ <;>
  · unfold BalanceOK; simp only [RunOK]; decide

/-- a shared device with two mounts per server and two classes, something trashed -/
example :
    let ms : List Mount := [mkMount 0 0 7 [0], mkMount 1 0 2 [1], mkMount 2 1 7 [0], mkMount 3 1 4 [0], mkMount 4 2 5 [0]]
    let rs : List Replica := [⟨0, 0, 900⟩, ⟨2, 1, 900⟩, ⟨3, 1, 901⟩, ⟨4, 2, 902⟩, ⟨1, 0, 903⟩]
    let env := wEnv [(0, 2)]
    BalanceOK env [0, 1] (wSorter env) ms rs ∧ DistinctIds ms ∧ DeviceConsistent ms ∧
    physRepl 0 (balanceBlock env [0, 1] (wSorter env) ms rs).heldBefore = 3 ∧
    physRepl 0 (balanceBlock env [0, 1] (wSorter env) ms rs).heldAfter = 2 := by
  refine ⟨?_, by unfold DistinctIds; decide, by unfold DeviceConsistent; decide, by decide, by decide⟩
  unfold BalanceOK; simp only [RunOK]; decide

end ArvVerif.C05
