import ArvVerif.Model.C10_Py
namespace ArvVerif.C10
end ArvVerif.C10
