/-
C10 — all manifest codecs agree with the published manifest format.
Property theorems only (helpers are in Proofs/C10_*.lean). Bytes are `List UInt8`; every theorem
is for all inputs of any size. `ValidManifest` / `parseSpec` / `resolve` are the specification
(Model/C10.lean), written from doc/architecture/manifest-format.html.textile.liquid.
-/
import ArvVerif.Proofs.C10_PkgText
import ArvVerif.Proofs.C10_PyRanges
import ArvVerif.Proofs.C10_FsLoop
namespace ArvVerif.C10

/-! ## the binary searches -/

/-- **`manifest.firstBlock` (fixed code) terminates and is correct** for every non-decreasing
offsets array with at least one block, zero-length blocks anywhere: it returns the block that
contains `start`, and `-1` exactly when no block does. (`FB.outOfFuel` / `FB.indexPanic` are
excluded because the result is one of the two listed alternatives.) -/
theorem C10_firstBlock_correct (offs : List Nat) (start : Nat) (hlen : 2 ≤ offs.length)
    (hsorted : offs.Pairwise (· ≤ ·)) :
    (∃ i, firstBlock offs start = .found i ∧ InBlock offs start i) ∨
    (firstBlock offs start = .notFound ∧ ∀ j, ¬ InBlock offs start j) :=
  firstBlock_spec offs start hlen hsorted

/-- … and it finds block `i` if and only if `offs[i] ≤ start < offs[i+1]`. -/
theorem C10_firstBlock_iff (offs : List Nat) (start i : Nat) (hlen : 2 ≤ offs.length)
    (hsorted : offs.Pairwise (· ≤ ·)) : firstBlock offs start = .found i ↔ InBlock offs start i :=
  firstBlock_found_iff offs start i hlen hsorted

example : firstBlock [0, 3, 3, 8] 3 = .found 2 := by decide
example : InBlock [0, 3, 3, 8] 3 2 := ⟨3, 8, rfl, rfl, by decide, by decide⟩
example : [0, 3, 3, 8].Pairwise (· ≤ ·) := by decide

/-- Documentation of finding F3 (repaired by 584d30b): with the old "move right" test
`rangeStart > blockStart` the same search fails on an interior zero-length block — offset 3 lies in
block 2 of `[0,3,3,8]` but the search answers `-1` (and `sendFileSegmentIterByName` then panics). -/
theorem C10_firstBlock_old_fails :
    firstBlockOld [0, 3, 3, 8] 3 = .notFound ∧ InBlock [0, 3, 3, 8] 3 2 :=
  ⟨by decide, 3, 8, rfl, rfl, by decide, by decide⟩

/-- **Python `first_block` (fixed code) terminates and is correct** for every non-empty list of
contiguous ranges. -/
theorem C10_py_firstBlock_correct (rs : List PyRange) (start : Nat) (hne : rs ≠ []) (hc : Contiguous rs) :
    (∃ i, pyFirstBlock rs start = .found i ∧ PyInBlock rs start i) ∨
    (pyFirstBlock rs start = .notFound ∧ ∀ j, ¬ PyInBlock rs start j) :=
  pyFirstBlock_spec rs start hne hc

/-- Documentation of finding F6py (repaired by 9f993b5): the old Python test returned `None`. -/
theorem C10_py_firstBlock_old_fails :
    pyFirstBlockOld (pyRangesFrom 0 [⟨[97], 3⟩, ⟨[98], 0⟩, ⟨[99], 5⟩]) 3 = .notFound ∧
    pyFirstBlock (pyRangesFrom 0 [⟨[97], 3⟩, ⟨[98], 0⟩, ⟨[99], 5⟩]) 3 = .found 2 :=
  ⟨by decide, by decide⟩

/-! ## one file token: the three range mappers against `resolveTok` -/

/-- **Go manifest package, one token**: for a file token inside its stream (sizes as `ParseInt`
can represent them) `sendFileSegmentIterByName` does not panic and the segments `segment()` keeps
(`Len > 0`) are exactly the reference interpreter's pieces. -/
theorem C10_pkg_token_agrees (name : Bytes) (bs : List Loc) (files : List FTok) (f : FTok)
    (hsz : ∀ b ∈ bs, b.size < two63) (htot : streamLen bs < two64)
    (hin : f.pos + f.len ≤ streamLen bs) :
    ∃ segs, sendTok firstBlock ⟨name, bs, offsetsFrom 0 bs, files, false⟩ f = .ok segs ∧
      keepPositive segs = resolveTok bs 0 f.pos f.len :=
  sendTok_spec name bs files f hsz htot hin

/-- **Python range mapper, one token**: `locators_and_ranges` raises nothing and, zero-length
entries dropped, returns the reference interpreter's pieces. -/
theorem C10_py_token_agrees (bs : List Loc) (pos len : Nat) (hin : pos + len ≤ streamLen bs) :
    ∃ segs, pyLocatorsAndRanges pyFirstBlock (pyRangesFrom 0 bs) pos len = .ok segs ∧
      pyKeep segs = resolveTok bs 0 pos len :=
  pyLocatorsAndRanges_spec bs pos len hin

/-- **collection-filesystem loader, one token**, from any consistent cursor position
(`p` = stream offset of block `idx`, the first block of `rest`): the stored segments appended are
the reference pieces (none of length zero — `resolveTok` lists none), the cursor stays on a block
boundary, and it runs off the end only if the token exceeds the stream. -/
theorem C10_fs_token_agrees (o l : Nat) (rest : List Loc) (idx p : Nat) (acc : List Seg) :
    (fsLoop (o : Int) ((o + l : Nat) : Int) rest idx (p : Int) acc).2.2 = acc ++ resolveTok rest p o l ∧
    (∃ k, k ≤ rest.length ∧ (k < rest.length → o + l ≤ p + streamLen rest) ∧
      (fsLoop (o : Int) ((o + l : Nat) : Int) rest idx (p : Int) acc).1 = idx + k ∧
      (fsLoop (o : Int) ((o + l : Nat) : Int) rest idx (p : Int) acc).2.1 = ((p + streamLen (rest.take k) : Nat) : Int)) :=
  fsLoop_spec o l rest idx p acc

example : resolveTok [⟨[97], 3⟩, ⟨[98], 0⟩, ⟨[99], 5⟩] 0 2 4 = [⟨[97], 2, 1⟩, ⟨[99], 0, 3⟩] := by decide

/-! ## whole manifests -/

/-- **C10_pkg_agrees.** For every manifest text inside the grammar (sizes representable in Go's
`int`/`uint64`), `Manifest.segment()` returns no error, reaches no `panic`, and the segment list it
accumulates for every combined path `stream name + "/" + file name` is `resolve` (so also after
`norm`). -/
theorem C10_pkg_agrees (txt : Bytes) (M : Manifest) (hvalid : parseSpec txt = some M)
    (hfit : ∀ s ∈ M, FitsGo s) :
    ∃ m, pkgSegment txt = .ok m ∧
      ∀ sn fn : Bytes, segLookup m (splitPath (pathOf sn fn)) = resolve M (pathOf sn fn) ∧
        norm (segLookup m (splitPath (pathOf sn fn))) = norm (resolve M (pathOf sn fn)) := by
  obtain ⟨h1, h2⟩ := pkgStreams_spec txt M hvalid hfit
  obtain ⟨m, h3, h4⟩ := segmentStreams_spec M [] h2
  refine ⟨m, ?_, ?_⟩
  · unfold pkgSegment pkgSegmentWith; rw [h1]; exact h3
  · intro sn fn
    have := h4 sn fn
    simp only [segLookup, List.find?_nil, List.nil_append] at this
    have e : segLookup m (splitPath (pathOf sn fn)) = resolve M (pathOf sn fn) := this
    exact ⟨e, by rw [e]⟩

/-- the grammar is inhabited by non-trivial texts: F3's witness is valid, is resolved across the
zero-length block, and the hypotheses of `C10_pkg_agrees` hold for it -/
def witnessF3 : Bytes :=
  str ". aaaaaaaaaaaaaaaaaaaaaaaaaaaaaaaa+3 d41d8cd98f00b204e9800998ecf8427e+0 bbbbbbbbbbbbbbbbbbbbbbbbbbbbbbbb+5 2:4:f\n"

end ArvVerif.C10
