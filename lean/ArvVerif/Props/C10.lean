/-
C10 — all manifest codecs agree with the published manifest format.
Property theorems only (helpers are in Proofs/C10_*.lean). Bytes are `List UInt8`; every theorem
is for all inputs of any size. `ValidManifest` / `parseSpec` / `resolve` are the specification
(Model/C10.lean), written from doc/architecture/manifest-format.html.textile.liquid.
-/
import ArvVerif.Proofs.C10_Marker
import ArvVerif.Proofs.C10_PyRanges
import ArvVerif.Proofs.C10_FsText
import ArvVerif.Proofs.C10_Pdh
namespace ArvVerif.C10

/-! ## the binary searches -/

/-- **`manifest.firstBlock` (fixed code) terminates and is correct** for every non-decreasing
offsets array with at least one block, zero-length blocks anywhere: it returns the block that
contains `start`, and `-1` exactly when no block does. (`FB.outOfFuel` / `FB.indexPanic` are
excluded because the result is one of the two listed alternatives.) -/
theorem C10_firstBlock_correct (offs : List Nat) (start : Nat) (hlen : 2 ≤ offs.length)
    (hsorted : offs.Pairwise (· ≤ ·)) :
    (∃ i, firstBlock offs start = .found i ∧ InBlock offs start i) ∨
    (firstBlock offs start = .notFound ∧ ∀ j, ¬ InBlock offs start j) :=
  firstBlock_spec offs start hlen hsorted

/-- … and it finds block `i` if and only if `offs[i] ≤ start < offs[i+1]`. -/
theorem C10_firstBlock_iff (offs : List Nat) (start i : Nat) (hlen : 2 ≤ offs.length)
    (hsorted : offs.Pairwise (· ≤ ·)) : firstBlock offs start = .found i ↔ InBlock offs start i :=
  firstBlock_found_iff offs start i hlen hsorted

example : firstBlock [0, 3, 3, 8] 3 = .found 2 := by decide
example : InBlock [0, 3, 3, 8] 3 2 := ⟨3, 8, rfl, rfl, by decide, by decide⟩
example : [0, 3, 3, 8].Pairwise (· ≤ ·) := by decide

/-- Documentation of finding F3 (repaired by 584d30b): with the old "move right" test
`rangeStart > blockStart` the same search fails on an interior zero-length block — offset 3 lies in
block 2 of `[0,3,3,8]` but the search answers `-1` (and `sendFileSegmentIterByName` then panics). -/
theorem C10_firstBlock_old_fails :
    firstBlockOld [0, 3, 3, 8] 3 = .notFound ∧ InBlock [0, 3, 3, 8] 3 2 :=
  ⟨by decide, 3, 8, rfl, rfl, by decide, by decide⟩

/-- **Python `first_block` (fixed code) terminates and is correct** for every non-empty list of
contiguous ranges. -/
theorem C10_py_firstBlock_correct (rs : List PyRange) (start : Nat) (hne : rs ≠ []) (hc : Contiguous rs) :
    (∃ i, pyFirstBlock rs start = .found i ∧ PyInBlock rs start i) ∨
    (pyFirstBlock rs start = .notFound ∧ ∀ j, ¬ PyInBlock rs start j) :=
  pyFirstBlock_spec rs start hne hc

/-- Documentation of finding F6py (repaired by 9f993b5): the old Python test returned `None`. -/
theorem C10_py_firstBlock_old_fails :
    pyFirstBlockOld (pyRangesFrom 0 [⟨[97], 3⟩, ⟨[98], 0⟩, ⟨[99], 5⟩]) 3 = .notFound ∧
    pyFirstBlock (pyRangesFrom 0 [⟨[97], 3⟩, ⟨[98], 0⟩, ⟨[99], 5⟩]) 3 = .found 2 :=
  ⟨by decide, by decide⟩

/-! ## one file token: the three range mappers against `resolveTok` -/

/-- **Go manifest package, one token**: for a file token inside its stream (sizes as `ParseInt`
can represent them) `sendFileSegmentIterByName` does not panic and the segments `segment()` keeps
(`Len > 0`) are exactly the reference interpreter's pieces. -/
theorem C10_pkg_token_agrees (name : Bytes) (bs : List Loc) (files : List FTok) (f : FTok)
    (hsz : ∀ b ∈ bs, b.size < two63) (htot : streamLen bs < two64)
    (hin : f.pos + f.len ≤ streamLen bs) :
    ∃ segs, sendTok firstBlock ⟨name, bs, offsetsFrom 0 bs, files, false⟩ f = .ok segs ∧
      keepPositive segs = resolveTok bs 0 f.pos f.len :=
  sendTok_spec name bs files f hsz htot hin

/-- **Python range mapper, one token**: `locators_and_ranges` raises nothing and, zero-length
entries dropped, returns the reference interpreter's pieces. -/
theorem C10_py_token_agrees (bs : List Loc) (pos len : Nat) (hin : pos + len ≤ streamLen bs) :
    ∃ segs, pyLocatorsAndRanges pyFirstBlock (pyRangesFrom 0 bs) pos len = .ok segs ∧
      pyKeep segs = resolveTok bs 0 pos len :=
  pyLocatorsAndRanges_spec bs pos len hin

/-- **collection-filesystem loader, one token**, from any consistent cursor position
(`p` = stream offset of block `idx`, the first block of `rest`): the stored segments appended are
the reference pieces (none of length zero — `resolveTok` lists none), the cursor stays on a block
boundary, and it runs off the end only if the token exceeds the stream. -/
theorem C10_fs_token_agrees (o l : Nat) (rest : List Loc) (idx p : Nat) (acc : List Seg) :
    (fsLoop (o : Int) ((o + l : Nat) : Int) rest idx (p : Int) acc).2.2 = acc ++ resolveTok rest p o l ∧
    (∃ k, k ≤ rest.length ∧ (k < rest.length → o + l ≤ p + streamLen rest) ∧
      (fsLoop (o : Int) ((o + l : Nat) : Int) rest idx (p : Int) acc).1 = idx + k ∧
      (fsLoop (o : Int) ((o + l : Nat) : Int) rest idx (p : Int) acc).2.1 = ((p + streamLen (rest.take k) : Nat) : Int)) :=
  fsLoop_spec o l rest idx p acc

example : resolveTok [⟨[97], 3⟩, ⟨[98], 0⟩, ⟨[99], 5⟩] 0 2 4 = [⟨[97], 2, 1⟩, ⟨[99], 0, 3⟩] := by decide

/-! ## whole manifests -/

/-- **C10_pkg_agrees.** For every manifest text inside the grammar (sizes representable in Go's
`int`/`uint64`), `Manifest.segment()` returns no error, reaches no `panic`, and the segment list it
accumulates for every combined path `stream name + "/" + file name` is `resolve` (so also after
`norm`). -/
theorem C10_pkg_agrees (txt : Bytes) (M : Manifest) (hvalid : parseSpec txt = some M)
    (hfit : ∀ s ∈ M, FitsGo s) :
    ∃ m, pkgSegment txt = .ok m ∧
      ∀ sn fn : Bytes, segLookup m (splitPath (pathOf sn fn)) = resolve M (pathOf sn fn) ∧
        norm (segLookup m (splitPath (pathOf sn fn))) = norm (resolve M (pathOf sn fn)) := by
  obtain ⟨h1, h2⟩ := pkgStreams_spec txt M hvalid hfit
  obtain ⟨m, h3, h4⟩ := segmentStreams_spec M [] h2
  refine ⟨m, ?_, ?_⟩
  · unfold pkgSegment pkgSegmentWith; rw [h1]; exact h3
  · intro sn fn
    have := h4 sn fn
    simp only [segLookup, List.find?_nil, List.nil_append] at this
    have e : segLookup m (splitPath (pathOf sn fn)) = resolve M (pathOf sn fn) := this
    exact ⟨e, by rw [e]⟩

/-- **C10_fs_agrees.** For every manifest text inside the grammar (sizes representable in the
loader's int32/int64) in which no path is both a file and a directory, `loadManifest` succeeds,
the loaded tree has exactly the manifest's paths as files, and the stored segments of every path
are `resolve` — in particular none has length zero (finding F5) and they need no merging. -/
theorem C10_fs_agrees (txt : Bytes) (M : Manifest) (hvalid : parseSpec txt = some M)
    (hfit : ∀ s ∈ M, FitsFs s) (htree : TreeConsistent M) :
    ∃ t, fsLoad txt = some t ∧
      (∀ p ∈ pathsOf M, fsSegsOf t p = some (resolve M p) ∧
        (fsSegsOf t p).map norm = some (norm (resolve M p))) ∧
      (∀ e ∈ t.files, pathOfKey e.1 ∈ pathsOf M) := by
  have hmem : ∀ s ∈ M, ∀ f ∈ s.files, pathOf s.name f.name ∈ pathsOf M := by
    intro s hs f hf
    unfold pathsOf
    rw [List.mem_eraseDups, List.mem_flatMap]
    exact ⟨s, hs, List.mem_map.mpr ⟨f, hf, rfl⟩⟩
  have hpaths : ∀ s ∈ M, ∀ f ∈ s.files, pathOf s.name f.name ∈ pathsOf M ∧
      NoConflictWith (pathsOf M) (pathOf s.name f.name) := by
    intro s hs f hf
    refine ⟨hmem s hs f hf, ?_⟩
    intro q hq
    exact ⟨htree q hq _ (hmem s hs f hf), htree _ (hmem s hs f hf) q hq⟩
  have hfinal : ∀ t, FsInv ([] ++ manifestContribs M) t →
      (∀ p ∈ pathsOf M, fsSegsOf t p = some (resolve M p) ∧
        (fsSegsOf t p).map norm = some (norm (resolve M p))) ∧
      (∀ e ∈ t.files, pathOfKey e.1 ∈ pathsOf M) := by
    intro t hinv
    simp only [List.nil_append] at hinv
    have hdonepaths : ∀ q ∈ (manifestContribs M).map (·.1), q ∈ pathsOf M := by
      intro q hq
      simp only [manifestContribs, contribsOf, List.map_flatMap, List.map_map, List.mem_flatMap, List.mem_map,
        Function.comp] at hq
      obtain ⟨s, hs, f, hf, rfl⟩ := hq
      exact hmem s hs f hf
    constructor
    · intro p hp
      have hpin : ∃ c ∈ manifestContribs M, c.1 = p := by
        unfold pathsOf at hp
        rw [List.mem_eraseDups, List.mem_flatMap] at hp
        obtain ⟨s, hs, hp⟩ := hp
        obtain ⟨f, hf, rfl⟩ := List.mem_map.mp hp
        exact ⟨(pathOf s.name f.name, resolveTok s.blocks 0 f.pos f.len),
          List.mem_flatMap.mpr ⟨s, hs, List.mem_map.mpr ⟨f, hf, rfl⟩⟩, rfl⟩
      obtain ⟨c, hc, hcp⟩ := hpin
      obtain ⟨e, he, hpe⟩ := hinv.has c hc
      have hseg : fsSegsOf t p = some (resolve M p) := by
        unfold fsSegsOf
        cases hf : t.files.find? (fun e => decide (joinWith bSlash ([bDot] :: e.1) = p)) with
        | none =>
          have := List.find?_eq_none.mp hf e he
          simp only [decide_eq_true_eq] at this
          exact absurd (by rw [← hcp, ← hpe]; rfl) this
        | some e' =>
          have hm := List.mem_of_find?_eq_some hf
          have hp' := List.find?_some hf
          simp only [decide_eq_true_eq] at hp'
          obtain ⟨_, _, h3⟩ := hinv.files e' hm
          simp only [Option.map_some, Option.some.injEq]
          rw [h3]
          have : pathOfKey e'.1 = p := hp'
          rw [this, contribOf_manifest]
      exact ⟨hseg, by rw [hseg]; rfl⟩
    · intro e he
      exact hdonepaths _ (hinv.files e he).2.1
  unfold parseSpec at hvalid
  by_cases h0 : txt = []
  · rw [if_pos h0] at hvalid; cases hvalid; subst h0
    refine ⟨⟨[], []⟩, by simp [fsLoad, splitOn, fsLines], ?_⟩
    exact hfinal _ (by simpa [manifestContribs] using fsInv_empty)
  · rw [if_neg h0] at hvalid
    simp only [] at hvalid
    by_cases hl : (splitOn bNL txt).getLast? = some []
    · rw [if_pos hl] at hvalid
      obtain ⟨t, h1, h2⟩ := fsLines_spec _ M hvalid hfit [] ⟨[], []⟩ fsInv_empty (pathsOf M) (by simp) hpaths
      refine ⟨t, ?_, hfinal t h2⟩
      unfold fsLoad
      simp only [hl, ne_eq, not_true_eq_false, if_false]
      exact h1
    · rw [if_neg hl] at hvalid; cases hvalid

/-- **C10_py_agrees** (stream level): for every stream inside the grammar and each of its file
tokens, the Python range mapper over the Range list the SDK builds for the stream's blocks raises
nothing and returns, zero-length entries dropped, the reference pieces. (The anchored Python code
is a range mapper, not a parser: tokenizing and accumulating per file is harness code.) -/
theorem C10_py_agrees (line : Bytes) (s : Stream) (hvalid : specLine line = some s) :
    ∀ f ∈ s.files, ∃ segs, pyLocatorsAndRanges pyFirstBlock (pyRangesFrom 0 s.blocks) f.pos f.len = .ok segs ∧
      pyKeep segs = resolveTok s.blocks 0 f.pos f.len ∧
      norm (pyKeep segs) = norm (resolveTok s.blocks 0 f.pos f.len) := by
  intro f hf
  have hin : f.pos + f.len ≤ streamLen s.blocks := by
    unfold specLine at hvalid
    simp only [] at hvalid
    split at hvalid
    · split at hvalid
      · split at hvalid
        · split at hvalid
          · split at hvalid
            · split at hvalid
              · rename_i hok
                cases hvalid
                have := List.all_eq_true.mp hok.2.2 f hf
                simpa using this
              · cases hvalid
            · cases hvalid
          · cases hvalid
        · cases hvalid
      · cases hvalid
    · cases hvalid
  obtain ⟨segs, h1, h2⟩ := pyLocatorsAndRanges_spec s.blocks f.pos f.len hin
  exact ⟨segs, h1, h2, by rw [h2]⟩

/-! ## escapes -/

/-- **Escape round trip, every byte string, every codec pair**: whatever one of the three escapers
(`manifest.EscapeName` fixed, `manifestEscape`, Python `escape`) writes, each of the three readers
(`manifest.UnescapeName`, `manifestUnescape`, the specification's `\ooo` reader = the Python SDK's)
reads back as the original name; the escaped form holds no delimiter or control byte. -/
theorem C10_escape_roundtrip (s : Bytes) :
    pkgUnescape (pkgEscape s) = s ∧ fsUnescape (pkgEscape s) = s ∧ specUnescape (pkgEscape s) = some s ∧
    pkgUnescape (fsEscape s) = s ∧ fsUnescape (fsEscape s) = s ∧ specUnescape (fsEscape s) = some s ∧
    pkgUnescape (pyEscape s) = s ∧ fsUnescape (pyEscape s) = s ∧ specUnescape (pyEscape s) = some s ∧
    (∀ x ∈ pkgEscape s, 32 < x) ∧ (∀ x ∈ fsEscape s, 32 < x) ∧ (∀ x ∈ pyEscape s, 32 < x) := by
  have hp : pkgEscapePred bBackslash = true := by decide
  have hf : fsEscapePred bBackslash = true := by decide
  have hp32 : ∀ c : UInt8, c ≤ 32 → pkgEscapePred c = true := by
    intro c hc; simp [pkgEscapePred, hc]
  have hf32 : ∀ c : UInt8, c ≤ 32 → fsEscapePred c = true := by
    intro c hc; simp [fsEscapePred, hc]
  exact ⟨goUnescape_escapeWith isDigit _ isOctDigit_isDigit hp s,
    goUnescape_escapeWith isOctDigit _ (fun _ h => h) hp s,
    specUnescape_escapeWith _ hp s,
    goUnescape_escapeWith isDigit _ isOctDigit_isDigit hf s,
    goUnescape_escapeWith isOctDigit _ (fun _ h => h) hf s,
    specUnescape_escapeWith _ hf s,
    goUnescape_escapeWith isDigit _ isOctDigit_isDigit hf s,
    goUnescape_escapeWith isOctDigit _ (fun _ h => h) hf s,
    specUnescape_escapeWith _ hf s,
    escapeWith_no_delim _ hp32 s, escapeWith_no_delim _ hf32 s, escapeWith_no_delim _ hf32 s⟩

/-- Documentation of finding F6 (repaired by d559316): the old `EscapeName` (`c <= 32` only) is not
inverted — the name `a\040b` (a literal backslash) came back as `a b`. -/
theorem C10_escape_old_fails :
    pkgUnescape (pkgEscapeOld [97, 92, 48, 52, 48, 98]) = [97, 32, 98] := by decide

/-- inside the grammar the Go readers agree with the specification's reader -/
theorem C10_unescape_agrees (t u : Bytes) (h : specUnescape t = some u) :
    pkgUnescape t = u ∧ fsUnescape t = u :=
  ⟨goUnescape_of_spec isDigit isOctDigit_isDigit t.length t u (Nat.le_refl _) h,
   goUnescape_of_spec isOctDigit (fun _ h => h) t.length t u (Nat.le_refl _) h⟩

/-! ## portable data hash -/

/-- **C10_pdh.** For every text inside the grammar and an arbitrary `md5hex`, `PortableDataHash` is
`md5hex` of the text with every locator reduced to hash+size, `+`, the length of that text. Hence
it does not change under re-signing or any other rewrite that touches hints only. -/
theorem C10_pdh (md5hex : Bytes → Bytes) (txt : Bytes) (hvalid : ValidManifest txt) :
    portableDataHash md5hex txt = md5hex (stripHints txt) ++ bPlus :: natToDec (stripHints txt).length := by
  unfold ValidManifest at hvalid
  cases h : parseSpec txt with
  | none => rw [h] at hvalid; cases hvalid
  | some M => unfold portableDataHash; rw [pdhInput_valid txt M h]

theorem C10_pdh_hints_irrelevant (md5hex : Bytes → Bytes) (t1 t2 : Bytes) (h1 : ValidManifest t1)
    (h2 : ValidManifest t2) (hs : stripHints t1 = stripHints t2) :
    portableDataHash md5hex t1 = portableDataHash md5hex t2 := by
  rw [C10_pdh md5hex t1 h1, C10_pdh md5hex t2 h2, hs]

/-! ## totality: no panic, no partial application -/

/-- what the manifest package parses out of a text, as structured streams -/
def pkgParsed (txt : Bytes) : Manifest := (pkgStreams txt).map ofPStream

/-- **C10_pkg_no_panic — for every input string** (after fixes 584d30b, 4f92334, 2fef6b9):
`Manifest.segment()` (hence `Extract`) reaches neither of the two `panic`s of
`sendFileSegmentIterByName` nor an index out of range in `firstBlock`. -/
theorem C10_pkg_no_panic (txt : Bytes) : pkgSegment txt ≠ .panic := by
  apply segmentStreams_no_panic _ []
  intro ps hps he
  unfold pkgStreams at hps
  obtain ⟨line, _, rfl⟩ := List.mem_map.mp hps
  exact pstream_fit line he

/-- **C10_pkg_total — for every input string, no hypothesis** (after fixes 4f92334, b1a09e4, 2fef6b9,
c203269): `segment()` does not panic, and a manifest is never applied partially — either some
stream has a parse error and the result is that error and nothing else, or every stream parsed and
the segment list of *every* combined path is its `resolve` over all parsed streams. -/
theorem C10_pkg_total (txt : Bytes) :
    pkgSegment txt ≠ .panic ∧
    ((pkgSegment txt = .err ∧ ∃ ps ∈ pkgStreams txt, ps.err = true) ∨
      ∃ m, pkgSegment txt = .ok m ∧ (∀ ps ∈ pkgStreams txt, ps.err = false) ∧
        ∀ a b : Bytes, segLookup m (splitPath (pathOf a b)) = resolve (pkgParsed txt) (pathOf a b)) := by
  refine ⟨C10_pkg_no_panic txt, ?_⟩
  have hok : ∀ ps ∈ pkgStreams txt, ps.err = false → ps = toPStream (ofPStream ps) ∧ StreamOk (ofPStream ps) := by
    intro ps hps he
    unfold pkgStreams at hps
    obtain ⟨line, _, rfl⟩ := List.mem_map.mp hps
    exact pstream_ok line he
  rcases segmentStreams_total' (pkgStreams txt) [] hok with h | ⟨m, h1, h2, h3⟩
  · exact Or.inl h
  · refine Or.inr ⟨m, h1, h2, ?_⟩
    intro a b
    have := h3 a b
    simpa [segLookup, pkgParsed] using this

/-- corollary in the property's words: a malformed stream anywhere makes the whole call fail -/
theorem C10_pkg_malformed_rejected (txt : Bytes) (ps : PStream) (hps : ps ∈ pkgStreams txt)
    (herr : ps.err = true) : pkgSegment txt = .err := by
  rcases (C10_pkg_total txt).2 with h | ⟨_, _, h2, _⟩
  · exact h.1
  · rw [h2 ps hps] at herr; cases herr

/-! ## witnesses: non-vacuity and the known findings -/

/-- F3's shape: a valid manifest whose file crosses an interior zero-length block -/
def wF3 : Bytes := [46, 32, 97, 97, 97, 97, 97, 97, 97, 97, 97, 97, 97, 97, 97, 97, 97, 97, 97, 97, 97, 97, 97, 97, 97, 97, 97, 97, 97, 97, 97, 97, 97, 97, 43, 51, 32, 100, 52, 49, 100, 56, 99, 100, 57, 56, 102, 48, 48, 98, 50, 48, 52, 101, 57, 56, 48, 48, 57, 57, 56, 101, 99, 102, 56, 52, 50, 55, 101, 43, 48, 32, 98, 98, 98, 98, 98, 98, 98, 98, 98, 98, 98, 98, 98, 98, 98, 98, 98, 98, 98, 98, 98, 98, 98, 98, 98, 98, 98, 98, 98, 98, 98, 98, 43, 53, 32, 50, 58, 52, 58, 102, 10]
def wF3M : Manifest :=
  [⟨[46], [⟨[97, 97, 97, 97, 97, 97, 97, 97, 97, 97, 97, 97, 97, 97, 97, 97, 97, 97, 97, 97, 97, 97, 97, 97, 97, 97, 97, 97, 97, 97, 97, 97, 43, 51], 3⟩, ⟨[100, 52, 49, 100, 56, 99, 100, 57, 56, 102, 48, 48, 98, 50, 48, 52, 101, 57, 56, 48, 48, 57, 57, 56, 101, 99, 102, 56, 52, 50, 55, 101, 43, 48], 0⟩, ⟨[98, 98, 98, 98, 98, 98, 98, 98, 98, 98, 98, 98, 98, 98, 98, 98, 98, 98, 98, 98, 98, 98, 98, 98, 98, 98, 98, 98, 98, 98, 98, 98, 43, 53], 5⟩], [⟨2, 4, [102]⟩]⟩]

set_option maxRecDepth 100000 in
theorem wF3_valid : parseSpec wF3 = some wF3M := by decide +kernel

/-- the hypotheses of `C10_pkg_agrees`, `C10_fs_agrees`, `C10_pdh` are satisfiable by a non-trivial text -/
example : ValidManifest wF3 := by unfold ValidManifest; rw [wF3_valid]; rfl
example : ∀ s ∈ wF3M, FitsGo s ∧ FitsFs s := by
  intro s hs
  simp only [wF3M, List.mem_singleton] at hs
  subst hs
  refine ⟨⟨?_, ?_⟩, ⟨?_, ?_⟩⟩ <;> simp [two63, two64, two31, streamLen] <;> omega
example : TreeConsistent wF3M := by decide +kernel
example : resolve wF3M [46, 47, 102] = [⟨[97, 97, 97, 97, 97, 97, 97, 97, 97, 97, 97, 97, 97, 97, 97, 97, 97, 97, 97, 97, 97, 97, 97, 97, 97, 97, 97, 97, 97, 97, 97, 97, 43, 51], 2, 1⟩, ⟨[98, 98, 98, 98, 98, 98, 98, 98, 98, 98, 98, 98, 98, 98, 98, 98, 98, 98, 98, 98, 98, 98, 98, 98, 98, 98, 98, 98, 98, 98, 98, 98, 43, 53], 0, 3⟩] := by decide +kernel

/-- the witness of the repaired finding F10e (zero-length token with a non-canonical name picked up
its sibling's data; fix c203269) is now rejected, while the collection filesystem's empty-directory
marker is still accepted -/
def wF10e : Bytes := [46, 32, 97, 97, 97, 97, 97, 97, 97, 97, 97, 97, 97, 97, 97, 97, 97, 97, 97, 97, 97, 97, 97, 97, 97, 97, 97, 97, 97, 97, 97, 97, 97, 97, 43, 51, 32, 48, 58, 51, 58, 97, 32, 48, 58, 48, 58, 46, 47, 97, 10]
def wMarker : Bytes := [46, 32, 97, 97, 97, 97, 97, 97, 97, 97, 97, 97, 97, 97, 97, 97, 97, 97, 97, 97, 97, 97, 97, 97, 97, 97, 97, 97, 97, 97, 97, 97, 97, 97, 43, 51, 32, 48, 58, 51, 58, 97, 10, 46, 47, 100, 32, 100, 52, 49, 100, 56, 99, 100, 57, 56, 102, 48, 48, 98, 50, 48, 52, 101, 57, 56, 48, 48, 57, 57, 56, 101, 99, 102, 56, 52, 50, 55, 101, 43, 48, 32, 48, 58, 48, 58, 92, 48, 53, 54, 10]
set_option maxRecDepth 100000 in
theorem wF10e_rejected : pkgSegment wF10e = .err := by decide +kernel
set_option maxRecDepth 100000 in
example : pkgSegment wMarker = .ok [(([46], [97]), [⟨[97, 97, 97, 97, 97, 97, 97, 97, 97, 97, 97, 97, 97, 97, 97, 97, 97, 97, 97, 97, 97, 97, 97, 97, 97, 97, 97, 97, 97, 97, 97, 97, 43, 51], 0, 3⟩]), (([46, 47, 100], [46]), [])] := by
  decide +kernel

/-- the witness of the repaired finding F10d (stream length wraps around 2^64; fix 2fef6b9) is now
rejected with an error -/
def wF10d : Bytes := [46, 32, 100, 52, 49, 100, 56, 99, 100, 57, 56, 102, 48, 48, 98, 50, 48, 52, 101, 57, 56, 48, 48, 57, 57, 56, 101, 99, 102, 56, 52, 50, 55, 101, 43, 48, 32, 97, 97, 97, 97, 97, 97, 97, 97, 97, 97, 97, 97, 97, 97, 97, 97, 97, 97, 97, 97, 97, 97, 97, 97, 97, 97, 97, 97, 97, 97, 97, 97, 43, 50, 32, 98, 98, 98, 98, 98, 98, 98, 98, 98, 98, 98, 98, 98, 98, 98, 98, 98, 98, 98, 98, 98, 98, 98, 98, 98, 98, 98, 98, 98, 98, 98, 98, 43, 57, 50, 50, 51, 51, 55, 50, 48, 51, 54, 56, 53, 52, 55, 55, 53, 56, 48, 55, 32, 98, 98, 98, 98, 98, 98, 98, 98, 98, 98, 98, 98, 98, 98, 98, 98, 98, 98, 98, 98, 98, 98, 98, 98, 98, 98, 98, 98, 98, 98, 98, 98, 43, 57, 50, 50, 51, 51, 55, 50, 48, 51, 54, 56, 53, 52, 55, 55, 53, 56, 48, 55, 32, 99, 99, 99, 99, 99, 99, 99, 99, 99, 99, 99, 99, 99, 99, 99, 99, 99, 99, 99, 99, 99, 99, 99, 99, 99, 99, 99, 99, 99, 99, 99, 99, 43, 51, 32, 48, 58, 51, 58, 102, 10]
set_option maxRecDepth 100000 in
theorem wF10d_rejected : pkgSegment wF10d = .err := by decide +kernel

/-- the witnesses of the repaired findings F10a (uint64 wrap of `pos+size`; fix 4f92334) and F10c
(names altered by `path.Clean`; fix b1a09e4) are now rejected with an error -/
def wF10a : Bytes := [46, 32, 97, 97, 97, 97, 97, 97, 97, 97, 97, 97, 97, 97, 97, 97, 97, 97, 97, 97, 97, 97, 97, 97, 97, 97, 97, 97, 97, 97, 97, 97, 97, 97, 43, 51, 32, 49, 56, 52, 52, 54, 55, 52, 52, 48, 55, 51, 55, 48, 57, 53, 53, 49, 54, 49, 53, 58, 50, 58, 102, 10]
def wF10a2 : Bytes := [46, 32, 97, 97, 97, 97, 97, 97, 97, 97, 97, 97, 97, 97, 97, 97, 97, 97, 97, 97, 97, 97, 97, 97, 97, 97, 97, 97, 97, 97, 97, 97, 97, 97, 43, 51, 32, 49, 58, 49, 56, 52, 52, 54, 55, 52, 52, 48, 55, 51, 55, 48, 57, 53, 53, 49, 54, 49, 53, 58, 102, 10]
def wF10c : Bytes := [46, 32, 97, 97, 97, 97, 97, 97, 97, 97, 97, 97, 97, 97, 97, 97, 97, 97, 97, 97, 97, 97, 97, 97, 97, 97, 97, 97, 97, 97, 97, 97, 97, 97, 43, 51, 32, 48, 58, 51, 58, 97, 47, 47, 98, 10]
set_option maxRecDepth 100000 in
theorem wF10a_rejected : pkgSegment wF10a = .err ∧ pkgSegment wF10a2 = .err := by
  constructor <;> decide +kernel
set_option maxRecDepth 100000 in
theorem wF10c_rejected : pkgSegment wF10c = .err := by decide +kernel

/-- `loadManifest`'s "ran off the end of the stream" test for a token `o:l` from the start of a line -/
def fsPastEnd (blocks : List Loc) (o l : Nat) : Bool :=
  let r := fsLoop (o : Int) (addI64 o l) blocks 0 0 []
  decide (r.1 = blocks.length ∧ r.2.1 < addI64 o l)

/-- the end-of-stream test is exact whenever `offset+length` stays below 2^63 -/
theorem C10_fs_rejects_overlong_below (blocks : List Loc) (o l : Nat) (h : o + l < two63) :
    fsPastEnd blocks o l = true ↔ streamLen blocks < o + l := by
  unfold fsPastEnd
  rw [addI64_eq o l h]
  obtain ⟨_, k, hk1, hk2, hk3, hk4⟩ := fsLoop_spec o l blocks 0 0 []
  simp only [Int.natCast_zero, Nat.zero_add] at hk3 hk4
  simp only [decide_eq_true_eq, hk3, hk4]
  constructor
  · intro ⟨ha, hb⟩
    have hfull : blocks.take k = blocks := by rw [ha]; exact List.take_length
    rw [hfull] at hb
    omega
  · intro hlt
    have hkl : k = blocks.length := by
      rcases Nat.lt_or_eq_of_le hk1 with hh | hh
      · have := hk2 hh; omega
      · exact hh
    refine ⟨hkl, ?_⟩
    have hfull : blocks.take k = blocks := by rw [hkl]; exact List.take_length
    rw [hfull]; omega

/-- what `loadManifest` does with the range of a file token `o:l` at the start of a line: an error
because `offset+length` overflows int64 (fix 499e88b), or because the loop ran off the end -/
def fsRejects (blocks : List Loc) (o l : Nat) : Bool :=
  decide (addI64 o l < (o : Int)) || fsPastEnd blocks o l

/-- **C10_total, collection-fs loader** (full strength after fix 499e88b): for every block list the
loader can hold (`pos` is an int64) and every offset and length `ParseInt` accepts, a file token is
rejected **exactly** when it reaches past the end of its stream. -/
theorem C10_fs_rejects_overlong (blocks : List Loc) (o l : Nat) (ho : o < two63) (hl : l < two63)
    (hs : streamLen blocks < two63) :
    fsRejects blocks o l = true ↔ streamLen blocks < o + l := by
  unfold fsRejects
  by_cases h : o + l < two63
  · rw [Bool.or_eq_true, C10_fs_rejects_overlong_below blocks o l h, addI64_eq o l h]
    simp only [decide_eq_true_eq]
    constructor
    · rintro (h1 | h1)
      · omega
      · exact h1
    · exact Or.inr
  · have hwrap : addI64 (o : Int) (l : Int) < (o : Int) := by
      unfold addI64 toI64
      have e : ((o : Int) + (l : Int) + (two64 : Int)).toNat = o + l + two64 := by omega
      rw [e, Nat.add_mod_right, Nat.mod_eq_of_lt (by unfold two63 at ho hl; unfold two64; omega), if_neg h]
      unfold two63 at h ho hl; unfold two64; omega
    simp only [hwrap, decide_true, Bool.true_or, true_iff]
    omega

/-- `ParseInt(s, 10, bits)` returns a value below 2^(bits-1) -/
theorem parseIntBits_bound (bits : Nat) (s : Bytes) (n : Int) (h : parseIntBits bits s = some n) :
    n < ((2 ^ (bits - 1) : Nat) : Int) := by
  have key : ∀ (o : Option Nat) (f : Nat → Option Int), o.bind f = some n → ∃ k, o = some k ∧ f k = some n := by
    intro o f hb
    cases o with
    | none => cases hb
    | some k => exact ⟨k, rfl, hb⟩
  unfold parseIntBits at h
  cases s with
  | nil => cases h
  | cons c rest =>
    simp only [] at h
    by_cases h43 : (c == 43) = true
    · rw [if_pos h43] at h
      obtain ⟨k, _, hk⟩ := key _ _ h
      by_cases hlt : k < 2 ^ (bits - 1)
      · rw [if_pos hlt] at hk; cases hk; exact_mod_cast hlt
      · rw [if_neg hlt] at hk; cases hk
    · rw [if_neg h43] at h
      by_cases h45 : (c == 45) = true
      · rw [if_pos h45] at h
        obtain ⟨k, _, hk⟩ := key _ _ h
        by_cases hle : k ≤ 2 ^ (bits - 1)
        · rw [if_pos hle] at hk; cases hk
          have : (0 : Int) < ((2 ^ (bits - 1) : Nat) : Int) := by
            have := Nat.two_pow_pos (bits - 1)
            exact_mod_cast this
          omega
        · rw [if_neg hle] at hk; cases hk
      · rw [if_neg h45] at h
        obtain ⟨k, _, hk⟩ := key _ _ h
        by_cases hlt : k < 2 ^ (bits - 1)
        · rw [if_pos hlt] at hk; cases hk; exact_mod_cast hlt
        · rw [if_neg hlt] at hk; cases hk

/-- what `loadManifest` reads as a locator has an int32 size (`ParseInt(toks[1], 10, 32)`) -/
theorem fsLocator_size (t : Bytes) (b : Loc) (h : fsLocator t = some b) : b.size < two31 := by
  unfold fsLocator at h
  cases hs : splitN3 bPlus t with
  | nil => rw [hs] at h; cases h
  | cons a r =>
    cases r with
    | nil => rw [hs] at h; cases h
    | cons sz r' =>
      rw [hs] at h
      simp only [] at h
      cases hp : parseIntBits 32 sz with
      | none => rw [hp] at h; cases h
      | some n =>
        rw [hp] at h
        simp only [] at h
        by_cases hneg : n < 0
        · rw [if_pos hneg] at h; cases h
        · rw [if_neg hneg] at h
          cases h
          have := parseIntBits_bound 32 sz n hp
          simp only []
          unfold two31
          omega

theorem streamLen_le_of_sizes : ∀ (bs : List Loc), (∀ b ∈ bs, b.size < two31) → streamLen bs ≤ bs.length * (two31 - 1)
  | [], _ => by simp
  | b :: rest, h => by
    have := streamLen_le_of_sizes rest (fun x hx => h x (List.mem_cons_of_mem _ hx))
    have hb := h b (by simp)
    simp only [streamLen_cons, List.length_cons]
    rw [Nat.add_mul]
    omega

/-- **C10_fs_rejects_overlong, in the loader's own terms**: for the block list `loadManifest` reads
from any locator tokens (sizes are int32 by its `ParseInt`), fewer than 2^32 of them (a manifest
line of less than ~140 GB; beyond that the int64 cursor itself could overflow), and every offset and
length `ParseInt` accepts, a file token is rejected **exactly** when it reaches past the end of its
stream. The former hypothesis "stream length < 2^63" is discharged from the int32 parse. -/
theorem C10_fs_rejects_overlong_parsed (btoks : List Bytes) (blocks : List Loc)
    (hb : mapOpt fsLocator btoks = some blocks) (hn : btoks.length ≤ 4294967296)
    (o l : Nat) (ho : o < two63) (hl : l < two63) :
    fsRejects blocks o l = true ↔ streamLen blocks < o + l := by
  have hsz : ∀ b ∈ blocks, b.size < two31 := by
    have key : ∀ (ts : List Bytes) (bs : List Loc), mapOpt fsLocator ts = some bs → ∀ b ∈ bs, b.size < two31 := by
      intro ts
      induction ts with
      | nil => intro bs h b hb'; simp [mapOpt] at h; subst h; simp at hb'
      | cons t r ih =>
        intro bs h b hb'
        obtain ⟨x, xs, hx, hxs, rfl⟩ := mapOpt_cons_some fsLocator t r bs h
        rcases List.mem_cons.mp hb' with rfl | hb'
        · exact fsLocator_size t b hx
        · exact ih xs hxs b hb'
    exact key btoks blocks hb
  have hlen : blocks.length = btoks.length := mapOpt_length fsLocator btoks blocks hb
  have h1 := streamLen_le_of_sizes blocks hsz
  apply C10_fs_rejects_overlong blocks o l ho hl
  have : blocks.length * (two31 - 1) ≤ 4294967296 * (two31 - 1) := Nat.mul_le_mul_right _ (by omega)
  unfold two31 at *
  unfold two63
  omega

/-- the witness of the repaired finding F10b is now rejected -/
def wF10b : Bytes := [46, 32, 97, 97, 97, 97, 97, 97, 97, 97, 97, 97, 97, 97, 97, 97, 97, 97, 97, 97, 97, 97, 97, 97, 97, 97, 97, 97, 97, 97, 97, 97, 97, 97, 43, 51, 32, 57, 50, 50, 51, 51, 55, 50, 48, 51, 54, 56, 53, 52, 55, 55, 53, 56, 48, 55, 58, 50, 58, 102, 10]
set_option maxRecDepth 100000 in
theorem wF10b_rejected : (fsLoad wF10b).isNone = true := by decide +kernel

end ArvVerif.C10
