/-
C04 — a freshly written or touched block survives garbage collection for the TTL.

Sequential layer (`Model/C04.lean`): theorems over ARBITRARY request histories (any length, any
initial state, any configuration). Interleaving layer (`Model/C04_Race.lean`): theorems for EVERY
schedule `List Bool` of one PUT/TOUCH against one Trash.

Two full-strength statements are FALSE of the current code and are therefore given as
`…_Full : Prop` + `…_full_fails` (explicit witness) + `…_partial`:
  * `C04_history_protects`  — finding F04a: Untrash renames an old trashed copy over a fresh block;
  * `C04_race_overwrite`    — finding F4: WriteBlock takes no flock, so with Serialize off a Trash that
                              has already examined the old file moves the new block away.
-/
import ArvVerif.Proofs.C04_Trash
import ArvVerif.Proofs.C04_Race
namespace ArvVerif.C04

/-! ## (a) histories -/

def emptyGhost : Ghost := fun _ => none

/-- Full strength: after ANY history from ANY state, every hash acknowledged (PUT/TOUCH answered 200)
at time t is, while now < t + TTL, still stored on the server with a timestamp ≥ t. -/
def C04_history_protects_Full : Prop :=
  ∀ (c : Cfg) (s : St) (ops : List Op), Prot c (runG c s emptyGhost ops).1 (runG c s emptyGhost ops).2

/-! witness of F04a: one writable volume holding h0 with an old timestamp; TTL 10; time 100:
DELETE h0 (trashed) · PUT h0 (new copy, acknowledged at 100) · untrash h0 (old copy renamed over the
new one, mtime 0 again) · DELETE h0 (trashed again, at time 100 < 100 + 10). -/
def wCfg : Cfg := { ttl := 10, life := 4, blobTrash := true, conc := 1, res := 1 }
def wVol : Vol := { id := 0, ro := false, trash := [],
                    blocks := fun h => if h = 0 then some { good := true, mtime := 0 } else none }
def wSt : St := { vols := [wVol], now := 100, rr := 0 }
def wOps : List Op := [.delete 0, .put 0 true, .untrash 0, .delete 0]

theorem C04_history_protects_full_fails : ¬ C04_history_protects_Full := by
  intro hF
  have hg : (runG wCfg wSt emptyGhost wOps).2 0 = some (100, true) := by decide
  have hh := (hF wCfg wSt wOps 0 100 true hg).2 (by decide)
  obtain ⟨v, hv, f, hf, _⟩ := hh
  have hm : (runG wCfg wSt emptyGhost wOps).1.vols.map (fun v => v.blocks 0) = [none] := by decide
  have := List.mem_map_of_mem (f := fun v => v.blocks 0) hv
  rw [hm, hf] at this
  simp at this

/-- What holds: over every history in which `untrash` never renames a trashed copy over an existing
block file (`SafeOps`), the protection invariant holds — for any number of volumes, any initial
contents and ages, any TTL / lifetime / BlobTrash setting, any interleaving of PUT, TOUCH, GET,
DELETE, trash-list items (any mtime, any mount), untrash, empty-trash sweeps and clock ticks. -/
theorem C04_history_protects_partial (c : Cfg) (s : St) (ops : List Op) (hsafe : SafeOps c s ops) :
    Prot c (runG c s emptyGhost ops).1 (runG c s emptyGhost ops).2 :=
  prot_run ops s emptyGhost (fun _ _ _ hg => by cases hg) hsafe

/-- in particular: histories without untrash -/
def NoUntrash : List Op → Prop
  | [] => True
  | .untrash _ :: _ => False
  | _ :: ops => NoUntrash ops

theorem safeOps_of_noUntrash (c : Cfg) : ∀ (ops : List Op) (s : St), NoUntrash ops → SafeOps c s ops := by
  intro ops
  induction ops with
  | nil => intro _ _; trivial
  | cons op ops ih =>
    intro s hn
    cases op with
    | untrash h => exact absurd hn (by simp [NoUntrash])
    | _ => exact ⟨trivial, ih _ (by simpa [NoUntrash] using hn)⟩

theorem C04_history_protects_no_untrash (c : Cfg) (s : St) (ops : List Op) (hn : NoUntrash ops) :
    Prot c (runG c s emptyGhost ops).1 (runG c s emptyGhost ops).2 :=
  C04_history_protects_partial c s ops (safeOps_of_noUntrash c ops s hn)

/-- the conclusion unfolded for one hash, as the property states it (`p` = acknowledged by a PUT) -/
theorem C04_acknowledged_block_survives (c : Cfg) (s : St) (ops : List Op) (hsafe : SafeOps c s ops)
    (h : Hash) (t : Time) (p : Bool) (hack : (runG c s emptyGhost ops).2 h = some (t, p))
    (hlt : (runG c s emptyGhost ops).1.now < t + c.ttl) :
    ∃ v ∈ (runG c s emptyGhost ops).1.vols, ∃ f, v.blocks h = some f ∧ t ≤ f.mtime ∧ (p = true → f.good = true) :=
  (C04_history_protects_partial c s ops hsafe h t p hack).2 hlt

/-- ... and a block whose PUT was acknowledged at t is served (GET 200) at every moment before t + TTL -/
theorem C04_acknowledged_put_is_readable (c : Cfg) (s : St) (ops : List Op) (hsafe : SafeOps c s ops)
    (h : Hash) (t : Time) (hack : (runG c s emptyGhost ops).2 h = some (t, true))
    (hlt : (runG c s emptyGhost ops).1.now < t + c.ttl) :
    (step c (runG c s emptyGhost ops).1 (.get h)).2 = .code 200 := by
  obtain ⟨v, hv, f, hf, _, hg⟩ := C04_acknowledged_block_survives c s ops hsafe h t true hack hlt
  simp only [step]
  rw [getStatus_200 _ _ ⟨v, hv, f, hf, hg rfl⟩]

/-! non-vacuity: a history with trash, untrash (onto an empty slot), PUT and DELETE satisfies the
hypothesis, acknowledges h0 at time 100 and the conclusion is about a non-empty server -/
def okOps : List Op := [.delete 0, .untrash 0, .put 0 true, .tick 3, .delete 0, .emptyTrash, .get 0]

example : SafeOps wCfg wSt okOps := by
  simp only [okOps, SafeOps, SafeOp, and_true, true_and]
  decide
example : (runG wCfg wSt emptyGhost okOps).2 0 = some (100, true) := by decide
example : (runG wCfg wSt emptyGhost okOps).1.now = 103 := by decide
example : (run wCfg wSt okOps).2 = [.deleted 1 0, .code 200, .code 200, .quiet, .deleted 1 0, .quiet, .code 200] := by decide

/-! ## (b) when a trash request may act -/

/-- A trash-list item changes the block map of a volume only by removing the copy of the requested
hash, and only if: the volume is writable, BlobTrash is on, the mount matches, the request's mtime is
at least TTL old, and the stored mtime EQUALS the requested one. -/
theorem C04_trash_preconditions (c : Cfg) (s : St) (h : Hash) (req : Time) (mount : Option Nat) :
    (step c s (.trashItem h req mount)).1.now = s.now ∧
    ∃ F : Vol → Vol, (step c s (.trashItem h req mount)).1.vols = s.vols.map F ∧
      ∀ v h', (F v).blocks h' ≠ v.blocks h' →
        h' = h ∧ v.ro = false ∧ c.blobTrash = true ∧ (mount = none ∨ mount = some v.id) ∧
        ¬ (s.now < req + c.ttl) ∧ (F v).blocks h = none ∧ ∃ f, v.blocks h = some f ∧ f.mtime = req := by
  by_cases hy : young c s.now req = true
  · refine ⟨by simp [step, hy], id, by simp [step, hy], fun v h' hne => absurd rfl hne⟩
  · refine ⟨by simp [step, hy], tiVol c s.now h req mount, by simp [step, hy], fun v h' hne => ?_⟩
    obtain ⟨h1, h2, h3, h4, h5, f, h6, h7, _⟩ := tiVol_acts c s.now h req mount v h' hne
    have hold : ¬ (s.now < req + c.ttl) := by simpa [young] using hy
    exact ⟨h1, h2, h3, h4, hold, h5, f, h6, h7⟩

/-- DELETE: the same without the mtime match; the stored copy must be at least TTL old. -/
theorem C04_delete_preconditions (c : Cfg) (s : St) (h : Hash) :
    (step c s (.delete h)).1.now = s.now ∧
    ∃ F : Vol → Vol, (step c s (.delete h)).1.vols = s.vols.map F ∧
      ∀ v h', (F v).blocks h' ≠ v.blocks h' →
        h' = h ∧ v.ro = false ∧ c.blobTrash = true ∧ (F v).blocks h = none ∧
        ∃ f, v.blocks h = some f ∧ ¬ (s.now < f.mtime + c.ttl) := by
  by_cases hb : c.blobTrash = true
  · by_cases hn : (s.vols.filter (delHit c s.now h)).length = 0
    · exact ⟨by simp [step, hb, hn], id, by simp [step, hb, hn], fun v h' hne => absurd rfl hne⟩
    · exact ⟨by simp [step, hb, hn], delVol c s.now h, by simp [step, hb, hn],
        fun v h' hne => delVol_acts c s.now h v h' hne⟩
  · exact ⟨by simp [step, hb], id, by simp [step, hb], fun v h' hne => absurd rfl hne⟩

/-- a trashed copy is kept as `<hash>.trash.<deadline>` with deadline = ⌊(now + lifetime) / second⌋
(unless the lifetime is zero) -/
theorem C04_trash_moves_to_trash (c : Cfg) (now : Time) (v : Vol) (h : Hash) (f : File)
    (hf : v.blocks h = some f) (hgone : (Vol.trashBlock c now v h).2.blocks h = none) (hlife : c.life ≠ 0) :
    { hash := h, deadline := (now + c.life) / c.res, file := f } ∈ (Vol.trashBlock c now v h).2.trash :=
  trashBlock_moves c now v h f hf hgone hlife

example : (step wCfg wSt (.trashItem 0 0 none)).1.vols.map (fun v => (v.blocks 0, v.trash.length)) = [(none, 1)] := by decide
example : (step wCfg wSt (.trashItem 0 1 none)).1.vols.map (fun v => (v.blocks 0).isSome) = [true] := by decide

/-! ## (c) untrash until the deadline; what empty-trash removes -/

/-- An empty-trash sweep never touches a block file and removes from the writable volumes exactly the
trash entries whose deadline (whole seconds) is not in the future. -/
theorem C04_empty_trash_exact (c : Cfg) (s : St) :
    (step c s .emptyTrash).1.vols = s.vols.map (sweepVol c s.now) ∧
    ∀ v, (sweepVol c s.now v).blocks = v.blocks ∧
      ∀ e, e ∈ (sweepVol c s.now v).trash ↔ e ∈ v.trash ∧ (v.ro = true ∨ c.conc < 1 ∨ s.now / c.res < e.deadline) :=
  ⟨rfl, fun v => ⟨sweepVol_blocks c s.now v, fun e => sweepVol_trash c s.now v e⟩⟩

/-- A trashed copy `<h>.trash.<D>` on a writable volume stays restorable through ANY history that does
not itself untrash `h`, for as long as the clock (in whole seconds) is before `D`: `untrash h` then
answers 200 and the block file is back on that volume. -/
theorem C04_untrash_until_deadline (c : Cfg) (s : St) (ops : List Op) (id : Nat) (h : Hash) (D : Nat)
    (hno : NoUntrashOf h ops) (hent : HasEntry s.vols id h D)
    (hD : (run c s ops).1.now / c.res < D) :
    (step c (run c s ops).1 (.untrash h)).2 = .code 200 ∧
    ∃ v ∈ (step c (run c s ops).1 (.untrash h)).1.vols, v.id = id ∧ (v.blocks h).isSome = true :=
  untrash_restores c _ id h D (hasEntry_run c id h D ops s hno hent hD)

/-- deadlines are whole seconds: an entry made at `now` survives every sweep at a time before
⌊(now + lifetime)/res⌋ · res, i.e. the lifetime is honoured up to rounding down to a second -/
theorem C04_deadline_whole_seconds (c : Cfg) (hres : 0 < c.res) (now now' : Time) :
    now' / c.res < deadlineOf c now ↔ now' < ((now + c.life) / c.res) * c.res := by
  unfold deadlineOf
  exact Nat.div_lt_iff_lt_mul hres

def trashedSt : St := (step wCfg wSt (.delete 0)).1
example : HasEntry trashedSt.vols 0 0 104 := by
  unfold HasEntry
  decide
example : (run wCfg trashedSt [.tick 3, .emptyTrash, .put 1 true]).1.now / wCfg.res < 104 := by decide
example : (step wCfg (run wCfg trashedSt [.tick 4, .emptyTrash]).1 (.untrash 0)).2 = .code 404 := by decide

/-! ## (d) interleavings of one PUT/TOUCH with one Trash of the same block -/

open Race in
/-- P's request has been answered 200 -/
def Acked (s : Race.St) : Prop := s.resP = .okTouch ∨ s.resP = .okWrite

open Race in
/-- the block path holds a copy younger than the TTL (for a PUT: an intact one) -/
def Protected (s : Race.St) : Prop :=
  ∃ i, s.blk = some i ∧ s.fresh i = true ∧ (s.cfg.pop = .put → s.good i = true)

theorem ackSafe_prop {s : Race.St} (h : Race.ackSafe s = true) (ha : Acked s) : Protected s := by
  have hacked : s.acked = true := by
    cases ha with
    | inl h1 => simp [Race.St.acked, h1]
    | inr h1 => simp [Race.St.acked, h1]
  simp only [Race.ackSafe, hacked, Bool.not_true, Bool.false_or] at h
  unfold Race.St.protected at h
  split at h
  · rename_i i hi
    simp only [Bool.and_eq_true, Bool.or_eq_true, bne_iff_ne, ne_eq] at h
    refine ⟨i, hi, h.1, fun hp => ?_⟩
    cases h.2 with
    | inl hne => exact absurd hp hne
    | inr hg => exact hg
  · cases h

/-- The Volume-interface contract (volume.go) for EVERY interleaving, Serialize on or off, trash
lifetime zero or not, any age of the copy: never both "Touch succeeded" and "Trash trashed the
block"; and an acknowledged TOUCH, or an acknowledged PUT that found an intact copy
(compare-and-touch, falling back to WriteBlock if the touch fails), leaves a copy with a current
timestamp at the block path at every later point of the execution. -/
theorem C04_race_closed (c : Race.Cfg) (sched : List Bool) (hc : c.pop = .touch ∨ c.pre = .good) :
    ¬ ((Race.run sched (Race.init c)).resP = .okTouch ∧ (Race.run sched (Race.init c)).resT = .trashed) ∧
    (Acked (Race.run sched (Race.init c)) → Protected (Race.run sched (Race.init c))) := by
  constructor
  · have h := Race.run_contract c sched
    intro ⟨h1, h2⟩
    simp [Race.contract, h1, h2] at h
  · have hr : Race.riskyCfg c = false := by
      cases hc with
      | inl hp => simp [Race.riskyCfg, hp]
      | inr hp => simp [Race.riskyCfg, hp]
    exact ackSafe_prop (Race.run_ackSafe c hr sched)

/-- the contract half holds in every configuration -/
theorem C04_race_contract (c : Race.Cfg) (sched : List Bool) :
    ¬ ((Race.run sched (Race.init c)).resP = .okTouch ∧ (Race.run sched (Race.init c)).resT = .trashed) := by
  have h := Race.run_contract c sched
  intro ⟨h1, h2⟩
  simp [Race.contract, h1, h2] at h

/-- Full strength for a PUT that resolves to WriteBlock (no intact copy on the volume). -/
def C04_race_overwrite_Full : Prop :=
  ∀ (c : Race.Cfg) (sched : List Bool), c.pop = .put → c.pre ≠ .good →
    Acked (Race.run sched (Race.init c)) → Protected (Race.run sched (Race.init c))

/-- F4 witness: Serialize off, corrupt old copy. Schedule (true = P, false = T):
T: v.lock, OpenFile, lockfile, Stat (old ⇒ will trash) · P: stat, lock, Open, read (corrupt),
MkdirAll, TempFile, lock, Copy, Close, Chtimes, Rename, acknowledged · T: Rename (moves the NEW block). -/
def f4Cfg : Race.Cfg := { serialize := false, life0 := false, pre := .corrupt, ageOld := true, pop := .put, top := .del }
def f4Sched : List Bool := [false, false, false, false] ++ List.replicate 11 true ++ [false]

theorem C04_race_overwrite_full_fails : ¬ C04_race_overwrite_Full := by
  intro hF
  have hack : Acked (Race.run f4Sched (Race.init f4Cfg)) := Or.inr (by decide)
  obtain ⟨i, hi, _⟩ := hF f4Cfg f4Sched rfl (by decide) hack
  have : (Race.run f4Sched (Race.init f4Cfg)).blk = none := by decide
  rw [this] at hi
  cases hi

/-- What holds: with Serialize on, or when no copy pre-exists on the volume, every interleaving keeps
an acknowledged PUT's block. -/
theorem C04_race_overwrite_partial (c : Race.Cfg) (sched : List Bool) (_hp : c.pop = .put)
    (h : c.serialize = true ∨ c.pre = .absent) :
    Acked (Race.run sched (Race.init c)) → Protected (Race.run sched (Race.init c)) := by
  have hr : Race.riskyCfg c = false := by
    cases h with
    | inl hs => simp [Race.riskyCfg, hs]
    | inr ha => simp [Race.riskyCfg, ha]
  exact ackSafe_prop (Race.run_ackSafe c hr sched)

/-- also when the pre-existing copy is younger than the TTL (Trash never decides to trash) -/
theorem C04_race_overwrite_young (c : Race.Cfg) (sched : List Bool) (h : c.ageOld = false) :
    Acked (Race.run sched (Race.init c)) → Protected (Race.run sched (Race.init c)) := by
  have hr : Race.riskyCfg c = false := by simp [Race.riskyCfg, h]
  exact ackSafe_prop (Race.run_ackSafe c hr sched)

/-- With the protocol of /verif/fixes/F4.patch (WriteBlock opens the file it is about to replace and
takes its flock before the rename; `Cfg.patched`) the full statement holds for every configuration and
every schedule: the proposed patch closes F4 in the model, and introduces no deadlock
(`C04_race_no_deadlock` covers patched configurations too). -/
theorem C04_race_overwrite_patched (c : Race.Cfg) (sched : List Bool) (h : c.patched = true) :
    Acked (Race.run sched (Race.init c)) → Protected (Race.run sched (Race.init c)) := by
  have hr : Race.riskyCfg c = false := by simp [Race.riskyCfg, h]
  exact ackSafe_prop (Race.run_ackSafe c hr sched)

/-- no deadlock: after any schedule, 30 fair rounds finish both requests -/
theorem C04_race_no_deadlock (c : Race.Cfg) (sched : List Bool) :
    Race.finished (Race.run Race.drain (Race.run sched (Race.init c))) = true :=
  Race.run_drain_finished c sched

/-- the schedule controller's runner (a lock waiter proceeds as soon as the holder lets go) only
reaches states of the pure interleaving semantics -/
theorem C04_race_controller_refines (c : Race.Cfg) (sched : List Bool) :
    ∃ sched', (Race.runE sched (Race.init c) []).1 = Race.run sched' (Race.init c) :=
  Race.runE_is_run sched _ _

/-! non-vacuity: schedules in which the PUT / TOUCH is acknowledged while Trash really trashes -/
def gCfg : Race.Cfg := { serialize := false, life0 := false, pre := .good, ageOld := true, pop := .put, top := .del }
example : Acked (Race.run (f4Sched ++ Race.drain) (Race.init gCfg)) := Or.inr (by decide +kernel)
example : (Race.run (f4Sched ++ Race.drain) (Race.init gCfg)).resT = .trashed := by decide +kernel
example : Acked (Race.run (List.replicate 4 true ++ Race.drain) (Race.init { gCfg with pop := .touch })) :=
  Or.inl (by decide +kernel)
example : Acked (Race.run (f4Sched ++ Race.drain) (Race.init { f4Cfg with serialize := true })) :=
  Or.inr (by decide +kernel)
example : (Race.run (f4Sched ++ Race.drain) (Race.init { f4Cfg with serialize := true })).resT = .trashed := by
  decide +kernel
example : Acked (Race.run (f4Sched ++ Race.drain) (Race.init { f4Cfg with patched := true })) :=
  Or.inr (by decide +kernel)
example : (Race.run (f4Sched ++ Race.drain) (Race.init { f4Cfg with patched := true })).resT = .trashed := by
  decide +kernel

end ArvVerif.C04
