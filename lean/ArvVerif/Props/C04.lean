/-
C04 — a freshly written or touched block survives garbage collection for the TTL.

Sequential layer (`Model/C04.lean`): theorems over ARBITRARY request histories (any length, any
initial state, any configuration). Interleaving layer (`Model/C04_Race.lean`): theorems for EVERY
schedule `List Bool` of one PUT/TOUCH against one Trash.

Both models describe the tree AFTER the two repairs this check led to (both statements were false
before, with machine-checked witnesses, see notes/C04.md):
  * fix 7e105eb (finding F4): WriteBlock takes the flock of the file it is about to replace;
  * fix f7a86a4 (finding F04a): Untrash gives the restored block a current timestamp.
The former witnesses are kept below as `example`s that now satisfy the property, and in
corpus/C04/witnesses.txt for the correspondence check.
-/
import ArvVerif.Proofs.C04_Trash
import ArvVerif.Proofs.C04_HistGood
import ArvVerif.Proofs.C04_Race
import ArvVerif.Proofs.C04_Compose
import ArvVerif.Proofs.C04_Race3
import ArvVerif.Proofs.C04_Queue
namespace ArvVerif.C04

/-! ## (a) histories -/

def emptyGhost : Ghost := fun _ => none

/-- Full strength: after ANY history (any number of volumes, any initial contents and ages, any
TTL / lifetime / BlobTrash setting, any sequence of PUT, TOUCH, GET, DELETE, trash-list items with any
mtime and mount, untrash, empty-trash sweeps and clock ticks), every hash acknowledged (PUT/TOUCH
answered 200) at time t is, while now < t + TTL, still stored on the server with a timestamp ≥ t. -/
theorem C04_history_protects (c : Cfg) (s : St) (ops : List Op) :
    Prot c (runG c s emptyGhost ops).1 (runG c s emptyGhost ops).2 :=
  prot_run ops s emptyGhost (fun _ _ hg => by cases hg)

/-- the conclusion unfolded for one hash, as the property states it -/
theorem C04_acknowledged_block_survives (c : Cfg) (s : St) (ops : List Op)
    (h : Hash) (t : Time) (hack : (runG c s emptyGhost ops).2 h = some t)
    (hlt : (runG c s emptyGhost ops).1.now < t + c.ttl) :
    ∃ v ∈ (runG c s emptyGhost ops).1.vols, ∃ f, v.blocks h = some f ∧ t ≤ f.mtime :=
  (C04_history_protects c s ops h t hack).2 hlt

/-- ... and it is served: if no copy on the server was corrupt to begin with (block files and trashed
files), a hash acknowledged at t is answered 200 by GET at every moment before t + TTL -/
theorem C04_acknowledged_block_is_readable (c : Cfg) (s : St) (ops : List Op) (hgood : AllGood s)
    (h : Hash) (t : Time) (hack : (runG c s emptyGhost ops).2 h = some t)
    (hlt : (runG c s emptyGhost ops).1.now < t + c.ttl) :
    (step c (runG c s emptyGhost ops).1 (.get h)).2 = .code 200 := by
  obtain ⟨v, hv, f, hf, _⟩ := C04_acknowledged_block_survives c s ops h t hack hlt
  have hg := (allGood_runG (c := c) ops s emptyGhost hgood v hv).1 h f hf
  simp only [step]
  rw [getStatus_200 _ _ ⟨v, hv, f, hf, hg⟩]

/-! ### content of an acknowledged PUT

Beyond the property text (which speaks of trash-list entries, DELETE requests and sweeps REMOVING the
block): is a block whose PUT was acknowledged also still READABLE? Not unconditionally — `untrash`
renames the trashed copy over whatever is at the block path, and a trashed copy that was corrupt on
disk then replaces the intact fresh one (GET 500). No garbage-collection request is involved and the
bad bytes pre-exist, so this is not a violation of C04 as stated; the exact boundary is: -/

/-- Full: GET answers 200 before t + TTL for every hash whose PUT was acknowledged at t. -/
def C04_put_readable_Full : Prop :=
  ∀ (c : Cfg) (s : St) (ops : List Op) (h : Hash) (t : Time),
    (runGP c s emptyGhost ops).2 h = some t → (runGP c s emptyGhost ops).1.now < t + c.ttl →
    (step c (runGP c s emptyGhost ops).1 (.get h)).2 = .code 200

/-- witness: a corrupt copy of h0 sits in the trash; PUT h0 (acknowledged, intact copy written);
untrash h0 renames the corrupt copy over it; GET h0 → 500 -/
def cVol : Vol := { id := 0, ro := false, blocks := fun _ => none,
                    trash := [{ hash := 0, deadline := 500, file := { good := false, mtime := 0 } }] }
def cSt : St := { vols := [cVol], now := 100, rr := 0 }
def cOps : List Op := [.put 0 true, .untrash 0]

theorem C04_put_readable_full_fails : ¬ C04_put_readable_Full := by
  intro hF
  have := hF { ttl := 10, life := 4, blobTrash := true, conc := 1, res := 1 } cSt cOps 0 100 (by decide) (by decide)
  revert this
  decide

/-- What holds, with no assumption about the other copies on the server: over every history in which
each `untrash` restores an intact file (`CleanUntrash`), a hash whose PUT was acknowledged at t is
answered 200 by GET at every moment before t + TTL. -/
theorem C04_put_readable_partial (c : Cfg) (s : St) (ops : List Op) (hclean : CleanUntrash c s ops)
    (h : Hash) (t : Time) (hack : (runGP c s emptyGhost ops).2 h = some t)
    (hlt : (runGP c s emptyGhost ops).1.now < t + c.ttl) :
    (step c (runGP c s emptyGhost ops).1 (.get h)).2 = .code 200 := by
  have hp := protG_run (c := c) ops s emptyGhost (fun _ _ hg => by cases hg) hclean
  obtain ⟨v, hv, f, hf, _, hg⟩ := (hp h t hack).2 hlt
  simp only [step]
  rw [getStatus_200 _ _ ⟨v, hv, f, hf, hg⟩]

example : CleanUntrash { ttl := 10, life := 4, blobTrash := true, conc := 1, res := 1 } cSt [.put 0 true, .delete 0, .get 0] := by
  simp [CleanUntrash, CleanOp]
example : (runGP { ttl := 10, life := 4, blobTrash := true, conc := 1, res := 1 } cSt emptyGhost [.put 0 true, .delete 0, .get 0]).2 0 = some 100 := by
  decide

/-! non-vacuity, on the former F04a witness: one writable volume holding h0 with an old timestamp; TTL
10; time 100: DELETE h0 (trashed) · PUT h0 (acknowledged at 100) · untrash h0 (old copy renamed over the
new one — now stamped 100) · DELETE h0 (kept: younger than the TTL) · GET 200. -/
def wCfg : Cfg := { ttl := 10, life := 4, blobTrash := true, conc := 1, res := 1 }
def wVol : Vol := { id := 0, ro := false, trash := [],
                    blocks := fun h => if h = 0 then some { good := true, mtime := 0 } else none }
def wSt : St := { vols := [wVol], now := 100, rr := 0 }
def wOps : List Op := [.delete 0, .put 0 true, .untrash 0, .delete 0, .get 0]

example : (runG wCfg wSt emptyGhost wOps).2 0 = some 100 := by decide
example : (runG wCfg wSt emptyGhost wOps).1.now < 100 + wCfg.ttl := by decide
example : (run wCfg wSt wOps).2 = [.deleted 1 0, .code 200, .code 200, .deleted 1 0, .code 200] := by decide
example : (runG wCfg wSt emptyGhost wOps).1.vols.map (fun v => v.blocks 0) = [some { good := true, mtime := 100 }] := by
  decide
example : AllGood wSt := by
  intro v hv
  simp only [wSt, List.mem_singleton] at hv
  subst hv
  refine ⟨fun h f hf => ?_, fun e he => by cases he⟩
  simp only [wVol] at hf
  split at hf
  · cases hf; rfl
  · cases hf
def okOps : List Op := [.delete 0, .untrash 0, .put 0 true, .tick 3, .delete 0, .emptyTrash, .get 0]
example : (runG wCfg wSt emptyGhost okOps).2 0 = some 100 := by decide
example : (run wCfg wSt okOps).2 = [.deleted 1 0, .code 200, .code 200, .quiet, .deleted 1 0, .quiet, .code 200] := by decide

/-! ## (b) when a trash request may act -/

/-- A trash-list item changes the block map of a volume only by removing the copy of the requested
hash, and only if: the volume is writable, BlobTrash is on, the mount matches, the request's mtime is
at least TTL old, and the stored mtime EQUALS the requested one. -/
theorem C04_trash_preconditions (c : Cfg) (s : St) (h : Hash) (req : Time) (mount : Option Nat) :
    (step c s (.trashItem h req mount)).1.now = s.now ∧
    ∃ F : Vol → Vol, (step c s (.trashItem h req mount)).1.vols = s.vols.map F ∧
      ∀ v h', (F v).blocks h' ≠ v.blocks h' →
        h' = h ∧ v.ro = false ∧ c.blobTrash = true ∧ (mount = none ∨ mount = some v.id) ∧
        ¬ (s.now < req + c.ttl) ∧ (F v).blocks h = none ∧ ∃ f, v.blocks h = some f ∧ f.mtime = req := by
  by_cases hy : young c s.now req = true
  · refine ⟨by simp [step, hy], id, by simp [step, hy], fun v h' hne => absurd rfl hne⟩
  · refine ⟨by simp [step, hy], tiVol c s.now h req mount, by simp [step, hy], fun v h' hne => ?_⟩
    obtain ⟨h1, h2, h3, h4, h5, f, h6, h7, _⟩ := tiVol_acts c s.now h req mount v h' hne
    have hold : ¬ (s.now < req + c.ttl) := by simpa [young] using hy
    exact ⟨h1, h2, h3, h4, hold, h5, f, h6, h7⟩

/-- DELETE: the same without the mtime match; the stored copy must be at least TTL old. -/
theorem C04_delete_preconditions (c : Cfg) (s : St) (h : Hash) :
    (step c s (.delete h)).1.now = s.now ∧
    ∃ F : Vol → Vol, (step c s (.delete h)).1.vols = s.vols.map F ∧
      ∀ v h', (F v).blocks h' ≠ v.blocks h' →
        h' = h ∧ v.ro = false ∧ c.blobTrash = true ∧ (F v).blocks h = none ∧
        ∃ f, v.blocks h = some f ∧ ¬ (s.now < f.mtime + c.ttl) := by
  by_cases hb : c.blobTrash = true
  · by_cases hn : (s.vols.filter (delHit c s.now h)).length = 0
    · exact ⟨by simp [step, hb, hn], id, by simp [step, hb, hn], fun v h' hne => absurd rfl hne⟩
    · exact ⟨by simp [step, hb, hn], delVol c s.now h, by simp [step, hb, hn],
        fun v h' hne => delVol_acts c s.now h v h' hne⟩
  · exact ⟨by simp [step, hb], id, by simp [step, hb], fun v h' hne => absurd rfl hne⟩

/-- a trashed copy is kept as `<hash>.trash.<deadline>` with deadline = ⌊(now + lifetime) / second⌋
(unless the lifetime is zero) -/
theorem C04_trash_moves_to_trash (c : Cfg) (now : Time) (v : Vol) (h : Hash) (f : File)
    (hf : v.blocks h = some f) (hgone : (Vol.trashBlock c now v h).2.blocks h = none) (hlife : c.life ≠ 0) :
    { hash := h, deadline := (now + c.life) / c.res, file := f } ∈ (Vol.trashBlock c now v h).2.trash :=
  trashBlock_moves c now v h f hf hgone hlife

example : (step wCfg wSt (.trashItem 0 0 none)).1.vols.map (fun v => (v.blocks 0, v.trash.length)) = [(none, 1)] := by decide
example : (step wCfg wSt (.trashItem 0 1 none)).1.vols.map (fun v => (v.blocks 0).isSome) = [true] := by decide

/-! ## (c) untrash until the deadline; what empty-trash removes -/

/-- An empty-trash sweep never touches a block file and removes from the writable volumes exactly the
trash entries whose deadline (whole seconds) is not in the future. -/
theorem C04_empty_trash_exact (c : Cfg) (s : St) :
    (step c s .emptyTrash).1.vols = s.vols.map (sweepVol c s.now) ∧
    ∀ v, (sweepVol c s.now v).blocks = v.blocks ∧
      ∀ e, e ∈ (sweepVol c s.now v).trash ↔ e ∈ v.trash ∧ (v.ro = true ∨ c.conc < 1 ∨ s.now / c.res < e.deadline) :=
  ⟨rfl, fun v => ⟨sweepVol_blocks c s.now v, fun e => sweepVol_trash c s.now v e⟩⟩

/-- A trashed copy `<h>.trash.<D>` on a writable volume stays restorable through ANY history that does
not itself untrash `h`, for as long as the clock (in whole seconds) is before `D`: `untrash h` then
answers 200 and the block file is back on that volume. -/
theorem C04_untrash_until_deadline (c : Cfg) (s : St) (ops : List Op) (id : Nat) (h : Hash) (D : Nat)
    (hno : NoUntrashOf h ops) (hent : HasEntry s.vols id h D)
    (hD : (run c s ops).1.now / c.res < D) :
    (step c (run c s ops).1 (.untrash h)).2 = .code 200 ∧
    ∃ v ∈ (step c (run c s ops).1 (.untrash h)).1.vols, v.id = id ∧ (v.blocks h).isSome = true :=
  untrash_restores c _ id h D (hasEntry_run c id h D ops s hno hent hD)

/-- deadlines are whole seconds: an entry made at `now` survives every sweep at a time before
⌊(now + lifetime)/res⌋ · res, i.e. the lifetime is honoured up to rounding down to a second -/
theorem C04_deadline_whole_seconds (c : Cfg) (hres : 0 < c.res) (now now' : Time) :
    now' / c.res < deadlineOf c now ↔ now' < ((now + c.life) / c.res) * c.res := by
  unfold deadlineOf
  exact Nat.div_lt_iff_lt_mul hres

def trashedSt : St := (step wCfg wSt (.delete 0)).1
example : HasEntry trashedSt.vols 0 0 104 := by
  unfold HasEntry
  decide
example : (run wCfg trashedSt [.tick 3, .emptyTrash, .put 1 true]).1.now / wCfg.res < 104 := by decide
example : (step wCfg (run wCfg trashedSt [.tick 4, .emptyTrash]).1 (.untrash 0)).2 = .code 404 := by decide

/-! ## (d) interleavings of one PUT/TOUCH with one Trash of the same block -/

open Race in
/-- P's request has been answered 200 -/
def Acked (s : Race.St) : Prop := s.resP = .okTouch ∨ s.resP = .okWrite

open Race in
/-- the block path holds a copy younger than the TTL (for a PUT: an intact one) -/
def Protected (s : Race.St) : Prop :=
  ∃ i, s.blk = some i ∧ s.fresh i = true ∧ (s.cfg.pop = .put → s.good i = true)

theorem ackSafe_prop {s : Race.St} (h : Race.ackSafe s = true) (ha : Acked s) : Protected s := by
  have hacked : s.acked = true := by
    cases ha with
    | inl h1 => simp [Race.St.acked, h1]
    | inr h1 => simp [Race.St.acked, h1]
  simp only [Race.ackSafe, hacked, Bool.not_true, Bool.false_or] at h
  unfold Race.St.protected at h
  split at h
  · rename_i i hi
    simp only [Bool.and_eq_true, Bool.or_eq_true, bne_iff_ne, ne_eq] at h
    refine ⟨i, hi, h.1, fun hp => ?_⟩
    cases h.2 with
    | inl hne => exact absurd hp hne
    | inr hg => exact hg
  · cases h

/-- For EVERY interleaving of one PUT/TOUCH with one DELETE or trash-list item, every configuration
(Serialize on or off, trash lifetime zero or not, copy absent / intact / corrupt, old or young): an
acknowledged PUT/TOUCH leaves a copy with a current timestamp (intact, for a PUT) at the block path at
every later point of the execution. -/
theorem C04_race_protects (c : Race.Cfg) (sched : List Bool) (htop : c.top ≠ .untrash) :
    Acked (Race.run sched (Race.init c)) → Protected (Race.run sched (Race.init c)) :=
  ackSafe_prop (Race.run_ackSafe c htop sched)

/-- One PUT/TOUCH against one UNTRASH of the same block (Untrash takes neither the Serialize lock nor
the flock; it renames the trashed copy over whatever is at the block path, then stamps it): for every
interleaving, once both requests have finished an acknowledged PUT/TOUCH has a copy with a current
timestamp at the block path. (Between Untrash's Rename and its Chtimes the path transiently holds the
restored copy with its old timestamp; a Trash running exactly then would be a third request — outside
this property's quantifier, which pairs the write with ONE trash request.) -/
theorem C04_race_untrash (c : Race.Cfg) (sched : List Bool)
    (hfin : Race.finished (Race.run sched (Race.init c)) = true) :
    Acked (Race.run sched (Race.init c)) → Protected (Race.run sched (Race.init c)) :=
  ackSafe_prop (Race.run_ackSafe_fin c sched hfin)

/-- The Volume-interface contract (volume.go): never both "Touch succeeded" and "Trash trashed the
block"; and an acknowledged TOUCH, or an acknowledged PUT that found an intact copy (compare-and-touch,
falling back to WriteBlock if the touch fails), is protected. -/
theorem C04_race_closed (c : Race.Cfg) (sched : List Bool) (htop : c.top ≠ .untrash)
    (_hc : c.pop = .touch ∨ c.pre = .good) :
    ¬ ((Race.run sched (Race.init c)).resP = .okTouch ∧ (Race.run sched (Race.init c)).resT = .trashed) ∧
    (Acked (Race.run sched (Race.init c)) → Protected (Race.run sched (Race.init c))) := by
  constructor
  · have h := Race.run_contract c sched
    intro ⟨h1, h2⟩
    simp [Race.contract, h1, h2] at h
  · exact C04_race_protects c sched htop

/-- the contract half holds in every configuration -/
theorem C04_race_contract (c : Race.Cfg) (sched : List Bool) :
    ¬ ((Race.run sched (Race.init c)).resP = .okTouch ∧ (Race.run sched (Race.init c)).resT = .trashed) := by
  have h := Race.run_contract c sched
  intro ⟨h1, h2⟩
  simp [Race.contract, h1, h2] at h

/-- A PUT that resolves to WriteBlock (no intact copy on the volume: absent, or a corrupt copy that is
overwritten): full strength, Serialize on or off. (False before fix 7e105eb: finding F4.) -/
theorem C04_race_overwrite (c : Race.Cfg) (sched : List Bool) (htop : c.top ≠ .untrash)
    (_hp : c.pop = .put) (_hpre : c.pre ≠ .good) :
    Acked (Race.run sched (Race.init c)) → Protected (Race.run sched (Race.init c)) :=
  C04_race_protects c sched htop

/-! the former F4 witness: Serialize off, corrupt old copy; schedule (true = P, false = T):
T: v.lock, OpenFile, lockfile, Stat (old ⇒ will trash) · P: stat, lock, Open, read (corrupt), MkdirAll,
TempFile, lock, Copy, Close, Chtimes, OpenFile(old) , lockfile(old) — now WAITS for Trash · T: Rename
(moves the OLD copy) · P: Rename, acknowledged: the new block stays. -/
def f4Cfg : Race.Cfg := { serialize := false, life0 := false, pre := .corrupt, ageOld := true, pop := .put, top := .del }
def f4Sched : List Bool := [false, false, false, false] ++ List.replicate 13 true ++ [false] ++ [true, true]

example : Acked (Race.run f4Sched (Race.init f4Cfg)) := Or.inr (by decide)
example : (Race.run f4Sched (Race.init f4Cfg)).resT = .trashed := by decide
example : (Race.run f4Sched (Race.init f4Cfg)).blk = some .b := by decide
example : (Race.run f4Sched (Race.init f4Cfg)).locA = .trash := by decide

/-- no deadlock: after any schedule, 30 fair rounds finish both requests -/
theorem C04_race_no_deadlock (c : Race.Cfg) (sched : List Bool) :
    Race.finished (Race.run Race.drain (Race.run sched (Race.init c))) = true :=
  Race.run_drain_finished c sched

/-- the schedule controller's runner (a lock waiter proceeds as soon as the holder lets go) only
reaches states of the pure interleaving semantics -/
theorem C04_race_controller_refines (c : Race.Cfg) (sched : List Bool) :
    ∃ sched', (Race.runE sched (Race.init c) []).1 = Race.run sched' (Race.init c) :=
  Race.runE_is_run sched _ _

/-! non-vacuity: schedules in which the PUT / TOUCH is acknowledged while Trash really trashes -/
def gCfg : Race.Cfg := { serialize := false, life0 := false, pre := .good, ageOld := true, pop := .put, top := .del }
example : Acked (Race.run (f4Sched ++ Race.drain) (Race.init gCfg)) := Or.inr (by decide +kernel)
example : (Race.run (f4Sched ++ Race.drain) (Race.init gCfg)).resT = .trashed := by decide +kernel
example : Acked (Race.run (List.replicate 4 true ++ Race.drain) (Race.init { gCfg with pop := .touch })) :=
  Or.inl (by decide +kernel)
example : Acked (Race.run (f4Sched ++ Race.drain) (Race.init { f4Cfg with serialize := true })) :=
  Or.inr (by decide +kernel)
example : (Race.run (f4Sched ++ Race.drain) (Race.init { f4Cfg with serialize := true })).resT = .trashed := by
  decide +kernel

/-! untrash pair: TOUCH opens the old copy, Untrash renames the trashed copy over it, TOUCH stamps BY
PATH (so it stamps the restored copy), both finish -/
def uCfg : Race.Cfg := { serialize := false, life0 := false, pre := .good, ageOld := true, pop := .touch, top := .untrash }
example : Race.finished (Race.run ([true, false, false] ++ Race.drain) (Race.init uCfg)) = true := by decide +kernel
example : Acked (Race.run ([true, false, false] ++ Race.drain) (Race.init uCfg)) := Or.inl (by decide +kernel)
example : (Race.run ([true, false, false] ++ Race.drain) (Race.init uCfg)).blk = some .x := by decide +kernel
example : (Race.run ([true, false, false] ++ Race.drain) (Race.init uCfg)).resT = .restored := by decide +kernel

/-! ## (e) the two layers composed

The interleaving layer abstracts time to "younger than the TTL or not" and the server to one block path;
the history layer has real timestamps but runs requests one after the other. `Model/C04_Compose.lean`
builds, for a race configuration `c` and times `τ`, the history-layer instance of the same situation and
defines what an observer sees at quiescence in both layers (`Obs`: both responses, the file at the block
path with intact? / younger-than-TTL?, the trashed copies of the hash). -/

/-- On SEQUENTIAL executions the two layers agree: all of P then all of T (and vice versa) in the
interleaving model ends exactly like the two-request history [P, T] ([T, P]) of the history model — for all
times that fit the configuration (TTL > 0, lifetime > 0, the stored copy older than the TTL exactly when
the configuration says so). This is the soundness of the fresh/old abstraction where the layers overlap. -/
theorem C04_layers_agree_sequential (c : Race.Cfg) (τ : Compose.Times) (hfit : τ.fits c) :
    Race.finished (Race.run Compose.schedPT (Race.init c)) = true ∧
    Race.finished (Race.run Compose.schedTP (Race.init c)) = true ∧
    Compose.obsR (Race.run Compose.schedPT (Race.init c)) = Compose.seqPT c τ ∧
    Compose.obsR (Race.run Compose.schedTP (Race.init c)) = Compose.seqTP c τ :=
  ⟨(Race.serial_finished c).1, (Race.serial_finished c).2, Race.serial_PT c τ hfit, Race.serial_TP c τ hfit⟩

/-- Linearizability: EVERY interleaving of one PUT/TOUCH with one DELETE / trash-list item / untrash that
lets both finish ends, for an observer, like one of the two sequential HISTORIES [P, T] or [T, P] of the
history layer (to which `C04_history_protects` and the other history theorems apply) — all 144
configurations, every schedule, all times that fit the configuration. -/
theorem C04_race_linearizable (c : Race.Cfg) (sched : List Bool) (τ : Compose.Times) (hfit : τ.fits c)
    (hfin : Race.finished (Race.run sched (Race.init c)) = true) :
    Compose.obsR (Race.run sched (Race.init c)) = Compose.seqPT c τ ∨
    Compose.obsR (Race.run sched (Race.init c)) = Compose.seqTP c τ := by
  rw [Race.seqPT_lit c τ hfit, Race.seqTP_lit c τ hfit]
  exact Race.lin_run c sched hfin

/-! non-vacuity: the times of the correspondence check fit every configuration; on the former F4
configuration the two histories end differently ([P,T]: DELETE keeps the new block; [T,P]: the old copy is
in the trash), and the F4 schedule (Trash decides first, PUT finishes in between) ends like [T, P]. -/
example (c : Race.Cfg) : (Compose.drvTimes c).fits c := Race.drvTimes_fits c
example : Compose.seqPT f4Cfg (Compose.drvTimes f4Cfg) ≠ Compose.seqTP f4Cfg (Compose.drvTimes f4Cfg) := by decide
example : Compose.obsR (Race.run (f4Sched ++ Race.drain) (Race.init f4Cfg)) = Compose.seqTP f4Cfg (Compose.drvTimes f4Cfg) := by
  decide +kernel
example : Compose.seqTP f4Cfg (Compose.drvTimes f4Cfg) =
    { p := .code 200, t := .deleted 1 0, blk := some (true, true), trash := [false] } := by decide

/-! ## (f) a trash-emptying sweep running during the race

`Model/C04_Race3.lean`: one filesystem step of `EmptyTrash`, as far as the files of one block are concerned,
is the `Remove` of an inode currently linked at a name `<hash>.trash.<deadline>` (`sweep i`; OVER-approximated:
any trashed copy, at any moment, whether or not its deadline has passed). -/

/-- In EVERY state of the interleaving model (reachable or not), a sweep step on any inode leaves the file at
the block path, its timestamp class and content, the temp file and both requests' results untouched — the
only possible change is trashed copy → gone. Hence it preserves `Acked` and `Protected`: a sweep step at
any point of a PUT/TOUCH-vs-Trash race cannot remove the acknowledged block. (The full three-party
statement — arbitrary schedules over P steps, T steps and sweeps — additionally needs that P's and T's
later steps do not depend on whether a trashed copy still exists; see notes, open gaps.) -/
theorem C04_sweep_step_keeps_block (i : Race.Ino) (s : Race.St) :
    (Race.sweep i s).blk = s.blk ∧ (Race.sweep i s).resP = s.resP ∧
    (∀ j, (Race.sweep i s).loc j = s.loc j ∨ (s.loc j = .trash ∧ (Race.sweep i s).loc j = .gone)) ∧
    (Acked (Race.sweep i s) ↔ Acked s) ∧ (Protected (Race.sweep i s) ↔ Protected s) := by
  refine ⟨Race.sweep_blk i s, Race.sweep_resP i s, fun j => Race.sweep_loc i j s, ?_, ?_⟩
  · simp only [Acked, Race.sweep_resP]
  · simp only [Protected, Race.sweep_blk, Race.sweep_fresh, Race.sweep_good, Race.sweep_cfg]

/-- after any two-party schedule, any number of sweep steps: still protected -/
theorem C04_race_then_sweeps (c : Race.Cfg) (sched : List Bool) (htop : c.top ≠ .untrash) (is : List Race.Ino) :
    Acked (Race.run3 (is.map .sweep) (Race.run sched (Race.init c))) →
    Protected (Race.run3 (is.map .sweep) (Race.run sched (Race.init c))) := by
  induction is generalizing sched with
  | nil => exact C04_race_protects c sched htop
  | cons i is ih =>
    intro h
    have key : ∀ (l : List Race.Ino) (s : Race.St),
        (Acked (Race.run3 (l.map .sweep) s) ↔ Acked s) ∧ (Protected (Race.run3 (l.map .sweep) s) ↔ Protected s) := by
      intro l
      induction l with
      | nil => intro s; exact ⟨Iff.rfl, Iff.rfl⟩
      | cons j l ihl =>
        intro s
        have h1 := ihl (Race.sweep j s)
        have h2 := C04_sweep_step_keeps_block j s
        exact ⟨h1.1.trans h2.2.2.2.1, h1.2.trans h2.2.2.2.2⟩
    have k := key (i :: is) (Race.run sched (Race.init c))
    exact k.2.mpr (C04_race_protects c sched htop (k.1.mp h))

example : (Race.sweep .x (Race.init3 f4Cfg true)).locX = .gone := by decide
example : (Race.sweep .a (Race.run (f4Sched ++ Race.drain) (Race.init f4Cfg))).locA = .gone := by decide +kernel

/-! ## (g) the trash list on its way to TrashItem: work queue and trash workers

`Model/C04_Queue.lean` models work_queue.go's manager (ReplaceQueue abandons the unprocessed rest of the old
list, items already handed to a worker are finished), RunTrashWorker (any number of workers) and the moment
at which `TrashItem` runs: LATER than the submission, at a time of the scheduler's choosing. -/

/-- Every execution of the server — requests, trash-list submissions, hand-overs to workers, workers running
their item, in ANY order and with ANY delay — is a request history of the history layer (the executed items
appear as `.trashItem` ops at the time they actually run). Hence `C04_history_protects` covers it: whatever the
queue does, an item that runs after the block was written or touched meets the TTL test and the mtime
comparison of that moment. -/
theorem C04_queue_protects (c : Cfg) (s : St) (q : Queue.QSt) (evs : List Queue.Ev) :
    (Queue.srun c s q evs).1 = (runG c s emptyGhost (Queue.opsOf q evs)).1 ∧
    Prot c (runG c s emptyGhost (Queue.opsOf q evs)).1 (runG c s emptyGhost (Queue.opsOf q evs)).2 :=
  ⟨(Queue.srun_is_run c evs s q).trans (Queue.run_fst_eq_runG c _ s emptyGhost), C04_history_protects c s _⟩

/-- Replacement semantics: after `PUT /trash` with list `l`, and until the next submission, the workers execute
only items of `l` or items that were already in a worker's hands at that moment — the unprocessed rest of the
abandoned list never runs (and nothing is invented). -/
theorem C04_queue_replace (q : Queue.QSt) (l : List Queue.Item) (evs : List Queue.Ev) (hno : Queue.noReplace evs) :
    ∀ x ∈ Queue.executed q (.putTrash l :: evs), x ∈ l ++ q.busy := by
  intro x hx
  have hx' : x ∈ Queue.executed (Queue.qstep q (.putTrash l)) evs := by simpa [Queue.executed] using hx
  simpa [Queue.qstep] using Queue.executed_sub evs _ hno x hx'

/-- ... and each executed item is a `.trashItem` op of the history of `C04_queue_protects` -/
theorem C04_queue_executed_in_history (q : Queue.QSt) (evs : List Queue.Ev) (x : Queue.Item)
    (hx : x ∈ Queue.executed q evs) : x.op ∈ Queue.opsOf q evs :=
  Queue.executed_ops evs q x hx

/-! non-vacuity: list [i0, i1] submitted; a worker takes i0; the list is replaced by [i2]; the worker runs i0,
then takes and runs i2; i1 never runs. With the block touched in between, i0 (naming the old timestamp) no
longer matches and the block stays. -/
def qi0 : Queue.Item := { hash := 0, mtime := 0, mount := none }
def qi1 : Queue.Item := { hash := 1, mtime := 0, mount := none }
def qi2 : Queue.Item := { hash := 2, mtime := 0, mount := none }
def qEvs : List Queue.Ev := [.putTrash [qi0, qi1], .take, .req (.touch 0), .putTrash [qi2], .exec 0, .take, .exec 0]
example : Queue.executed { todo := [], busy := [] } qEvs = [qi0, qi2] := by decide
example : Queue.opsOf { todo := [], busy := [] } qEvs = [.touch 0, .trashItem 0 0 none, .trashItem 2 0 none] := by decide
example : (Queue.srun wCfg wSt { todo := [], busy := [] } qEvs).1.vols.map (fun v => v.blocks 0) =
    [some { good := true, mtime := 100 }] := by decide
example : (Queue.srun wCfg wSt { todo := [], busy := [] } [.putTrash [qi0], .take, .exec 0]).1.vols.map (fun v => v.blocks 0) =
    [none] := by decide

end ArvVerif.C04
