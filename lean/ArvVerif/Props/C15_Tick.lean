/-
C15 property theorems, part 3: the weak-fairness premise P2 of `C15_converges` derived from the
periodic loops of the dispatcher (Model/C15_Tick.lean), and the start-up / shut-down order.

What remains assumed of the dispatcher is stated per kind as `Served`: the loop that serves the kind
is driven by a wake-up stream (a ticker, or the notifications another loop sends), each of its handler
runs contains a step at which the kind is taken if its guard holds (the response theorems of
Props/C15.lean say so for the configuration in front of it), and that step is not earlier than the
run's begin in a time that never runs backwards. That the loop keeps running — that ticks dropped
while a slow handler is busy do not starve it, and how long it can take — is proved.
-/
import ArvVerif.Proofs.C15_Tick
import ArvVerif.Props.C15_Live
namespace ArvVerif.C15

/-- **A ticker loop never stalls and its period is bounded.** For the loop `for range ticker.C {
handler }` over a ticker of period `p > 0` (one-slot channel, ticks dropped while full): successive
handler runs are strictly ordered, the handler has returned before the next run begins, and the next
run begins at most `max (dur j) p` after run `j` began. -/
theorem C15_tick_loop (p : Nat) (start dur : Nat → Nat) (h : Driven (periodic p) start dur) (j : Nat) :
    start j < start (j + 1) ∧ start j + dur j ≤ start (j + 1) ∧ start (j + 1) ≤ start j + max (dur j) p :=
  ⟨driven_strict h j, driven_after_handler h j, driven_gap (periodic_gap p) h j⟩

/-- non-vacuity: a handler that takes 1, 5, 1, 1, … time units under a ticker of period 2 runs at
2, 4, 9, 10 (the tick of time 6 waited in the buffer, the one of time 8 was dropped), 12, … -/
example : max (2 + 1) ((2 / 2 + 1) * 2) = 4 ∧ max (4 + 5) ((4 / 2 + 1) * 2) = 9 ∧
    max (9 + 1) ((9 / 2 + 1) * 2) = 10 := by decide

/-- non-vacuity of `Driven`: a handler that returns at once runs at every tick -/
example (p : Nat) (hp : 0 < p) : Driven (periodic p) (periodic p) (fun _ => 0) := by
  refine ⟨rfl, fun j => ⟨periodic p (j + 1), ⟨⟨j + 1, rfl⟩, periodic_ticks hp j, fun i hi => ?_⟩, ?_⟩⟩
  · have h1 : j + 1 < i + 1 := Nat.lt_of_mul_lt_mul_right (a := p) hi
    exact Nat.mul_le_mul_right p (by omega)
  · have := periodic_ticks hp j
    show periodic p (j + 1) = max (periodic p j + 0) (periodic p (j + 1))
    omega

/-- such loops exist for every handler: whatever the durations, the relation `Driven` can be
continued (the loop never blocks for ever) -/
theorem C15_tick_never_blocks (ticks : Nat → Nat) (ht : Ticks ticks) (x : Nat) : ∃ t, FirstAfter ticks x t :=
  exists_firstAfter (ticks_of_strict ht).1 (ticks_of_strict ht).2 x

/-- **Every window contains a run.** Handler durations at most `D`, wake-up gaps at most `G`: after
the first run, every time window longer than `max D G` contains the begin of a run. -/
theorem C15_tick_window (ticks start dur : Nat → Nat) (G D : Nat) (hg : GapLe ticks G)
    (h : Driven ticks start dur) (hd : ∀ j, dur j ≤ D) (x : Nat) (hx : start 0 ≤ x) :
    ∃ j, x < start j ∧ start j ≤ x + max D G := by
  apply window (driven_strict h) _ x hx
  intro j
  have := driven_gap hg h j
  have := hd j
  omega

/-- **Loops compose.** The returns of the handler of a loop (queue poll: `queue.Update()` notifies the
scheduler when it returns) are a wake-up stream for another loop (`Scheduler.run`), with gaps at most
`G + D`; so the second loop's runs are at most `max (its own duration) (G + D)` apart. -/
theorem C15_tick_compose (ticks start dur start2 dur2 : Nat → Nat) (G D : Nat) (hg : GapLe ticks G)
    (h : Driven ticks start dur) (hd : ∀ j, dur j ≤ D) (h2 : Driven (ends start dur) start2 dur2) (j : Nat) :
    start2 j < start2 (j + 1) ∧ start2 (j + 1) ≤ start2 j + max (dur2 j) (G + D) :=
  ⟨driven_strict h2 j, driven_gap (ends_gap hg h hd) h2 j⟩

/-- `Pool.runSync`'s timer loop: the next listing begins exactly `p` after the previous one returned. -/
theorem C15_timer_loop (p : Nat) (hp : 0 < p) (start dur : Nat → Nat) (h : TimerDriven p start dur) (j : Nat) :
    start j < start (j + 1) ∧ start (j + 1) = start j + dur j + p := ⟨timer_strict hp h j, h j⟩

/-! ### fairness from the loops -/

/-- Kind `k` is served by a loop in the timed execution `(run, act, time)`: handler runs begin at
`start j` (strictly increasing — `C15_tick_loop`, `C15_tick_compose`, `C15_timer_loop`), run `j`
contains step `looks j`, not before it began, and at that step `k` is taken if its guard holds. -/
def Served (run : Nat → LState) (act : Nat → Act) (time : Nat → Nat) (k : Kind) : Prop :=
  ∃ start looks : Nat → Nat, (∀ j, start j < start (j + 1)) ∧ (∀ j, start j ≤ time (looks j)) ∧
    ∀ j, Enabled k (run (looks j)) → act (looks j) = .fair k

/-- **Served ⇒ weakly fair.** -/
theorem C15_served_fair (run : Nat → LState) (act : Nat → Act) (time : Nat → Nat)
    (htime : ∀ n, time n ≤ time (n + 1)) (k : Kind) (h : Served run act time k) :
    ∀ n, (∀ m, n ≤ m → Enabled k (run m)) → ∃ m, n ≤ m ∧ act m = .fair k := by
  obtain ⟨start, looks, hs, hl, hact⟩ := h
  apply (fair_iff_looks run act k).mpr
  intro n
  obtain ⟨j, hj⟩ := looks_unbounded htime hs hl n
  exact ⟨looks j, Nat.le_of_lt hj, hact j⟩

/-- **Bounded response.** If moreover the runs are at most `W` apart and step `looks j` is taken
within `D` of the run's begin, then from any step `n` (after the loop's first run) a step at which `k`
is taken if enabled follows within `W + D` time units. -/
theorem C15_served_bounded (run : Nat → LState) (act : Nat → Act) (time start looks : Nat → Nat) (k : Kind)
    (W D : Nat) (htime : ∀ n, time n ≤ time (n + 1))
    (hs : ∀ j, start j < start (j + 1)) (hw : ∀ j, start (j + 1) ≤ start j + W)
    (hl : ∀ j, start j ≤ time (looks j) ∧ time (looks j) ≤ start j + D)
    (hact : ∀ j, Enabled k (run (looks j)) → act (looks j) = .fair k)
    (n : Nat) (hn : start 0 ≤ time n) :
    ∃ m, n < m ∧ time m ≤ time n + W + D ∧ (Enabled k (run m) → act m = .fair k) := by
  obtain ⟨j, hj1, hj2⟩ := window hs hw (time n) hn
  refine ⟨looks j, ?_, ?_, hact j⟩
  · apply Classical.byContradiction
    intro hle
    have : time (looks j) ≤ time n := mono_of_step htime (by omega)
    have := (hl j).1
    omega
  · have := (hl j).2
    omega

/-- **Convergence with P2 derived.** As `C15_converges`, but weak fairness is assumed only of the
cloud, crunch-run and the quota clock (P1); each dispatcher kind is served by a loop. -/
theorem C15_converges_ticked (run : Nat → LState) (act : Nat → Act) (time : Nat → Nat)
    (hstep : ∀ n, Step (run n) (act n) (run (n + 1)))
    (htypes : TypesOK (run 0))
    (htime : ∀ n, time n ≤ time (n + 1))
    (hserved : ∀ k, k ∈ [Kind.lock, .start, .create, .requeue, .cancel, .staleResolve, .recoveryDone, .boot,
        .probeUnknown, .noticeDead, .jobGone, .idleTimeout, .drainShutdown, .brokenTimeout, .destroyRetry] →
      Served run act time k)
    (hP1 : ∀ k, k ∈ [Kind.quotaExpire, .createDone, .exec, .apiRun, .complete, .destroyOk] →
      ∀ n, (∀ m, n ≤ m → Enabled k (run m)) → ∃ m, n ≤ m ∧ act m = .fair k) :
    ∃ n, AllFinal (run n) ∧ (∀ m, n ≤ m → AllFinal (run m)) ∧ ∃ m, n ≤ m ∧ NoInstances (run m) := by
  apply C15_converges run act hstep htypes
  intro k
  by_cases hk : k ∈ [Kind.quotaExpire, .createDone, .exec, .apiRun, .complete, .destroyOk]
  · exact hP1 k hk
  · apply C15_served_fair run act time htime k
    apply hserved
    cases k <;> simp at hk ⊢

/-- non-vacuity: the execution of Props/C15_Live.lean that runs a container to completion (one step per
time unit) satisfies the premises — every loop goes on looking after the system has come to rest -/
theorem Example.served (k : Kind) : Served Example.run Example.act (fun n => n) k :=
  ⟨fun j => 11 + j, fun j => 11 + j, fun j => by show 11 + j < 11 + (j + 1); omega, fun j => Nat.le_refl _, fun j he => by
    rw [Example.run_ge (11 + j) (by omega)] at he
    exact absurd he (Example.quiescent k)⟩

example : ∃ n, AllFinal (Example.run n) ∧ (∀ m, n ≤ m → AllFinal (Example.run m)) ∧
    ∃ m, n ≤ m ∧ NoInstances (Example.run m) :=
  C15_converges_ticked Example.run Example.act (fun n => n) Example.steps Example.types0 (fun n => by omega)
    (fun k _ => Example.served k) (fun k _ => Example.fair k)

/-! ### start-up and shut-down order -/

/-- **No pass before recovery is over.** In `Scheduler.run`, whatever the number of passes, every
`runQueue` and `sync` comes after `fixStaleLocks` has returned (the guard `recovering = false` of the
scheduler steps of the liveness system); the queue has been fetched once and the queue poll is running
before `fixStaleLocks` starts (so it sees a fresh queue while it waits). -/
theorem C15_no_pass_before_recovery (n : Nat) :
    ∃ pre post, schedRun n = pre ++ RunEv.fixStaleLocks :: post ∧
      RunEv.runQueue ∉ pre ∧ RunEv.sync ∉ pre ∧ RunEv.pollStart ∈ pre ∧ RunEv.firstUpdate ∈ pre :=
  ⟨[.firstUpdate, .pollStart], _, rfl, by simp, by simp, by simp, by simp⟩

/-- **Shut-down order.** `dispatcher.run` stops the scheduler before the pool and the pool before the
instance set, and signals `stopped` last. -/
theorem C15_shutdown_order :
    dispRun.idxOf .schedStop < dispRun.idxOf .poolStop ∧ dispRun.idxOf .poolStop < dispRun.idxOf .instanceSetStop ∧
    dispRun.idxOf .instanceSetStop < dispRun.idxOf .closeStopped ∧ dispRun.getLast? = some .closeStopped := by
  decide

end ArvVerif.C15
