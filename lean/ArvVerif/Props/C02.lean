/-
C02 — keepstore PUT is all-or-nothing and survives process death once acknowledged.

Property theorems about the model in Model/C02.lean (a Directory volume as a finite map
path → (bytes, mtime); operations as ordered lists of filesystem micro-steps; a crash = truncation
of the list at any prefix). `hash` is an arbitrary function; no theorem needs collision-freeness.
"Process death" = loss of all state except the map as of the last completed system call; power
loss / missing fsync, NFS semantics and the atomicity of rename(2) are trusted, not modelled.
-/
import ArvVerif.Proofs.C02_Inv
import ArvVerif.Proofs.C02_Pipe
import ArvVerif.Proofs.C02_Put
import ArvVerif.Proofs.C02_Conc
namespace ArvVerif.C02

/-- A temp file name `tmp<hash><suffix>` is never a block name (`blockFileRe`: not listed by
`IndexTo`, not reachable by GET, whose route only accepts 32 hex digits), never matches
`EmptyTrash`'s trash regexp, and is never picked up by `Untrash`; so it never shows up in the index
of any volume state. No hypothesis on `h` or the suffix. -/
theorem C02_tmp_never_visible (h sfx : Name) :
    isBlockName (tmpName h sfx) = false ∧ isTrashName (tmpName h sfx) = false ∧
    isTrashLike (tmpName h sfx) = false ∧ owner (tmpName h sfx) = none ∧
    ∀ (fs : FS) (line : Name × Nat × Nat), line ∈ index fs → line.1 ≠ tmpName h sfx := by
  refine ⟨tmp_not_blockName h sfx, tmp_not_trashName h sfx, tmp_not_trashLike h sfx, owner_tmp h sfx, ?_⟩
  intro fs line hl heq
  simp only [index, List.mem_map, List.mem_filter, Bool.and_eq_true] at hl
  obtain ⟨e, ⟨_, _, hb⟩, rfl⟩ := hl
  simp only at heq
  rw [heq, tmp_not_blockName] at hb
  cases hb

/-- Crash atomicity of `WriteBlock`: for every initial volume state, every body, every chunking
of what the reader handed over, every reader outcome, every choice of first failing system call
and **every prefix** `k` of the resulting step list, the block path holds either exactly what it
held before or the complete body (with the new timestamp) — and the complete body only if the
reader reached EOF and no call failed. -/
theorem C02_crash_atomic (fs : FS) (body : Bytes) (w : WBIn) (hv : WBValid body w.chunks w.rend) (k : Nat) :
    (run fs ((writeBlockEvs w).1.take k)).get (blockPath w.h) = fs.get (blockPath w.h) ∨
    ((run fs ((writeBlockEvs w).1.take k)).get (blockPath w.h) = some ⟨body, w.now⟩ ∧
      w.rend = .eof ∧ w.fail = .none ∧ (writeBlockEvs w).1.length ≤ k) := by
  rcases wb_crash_atomic fs w k with h | ⟨h1, h2, h3, _, h5⟩
  · exact Or.inl h
  · exact Or.inr ⟨by rw [h1, hv.2 h2], h2, h3, h5⟩

/-- The same on the level of the request (`handlePUT` → `PutBlock` → CompareAndTouch / any number
of `WriteBlock` attempts), for every prefix of everything the request does to the volume: the bytes
at the block path are the old bytes or the complete request body. -/
theorem C02_put_crash_atomic (hash : Bytes → Name) (fs : FS) (p : PutIn)
    (hv : (Op.put p).valid hash) (k : Nat) :
    (run fs ((handlePut hash fs p).1.take k)).data (blockPath p.h) = fs.data (blockPath p.h) ∨
    (run fs ((handlePut hash fs p).1.take k)).data (blockPath p.h) = some p.body :=
  put_crash_atomic hash fs p hv k

/-- `handlePUT` answers 200 only after `PutBlock` returned nil, i.e. after the whole step list ran
(Touch of an identical copy, or a `WriteBlock` whose rename was performed). Hence after an
acknowledgement, a crash at any later instant (`k ≥` the number of steps) leaves a volume on which a
fresh process's `GetBlock` returns the complete body. -/
theorem C02_ack_implies_renamed (hash : Bytes → Name) (fs : FS) (p : PutIn)
    (hv : (Op.put p).valid hash) (hack : (handlePut hash fs p).2 = .ok200)
    (k : Nat) (hk : (handlePut hash fs p).1.length ≤ k) :
    getBlock hash (run fs ((handlePut hash fs p).1.take k)) p.h = .ok p.body := by
  obtain ⟨hh, hd⟩ := ack_complete hash fs p hv hack
  rw [List.take_of_length_le hk]
  unfold getBlock
  simp only [FS.data] at hd
  cases hg : (run fs (handlePut hash fs p).1).get (blockPath p.h) with
  | none => simp [hg] at hd
  | some f =>
    simp only [hg, Option.map_some, Option.some.injEq] at hd
    simp [hd, hh]

/-- A stored intact block survives any later PUT of the same hash, however that PUT ends: killed
after any number of micro-steps, cancelled during `Compare` (`compareCancelled`), during the write
(`cancelled`, reader outcome `err`) or not at all — the fresh process's `GetBlock` still succeeds. -/
theorem C02_stored_block_survives_put (hash : Bytes → Name) (fs : FS) (p : PutIn)
    (hv : (Op.put p).valid hash) (k : Nat) (b : Bytes) (hb : getBlock hash fs p.h = .ok b) :
    ∃ b', getBlock hash (run fs ((handlePut hash fs p).1.take k)) p.h = .ok b' := by
  by_cases hh : hash p.body = p.h
  · unfold getBlock at hb ⊢
    cases hg : fs.get (blockPath p.h) with
    | none => simp [hg] at hb
    | some f =>
      simp only [hg] at hb
      have hf : hash f.data = p.h := by
        by_cases h' : hash f.data = p.h
        · exact h'
        · simp [h'] at hb
      rcases put_crash_atomic hash fs p hv k with h1 | h1
      · simp only [FS.data, hg, Option.map_some] at h1
        cases hg' : (run fs ((handlePut hash fs p).1.take k)).get (blockPath p.h) with
        | none => simp [hg'] at h1
        | some f' =>
          simp only [hg', Option.map_some, Option.some.injEq] at h1
          exact ⟨f'.data, by simp [h1, hf]⟩
      · simp only [FS.data] at h1
        cases hg' : (run fs ((handlePut hash fs p).1.take k)).get (blockPath p.h) with
        | none => simp [hg'] at h1
        | some f' =>
          simp only [hg', Option.map_some, Option.some.injEq] at h1
          exact ⟨f'.data, by simp [h1, hh]⟩
  · have : (handlePut hash fs p).1 = [] := by
      unfold handlePut
      split
      · rfl
      · simp [hh]
    rw [this]
    exact ⟨b, by simpa using hb⟩

/-- Two `WriteBlock` runs for the same hash at the same time (a client retry, two clients uploading
the same data), with **distinct temp names** (what `ioutil.TempFile`'s O_EXCL + random suffix
provides; tied by `tie_tempFileText`): for every interleaving of their step lists and a crash at
any moment (`sched` of any length), the block path holds its old content or the complete data of
a run that returned nil — an abandoned writer has no effect on what the other one publishes. -/
theorem C02_concurrent_writes_atomic (fs : FS) (wA wB : WBIn) (hh : wB.h = wA.h) (hs : wA.sfx ≠ wB.sfx)
    (sched : List Bool) :
    (run fs (interleave sched (writeBlockEvs wA).1 (writeBlockEvs wB).1)).get (blockPath wA.h) = fs.get (blockPath wA.h) ∨
    ((writeBlockEvs wA).2 = true ∧
      (run fs (interleave sched (writeBlockEvs wA).1 (writeBlockEvs wB).1)).get (blockPath wA.h) = some ⟨wA.chunks.flatten, wA.now⟩) ∨
    ((writeBlockEvs wB).2 = true ∧
      (run fs (interleave sched (writeBlockEvs wA).1 (writeBlockEvs wB).1)).get (blockPath wA.h) = some ⟨wB.chunks.flatten, wB.now⟩) := by
  have hA := wb_rem fs wA
  have hB := wb_rem fs wB
  rw [hh] at hB
  exact conc_atomic (tmpPath_inj hs) (tmpPath_ne_blockPath _ _)
    (tmpPath_ne_blockPath _ _) sched fs _ _ _ _ hA hB

/-- Invariant over all histories of PUT / WriteBlock / Touch / Trash / Untrash / EmptyTrash
micro-steps and environment steps **with a crash possible after every micro-step**: if every visible
block (and every trashed copy that `Untrash` could bring back) of the initial state is intact, the
same holds in every reachable state; and every line of the index names a file whose bytes hash to
the listed name and whose length is the listed size — the very file a GET for that name in that
directory opens. -/
theorem C02_index_complete_blocks (hash : Bytes → Name) (fs0 fs : FS)
    (hi : Intact hash fs0) (hw : WF fs0) (hr : Reach hash fs0 fs) :
    Intact hash fs ∧
    ∀ line ∈ index fs, ∃ (p : Path) (f : File), fs.get p = some f ∧ isBlockDir p.dir = true ∧
      isBlockName p.name = true ∧ line = (p.name, f.data.length, f.mtime) ∧ hash f.data = p.name := by
  have hi' := intact_reach hash hi hr
  have hw' := wf_reach hash hw hr
  refine ⟨hi', ?_⟩
  intro line hl
  simp only [index, List.mem_map, List.mem_filter, Bool.and_eq_true] at hl
  obtain ⟨⟨p, f⟩, ⟨hm, hd, hb⟩, rfl⟩ := hl
  exact ⟨p, f, get_of_mem hw' hm, hd, hb, rfl, hi' _ hm p.name (owner_block hb)⟩

/-- putWithPipe's contract: in every reachable state of every interleaving of the copy goroutine,
the writer, the context and the closing goroutine, a writer that sees EOF has received the whole
body and putWithPipe's first `select` ended without error; so if the first `select` ended with an
error (in particular: the context ended first), or the context ends while bytes are still
undelivered, the writer's reader ends with an error, never with EOF. What the writer received is
always a prefix of the body (`WBValid`). -/
theorem C02_cancel_is_error (body : Bytes) (s : Pipe) (hr : PReach body s) :
    (s.writer = .sawEOF → s.got.flatten = body ∧ s.mainErr = some false) ∧
    (s.mainErr = some true → s.writer ≠ .sawEOF) ∧
    (s.got.flatten ≠ body → s.writer ≠ .sawEOF) ∧
    (s.writer = .sawEOF → WBValid body s.got .eof) ∧
    (s.writer = .sawErr → WBValid body s.got .err ∧ s.mainErr = some true) := by
  obtain ⟨hi, hb⟩ := pinv_reach hr
  have heof : s.writer = .sawEOF → s.got.flatten = body ∧ s.mainErr = some false := by
    intro hw
    have hm := hi.closed _ (hi.eof hw)
    refine ⟨?_, hm⟩
    rcases hi.main hm with h | h
    · rw [h, hb]
    · rw [hw] at h; cases h
  refine ⟨heof, ?_, ?_, ?_, ?_⟩
  · intro hm hw
    rw [(heof hw).2] at hm; cases hm
  · intro hne hw
    exact hne (heof hw).1
  · intro hw
    exact ⟨hb ▸ hi.pre, fun _ => (heof hw).1⟩
  · intro hw
    exact ⟨⟨hb ▸ hi.pre, fun h => by cases h⟩, hi.closed _ (hi.err hw)⟩

/-! ### Non-vacuity -/

section Examples

/-- a toy digest: 32 copies of the hex digit of the length mod 16 -/
def toyHash (b : Bytes) : Name := List.replicate 32 (hexDigit (b.length % 16))

def exBody : Bytes := [1, 2, 3]
def exH : Name := toyHash exBody
def exW : WBIn := ⟨exH, ['4', '2'], [[1], [2, 3]], .eof, .none, 7, true⟩
def exCorrupt : FS := FS.empty.set (blockPath exH) ⟨[9, 9], 0⟩

-- a real block name is visible, the matching temp name is not
example : isBlockName exH = true ∧ isBlockName (tmpName exH ['4', '2']) = false := by decide

-- hypotheses of C02_crash_atomic hold for a two-chunk body; killed before the rename the corrupt
-- old copy is still there (and the temp file holds the whole body), after it the body is
example : WBValid exBody exW.chunks exW.rend := ⟨by decide, fun _ => by decide⟩
example : (run exCorrupt ((writeBlockEvs exW).1.take 10)).get (blockPath exH) = some ⟨[9, 9], 0⟩ ∧
    (run exCorrupt ((writeBlockEvs exW).1.take 10)).get (tmpPath exH ['4', '2']) = some ⟨exBody, 7⟩ := by decide
example : (run exCorrupt ((writeBlockEvs exW).1.take 11)).get (blockPath exH) = some ⟨exBody, 7⟩ := by decide
-- a reader error after the first chunk: every prefix keeps the old copy, the temp file is removed
example : (run exCorrupt (writeBlockEvs { exW with chunks := [[1]], rend := .err }).1).files
    = [(blockPath exH, ⟨[9, 9], 0⟩)] := by decide

-- C02_concurrent_writes_atomic: B starts while A is mid-copy, A finishes, B is abandoned: A's data
-- is published. The hypothesis `sfx ≠` is needed: with one shared temp name (createTemp truncates)
-- the same schedule publishes a block that lacks A's first chunk.
def exWB : WBIn := { exW with sfx := ['4', '3'], chunks := [], rend := .err }
def exSched : List Bool := [true, true, true, true, false, false, false, true, true, true, true, true, true, true]
example : (run FS.empty (interleave exSched (writeBlockEvs exW).1 (writeBlockEvs exWB).1)).get (blockPath exH)
    = some ⟨exBody, 7⟩ := by decide
example : (run FS.empty (interleave exSched (writeBlockEvs exW).1
    (writeBlockEvs { exWB with sfx := exW.sfx }).1)).get (blockPath exH) = some ⟨[2, 3], 7⟩ := by decide

def exPut : PutIn := ⟨exH, exBody, 7, none, [exW], false, false, false⟩

-- hypotheses of C02_ack_implies_renamed / C02_put_crash_atomic: an acknowledged PUT over a corrupt copy
example : (Op.put exPut).valid toyHash := by
  intro w hw
  simp [exPut] at hw
  subst hw
  exact ⟨rfl, fun _ => by decide⟩
example : (handlePut toyHash exCorrupt exPut).2 = .ok200 := by decide
example : getBlock toyHash (run exCorrupt (handlePut toyHash exCorrupt exPut).1) exH = .ok exBody := by decide
-- C02_stored_block_survives_put: a stored block and a second PUT whose context ends during Compare
example : ∃ b, getBlock toyHash (run exCorrupt (handlePut toyHash exCorrupt exPut).1) exH = .ok b := ⟨exBody, by decide⟩
example : (handlePut toyHash (run exCorrupt (handlePut toyHash exCorrupt exPut).1) { exPut with compareCancelled := true }).2
      = .disconnect ∧
    (handlePut toyHash (run exCorrupt (handlePut toyHash exCorrupt exPut).1) { exPut with compareCancelled := true }).1.length
      = 3 := by decide
-- a full volume: nothing happens beyond Compare and the answer is 503, never 200
example : (handlePut toyHash FS.empty { exPut with volumeFull := true }).2 = .full ∧
    (handlePut toyHash FS.empty { exPut with volumeFull := true }).1.length = 1 := by decide
-- a cancelled request is not acknowledged although the block gets published
example : (handlePut toyHash exCorrupt { exPut with cancelled := true }).2 = .disconnect := by decide

-- hypotheses of C02_index_complete_blocks: the empty volume is intact and well-formed, and a
-- reachable state with a non-empty index exists (PUT, then a Trash that is killed before its rename)
example : Intact toyHash FS.empty ∧ WF FS.empty := ⟨fun e he => by simp [FS.empty] at he, wf_empty⟩
example : ∃ fs, Reach toyHash FS.empty fs ∧ index fs = [(exH, 3, 7)] :=
  ⟨_, .step (.trash ⟨100, 10, 50⟩ exH) 4
        (.step (.put exPut) 100 .init (by intro w hw; simp [exPut] at hw; subst hw; exact ⟨rfl, fun _ => by decide⟩))
        trivial,
    by decide⟩

-- C02_cancel_is_error: a reachable state in which the context ended after one of three bytes was
-- delivered and the writer has seen an error …
example : ∃ s, PReach exBody s ∧ s.ctxDone = true ∧ s.got = [[1]] ∧ s.writer = .sawErr :=
  ⟨_, .step (.step (.step (.step (.step .init
        (.read _ [1] rfl rfl (by decide) (by decide)))
        (.cancel _)) (.selectCtx _ rfl rfl)) (.close _ true rfl rfl)) (.seeErr _ rfl rfl),
    rfl, rfl, rfl⟩
-- … and one in which the writer has seen EOF (after the whole body)
example : ∃ s, PReach exBody s ∧ s.writer = .sawEOF ∧ s.got.flatten = exBody :=
  ⟨_, .step (.step (.step (.step (.step .init
        (.read _ exBody rfl rfl (by decide) (by decide)))
        (.copyFinish _ rfl (by decide))) (.selectCopy _ rfl rfl)) (.close _ false rfl rfl)) (.seeEOF _ rfl rfl),
    rfl, by decide⟩

end Examples

end ArvVerif.C02
