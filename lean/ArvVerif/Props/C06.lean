/-
C06 — keep-balance acts only on a complete view of collections and block indexes.
Property theorems (see notes/C06.md for the reading of each).
-/
import ArvVerif.Proofs.C06_Scan
namespace ArvVerif.C06

/-- (a) For every collection table (any size, timestamp ties of any multiplicity), every effective
page length ≥ 1, every environment `env` (the table seen by request k, arbitrary in k) in which the
collections `P` stay present with non-decreasing modified_at and uuids are unique, every
request/callback failure script and every fuel: if `EachCollection` returns nil, every collection
of `P` was passed to the callback. -/
theorem C06_paging_complete (P : List Nat) (limit : Nat) (env : Nat → List Coll) (fail : Nat → Bool)
    (cbFail : Option Nat) (fuel : Nat) (hl : 1 ≤ limit)
    (hnd : ∀ k, ((env k).map Coll.uuid).Nodup)
    (hstart : ∀ u ∈ P, ∃ c ∈ env 0, c.uuid = u)
    (henv : ∀ k, Env P (env k) (env (k + 1)))
    (hok : (scan limit env fail cbFail fuel).out = .ok) :
    ∀ u ∈ P, u ∈ (scan limit env fail cbFail fuel).st.seen :=
  scan_complete fail cbFail fuel hl hnd hstart henv hok

end ArvVerif.C06
