/-
C06 — keep-balance acts only on a complete view of collections and block indexes.

(a) `EachCollection` paging (Model/C06.lean): C06_paging_complete, C06_paging_complete_any_server,
    C06_paging_progress, C06_paging_error_propagates, C06_paging_error_immediate.
(b) index readers and producer (Model/C06_Index.lean): C06_index_truncation, C06_index_producer.
(c) sweep abort (Model/C06_Run.lean): C06_no_commit_after_error, C06_run_guard_list,
    C06_getCurrentState_error, C06_sanity_late_refuses_empty_scan.
Each theorem is followed by `example`s showing that its hypotheses are satisfiable by a non-trivial
instance (and, where the conclusion is conditional, that the condition occurs).
-/
import ArvVerif.Proofs.C06_Scan
import ArvVerif.Proofs.C06_Progress
import ArvVerif.Proofs.C06_Sched
import ArvVerif.Proofs.C06_Index
import ArvVerif.Proofs.C06_Run
import ArvVerif.Proofs.C06_GCS_Queue
import ArvVerif.Proofs.C06_GCS_Live
import ArvVerif.Proofs.C06_GCS_Acc
import ArvVerif.Proofs.C06_Decimal
namespace ArvVerif.C06

/-! ## (a) paging -/

/-- For every collection table (any size, timestamp ties of any multiplicity — also more ties than
the page length), every effective page length ≥ 1, every environment `env` (`env k` = the table
seen by request `k`, an arbitrary function of `k`: any schedule of modifications, additions and
deletions) in which uuids are unique and the collections `P` stay present with non-decreasing
modified_at, every request/callback failure script and every fuel: if `EachCollection` returns nil,
every collection of `P` was passed to the callback at least once. -/
theorem C06_paging_complete (P : List Nat) (limit : Nat) (env : Nat → List Coll) (fail : Nat → Bool)
    (cbFail : Option Nat) (fuel : Nat) (hl : 1 ≤ limit)
    (hnd : ∀ k, ((env k).map Coll.uuid).Nodup)
    (hstart : ∀ u ∈ P, ∃ c ∈ env 0, c.uuid = u)
    (henv : ∀ k, Env P (env k) (env (k + 1)))
    (hok : (scan limit env fail cbFail fuel).out = .ok) :
    ∀ u ∈ P, u ∈ (scan limit env fail cbFail fuel).st.seen :=
  scan_complete fail cbFail fuel hl hnd hstart henv hok

section examples_a
/-- five collections sharing one timestamp (more ties than the page length 2) and a later one -/
def exDb : List Coll := [⟨1, 5⟩, ⟨2, 5⟩, ⟨3, 5⟩, ⟨4, 5⟩, ⟨5, 5⟩, ⟨6, 7⟩]
/-- while the scan runs, collection 1 is modified (fresh timestamp 9), 9 is added and 2 is deleted -/
def exDb' : List Coll := [⟨1, 9⟩, ⟨3, 5⟩, ⟨4, 5⟩, ⟨5, 5⟩, ⟨6, 7⟩, ⟨9, 9⟩]
def exEnv (k : Nat) : List Coll := if k < 3 then exDb else exDb'
def exP : List Nat := [1, 3, 4, 5, 6]

theorem exEnv_nodup : ∀ k, ((exEnv k).map Coll.uuid).Nodup := by
  intro k; unfold exEnv; split <;> decide

theorem exEnv_env : ∀ k, Env exP (exEnv k) (exEnv (k + 1)) := by
  intro k
  unfold exEnv
  by_cases h1 : k < 3
  · by_cases h2 : k + 1 < 3
    · simp only [h1, h2, if_true]; exact ⟨by decide, by decide⟩
    · simp only [h1, h2, if_true, if_false]; exact ⟨by decide, by decide⟩
  · have h2 : ¬ k + 1 < 3 := by omega
    simp only [h1, h2, if_false]; exact ⟨by decide, by decide⟩

/-- the hypotheses hold for a history with ties, a modification, an addition and a deletion, the
scan returns nil, so the conclusion applies: all of 1,3,4,5,6 were passed to the callback -/
example : (scan 2 exEnv (fun _ => false) none 40).out = .ok := by decide +kernel
example : ∀ u ∈ exP, u ∈ (scan 2 exEnv (fun _ => false) none 40).st.seen :=
  C06_paging_complete exP 2 exEnv _ none 40 (by decide) exEnv_nodup (by decide) exEnv_env (by decide +kernel)
/-- the modified collection is passed twice; the deleted one (not in `exP`) once, before its deletion -/
example : (scan 2 exEnv (fun _ => false) none 40).st.seen.reverse = [1, 2, 3, 4, 5, 6, 1, 9] := by
  decide +kernel
end examples_a

/-- The scripted form the correspondence check runs: the table starts as `db0` and `sched[k]`
(modify / add / delete operations) is applied just before request `k`. If no operation deletes or
re-adds a collection of `P` and modifications of `P`-collections never move modified_at backwards
(`SchedOK`), a scan that returns nil has passed all of `P` to the callback; and it always ends within
`|sched| + 3·|final table| + 3` page requests. -/
theorem C06_paging_complete_sched (P : List Nat) (limit : Nat) (db0 : List Coll) (sched : List (List Op))
    (fail : Nat → Bool) (cbFail : Option Nat) (fuel : Nat) (hl : 1 ≤ limit)
    (hnd : (db0.map Coll.uuid).Nodup) (hP : Present P db0) (hs : SchedOK P db0 sched) :
    ((scan limit (envOf db0 sched) fail cbFail fuel).out = .ok →
      ∀ u ∈ P, u ∈ (scan limit (envOf db0 sched) fail cbFail fuel).st.seen) ∧
    (sched.length + fuelBound (envOf db0 sched sched.length) ≤ fuel →
      (scan limit (envOf db0 sched) fail cbFail fuel).out ≠ .outOfFuel) := by
  obtain ⟨h1, h2, h3⟩ := envOf_ok sched db0 hnd hP hs
  exact ⟨fun hok => scan_complete fail cbFail fuel hl h1 h2 h3 hok,
    fun hf => scan_terminates hl h1 (envOf_const sched db0) hf⟩

/-- the schedule of the example above: before request 3, modify 1 to a fresh timestamp, add 9, delete 2 -/
example : SchedOK exP exDb [[], [], [], [.modify 1 9, .add 9 9, .del 2]] := by
  simp [SchedOK, OpsOK, OpOK, applyOps, exP, exDb]
example : Present exP exDb := by unfold Present; decide
example : envOf exDb [[], [], [], [.modify 1 9, .add 9 9, .del 2]] 3 =
    [⟨1, 9⟩, ⟨3, 5⟩, ⟨4, 5⟩, ⟨5, 5⟩, ⟨6, 7⟩, ⟨9, 9⟩] := by decide
example : (scan 2 (envOf exDb [[], [], [], [.modify 1 9, .add 9 9, .del 2]]) (fun _ => false) none 40).out = .ok := by
  decide +kernel

/-- The same for any server: whatever pages are returned, as long as each is a sorted prefix of the
filtered table (`PageOf`; the page length may differ from request to request), and with arbitrary
environment steps between requests. -/
theorem C06_paging_complete_any_server {P : List Nat} {db : List Coll} {s s' : St} {limit : Nat}
    {pg : List Coll} {cbFail : Option Nat} (r : Reach P db s) (hp : PageOf db s.filt limit pg)
    (hn : next cbFail s pg = .done s') : ∀ u ∈ P, u ∈ s'.seen :=
  paging_complete r hp hn

example : Reach exP exDb init := .start _ (by decide)
example : PageOf exDb Filt.all 2 (serve exDb .all 2) := serve_pageOf _ _ _ (by decide) (by decide)

/-- Termination: if the table is constant from request `K` on (after finitely many concurrent
changes; `K = 0`: no concurrent change at all), the scan ends — normally or with an error — within
`K + 3·|db| + 3` page requests, whatever fails. -/
theorem C06_paging_progress (limit : Nat) (env : Nat → List Coll) (fail : Nat → Bool)
    (cbFail : Option Nat) (db : List Coll) (K fuel : Nat) (hl : 1 ≤ limit)
    (hnd : ∀ k, ((env k).map Coll.uuid).Nodup) (hconst : ∀ j, K ≤ j → env j = db)
    (hfuel : K + fuelBound db ≤ fuel) :
    (scan limit env fail cbFail fuel).out ≠ .outOfFuel :=
  scan_terminates hl hnd hconst hfuel

example : ∀ j, 3 ≤ j → exEnv j = exDb' := by
  intro j hj; unfold exEnv; simp; omega
example : (scan 2 exEnv (fun _ => false) none (3 + fuelBound exDb')).out ≠ .outOfFuel :=
  C06_paging_progress 2 exEnv _ none exDb' 3 _ (by decide) exEnv_nodup
    (by intro j hj; unfold exEnv; simp; omega) (Nat.le_refl _)
/-- the bound is not vacuous: with too little fuel the model does report `outOfFuel` -/
example : (scan 2 exEnv (fun _ => false) none 3).out = .outOfFuel := by decide +kernel

/-- Error propagation: a scan that returns nil made only requests that were answered without error
(all `nreq` of them) and never invoked the callback invocation that fails. Contrapositive: a failed
page/count request or a callback error ends the scan with an error. -/
theorem C06_paging_error_propagates (limit : Nat) (env : Nat → List Coll) (fail : Nat → Bool)
    (cbFail : Option Nat) (fuel : Nat) (hok : (scan limit env fail cbFail fuel).out = .ok) :
    (∀ j, j < (scan limit env fail cbFail fuel).nreq → fail j = false) ∧
    (∀ n, cbFail = some n → (scan limit env fail cbFail fuel).st.seen.length ≤ n) :=
  scan_ok hok

/-- … and the error is immediate: the loop returns at the failing request / callback without
issuing another request. -/
theorem C06_paging_error_immediate (limit : Nat) (env : Nat → List Coll) (fail : Nat → Bool)
    (cbFail : Option Nat) (fuel k : Nat) (s : St) :
    (fail k = true →
      (pageLoop limit env fail cbFail (fuel + 1) k s).out = .errRequest ∧
      (pageLoop limit env fail cbFail (fuel + 1) k s).nreq = k + 1) ∧
    (fail k = true → (finalCheck env fail k s).out = .errRequest) ∧
    (fail 0 = true → (scan limit env fail cbFail fuel).out = .errRequest ∧
      (scan limit env fail cbFail fuel).nreq = 1) ∧
    (fail k = false → ∀ s', next cbFail (pushLog s (.reqPage s.filt))
        (serve (env k) (pushLog s (.reqPage s.filt)).filt limit) = .cbErr s' →
      (pageLoop limit env fail cbFail (fuel + 1) k s).out = .errCallback ∧
      (pageLoop limit env fail cbFail (fuel + 1) k s).nreq = k + 1) := by
  refine ⟨?_, ?_, ?_, ?_⟩
  · intro h; unfold pageLoop; simp [h]
  · intro h; unfold finalCheck; simp [h]
  · intro h; unfold scan; simp [h]
  · intro h s' hn; unfold pageLoop; simp [h, hn]

example : (scan 2 exEnv (fun k => k == 2) none 40).out = .errRequest := by decide +kernel
example : (scan 2 exEnv (fun _ => false) (some 3) 40).out = .errCallback ∧
    (scan 2 exEnv (fun _ => false) (some 3) 40).st.seen.length = 4 := by decide +kernel
/-- null modified_at: the loop gives up with its BUG error instead of looping -/
example : (scan 3 (fun _ => [⟨1, 0⟩, ⟨2, 0⟩, ⟨3, 0⟩, ⟨4, 4⟩]) (fun _ => false) none 40).out = .errBug := by
  decide +kernel
/-- a row with an old timestamp that appears behind the cursor is caught by the final count -/
example : (scan 2 (fun k => if k < 3 then [⟨1, 5⟩, ⟨2, 6⟩, ⟨3, 7⟩] else [⟨1, 5⟩, ⟨2, 6⟩, ⟨3, 7⟩, ⟨8, 5⟩])
    (fun _ => false) none 40).out = .errCount := by decide +kernel

/-! ## (b) index readers and producer -/

/-- For every well-formed index response `W = l₁\n … lₙ\n \n` (n ≥ 0; lines non-empty, without LF,
not starting with CR) and every proper prefix `P` of `W` — every truncation point — both readers
report an error; and both accept `W` itself: `GetIndex` returns exactly the n lines, and
`KeepService.index` exactly the n entries when each line parses (`GoodLine`). -/
theorem C06_index_truncation (ls : List Line) (hok : ∀ l ∈ ls, LineOK l) :
    (∀ P, P <+: render ls → P ≠ render ls →
      (∃ e, ksIndex P = .error e) ∧ getIndex P = .error .incomplete) ∧
    getIndex (render ls) = .ok (ls.flatMap (fun l => l ++ [10])) ∧
    (∀ es, AllGood ls es → ksIndex (render ls) = .ok es) :=
  ⟨fun P hp hne => ⟨ksIndex_rejects_prefix ls hok P hp hne, getIndex_rejects_prefix ls hok P hp hne⟩,
   getIndex_accepts ls, fun es h => ksIndex_accepts ls es h⟩

section examples_b
/-- `ab+3 12345678` and `c+0 1600000000000000000` -/
def exL1 : Line := [97, 98, 43, 51, 32, 49, 50, 51, 52, 53, 54, 55, 56]
def exL2 : Line := [99, 43, 48, 32, 49, 54, 48, 48, 48, 48, 48, 48, 48, 48, 48, 48, 48, 48, 48, 48, 48, 48, 48]
def exE1 : Entry := ⟨[97, 98, 43, 51], 12345678000000000⟩
def exE2 : Entry := ⟨[99, 43, 48], 1600000000000000000⟩

theorem exL1_good : GoodLine exL1 exE1 :=
  ⟨⟨by decide, by decide, by decide⟩, by decide, by decide, by decide⟩
theorem exL2_good : GoodLine exL2 exE2 :=
  ⟨⟨by decide, by decide, by decide⟩, by decide, by decide, by decide⟩

example : ∀ l ∈ [exL1, exL2], LineOK l := by
  intro l hl; simp at hl; rcases hl with rfl | rfl
  · exact exL1_good.ok
  · exact exL2_good.ok
example : AllGood [exL1, exL2] [exE1, exE2] := .cons exL1_good (.cons exL2_good .nil)
example : ksIndex (render [exL1, exL2]) = .ok [exE1, exE2] := by decide +kernel
/-- a cut inside a line that leaves a syntactically valid line, and the cut just before the final
LF, are both rejected -/
example : ksIndex ((render [exL1, exL2]).take 34) = .error .noEOF := by decide +kernel
example : ksIndex (render [exL1, exL2]).dropLast = .error .noEOF := by decide +kernel
example : getIndex (render [exL1, exL2]).dropLast = .error .incomplete := by decide +kernel
/-- the empty index is the single byte LF; its only proper prefix, the empty body, is rejected -/
example : render [] = [10] ∧ ksIndex [] = .error .noEOF ∧ getIndex [] = .error .incomplete := by
  decide +kernel
/-- the hypothesis "does not start with CR" is needed: ScanLines turns a final lone CR into an empty
token, so this truncation of `a 1\n`, `\rb 2\n`, `\n` would be accepted -/
example : ksIndex [97, 32, 49, 10, 13] = .ok [⟨[97], 1000000000⟩] := by decide +kernel
end examples_b

/-- A read error while the body is being received (dropped connection, timeout) is always reported
by both readers — whatever part of the body had arrived, complete or not, and however many of the
received lines the scanner had handed over before the error surfaced. -/
theorem C06_index_read_error (toks : List Tok) (received : List Byte) :
    (∃ e, ksLoopAbort toks false [] = .error e) ∧ getIndexAbort received = .error .http :=
  ⟨ksLoopAbort_error toks false [], rfl⟩

example : ksLoopAbort (scanLines (render [exL1, exL2])) false [] = .error .scan := by decide +kernel

/-- Producer: with volumes that honour `IndexTo`'s contract (`VolWF`), `handleIndex` emits the
complete well-formed response exactly when every volume succeeded; if any volume fails the response
is a truncated one, which both readers reject. -/
theorem C06_index_producer (vs : List VolRun) (hwf : ∀ v ∈ vs, VolWF v) :
    ((∀ v ∈ vs, v.ok = true) →
      handleIndex (vs.map VolRun.out) = render (vs.flatMap (·.lines))) ∧
    ((∃ v ∈ vs, v.ok = false) →
      (∃ e, ksIndex (handleIndex (vs.map VolRun.out)) = .error e) ∧
      getIndex (handleIndex (vs.map VolRun.out)) = .error .incomplete) := by
  refine ⟨handleIndex_complete vs hwf, ?_⟩
  intro hf
  obtain ⟨ls, hls, hpre, hne⟩ := handleIndex_truncated vs hwf hf
  exact ⟨ksIndex_rejects_prefix ls hls _ hpre hne, getIndex_rejects_prefix ls hls _ hpre hne⟩

/-- a volume that succeeds, then one that fails after a complete line and half of another -/
example : VolWF ⟨[exL1], [], true⟩ :=
  ⟨by intro l hl; simp at hl; rw [hl]; exact exL1_good.ok, fun _ => rfl, ⟨exL1, exL1_good.ok, by decide⟩⟩
example : VolWF ⟨[exL2], exL1.take 5, false⟩ :=
  ⟨by intro l hl; simp at hl; rw [hl]; exact exL2_good.ok, (by intro h; cases h),
   ⟨exL1, exL1_good.ok, List.take_prefix _ _⟩⟩
example : handleIndex ([⟨[exL1], [], true⟩, ⟨[exL2], exL1.take 5, false⟩, ⟨[exL1], [], true⟩].map VolRun.out)
    = exL1 ++ [10] ++ exL2 ++ [10] ++ exL1.take 5 := by decide +kernel

/-- **The producer's exact line format, for all n.** keepstore's `IndexTo` writes one line
`<hash>+<size> <mtime>` per block (`fmt.Fprint(w, name, "+", size, " ", mtime.UnixNano(), "\n")`). For
every list of blocks — any hash of 1..64 hex digits, any size and any mtime in int64 range, the decimal
numerals of any length — the complete response is accepted by `KeepService.index` with exactly the
entries `(<hash>+<size>, mtime)` (legacy-seconds fix applied), and every proper prefix of it is
rejected by both readers. This discharges the `AllGood` hypothesis of `C06_index_truncation` for
everything the producer can write (decimal round trip `parseInt64 (decimal n) = n`). -/
theorem C06_index_producer_format (bs : List (List Nat × Nat × Nat))
    (h : ∀ b ∈ bs, b.1 ≠ [] ∧ (∀ x : Nat, x ∈ b.1 → isHex x) ∧ b.1.length ≤ 64 ∧ b.2.1 < 2 ^ 63 ∧ b.2.2 < 2 ^ 63) :
    ksIndex (render (bs.map (fun b => producerLine b.1 b.2.1 b.2.2))) =
      .ok (bs.map (fun b => ⟨b.1 ++ 43 :: decimal b.2.1, fixMtime (b.2.2 : Int)⟩)) ∧
    (∀ P, P <+: render (bs.map (fun b => producerLine b.1 b.2.1 b.2.2)) →
      P ≠ render (bs.map (fun b => producerLine b.1 b.2.1 b.2.2)) →
      (∃ e, ksIndex P = .error e) ∧ getIndex P = .error .incomplete) := by
  have hg := producer_allGood bs h
  have hok : ∀ l ∈ bs.map (fun b => producerLine b.1 b.2.1 b.2.2), LineOK l := by
    intro l hl
    simp only [List.mem_map] at hl
    obtain ⟨b, hb, rfl⟩ := hl
    obtain ⟨h1, h2, h3, h4, h5⟩ := h b hb
    exact (producerLine_good b.1 b.2.1 b.2.2 h1 h2 h3 h4 h5).ok
  exact ⟨ksIndex_accepts _ _ hg,
    fun P hp hne => ⟨ksIndex_rejects_prefix _ hok P hp hne, getIndex_rejects_prefix _ hok P hp hne⟩⟩

/-- the decimal round trip itself, for every n in int64 range (`strconv.ParseInt` of what `fmt` prints) -/
theorem C06_index_decimal_roundtrip (n : Nat) (h : n < 2 ^ 63) : parseInt64 (decimal n) = some (n : Int) :=
  parseInt64_decimal n h

/-- a block with a 32-digit hash, size 67108864 and a nanosecond mtime; one with a legacy seconds mtime -/
example : producerLine [100, 52, 49, 100] 67108864 1600000000000000000 =
    [100, 52, 49, 100, 43, 54, 55, 49, 48, 56, 56, 54, 52, 32,
     49, 54, 48, 48, 48, 48, 48, 48, 48, 48, 48, 48, 48, 48, 48, 48, 48, 48, 48] := by decide +kernel
example : ksIndex (render ([([100, 52, 49, 100], 67108864, 1600000000000000000), ([97, 48], 0, 12345678)].map
      (fun b => producerLine b.1 b.2.1 b.2.2))) =
    .ok ([([100, 52, 49, 100], 67108864, 1600000000000000000), ([97, 48], 0, 12345678)].map
      (fun b => (⟨b.1 ++ 43 :: decimal b.2.1, fixMtime (b.2.2 : Int)⟩ : Entry))) :=
  (C06_index_producer_format [([100, 52, 49, 100], 67108864, 1600000000000000000), ([97, 48], 0, 12345678)]
    (by intro b hb; simp at hb; rcases hb with rfl | rfl <;>
        refine ⟨by simp, ?_, by simp, by simp, by simp⟩ <;> intro x hx <;> simp at hx <;>
        unfold isHex <;> omega)).1
/-- … i.e. `d41d+67108864` with the nanosecond mtime, `a0+0` with the seconds mtime × 10⁹ -/
example : ([100, 52, 49, 100] ++ 43 :: decimal 67108864, fixMtime 1600000000000000000, fixMtime 12345678) =
    ([100, 52, 49, 100, 43, 54, 55, 49, 48, 56, 56, 54, 52], 1600000000000000000, 12345678000000000) := by
  decide +kernel

/-! ## (c) sweep abort -/

/-- `Balancer.Run` (its guard list `runSteps`, tied to the source by Tie.C06.tie_run_steps): under
every choice of which conditional steps are reached (`runs`) and which calls fail (`fails`), after
a call that failed no `CommitPulls`/`CommitTrash` call is made, and `Run` returns an error. In
particular a failure of `GetCurrentState` (any index fetch, any collection page) or of
`CheckSanityLate` yields no commit, and a `CommitPulls` failure yields no `CommitTrash`. -/
theorem C06_no_commit_after_error (runs fails : Nat → Bool) (pre : List (Str × Bool)) (n : Str)
    (post : List (Str × Bool))
    (h : (exec runs fails runSteps 0 false).calls = pre ++ (n, true) :: post) :
    (∀ c ∈ post, isCommit c.1 = false) ∧ (exec runs fails runSteps 0 false).err = true :=
  ⟨no_commit_after_failure runs fails runSteps (by decide +kernel) 0 false pre n post h,
   error_returned runs fails runSteps (by decide +kernel) 0 false n (by rw [h]; simp)⟩

/-- Ordering: the calls of `Run` are made in the order of the guard list, whatever is reached and
whatever fails; in particular `ClearTrashLists` (which empties the previous run's trash lists)
comes before `GetCurrentState`, which comes before `CommitPulls`, which comes before `CommitTrash`. -/
theorem C06_run_call_order (runs fails : Nat → Bool) :
    ((exec runs fails runSteps 0 false).calls.map (·.1)).Sublist (runSteps.map (·.name)) ∧
    stepIndex runSteps "bal.ClearTrashLists".toList = some 13 ∧
    stepIndex runSteps "bal.GetCurrentState".toList = some 14 ∧
    stepIndex runSteps "bal.CheckSanityLate".toList = some 17 ∧
    stepIndex runSteps "bal.CommitPulls".toList = some 20 ∧
    stepIndex runSteps "bal.CommitTrash".toList = some 21 ∧
    (["bal.ClearTrashLists", "bal.GetCurrentState", "bal.CheckSanityLate", "bal.CommitPulls", "bal.CommitTrash"].all
      (fun n => (runSteps.map (·.name)).count n.toList == 1)) = true :=
  ⟨exec_calls_sublist runs fails runSteps 0 false, by decide +kernel, by decide +kernel, by decide +kernel,
   by decide +kernel, by decide +kernel, by decide +kernel⟩

/-- The same for any guard list that passes the decidable check `wellGuarded` (the lifting lemma). -/
theorem C06_no_commit_after_error_any (steps : List Step) (hw : wellGuarded steps = true)
    (runs fails : Nat → Bool) (i : Nat) (err : Bool) (pre : List (Str × Bool)) (n : Str)
    (post : List (Str × Bool)) (h : (exec runs fails steps i err).calls = pre ++ (n, true) :: post) :
    (∀ c ∈ post, isCommit c.1 = false) ∧ (exec runs fails steps i err).err = true :=
  ⟨no_commit_after_failure runs fails steps hw i err pre n post h,
   error_returned runs fails steps hw i err n (by rw [h]; simp)⟩

/-- The guard list is what the skeleton of `Run` yields, and it passes the check; a list in which
`GetCurrentState`'s guard is missing does not. -/
theorem C06_run_guard_list : stepsOf runSkeleton = runSteps ∧ wellGuarded runSteps = true := by
  decide +kernel

section examples_c
/-- all conditional steps reached; the call number 14 (`bal.GetCurrentState`) fails -/
example : (exec (fun _ => true) (fun i => i == 14) runSteps 0 false).calls.getLast? =
    some ("bal.GetCurrentState".toList, true) := by decide +kernel
example : (exec (fun _ => true) (fun i => i == 14) runSteps 0 false).err = true := by decide +kernel
/-- without a failure both commit calls are made, so "no commit" above is not vacuous -/
example : ((exec (fun _ => true) (fun _ => false) runSteps 0 false).calls.filter (fun c => isCommit c.1)).length = 2 ∧
    (exec (fun _ => true) (fun _ => false) runSteps 0 false).err = false := by decide +kernel
/-- a `CommitPulls` failure: no `CommitTrash` -/
example : ((exec (fun _ => true) (fun i => i == 20) runSteps 0 false).calls.map (·.1)).getLast? =
    some "bal.CommitPulls".toList := by decide +kernel
/-- dropping the guard after `GetCurrentState` is detected by the check -/
example : wellGuarded (runSteps.map (fun st =>
    if st.name = "bal.GetCurrentState".toList then { st with guarded := false } else st)) = false := by
  decide +kernel
end examples_c

/-- `GetCurrentState` fails as soon as the discovery document, any index fetch, the collection scan
or the collection processor fails (model of the `errs` channel protocol; see Tie.C06
tie_getCurrentState_skeleton and the fault-injection runs). -/
theorem C06_getCurrentState_error (dd : Bool) (idx : List Bool) (scanF procF : Bool) :
    (dd = true ∨ (∃ b ∈ idx, b = true) ∨ scanF = true ∨ procF = true) ↔
      getCurrentStateFails dd idx scanF procF = true := by
  unfold getCurrentStateFails
  simp only [Bool.or_eq_true, List.any_eq_true, id]
  constructor
  · rintro (h | ⟨b, hb, hbt⟩ | h | h)
    · exact Or.inl (Or.inl (Or.inl h))
    · exact Or.inl (Or.inl (Or.inr ⟨b, hb, hbt⟩))
    · exact Or.inl (Or.inr h)
    · exact Or.inr h
  · rintro (((h | ⟨b, hb, hbt⟩) | h) | h)
    · exact Or.inl h
    · exact Or.inr (Or.inl ⟨b, hb, hbt⟩)
    · exact Or.inr (Or.inr (Or.inl h))
    · exact Or.inr (Or.inr (Or.inr h))

/-! ### GetCurrentState as a small-step system (Model/C06_GCS.lean) -/

/-- For every number of index workers, every `collQ` capacity and **every interleaving** of the
goroutines' statements (every reachable state of the small-step system, with `IndexMount`,
`addCollection` and the page requests failing whenever the environment chooses): when all
goroutines have ended, `GetCurrentState` returns a non-nil error iff some index fetch, some
`addCollection` or the collection scan failed — and the `errs` channel never holds a nil error,
so the first reported error is what is returned. -/
theorem C06_gcs_first_error (n cap : Nat) (g : GCS.G) (r : GCS.Reach n cap g) (ht : GCS.Terminal g) :
    (GCS.resultIsError g = true ↔ GCS.Failed g) ∧ g.sh.errs ≠ some false :=
  GCS.result_iff_failed r ht

/-- … and when it returns nil the view is complete: every index worker fetched its index and reached
`AddReplicas`, the scanner closed the queue, and every collection it delivered was added by
`addCollection` (none dropped, none left in the queue). Together with `C06_paging_complete` and
`C06_index_truncation` this is the "complete view" that `Run` commits on. -/
theorem C06_gcs_nil_is_complete (n cap : Nat) (g : GCS.G) (r : GCS.Reach n cap g) (ht : GCS.Terminal g)
    (hnil : g.sh.errs = none) :
    (∀ l ∈ g.ws, l.flag = false ∧ l.added = true) ∧
    g.sh.added = g.sh.delivered ∧ g.sh.dropped = 0 ∧ g.sh.q = 0 ∧ g.sh.closed = true :=
  ⟨GCS.nil_result_workers_added r ht hnil, GCS.nil_result_all_added r ht hnil⟩

/-- **Deadlock-freedom.** For every number of index workers, every `collQ` capacity ≥ 1 and every
interleaving: in a reachable state in which some goroutine has not yet ended, some goroutine can take
a step — `wg.Wait()` never waits on goroutines that all block (the processor's receive/drain on an
empty open `collQ`, the scanner's send on a full one). With `C06_paging_progress` (the scanner's
`EachCollection` ends) every run of `GetCurrentState` therefore reaches its terminal state. -/
theorem C06_gcs_no_deadlock (n cap : Nat) (hc : 1 ≤ cap) (g : GCS.G) (r : GCS.Reach n cap g)
    (hnt : ¬ GCS.Terminal g) : ∃ g', GCS.Step g g' :=
  GCS.no_deadlock hc r hnt

/-- **Soundness of the trace acceptor** the correspondence check runs on every observed execution of
the real `GetCurrentState` (`gcsacc`): whenever it accepts an observation — per-goroutine statement
paths of `wpaths.length` index workers, the processor and the scanner, queue capacity `cap`, result
`res` — the small-step system has an interleaving (a `Reach`able state) in which every goroutine has
ended with that result; so by `C06_gcs_first_error` the observed result is an error iff something
failed in that execution, and `errs` holds no nil. The search's partial-order reduction and visited
set can only make it accept less. -/
theorem C06_gcs_acceptor_sound (buckets cap : Nat) (wpaths : List (List Nat)) (ppath spath : List Nat)
    (res : Bool) (fuel : Nat) (h : GCS.acceptsWith buckets cap wpaths ppath spath res fuel = some true) :
    ∃ g, GCS.Reach wpaths.length cap g ∧ GCS.Terminal g ∧ GCS.resultIsError g = res ∧
      (res = true ↔ GCS.Failed g) ∧ g.sh.errs ≠ some false := by
  obtain ⟨g, hr, ht, hres, hn⟩ := GCS.acceptsWith_sound buckets cap wpaths ppath spath res fuel h
  exact ⟨g, hr, ht, hres, by rw [← hres]; exact (GCS.result_iff_failed hr ht).1, hn⟩

/-- the deployed instance: `accepts` = `acceptsWith 8192` (size of the visited table) -/
theorem C06_gcs_acceptor_sound_deployed : ∀ cap wpaths ppath spath res fuel,
    GCS.accepts cap wpaths ppath spath res fuel = GCS.acceptsWith 8192 cap wpaths ppath spath res fuel :=
  fun _ _ _ _ _ _ => rfl

section examples_gcs
open GCS
/-- one index worker whose request fails, while one collection is delivered and added -/
def exScriptFail : List Move :=
  [.s 0, .s 1, .s 0, .s 0, .p 0, .p 0, .p 0,          -- scanner delivers a collection, processor adds it
   .w 0 0, .w 0 0, .w 0 1, .w 0 0, .w 0 0,            -- IndexMount fails; error sent
   .p 0,                                              -- processor notices len(errs) > 0
   .w 0 0, .w 0 0,                                    -- cancel; return
   .p 0, .s 2, .s 0, .s 0, .p 0, .p 0, .p 0]          -- processor drains after the scanner closes collQ
/-- no failure: two workers, one collection -/
def exScriptOk : List Move :=
  [.w 0 0, .w 0 0, .w 0 0, .w 0 0, .w 0 0, .w 0 0, .w 0 0, .w 0 0, .w 0 1, .w 0 0,
   .w 1 0, .w 1 0, .w 1 0, .w 1 0, .w 1 0, .w 1 0, .w 1 0, .w 1 0, .w 1 1, .w 1 0,
   .s 0, .s 1, .s 0, .s 0, .p 0, .p 0, .p 0, .p 0, .s 2, .s 0, .s 0, .p 0]

/-- both scripts are executions of the system (so their end states are reachable) … -/
example : ∀ g, moves (GCS.init 1 4) exScriptFail = some g → GCS.Reach 1 4 g :=
  fun g h => moves_reach _ _ g .start h
example : ∀ g, moves (GCS.init 2 4) exScriptOk = some g → GCS.Reach 2 4 g :=
  fun g h => moves_reach _ _ g .start h
/-- … ending with every goroutine finished: (terminal, result is an error, worker failed, delivered, added) -/
example : (moves (GCS.init 1 4) exScriptFail).map
    (fun g => (terminalB g, resultIsError g, g.ws.map (·.flag), g.sh.delivered, g.sh.added)) =
    some (true, true, [true], 1, 1) := by decide +kernel
example : (moves (GCS.init 2 4) exScriptOk).map
    (fun g => (terminalB g, g.sh.errs, g.ws.map (·.added), g.sh.delivered, g.sh.added)) =
    some (true, none, [true, true], 1, 1) := by decide +kernel
/-- the start state is not terminal, and neither is the state in which the scanner waits on a full
queue of capacity 1 while the processor has not started: both have a successor -/
example : ∃ g', GCS.Step (GCS.init 2 1) g' :=
  C06_gcs_no_deadlock 2 1 (by decide) _ .start (by simp [Terminal, GCS.init, initLoc])
example : (moves (GCS.init 0 1) [.s 0, .s 1, .s 0, .s 0, .s 1]).map (fun g => (g.s.pc, g.sh.q, g.sh.cap, g.p.pc)) =
    some (3, 1, 1, 1) := by decide +kernel
/-- the observation of `exScriptFail` (visited table of size 0, which the kernel evaluates quickly; worker path through the error branch, processor draining,
scanner closing the queue; result = error) is accepted; a nil result for the same paths is not -/
example : acceptsWith 0 4 [[1, 2, 3, 4, 5, 6, 7, 0]] [1, 2, 3, 4, 5, 6, 7, 8, 0] [1, 2, 3, 4, 6, 8, 9, 0] true 2000 =
    some true := by decide +kernel
example : acceptsWith 0 4 [[1, 2, 3, 4, 5, 6, 7, 0]] [1, 2, 3, 4, 5, 6, 7, 8, 0] [1, 2, 3, 4, 6, 8, 9, 0] false 2000 =
    some false := by decide +kernel
end examples_gcs

/-- `CheckSanityLate` refuses a sweep whose collection scan delivered nothing. -/
theorem C06_sanity_late_refuses_empty_scan (deferred anyDesired : Bool) (repl : Int) :
    checkSanityLateFails deferred 0 anyDesired repl = true := by
  unfold checkSanityLateFails; simp

example : checkSanityLateFails false 3 true 2 = false := by decide

end ArvVerif.C06
