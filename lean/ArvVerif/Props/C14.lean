/-
C14 — the dispatcher never runs a container twice at once or without holding its lock.
Layer L1: property theorems about one scheduler pass (`runQueue`, `sync`) and the per-container
operation latch. Every theorem is for any number of queue entries, any priority order the
unstable sort may produce, any `Running()`/`Unallocated()` snapshot and any answers of the pool.
(L2: Props/C14_L2.lean, L3: Props/C14_L3.lean.)
-/
import ArvVerif.Proofs.C14_L1
namespace ArvVerif.C14

/-- `StartContainer(t, u)` occurs in a pass only if the queue snapshot has `u` Locked with
priority ≥ 1 and instance type `t`, `u` is not in the `Running()` snapshot, and the call made
directly before it is `KillContainer(u)` answering false (no lingering runner). -/
theorem C14_start_only_locked (entries sorted : List Ent) (hord : IsPriorityOrder entries sorted)
    (running : Uuid → Bool) (un : Unalloc) (script : List Bool) (t : IType) (u : Uuid) (a : Bool)
    (h : Call.start t u a ∈ runQueue sorted running un script) :
    (∃ e ∈ entries, e.uuid = u ∧ e.itype = t ∧ e.state = .locked ∧ 1 ≤ e.prio ∧ running u = false) ∧
    ∃ pre post, runQueue sorted running un script = pre ++ [.kill u false, .start t u a] ++ post := by
  have hl := runQueue_start_in_loop h
  obtain ⟨e, he, un', dont', script', pre, post, heq, hc⟩ := tryrun_decomp _ _ _ _ hl
  obtain ⟨h1, h2, h3, h4, h5, p, hp⟩ := iter_start hc
  refine ⟨⟨e, hord.perm.mem_iff.mp he, h1, h2, h3, h4, h1 ▸ h5⟩, pre ++ p,
    post ++ (overquotaUnlocks (tryrun running sorted un [] script).overquota
      ++ (shutdownTypes (tryrun running sorted un [] script)).map .shutdown), ?_⟩
  unfold runQueue
  dsimp only
  rw [heq, hp]
  simp only [List.append_assoc]

/-- Non-vacuity: a pass that starts a container. -/
example : Call.start 1 7 true ∈ runQueue [⟨7, .locked, 5, 1⟩] (fun _ => false) [(1, 1)] [false, true] := by
  decide

/-- `go lockContainer(u)` is issued only for a Queued entry with priority ≥ 1 that is not in the
`Running()` snapshot, directly after `KillContainer(u)` answered false. -/
theorem C14_lock_only_queued (entries sorted : List Ent) (hord : IsPriorityOrder entries sorted)
    (running : Uuid → Bool) (un : Unalloc) (script : List Bool) (u : Uuid)
    (h : Call.goLock u ∈ runQueue sorted running un script) :
    (∃ e ∈ entries, e.uuid = u ∧ e.state = .queued ∧ 1 ≤ e.prio ∧ running u = false) ∧
    ∃ pre post, runQueue sorted running un script = pre ++ [.kill u false, .goLock u] ++ post := by
  have hl := runQueue_goLock_in_loop h
  obtain ⟨e, he, un', dont', script', pre, post, heq, hc⟩ := tryrun_decomp _ _ _ _ hl
  obtain ⟨h1, h2, h3, h4, p, hp⟩ := iter_goLock hc
  refine ⟨⟨e, hord.perm.mem_iff.mp he, h1, h2, h3, h1 ▸ h4⟩, pre ++ p,
    post ++ (overquotaUnlocks (tryrun running sorted un [] script).overquota
      ++ (shutdownTypes (tryrun running sorted un [] script)).map .shutdown), ?_⟩
  unfold runQueue
  dsimp only
  rw [heq, hp]
  simp only [List.append_assoc]

example : Call.goLock 7 ∈ runQueue [⟨7, .queued, 5, 1⟩] (fun _ => false) [(1, 1)] [false] := by
  decide

/-- The spawned goroutine calls `queue.Lock(u)` only if it obtained the latch and the queue still
reports `u` as Queued; a goroutine that finds the latch taken makes no call at all, whatever its
operation; only `lockContainer` ever calls `queue.Lock`. -/
theorem C14_lock_effect (latchHeld : Bool) (stateNow : Option CState) (op : Op) (u v : Uuid) :
    (Effect.queueLock v ∈ asyncEffect latchHeld stateNow op u ↔
      latchHeld = false ∧ stateNow = some .queued ∧ op = .lock ∧ v = u) ∧
    (latchHeld = true → asyncEffect latchHeld stateNow op u = []) := by
  constructor
  · unfold asyncEffect
    cases latchHeld <;> cases op <;> simp
    · constructor
      · intro h
        split at h <;> simp_all
      · rintro ⟨h1, h2⟩; simp [h1, h2]
    all_goals (intro h; cases h)
  · intro h; simp [asyncEffect, h]

example : Effect.queueLock 3 ∈ asyncEffect false (some .queued) .lock 3 := by decide

/-- The executable order is one of the orders the unstable sort may produce. -/
theorem C14_exec_order_allowed (entries : List Ent) : IsPriorityOrder entries (priorityOrder entries) := by
  refine ⟨List.mergeSort_perm _ _, ?_⟩
  have := List.pairwise_mergeSort (le := fun a b : Ent => decide (b.prio ≤ a.prio))
    (fun a b c hab hbc => by simp only [decide_eq_true_eq] at *; omega)
    (fun a b => by simp only [Bool.or_eq_true, decide_eq_true_eq]; omega) entries
  exact this.imp (by intro a b h; simpa using h)

/-- **Latch.** Under any interleaving of any number of lock/cancel/kill/requeue goroutines, at
most one operation per container is in flight at any time, and the latch is held exactly while
one is. -/
theorem C14_latch (s : LSys) (h : LReach s) (u : Uuid) :
    inFlight s u ≤ 1 ∧ (inFlight s u = 1 ↔ s.latch.held u = true) := by
  have := LInv_reach h u
  split at this <;> simp_all

/-- Non-vacuity: a reachable state with an operation in flight, and a second goroutine for the
same container being refused. -/
example : LReach ⟨[(3, .lock)], [⟨3, .kill, .done⟩, ⟨3, .lock, .holding⟩]⟩ := by
  have h0 := LReach.init
  have h1 := LReach.step h0 (LStep.spawn _ 3 .lock)
  have h2 := LReach.step h1 (LStep.spawn _ 3 .kill)
  have h3 := LReach.step h2 (LStep.acquire [] [⟨3, .kill, .pending⟩] [] 3 .lock rfl)
  exact LReach.step h3 (LStep.refuse [(3, .lock)] [] [⟨3, .lock, .holding⟩] 3 .kill rfl)

/-! ### the sync table -/

/-- What `Running()` says about a container relative to the last queue update. -/
inductive ProcView where
  | absent        -- not a key of Running()
  | live          -- key with zero time: process not known to have exited
  | exitedOld     -- exited strictly before the queue was last updated
  | exitedRecent  -- exited, but the queue has not been updated since
deriving DecidableEq, Repr

def procView (rv : RunView) (qUpdated : Nat) : ProcView :=
  match rv with
  | none => .absent
  | some none => .live
  | some (some t) => if t < qUpdated then .exitedOld else .exitedRecent

inductive SyncKind where
  | nothing | cancel | kill | requeue | forget
deriving DecidableEq, Repr

def SyncAct.kind : SyncAct → SyncKind
  | .goCancel _ => .cancel | .goKill _ => .kill | .goRequeue _ => .requeue | .forget _ => .forget

def SyncAct.uuid : SyncAct → Uuid
  | .goCancel u => u | .goKill u => u | .goRequeue u => u | .forget u => u

/-- The decision table of `sync` as the property states it. -/
def syncTable (st : CState) (pv : ProcView) (prio0 anyUnknown : Bool) : SyncKind :=
  match st, pv with
  -- Running in the API
  | .running, .absent => if anyUnknown then .nothing else .cancel
  | .running, .exitedOld => .cancel
  | .running, .live => if prio0 then .kill else .nothing
  | .running, .exitedRecent => if prio0 then .kill else .nothing
  -- finished: kill what lingers, otherwise drop from the queue
  | .complete, .absent => .forget
  | .complete, _ => .kill
  | .cancelled, .absent => .forget
  | .cancelled, _ => .kill
  -- unlocked / re-queued / on hold
  | .queued, .absent => if prio0 then .forget else .nothing
  | .queued, _ => .kill
  -- Locked
  | .locked, .exitedOld => .requeue
  | .locked, .live => if prio0 then .kill else .nothing
  | .locked, .absent => if prio0 then .requeue else .nothing
  | .locked, .exitedRecent => .nothing
  | .other, _ => .nothing

/-- `sync` acts on every queue entry exactly as the table says, and the action is about that
entry's container. In particular it never starts or locks anything (no such action exists),
a finished, re-queued or on-hold container with a process gets `kill`, and `cancel` is issued
for a Running container without a process only when no worker is in state Unknown. -/
theorem C14_sync_table (anyUnknown : Bool) (qUpdated : Nat) (rv : RunView) (e : Ent) :
    ((syncEntry anyUnknown qUpdated rv e).map SyncAct.kind).getD .nothing
        = syncTable e.state (procView rv qUpdated) (decide (e.prio = 0)) anyUnknown ∧
    ∀ a, syncEntry anyUnknown qUpdated rv e = some a → a.uuid = e.uuid := by
  rcases e with ⟨u, st, prio, ty⟩
  constructor
  · cases st <;> rcases rv with _ | _ | t <;> cases anyUnknown <;>
      by_cases hp : prio = 0 <;>
      simp [syncEntry, syncTable, procView, exitedBefore, SyncAct.kind, hp] <;>
      (try (by_cases ht : t < qUpdated <;> simp [ht, SyncAct.kind]))
  · intro a h
    unfold syncEntry at h
    dsimp only at h
    repeat' split at h
    all_goals first | (cases h; rfl) | (simp at h)

/-- A process of a container that is not in the queue at all is killed. -/
theorem C14_sync_stray (anyUnknown : Bool) (qUpdated : Nat) (entries : List Ent) (runKeys : List Uuid)
    (rv : Uuid → RunView) (u : Uuid) (hu : u ∈ runKeys) (hq : ∀ e ∈ entries, e.uuid ≠ u) :
    SyncAct.goKill u ∈ syncPass anyUnknown qUpdated entries runKeys rv := by
  unfold syncPass
  refine List.mem_append_right _ (List.mem_map.mpr ⟨u, List.mem_filter.mpr ⟨hu, ?_⟩, rfl⟩)
  simp only [Bool.not_eq_eq_eq_not, Bool.not_true, List.any_eq_false, beq_iff_eq]
  exact fun e he => hq e he

example : syncEntry false 5 (some (some 3)) ⟨1, .locked, 1, 1⟩ = some (.goRequeue 1) := by decide
example : syncEntry false 5 (some none) ⟨1, .cancelled, 1, 1⟩ = some (.goKill 1) := by decide
example : syncEntry true 5 none ⟨1, .running, 1, 1⟩ = none := by decide

/-! ### fixStaleLocks -/

/-- `fixStaleLocks` unlocks only containers that are Locked in the queue and not reported by
`Running()`, and only if some worker is in state Unknown; … -/
theorem C14_fixStale_unlocks_only_stale (anyUnknown : Bool) (entries : List Ent) (running : Uuid → Bool)
    (u : Uuid) (h : u ∈ fixStaleLocks anyUnknown entries running) :
    anyUnknown = true ∧ ∃ e ∈ entries, e.uuid = u ∧ e.state = .locked ∧ running u = false := by
  unfold fixStaleLocks at h
  split at h
  · rename_i ha
    simp only [staleLocks, List.mem_map, List.mem_filter, Bool.and_eq_true, beq_iff_eq,
      Bool.not_eq_eq_eq_not, Bool.not_true] at h
    obtain ⟨e, ⟨he, hl, hr⟩, rfl⟩ := h
    exact ⟨ha, e, he, rfl, hl, hr⟩
  · cases h

/-- … it does not look at containers in any other state: when no *Locked* container is missing
from `Running()` it returns at once, however many workers are still Unknown. (This is one of the
ways assumption A1 can fail, see F11.) -/
theorem C14_fixStale_ignores_unlocked (anyUnknown : Bool) (entries : List Ent) (running : Uuid → Bool)
    (h : ∀ e ∈ entries, e.state = .locked → running e.uuid = true) :
    fixStaleLocks anyUnknown entries running = [] := by
  unfold fixStaleLocks staleLocks
  split
  · simp only [List.map_eq_nil_iff, List.filter_eq_nil_iff, Bool.and_eq_true, beq_iff_eq,
      Bool.not_eq_eq_eq_not, Bool.not_true, not_and, Bool.not_eq_false]
    exact fun e he hl => h e he hl
  · rfl

example : fixStaleLocks true [⟨1, .locked, 5, 1⟩, ⟨2, .queued, 5, 1⟩] (fun _ => false) = [1] := by decide

end ArvVerif.C14
