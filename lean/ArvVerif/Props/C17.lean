/-
C17 — a container's saved output is exactly what it left in its output directory.
Property theorems about the model of `lib/crunchrun/copier.go` (Model/C17.lean). Proofs of the
lemmas are in Proofs/C17_*.lean.

Vocabulary (all defined in the model / proof files):
 * `scan h cfg fuel`  — the plan (`cp.dirs`, `cp.files`, `cp.manifest`) or the error of `walkMount("", outputPath, …)`;
   `copy` = `scan` followed by `runPlan` (`Mkdir`, `copyFile`, `MarshalManifest`).
 * `Shows h cfg d s`  — the specification: the output path `d` shows the container path `s`
   (root; entries of real directories that are not secret mounts / mount points; link targets that
   land inside the output directory's mount).
 * `Direct h cfg`     — every link that is taken into the output directory has a *canonical* target:
   absolute targets are path-cleaned and no target passes through a symlinked directory. Then the
   copier's textual path arithmetic agrees with what the host filesystem resolves (`namei`).
   Without it the statements are false of the current code: findings F17a / F17b.
 * `Visible h cfg src p rel node` — `rel` leads from the directory `p` through real directories that
   are neither secret mounts nor mount points to the entry `node`.
 * `FragsCompat fs` — no two items of manifest text contradict each other (a file's path is a prefix
   of another item's path only if that item is the same file named again); `Site h cfg D y` — the
   places where the specification has a mounted collection extracted; `SpecCompat` — the items the
   specification names are pairwise compatible; `CollsWF`, `SitesApart` — every mounted collection
   is a tree, and contributing sites do not overlap (Proofs/C17_Load.lean, C17_Sites.lean).
-/
import ArvVerif.Proofs.C17_Nested
set_option linter.unusedSimpArgs false
namespace ArvVerif.C17

/-! ## never non-termination -/

theorem runPlan_total (h : Host) (p : Plan) : runPlan h p ≠ .fuel ∧ runPlan h p ≠ .unmodelled := by
  unfold runPlan
  constructor
  · split
    · simp
    · split
      · simp
      · split <;> simp
  · split
    · simp
    · split
      · simp
      · split <;> simp

/-- **termination**, at full strength: for every well-formed host tree and every configuration the
driver runs (`runnable`: the only `tmp` mount is the output directory, no writable collection
mount — wherever the collections are mounted, above the output path included), `Copy` ends — with a
collection or an error — within an explicit number of nested calls, however the links are
arranged (cycles included). (Before fix f009595 this was false for a collection mounted above the
output path: finding F17c.) -/
theorem C17_terminates (h : Host) (cfg : Cfg) (wf : HostWF h) (hs : runnable cfg = true)
    (fuel : Nat) (hf : fuelBound h cfg ≤ fuel) :
    (∃ t, copy h cfg fuel = .ok t) ∨ (∃ e, copy h cfg fuel = .err e) := by
  have h1 := scan_ne_fuel h cfg wf fuel hf
  have h2 : scan h cfg fuel ≠ .unmodelled := walk_ne_unmodelled h cfg hs _ _ _
  unfold copy
  cases hsc : scan h cfg fuel with
  | fuel => exact absurd hsc h1
  | unmodelled => exact absurd hsc h2
  | err e => exact Or.inr ⟨e, rfl⟩
  | ok p =>
    simp only [Res.bind]
    cases hr : runPlan h p with
    | fuel => exact absurd hr (runPlan_total h p).1
    | unmodelled => exact absurd hr (runPlan_total h p).2
    | err e => exact Or.inr ⟨e, rfl⟩
    | ok t => exact Or.inl ⟨t, rfl⟩

/-- the walk itself never runs out of fuel, whatever the configuration -/
theorem C17_terminates_walk (h : Host) (cfg : Cfg) (wf : HostWF h) (fuel : Nat) (hf : fuelBound h cfg ≤ fuel) :
    scan h cfg fuel ≠ .fuel := scan_ne_fuel h cfg wf fuel hf

theorem copy_err_of_scan_not_ok (h : Host) (cfg : Cfg) (wf : HostWF h) (hs : supported cfg = true)
    (fuel : Nat) (hf : fuelBound h cfg ≤ fuel) (hno : ∀ plan, scan h cfg fuel ≠ .ok plan) :
    ∃ e, copy h cfg fuel = .err e := by
  have h1 := scan_ne_fuel h cfg wf fuel hf
  have h2 : scan h cfg fuel ≠ .unmodelled := walk_ne_unmodelled h cfg (runnable_of_supported cfg hs) _ _ _
  unfold copy
  cases hsc : scan h cfg fuel with
  | fuel => exact absurd hsc h1
  | unmodelled => exact absurd hsc h2
  | err e => exact ⟨e, rfl⟩
  | ok p => exact absurd hsc (hno p)

/-! ### the former finding F17c (fixed by f009595) -/

/-- a read-only collection mounted at `/c`, the output directory at `/c/out`, and `l -> ..` -/
def wH3 : Host := [(["o"], .dir), (["o", "l"], .link false [".."])]
def wC3 : Cfg := { ctrOut := ["c", "out"], hostOut := ["o"],
                   mounts := [(["c"], { kind := "collection", coll := some [] }), (["c", "out"], { kind := "tmp" })],
                   secrets := [] }

theorem w3_n0 : namei wH3 [] ["o"] 0 = .found ["o"] .dir := by simp [namei, wH3, Host.get]
theorem w3_n1 : namei wH3 [] ["o", "l"] 0 = .found ["o", "l"] (.link false [".."]) := by
  simp [namei, wH3, Host.get]
theorem w3_c : wH3.children ["o"] = ["l"] := by decide
theorem w3_s : sortNames ["l"] = ["l"] := by decide

/-- the cycle through the collection above the output path now ends with "too many symlinks":
every re-entry of the output directory costs a follow (before the fix: `∀ fuel, scan … = .fuel`) -/
theorem w3_fails : scan wH3 wC3 (fuelBound wH3 wC3) = .err .symlinks := by
  have hb : fuelBound wH3 wC3 = 220 := by decide
  rw [hb]
  simp [scan, walk, wC3, srcMount, underSecret, rootLen, Res.bind, w3_n0, w3_n1, w3_c, w3_s, skipMount, Cfg.mount,
    copyRegular, Plan.addDir, Plan.addKeep, Plan.addFile, Plan.addFrags, cleanAbs, cleanAbsStep, extract,
    cleanRel, belowMaxSymlinks, limitFollowSymlinks]

example : runnable wC3 = true ∧ supported wC3 = false := by decide

/-! ## special files -/

/-- **special files**: a device, FIFO or socket that is visible below the output directory makes
`Copy` return an error. -/
theorem C17_special_files_fail (h : Host) (cfg : Cfg) (wf : HostWF h) (hs : supported cfg = true)
    (hx : InOut cfg cfg.ctrOut) (hreal : OutDirReal h cfg) (rel : Path) (hne : rel ≠ [])
    (hv : Visible h cfg cfg.ctrOut cfg.hostOut rel .special)
    (fuel : Nat) (hf : fuelBound h cfg ≤ fuel) : ∃ e, copy h cfg fuel = .err e :=
  copy_err_of_scan_not_ok h cfg wf hs fuel hf (special_fails h cfg wf hx hreal rel hne hv fuel)

/-! ## bad links -/

/-- **links that leave every mount**: a visible link whose target (as the copier computes it) lies
in no mount and under no secret mount makes `Copy` return an error — it is not skipped. -/
theorem C17_bad_links_fail (h : Host) (cfg : Cfg) (wf : HostWF h) (hs : supported cfg = true)
    (hx : InOut cfg cfg.ctrOut) (hreal : OutDirReal h cfg) (rel : Path) (hne : rel ≠ [])
    (abs : Bool) (t : Path) (hv : Visible h cfg cfg.ctrOut cfg.hostOut rel (.link abs t))
    (hout : Outside cfg (linkTarget (cfg.ctrOut ++ rel) abs t))
    (fuel : Nat) (hf : fuelBound h cfg ≤ fuel) : ∃ e, copy h cfg fuel = .err e :=
  copy_err_of_scan_not_ok h cfg wf hs fuel hf (link_outside_fails h cfg wf hx hreal rel hne abs t hv hout fuel)

/-- **cycles**: a visible link (at `out/rel0/rel`) that leads back to itself (`rel = []`) or to a
directory above it (`out/rel0`) makes `Copy` return an error: it is neither followed forever
(`C17_terminates`) nor dropped. -/
theorem C17_bad_links_fail_cycle (h : Host) (cfg : Cfg) (wf : HostWF h) (hs : supported cfg = true)
    (hx : InOut cfg cfg.ctrOut) (hreal : OutDirReal h cfg) (rel0 rel : Path) (abs : Bool) (t : Path)
    (hxin : InOut cfg (cfg.ctrOut ++ rel0))
    (h0 : rel0 = [] ∨ Visible h cfg cfg.ctrOut cfg.hostOut rel0 (if rel = [] then .link abs t else .dir))
    (hrel : rel = [] ∨ Visible h cfg (cfg.ctrOut ++ rel0) (cfg.hostOut ++ rel0) rel (.link abs t))
    (hnot : ¬ (rel0 = [] ∧ rel = []))
    (hback : linkTarget (cfg.ctrOut ++ rel0 ++ rel) abs t = cfg.ctrOut ++ rel0)
    (fuel : Nat) (hf : fuelBound h cfg ≤ fuel) : ∃ e, copy h cfg fuel = .err e :=
  copy_err_of_scan_not_ok h cfg wf hs fuel hf
    (cycle_fails h cfg wf hx hreal rel0 rel abs t hxin h0 hrel hnot hback fuel)

/-- a link met when no follow is left is an error (`errTooManySymlinks`): chains longer than
`limitFollowSymlinks + 1` cannot be followed -/
theorem C17_bad_links_fail_budget (h : Host) (cfg : Cfg) (dest src p : Path) (fuel : Nat) (inc : Bool)
    (st st' : Plan) (abs : Bool) (t : Path)
    (hd : namei h [] (hostPath cfg src) 0 = .found p (.link abs t)) :
    walk h cfg fuel (.host dest src 0 inc) st ≠ .ok st' := by
  intro hw
  cases fuel with
  | zero => rw [walk] at hw; cases hw
  | succ fuel =>
    rw [walk] at hw
    obtain ⟨a, _, hr⟩ := bind_eq_ok _ _ _ hw
    have hnm : namei h [] (cfg.hostOut ++ src.drop cfg.ctrOut.length) 0 = .found p (.link abs t) := hd
    rw [hnm] at hr
    simp at hr

/-! ## secrets -/

/-- the full statement: no file planned by a successful scan is read from (below) the host file of a
secret mount — for *every* host tree -/
def C17_secrets_absent_Full : Prop :=
  ∀ (h : Host) (cfg : Cfg) (fuel : Nat) (plan : Plan), HostWF h → CfgWF h cfg →
    h.get cfg.hostOut = some .dir → supported cfg = true → scan h cfg fuel = .ok plan →
    ∀ f ∈ plan.files, ∀ p, f.2 = some p → ¬ SecretHost cfg p

/-- **secrets** (partial): under `Direct` the statement holds. -/
theorem C17_secrets_absent_partial (h : Host) (cfg : Cfg) (hwf : HostWF h) (wf : CfgWF h cfg)
    (hout : h.get cfg.hostOut = some .dir) (hs : supported cfg = true) (hdirect : Direct h cfg)
    (fuel : Nat) (plan : Plan) (hscan : scan h cfg fuel = .ok plan) :
    ∀ f ∈ plan.files, ∀ p, f.2 = some p → ¬ SecretHost cfg p :=
  scan_no_secret h cfg hwf wf hout hs hdirect fuel plan hscan

/-- what the output path `d` shows never lies at or below a secret mount -/
theorem C17_secrets_absent_spec (h : Host) (cfg : Cfg) (wf : CfgWF h cfg) (d s : Path)
    (hsh : Shows h cfg d s) : ∀ x ∈ cfg.secrets, x.isPrefixOf s = false :=
  shows_noSecret h cfg wf d s hsh

/-! ### witnesses of the findings -/

/-- F17a: output dir with the secret mount `/out/s`, a directory `d` and `l -> /out/d/../s` -/
def wA : Host := [(["o"], .dir), (["o", "s"], .file [115]), (["o", "d"], .dir),
                  (["o", "l"], .link true ["out", "d", "..", "s"])]
/-- F17b: secret mount `/out/d/s`, `l1 -> d`, `l4 -> l1/s` -/
def wB : Host := [(["o"], .dir), (["o", "d"], .dir), (["o", "d", "s"], .file [115]),
                  (["o", "l1"], .link false ["d"]), (["o", "l4"], .link false ["l1", "s"])]
def wCfgA : Cfg := { ctrOut := ["out"], hostOut := ["o"], mounts := [(["out"], { kind := "tmp" })],
                     secrets := [["out", "s"]] }
def wCfgB : Cfg := { wCfgA with secrets := [["out", "d", "s"]] }

theorem wA_scan : scan wA wCfgA 50 =
    .ok { dirs := [["d"]], files := [(["d", ".keep"], none), (["l"], some ["o", "s"])], frags := [] } := by
  simp [scan, walk, namei, wA, wCfgA, Host.get, srcMount, underSecret, rootLen, limitFollowSymlinks, Res.bind,
    Host.children, sortNames, insertName, skipMount, Cfg.mount, copyRegular, Plan.addDir, Plan.addKeep, Plan.addFile]

theorem wB_n1 : namei wB [] ["o"] 0 = .found ["o"] .dir := by simp [namei, wB, Host.get]
theorem wB_n2 : namei wB [] ["o", "d"] 0 = .found ["o", "d"] .dir := by simp [namei, wB, Host.get]
theorem wB_n3 : namei wB [] ["o", "l1"] 0 = .found ["o", "l1"] (.link false ["d"]) := by
  simp [namei, wB, Host.get]
theorem wB_n4 : namei wB [] ["o", "l4"] 0 = .found ["o", "l4"] (.link false ["l1", "s"]) := by
  simp [namei, wB, Host.get]
theorem wB_n5 : namei wB [] ["o", "l1", "s"] 0 = .found ["o", "d", "s"] (.file [115]) := by
  simp [namei, wB, Host.get, maxHostLinks]
theorem wB_c1 : wB.children ["o"] = ["d", "l1", "l4"] := by decide
theorem wB_c2 : wB.children ["o", "d"] = ["s"] := by decide

theorem wB_scan : scan wB wCfgB 50 =
    .ok { dirs := [["d"], ["l1"]], files := [(["l4"], some ["o", "d", "s"])], frags := [] } := by
  have e1 : sortNames ["d", "l1", "l4"] = ["d", "l1", "l4"] := by decide
  have e2 : sortNames ["s"] = ["s"] := by decide
  simp [scan, walk, wCfgB, wCfgA, srcMount, underSecret, rootLen, limitFollowSymlinks, Res.bind,
    wB_n1, wB_n2, wB_n3, wB_n4, wB_n5, wB_c1, wB_c2, e1, e2,
    skipMount, Cfg.mount, copyRegular, Plan.addDir, Plan.addKeep, Plan.addFile, cleanAbs, cleanAbsStep]

theorem wA_wf : HostWF wA := ⟨by decide, by decide, by decide⟩
theorem wB_wf : HostWF wB := ⟨by decide, by decide, by decide⟩

theorem wA_cfg : CfgWF wA wCfgA :=
  ⟨by decide, by simp [OutDirReal, namei, wA, wCfgA, Host.get], by decide⟩
theorem wB_cfg : CfgWF wB wCfgB :=
  ⟨by decide, by simp [OutDirReal, namei, wB, wCfgB, wCfgA, Host.get], by decide⟩

/-- the full statement is false of the current code: F17a (absolute target that is not cleaned) -/
theorem C17_secrets_absent_full_fails : ¬ C17_secrets_absent_Full := by
  intro hfull
  have := hfull wA wCfgA 50 _ wA_wf wA_cfg (by decide) (by decide) wA_scan
    (["l"], some ["o", "s"]) (by simp) ["o", "s"] rfl
  exact this ⟨["out", "s"], by decide, by decide, by decide⟩

/-- … and F17b (relative targets only: a path through a symlinked directory) -/
theorem C17_secrets_absent_full_fails_indirect : ¬ C17_secrets_absent_Full := by
  intro hfull
  have := hfull wB wCfgB 50 _ wB_wf wB_cfg (by decide) (by decide) wB_scan
    (["l4"], some ["o", "d", "s"]) (by simp) ["o", "d", "s"] rfl
  exact this ⟨["out", "d", "s"], by decide, by decide, by decide⟩

/-! ## the saved output equals the tree -/

/-- Conclusion of the equality theorem for a plan and the tree loaded from its manifest fragments:
`Copy` succeeds, and the saved collection `tree`
 (1) has every regular file that `Shows` derives, with the bytes of the host file;
 (2) has every directory that `Shows` derives, and `dir/.keep` (empty) for those without entries;
 (3) has nothing else: a file is either planned-and-justified by `Shows` (regular file with its
     bytes, or the empty `.keep` of an empty directory) or comes from a mounted collection (`t0`);
     a directory is justified by `Shows` or comes from a mounted collection. -/
structure OutputEqualsTree (h : Host) (cfg : Cfg) (fuel : Nat) (t0 : Tree) : Prop where
  ok : ∃ tree, copy h cfg fuel = .ok tree ∧
    (∀ d s c, Shows h cfg d s → nodeAt h cfg s = some (.file c) → tree.get d = some (.file c)) ∧
    (∀ d s, Shows h cfg d s → nodeAt h cfg s = some .dir → d ≠ [] →
      tree.get d = some .dir ∧
      (h.children (hostPath cfg s) = [] → tree.get (d ++ [".keep"]) = some (.file []))) ∧
    (∀ x c, tree.get x = some (.file c) →
      (∃ s, Shows h cfg x s ∧ nodeAt h cfg s = some (.file c)) ∨
      (c = [] ∧ ∃ d s, x = d ++ [".keep"] ∧ Shows h cfg d s ∧ nodeAt h cfg s = some .dir ∧
        h.children (hostPath cfg s) = []) ∨
      t0.get x = some (.file c)) ∧
    (∀ x, tree.get x = some .dir →
      (∃ s, Shows h cfg x s ∧ nodeAt h cfg s = some .dir) ∨ t0.get x = some .dir)

/-- **output equals tree** (partial): for a well-formed host tree and configuration in which every
link has a canonical target (`Direct`) and mounted content does not claim a path that host content
claims (`NoCollide`): if the scan succeeds then `Copy` succeeds and the saved collection is
exactly what `Shows` derives from the output directory, plus the content of the mounted collections. -/
theorem C17_output_equals_tree_partial (h : Host) (cfg : Cfg) (hwf : HostWF h) (wf : CfgWF h cfg)
    (hout : h.get cfg.hostOut = some .dir) (hs : supported cfg = true) (hx : InOut cfg cfg.ctrOut)
    (hdirect : Direct h cfg) (fuel : Nat) (plan : Plan) (hscan : scan h cfg fuel = .ok plan)
    (t0 : Tree) (hload : loadFrags [] plan.frags = some t0) (hnc : NoCollide t0 plan) :
    OutputEqualsTree h cfg fuel t0 := by
  have hsh := scan_shape h cfg hwf hs wf.real fuel plan hscan
  have hj := scan_sound h cfg hwf wf hout hs hdirect fuel plan hscan
  obtain ⟨tree, hrun, hget⟩ := runPlan_spec h plan hsh t0 hload hnc
  refine ⟨tree, by unfold copy; rw [hscan]; exact hrun, ?_, ?_, ?_, ?_⟩
  · intro d s c hshow hnode
    have hmem := (scan_complete h cfg hwf wf hout hdirect hx fuel plan hscan d s hshow).1 c hnode
    rw [hget, planned_of_mem h plan.files hsh.nodupFiles _ hmem]
    simp only [srcContent]
    have : h.get (hostPath cfg s) = some (.file c) := hnode
    rw [this]
  · intro d s hshow hnode hne
    obtain ⟨hd, hk⟩ := (scan_complete h cfg hwf wf hout hdirect hx fuel plan hscan d s hshow).2 hnode hne
    constructor
    · rw [hget, planned_none_of_not_mem h plan.files d (hsh.disjoint d hd)]
      simp [hd]
    · intro hempty
      have hmem := hk hempty
      rw [hget, planned_of_mem h plan.files hsh.nodupFiles _ hmem]
      rfl
  · intro x c hx
    rw [hget] at hx
    cases hp : planned h plan.files x with
    | some c' =>
      rw [hp] at hx
      simp only [Option.some.injEq, Ent.file.injEq] at hx
      subst hx
      obtain ⟨f, hf, hf1, hf2⟩ := planned_some h plan.files x c' hp
      have hfj := hj.files f hf
      unfold FileJust at hfj
      cases hsrc : f.2 with
      | some p =>
        rw [hsrc] at hfj
        obtain ⟨s, c2, hshow, hps, hgp⟩ := hfj
        left
        refine ⟨s, by rw [← hf1]; exact hshow, ?_⟩
        rw [hsrc] at hf2
        simp only [srcContent, hgp] at hf2
        unfold nodeAt
        rw [← hps, hgp, hf2]
      | none =>
        rw [hsrc] at hfj
        obtain ⟨d, s, hfd, hne, hshow, hnode, hempty⟩ := hfj
        right; left
        rw [hsrc] at hf2
        exact ⟨by simpa [srcContent] using hf2.symm, d, s, by rw [← hf1]; exact hfd, hshow, hnode, hempty⟩
    | none =>
      rw [hp] at hx
      simp only at hx
      split at hx
      · cases hx
      · right; right; exact hx
  · intro x hx
    rw [hget] at hx
    cases hp : planned h plan.files x with
    | some c' => rw [hp] at hx; cases hx
    | none =>
      rw [hp] at hx
      simp only at hx
      split at hx
      · rename_i hmem
        left
        obtain ⟨_, s, hshow, hnode⟩ := hj.dirs x hmem
        exact ⟨s, hshow, hnode⟩
      · right; exact hx

/-- **mounted collections** (partial, same hypotheses): the manifest text a successful scan hands to
the collection filesystem consists exactly (as a set of items) of the extracts the specification
names — for the output root and for the target of every link that `Shows` reaches (`Jumps`): the
read-only collection containing it, relocated to the link's output path (`fragOf`), and, unless a
secret mount hides it, every collection mounted beneath it at the corresponding path (`belowFrags`).
These items reach the saved collection through `loadFrags` (the `t0` of
`C17_output_equals_tree_partial`); no byte of them is read or written. -/
theorem C17_mount_content_partial (h : Host) (cfg : Cfg) (hwf : HostWF h) (wf : CfgWF h cfg)
    (hout : h.get cfg.hostOut = some .dir) (hs : supported cfg = true) (hx : InOut cfg cfg.ctrOut)
    (hdirect : Direct h cfg) (fuel : Nat) (plan : Plan) (hscan : scan h cfg fuel = .ok plan) :
    (∀ f ∈ plan.frags, ∃ d x, Jumps h cfg d x ∧
      (f ∈ fragOf cfg d x ∨ (notSecret cfg x ∧ f ∈ belowFrags cfg d x))) ∧
    (∀ d x, Jumps h cfg d x →
      (∀ f ∈ fragOf cfg d x, f ∈ plan.frags) ∧
      (notSecret cfg x → ∀ f ∈ belowFrags cfg d x, f ∈ plan.frags)) :=
  ⟨scan_frags_sound h cfg hwf wf hout hs hdirect fuel plan hscan,
   fun d x hj => scan_frags_complete h cfg hwf wf hout hs hdirect hx fuel plan hscan d x hj⟩

/-- bytes written to Keep by `Copy` are the bytes of the planned host files only -/
theorem C17_put_bytes (h : Host) (p : Plan) :
    putBytes h p = (p.files.map fun f => (srcContent h f.2).length).sum := rfl

/-- **output equals tree, with hypotheses a real container satisfies** (`NoCollide` derived): if
every mount beneath the output path is a mount point the entry loop skips and it and the directories
above it exist on the host (`MountsReal` — otherwise the mount could not have been made), then for
every tree whose links have canonical targets (`Direct`), a successful scan whose fragments load
gives a successful `Copy` that saves exactly what `Shows` derives from the output directory plus the
content of the mounted collections: mounted content and host content never claim the same output
path (`scan_nocollide`: determinism of `Shows` per output path, coverage of `loadFrags`). -/
theorem C17_output_equals_tree_mounts_real (h : Host) (cfg : Cfg) (hwf : HostWF h) (wf : CfgWF h cfg)
    (hout : h.get cfg.hostOut = some .dir) (hs : supported cfg = true) (hx : InOut cfg cfg.ctrOut)
    (hdirect : Direct h cfg) (mr : MountsReal h cfg) (fuel : Nat) (plan : Plan)
    (hscan : scan h cfg fuel = .ok plan) (t0 : Tree) (hload : loadFrags [] plan.frags = some t0) :
    OutputEqualsTree h cfg fuel t0 :=
  C17_output_equals_tree_partial h cfg hwf wf hout hs hx hdirect fuel plan hscan t0 hload
    (scan_nocollide h cfg hwf wf hout hs hx hdirect mr fuel plan hscan t0 hload)

/-- **output equals tree, without `NoCollide`** — what exactly `Copy` saves when mounted content and
host content claim the same output path. Under the other hypotheses, whenever `Copy` succeeds there
are the scan's plan and the tree `t0` of the mounted content (the loaded manifest fragments,
characterised by `C17_mount_content_partial`) such that
 (1) every regular file `Shows` derives at `d` with host bytes `c` is saved at `d` as
     `overlay (t0.get d) c`: `c` itself if the mounted content has nothing at `d`; `c` followed by
     the tail of the longer mounted file if it has a file there (the copier opens the destination
     without truncation); the mounted directory if it has a directory there, which happens only
     for `c = []`;
 (2) every directory `Shows` derives at `d ≠ []` exists unless the mounted content has a *file* at
     `d` (then that file stays), and an empty one gets `d/.keep = overlay (t0.get (d/.keep)) []`;
 (3) everything else in the saved tree is what the mounted content has there. -/
theorem C17_output_equals_tree_general (h : Host) (cfg : Cfg) (hwf : HostWF h) (wf : CfgWF h cfg)
    (hout : h.get cfg.hostOut = some .dir) (hs : supported cfg = true) (hx : InOut cfg cfg.ctrOut)
    (hdirect : Direct h cfg) (fuel : Nat) (tree : Tree) (hcopy : copy h cfg fuel = .ok tree) :
    ∃ plan t0, scan h cfg fuel = .ok plan ∧ loadFrags [] plan.frags = some t0 ∧
      (∀ d s c, Shows h cfg d s → nodeAt h cfg s = some (.file c) →
        tree.get d = overlay (t0.get d) c ∧ (t0.get d = some .dir → c = [])) ∧
      (∀ d s, Shows h cfg d s → nodeAt h cfg s = some .dir → d ≠ [] →
        tree.get d = (if t0.get d = none then some .dir else t0.get d) ∧
        (h.children (hostPath cfg s) = [] → tree.get (d ++ [".keep"]) = overlay (t0.get (d ++ [".keep"])) [])) ∧
      (∀ x e, tree.get x = some e →
        (∃ c, planned h plan.files x = some c) ∨ (x ∈ plan.dirs ∧ t0.get x = none ∧ e = .dir) ∨ t0.get x = some e) := by
  unfold copy at hcopy
  obtain ⟨plan, hscan, hrun⟩ := bind_eq_ok _ _ _ hcopy
  have hsh := scan_shape h cfg hwf hs wf.real fuel plan hscan
  obtain ⟨t0, hload, hget⟩ := runPlan_ok_spec h plan hsh tree hrun
  refine ⟨plan, t0, hscan, hload, ?_, ?_, ?_⟩
  · intro d s c hshow hnode
    have hmem := (scan_complete h cfg hwf wf hout hdirect hx fuel plan hscan d s hshow).1 c hnode
    have hp : planned h plan.files d = some c := by
      rw [planned_of_mem h plan.files hsh.nodupFiles _ hmem]
      simp only [srcContent]
      have : h.get (hostPath cfg s) = some (.file c) := hnode
      rw [this]
    obtain ⟨h1, h2⟩ := hget d
    rw [hp] at h1
    exact ⟨h1, h2 c hp⟩
  · intro d s hshow hnode hne
    obtain ⟨hd, hk⟩ := (scan_complete h cfg hwf wf hout hdirect hx fuel plan hscan d s hshow).2 hnode hne
    constructor
    · have h1 := (hget d).1
      rw [planned_none_of_not_mem h plan.files d (hsh.disjoint d hd)] at h1
      simp only [hd, true_and] at h1
      exact h1
    · intro hempty
      have hmem := hk hempty
      have hp : planned h plan.files (d ++ [".keep"]) = some [] := by
        rw [planned_of_mem h plan.files hsh.nodupFiles _ hmem]; rfl
      have h1 := (hget (d ++ [".keep"])).1
      rw [hp] at h1
      exact h1
  · intro x e hx'
    have h1 := (hget x).1
    cases hp : planned h plan.files x with
    | some c => exact Or.inl ⟨c, rfl⟩
    | none =>
      rw [hp] at h1
      simp only at h1
      rw [h1] at hx'
      split at hx'
      · rename_i hc
        right; left
        simp only [Option.some.injEq] at hx'
        exact ⟨hc.1, hc.2, hx'.symm⟩
      · right; right; exact hx'

/-! ## when the mounted content loads (the hypothesis `loadFrags … = some t0`) -/

/-- **`loadManifest` characterised**: manifest text loads into an empty collection exactly when no
two of its items contradict each other — a file item whose path is a proper prefix of another
item's path, or a file item and a directory marker at the same path; the same file named twice is
fine (its segments are appended) -/
theorem C17_manifest_loads_iff (fs : List Frag) : (∃ t0, loadFrags [] fs = some t0) ↔ FragsCompat fs :=
  loadFrags_iff fs

/-- **the collected manifest text loads exactly when the specification's items are compatible**:
for a successful scan, the hypothesis `loadFrags [] plan.frags = some t0` of the equality theorems
is equivalent to a statement about the specification alone (`Shows`, the mounts and their
collections) — neither the plan nor the order of the items appears in it -/
theorem C17_frags_load_iff (h : Host) (cfg : Cfg) (hwf : HostWF h) (wf : CfgWF h cfg)
    (hout : h.get cfg.hostOut = some .dir) (hs : supported cfg = true) (hx : InOut cfg cfg.ctrOut)
    (hdirect : Direct h cfg) (fuel : Nat) (plan : Plan) (hscan : scan h cfg fuel = .ok plan) :
    (∃ t0, loadFrags [] plan.frags = some t0) ↔ SpecCompat h cfg :=
  scan_load_iff h cfg hwf wf hout hs hx hdirect fuel plan hscan

/-- … which holds when every mounted collection is a tree (`CollsWF`: no path is both a file and a
directory — what the API server accepts) and the mounts do not overlap (`SitesApart`) -/
theorem C17_frags_load_apart (h : Host) (cfg : Cfg) (hwf : HostWF h) (wf : CfgWF h cfg)
    (hout : h.get cfg.hostOut = some .dir) (hs : supported cfg = true) (hx : InOut cfg cfg.ctrOut)
    (hdirect : Direct h cfg) (hc : CollsWF cfg) (ha : SitesApart h cfg)
    (fuel : Nat) (plan : Plan) (hscan : scan h cfg fuel = .ok plan) :
    ∃ t0, loadFrags [] plan.frags = some t0 :=
  (scan_load_iff h cfg hwf wf hout hs hx hdirect fuel plan hscan).mpr (specCompat_of_apart h cfg hc ha)

/-- **output equals tree for mounts that do not overlap** — no hypothesis about loading is left:
well-formed tree and configuration, canonical link targets (`Direct`), real mount points
(`MountsReal`), tree-shaped collections, non-overlapping sites: whenever the scan succeeds, `Copy`
succeeds and saves exactly what `Shows` derives plus the content `t0` of the mounted collections
(which items: `C17_mount_content_partial`) -/
theorem C17_output_equals_tree_apart (h : Host) (cfg : Cfg) (hwf : HostWF h) (wf : CfgWF h cfg)
    (hout : h.get cfg.hostOut = some .dir) (hs : supported cfg = true) (hx : InOut cfg cfg.ctrOut)
    (hdirect : Direct h cfg) (mr : MountsReal h cfg) (hc : CollsWF cfg) (ha : SitesApart h cfg)
    (fuel : Nat) (plan : Plan) (hscan : scan h cfg fuel = .ok plan) :
    ∃ t0, loadFrags [] plan.frags = some t0 ∧ OutputEqualsTree h cfg fuel t0 := by
  obtain ⟨t0, hl⟩ := C17_frags_load_apart h cfg hwf wf hout hs hx hdirect hc ha fuel plan hscan
  exact ⟨t0, hl, C17_output_equals_tree_mounts_real h cfg hwf wf hout hs hx hdirect mr fuel plan hscan t0 hl⟩

/-- conversely, when the items the specification names contradict each other (two overlapping
mounts with a file of one where the other has a directory), `Copy` fails with the collection
filesystem's error: nothing is saved, nothing is dropped silently -/
theorem C17_frags_conflict_fails (h : Host) (cfg : Cfg) (hwf : HostWF h) (wf : CfgWF h cfg)
    (hout : h.get cfg.hostOut = some .dir) (hs : supported cfg = true) (hx : InOut cfg cfg.ctrOut)
    (hdirect : Direct h cfg) (hnc : ¬ SpecCompat h cfg)
    (fuel : Nat) (plan : Plan) (hscan : scan h cfg fuel = .ok plan) : copy h cfg fuel = .err .fs := by
  have hno : loadFrags [] plan.frags = none := by
    cases hl : loadFrags [] plan.frags with
    | none => rfl
    | some t0 => exact absurd ((scan_load_iff h cfg hwf wf hout hs hx hdirect fuel plan hscan).mp ⟨t0, hl⟩) hnc
  unfold copy
  rw [hscan]
  simp [Res.bind, runPlan, hno]

/-! ## nested mounts (finding F17d) -/

/-- the full statement: every item of mounted content that the specification names (and that a
successful scan therefore saves, `C17_mount_content_partial`) is what the container sees at the path
it was taken from — no deeper mount hides it -/
def C17_mounted_view_Full : Prop :=
  ∀ (h : Host) (cfg : Cfg) (D y : Path), Site h cfg D y → ∀ f ∈ fragOf cfg D y, Unshadowed cfg D y f

/-- collection A `{g, sub/f}` mounted at `/out/m`, collection B `{f}` mounted on A's directory `sub` -/
def wCfgD : Cfg :=
  { ctrOut := ["out"], hostOut := ["o"],
    mounts := [(["out"], { kind := "tmp" }),
               (["out", "m"], { kind := "collection", coll := some [([], "g", [7]), (["sub"], "f", [1, 2, 3])] }),
               (["out", "m", "sub"], { kind := "collection", coll := some [([], "f", [4, 5, 6, 7, 8])] })],
    secrets := [] }

/-- the full statement is false of the current code (F17d): A's `sub/f`, which the container cannot
see (B is mounted on `sub`), is an item of the extract for `/out/m` -/
theorem C17_mounted_view_full_fails : ¬ C17_mounted_view_Full := by
  intro hfull
  have s1 : Site [] wCfgD ["m"] ["out", "m"] :=
    Or.inr ⟨[], ["out"], Jumps.root, by unfold notSecret; decide,
      { kind := "collection", coll := some [([], "g", [7]), (["sub"], "f", [1, 2, 3])] },
      by simp [wCfgD], by decide, by decide, by decide, rfl⟩
  have f1 : (["m", "sub", "f"], some [1, 2, 3]) ∈ fragOf wCfgD ["m"] ["out", "m"] := by
    simp [fragOf, wCfgD, srcMount, underSecret, rootLen, extract, cleanRel, cleanRelStep]
  have := hfull [] wCfgD _ _ s1 _ f1 (["out", "m", "sub"], { kind := "collection", coll := some [([], "f", [4, 5, 6, 7, 8])] })
    (by simp [wCfgD]) (by decide)
  exact absurd this (by decide)

/-- … and both files are saved as one: the item of A and the item of B have the same output path,
which `loadManifest` accepts (`FragsCompat`: the same file named again) and appends -/
theorem C17_mounted_view_merge :
    (["m", "sub", "f"], some [1, 2, 3]) ∈ fragOf wCfgD ["m"] ["out", "m"] ∧
    (["m", "sub", "f"], some [4, 5, 6, 7, 8]) ∈ fragOf wCfgD ["m", "sub"] ["out", "m", "sub"] ∧
    loadFrags [] [(["m", "sub", "f"], some [1, 2, 3]), (["m", "sub", "f"], some [4, 5, 6, 7, 8])] =
      some [(["m"], .dir), (["m", "sub"], .dir), (["m", "sub", "f"], .file [1, 2, 3, 4, 5, 6, 7, 8])] := by
  refine ⟨?_, ?_, ?_⟩
  · simp [fragOf, wCfgD, srcMount, underSecret, rootLen, extract, cleanRel, cleanRelStep]
  · simp [fragOf, wCfgD, srcMount, underSecret, rootLen, extract, cleanRel, cleanRelStep]
  · simp [loadFrags, addFrag, mkParents, Tree.get, Tree.set]

/-- **mounted content is the container's view** (partial): when no mount point lies strictly below
a collection's mount point (`NoNestedMounts`), every item of manifest text that a successful scan
collects was extracted at a site the specification names and is not hidden by a deeper mount -/
theorem C17_mounted_view_partial (h : Host) (cfg : Cfg) (hwf : HostWF h) (wf : CfgWF h cfg)
    (hout : h.get cfg.hostOut = some .dir) (hs : supported cfg = true) (hdirect : Direct h cfg)
    (hn : NoNestedMounts cfg) (fuel : Nat) (plan : Plan) (hscan : scan h cfg fuel = .ok plan) :
    ∀ f ∈ plan.frags, ∃ D y, Site h cfg D y ∧ f ∈ fragOf cfg D y ∧ Unshadowed cfg D y f := by
  intro f hf
  obtain ⟨D, y, hsite, hmem⟩ :=
    fragJust_site h cfg plan (scan_frags_sound h cfg hwf wf hout hs hdirect fuel plan hscan) f hf
  exact ⟨D, y, hsite, hmem, fragOf_unshadowed cfg hn D y f hmem⟩

/-- the full statement: the same for every host tree, without `Direct` -/
def C17_output_equals_tree_Full : Prop :=
  ∀ (h : Host) (cfg : Cfg) (fuel : Nat) (plan : Plan) (t0 : Tree), HostWF h → CfgWF h cfg →
    h.get cfg.hostOut = some .dir → supported cfg = true → InOut cfg cfg.ctrOut →
    scan h cfg fuel = .ok plan → loadFrags [] plan.frags = some t0 → NoCollide t0 plan →
    OutputEqualsTree h cfg fuel t0

theorem wA_copy : copy wA wCfgA 50 =
    .ok [(["d"], .dir), (["d", ".keep"], .file []), (["l"], .file [115])] := by
  unfold copy
  rw [wA_scan]
  simp [Res.bind, runPlan, loadFrags, mkdirs, mkdir, copyFiles, copyFile, Tree.get, Tree.set, srcContent, wA, Host.get]

/-- the full statement is false of the current code (F17a): the saved collection of witness `wA` has
the file `/l` with the secret's bytes, which nothing in the output directory justifies -/
theorem C17_output_equals_tree_full_fails : ¬ C17_output_equals_tree_Full := by
  intro hfull
  have hin : InOut wCfgA wCfgA.ctrOut := by
    refine ⟨by decide, { kind := "tmp" }, by decide, rfl, rfl⟩
  obtain ⟨tree, hc, _, _, h3, _⟩ := (hfull wA wCfgA 50 _ [] wA_wf wA_cfg (by decide) (by decide) hin wA_scan
    (by simp [loadFrags]) ⟨by simp [Tree.get], by simp [Tree.get]⟩).ok
  rw [wA_copy] at hc
  cases hc
  have hget : Tree.get [(["d"], Ent.dir), (["d", ".keep"], Ent.file []), (["l"], Ent.file [115])] ["l"]
      = some (.file [115]) := by decide
  rcases h3 ["l"] [115] hget with ⟨s, hshow, hnode⟩ | ⟨hc0, _⟩ | ht0
  · -- the only host file with these bytes is the secret's, and `Shows` never shows a secret
    have hpre := shows_pre wA wCfgA _ s hshow
    have hns := shows_noSecret wA wCfgA wA_cfg _ s hshow ["out", "s"] (by decide)
    -- nodeAt s = file [115] forces hostPath s = ["o", "s"], i.e. s = ["out", "s"]
    have hs : s = ["out", "s"] := by
      have hg : wA.get (hostPath wCfgA s) = some (.file [115]) := hnode
      have hp : hostPath wCfgA s = ["o", "s"] := by
        unfold Host.get at hg
        split at hg
        · cases hg
        · simp only [wA, List.find?_cons] at hg
          generalize hostPath wCfgA s = q at hg
          by_cases h1 : (["o"] : Path) = q
          · simp [h1.symm] at hg
          · by_cases h2 : (["o", "s"] : Path) = q
            · exact h2.symm
            · by_cases h3 : (["o", "d"] : Path) = q
              · simp [h1, h2, h3.symm] at hg
              · by_cases h4 : (["o", "l"] : Path) = q
                · simp [h1, h2, h3, h4.symm] at hg
                · simp [h1, h2, h3, h4] at hg
      have := prefix_append_drop _ _ hpre
      unfold hostPath at hp
      simp only [wCfgA, List.cons_append, List.nil_append, List.length_cons, List.length_nil,
        List.cons.injEq, true_and] at hp this
      rw [← this, hp]
    rw [hs] at hns
    exact absurd hns (by decide)
  · cases hc0
  · simp [Tree.get] at ht0

end ArvVerif.C17
