/-
C17 — property theorems (work in progress; see Proofs/C17_*.lean).
-/
import ArvVerif.Model.C17
namespace ArvVerif.C17

end ArvVerif.C17
