/-
C01 — keepstore never serves or accepts a block whose content mismatches its hash.
Property theorems only (helpers are in Proofs/C01.lean). Every theorem is for an arbitrary digest
type `δ`, content type `β` (read: byte strings), hash `hash : β → δ`, size `size : β → Nat`, any
list of volumes (any length, any mix of read-only / full / writable), any content under any block
path, and any value of the round-robin counter. Collision-freeness appears only as the explicit
hypothesis `NoColl`.
-/
import ArvVerif.Proofs.C01
namespace ArvVerif.C01
set_option linter.unusedSectionVars false

section
variable {δ β : Type} [DecidableEq δ] [DecidableEq β]

/-- collision-freeness of `hash` at `h`: `b` is the only content with digest `h` -/
def NoColl (hash : β → δ) (h : δ) (b : β) : Prop := ∀ x, hash x = h → x = b

/-- A copy that can be served: right digest, not above BlockSize. -/
def Intact (hash : β → δ) (size : β → Nat) (h : δ) (b : β) : Prop := hash b = h ∧ size b ≤ blockSize

/-- The GetBlock loop is sound for *whatever* the volumes hand back (including short, garbled or
stale reads): a returned buffer always has the requested digest. -/
theorem C01_get_sound_any_reads (hash : β → δ) (h : δ) (reads : List (ReadResult β)) (e : GetErr) (b : β)
    (hg : getLoop hash h reads e = .ok b) : hash b = h ∧ ReadResult.data b ∈ reads :=
  getLoop_ok hash h reads e b hg

/-- GET answers 200 only with a body whose digest is the requested hash, whose length is the
Content-Length it reports, and which is stored under that hash on some volume. -/
theorem C01_get_sound (hash : β → δ) (size : β → Nat) (vols : List (Vol δ β)) (h : δ)
    (h200 : (handleGet hash size vols h).status = 200) :
    ∃ b, (handleGet hash size vols h).body = some b ∧
      (handleGet hash size vols h).contentLength = some (size b) ∧
      hash b = h ∧ size b ≤ blockSize ∧ ∃ v ∈ vols, v.files h = some b := by
  unfold handleGet at h200 ⊢
  cases hg : getBlock hash size vols h with
  | ok b =>
    have h1 := getLoop_ok hash h _ _ b hg
    have h2 := (mem_reads size vols h b).mp h1.2
    rcases h2 with ⟨v, hv, hf, hs⟩
    exact ⟨b, rfl, rfl, h1.1, hs, v, hv, hf⟩
  | err e =>
    simp only [hg] at h200
    cases e <;> simp [getErrStatus] at h200

/-- HEAD answers 200 only with the length of a servable copy stored under that hash. -/
theorem C01_head_sound (hash : β → δ) (size : β → Nat) (vols : List (Vol δ β)) (h : δ)
    (h200 : (handleHead hash size vols h).status = 200) :
    ∃ b, (handleHead hash size vols h).contentLength = some (size b) ∧
      Intact hash size h b ∧ ∃ v ∈ vols, v.files h = some b := by
  have := C01_get_sound hash size vols h (by simpa [handleHead] using h200)
  rcases this with ⟨b, _, hcl, hh, hs, hv⟩
  exact ⟨b, by simpa [handleHead] using hcl, ⟨hh, hs⟩, hv⟩

/-- If some volume holds an intact copy, GET answers 200 with an intact body: corrupt, truncated,
extended, substituted, empty or oversize copies on other volumes — earlier or later in the mount
order, read-only or not — are passed over. Under collision-freeness the body is that copy. -/
theorem C01_get_skips_corrupt (hash : β → δ) (size : β → Nat) (vols : List (Vol δ β)) (h : δ) (b : β)
    (hex : ∃ v ∈ vols, v.files h = some b) (hint : Intact hash size h b) :
    ∃ b', (handleGet hash size vols h).status = 200 ∧
      (handleGet hash size vols h).body = some b' ∧
      (handleGet hash size vols h).contentLength = some (size b') ∧
      hash b' = h ∧ (NoColl hash h b → b' = b) := by
  rcases hex with ⟨v, hv, hf⟩
  have hm := (mem_reads size vols h b).mpr ⟨v, hv, hf, hint.2⟩
  rcases getLoop_finds hash h _ .notFound b hm hint.1 with ⟨b', hb'⟩
  have hs := getLoop_ok hash h _ _ b' hb'
  refine ⟨b', ?_, ?_, ?_, hs.1, fun hnc => hnc b' hs.1⟩ <;>
    simp [handleGet, getBlock, hb']

/-- If no volume holds an intact copy, GET and HEAD answer with an error status and no data:
500 (DiskHashError) if some volume returned readable bytes (which then mismatched), else 404. -/
theorem C01_get_none_intact (hash : β → δ) (size : β → Nat) (vols : List (Vol δ β)) (h : δ)
    (hnone : ∀ v ∈ vols, ∀ b, v.files h = some b → ¬ Intact hash size h b) :
    (handleGet hash size vols h).body = none ∧
    (handleGet hash size vols h).contentLength = none ∧
    (handleHead hash size vols h).contentLength = none ∧
    (handleHead hash size vols h).status = (handleGet hash size vols h).status ∧
    ((∃ v ∈ vols, ∃ b, v.files h = some b ∧ size b ≤ blockSize) →
        (handleGet hash size vols h).status = 500) ∧
    ((¬ ∃ v ∈ vols, ∃ b, v.files h = some b ∧ size b ≤ blockSize) →
        (handleGet hash size vols h).status = 404) := by
  have hno : ∀ b, ReadResult.data b ∈ (allReadable vols).map (fun v => volRead size v h) → hash b ≠ h := by
    intro b hb hh
    rcases (mem_reads size vols h b).mp hb with ⟨v, hv, hf, hs⟩
    exact hnone v hv b hf ⟨hh, hs⟩
  by_cases hd : ∃ v ∈ vols, ∃ b, v.files h = some b ∧ size b ≤ blockSize
  · have hex : ∃ b, ReadResult.data b ∈ (allReadable vols).map (fun v => volRead size v h) := by
      rcases hd with ⟨v, hv, b, hf, hs⟩
      exact ⟨b, (mem_reads size vols h b).mpr ⟨v, hv, hf, hs⟩⟩
    have hg : getBlock hash size vols h = .err .diskHash :=
      getLoop_nomatch_somedata hash h _ .notFound hno hex
    simp [handleGet, handleHead, hg, getErrStatus, hd]
  · have hnd : ∀ b, ReadResult.data b ∉ (allReadable vols).map (fun v => volRead size v h) := by
      intro b hb
      rcases (mem_reads size vols h b).mp hb with ⟨v, hv, hf, hs⟩
      exact hd ⟨v, hv, b, hf, hs⟩
    have hg : getBlock hash size vols h = .err .notFound :=
      getLoop_nodata hash h _ .notFound hnd
    simp [handleGet, handleHead, hg, getErrStatus, hd]

/-- PUT is acknowledged only if the digest of the request body is the requested hash (and the
body is not above BlockSize). -/
theorem C01_put_ack_hash (hash : β → δ) (size : β → Nat) (vols : List (Vol δ β)) (rr : Nat) (h : δ)
    (body : β) (cl : Bool) (h200 : (handlePut hash size vols rr h body cl).1.status = 200) :
    hash body = h ∧ size body ≤ blockSize := by
  unfold handlePut at h200
  by_cases hcl : cl = true
  · by_cases hsz : size body > blockSize
    · simp [hcl, hsz] at h200
    · by_cases hw : (allWritable vols).length = 0
      · simp [hcl, hsz, hw] at h200
      · simp only [hcl, hsz, hw, Bool.not_true, Bool.false_eq_true, if_false] at h200
        cases ho : (putBlock hash size vols rr h body).1 with
        | ok r => exact ⟨putBlock_ok_hash hash size vols rr h body r ho, by omega⟩
        | requestHash => simp [ho, putStatus] at h200
        | collision => simp [ho, putStatus] at h200
        | full => simp [ho, putStatus] at h200
        | generic => simp [ho, putStatus] at h200
  · simp [hcl] at h200

/-- A PUT whose body does not hash to the requested hash is refused with 422 (given a
Content-Length, a size within BlockSize and at least one writable mount — otherwise it is refused
earlier with 411 / 413 / 503) and no volume changes. -/
theorem C01_put_rejects_mismatch (hash : β → δ) (size : β → Nat) (vols : List (Vol δ β)) (rr : Nat)
    (h : δ) (body : β) (cl : Bool) (hne : hash body ≠ h) :
    (handlePut hash size vols rr h body cl).1.status ≠ 200 ∧
    (handlePut hash size vols rr h body cl).2.1 = vols ∧
    (cl = true → size body ≤ blockSize → (allWritable vols).length ≠ 0 →
      handlePut hash size vols rr h body cl = ({ status := 422, replicas := none }, vols, rr)) := by
  refine ⟨fun h200 => hne (C01_put_ack_hash hash size vols rr h body cl h200).1, ?_, ?_⟩
  · unfold handlePut
    by_cases hcl : cl = true
    · by_cases hsz : size body > blockSize
      · simp [hcl, hsz]
      · by_cases hw : (allWritable vols).length = 0
        · simp [hcl, hsz, hw]
        · simp [hcl, hsz, hw, putBlock, hne]
    · simp [hcl]
  · intro hcl hsz hw
    have hsz' : ¬ size body > blockSize := by omega
    simp [handlePut, hcl, hsz', hw, putBlock, hne, putStatus]

/-- What a PUT may change: on each mount either nothing, or — only on a mount that is neither
read-only nor full — the file under the requested hash becomes the request body. -/
theorem C01_put_frame (hash : β → δ) (size : β → Nat) (vols : List (Vol δ β)) (rr : Nat) (h : δ)
    (body : β) (cl : Bool) :
    Pointwise (Frame h body) vols (handlePut hash size vols rr h body cl).2.1 := by
  unfold handlePut
  by_cases hcl : cl = true
  · by_cases hsz : size body > blockSize
    · simp only [hcl, hsz, Bool.not_true, Bool.false_eq_true, if_false, if_true]; exact frame_refl h body vols
    · by_cases hw : (allWritable vols).length = 0
      · simp only [hcl, hsz, hw, Bool.not_true, Bool.false_eq_true, if_false, if_true]
        exact frame_refl h body vols
      · simp only [hcl, hsz, hw, Bool.not_true, Bool.false_eq_true, if_false]
        have := (putBlock_spec hash size vols rr h body).frame
        cases ho : (putBlock hash size vols rr h body).1 <;> simpa [ho] using this
  · simp only [hcl, Bool.not_eq_true'] ; simp; exact frame_refl h body vols

/-- No step of a PUT changes a read-only (or full) mount; the mount list keeps its length. -/
theorem C01_put_never_writes_ro (hash : β → δ) (size : β → Nat) (vols : List (Vol δ β)) (rr : Nat)
    (h : δ) (body : β) (cl : Bool) (i : Nat) (v : Vol δ β) (hv : vols[i]? = some v)
    (hro : v.ro = true ∨ v.full = true) :
    (handlePut hash size vols rr h body cl).2.1[i]? = some v := by
  rcases forall₂_getElem? (C01_put_frame hash size vols rr h body cl) i v hv with ⟨v', hv', hf⟩
  rcases hf with hf | ⟨h1, h2, _⟩
  · rw [hv', hf]
  · rcases hro with hro | hro
    · rw [h1] at hro; cases hro
    · rw [h2] at hro; cases hro

/-- A refused PUT changes nothing. -/
theorem C01_put_error_no_change (hash : β → δ) (size : β → Nat) (vols : List (Vol δ β)) (rr : Nat)
    (h : δ) (body : β) (cl : Bool) (hne : (handlePut hash size vols rr h body cl).1.status ≠ 200) :
    (handlePut hash size vols rr h body cl).2.1 = vols := by
  unfold handlePut at hne ⊢
  by_cases hcl : cl = true
  · by_cases hsz : size body > blockSize
    · simp [hcl, hsz]
    · by_cases hw : (allWritable vols).length = 0
      · simp [hcl, hsz, hw]
      · simp only [hcl, hsz, hw, Bool.not_true, Bool.false_eq_true, if_false] at hne ⊢
        have hsp := (putBlock_spec hash size vols rr h body).unchanged
        cases ho : (putBlock hash size vols rr h body).1 with
        | ok r => simp [ho] at hne
        | requestHash => exact hsp (by intro r; simp [ho])
        | collision => exact hsp (by intro r; simp [ho])
        | full => exact hsp (by intro r; simp [ho])
        | generic => exact hsp (by intro r; simp [ho])
  · simp [hcl]

/-- An acknowledged PUT leaves the request body itself under the requested hash on a *writable*
mount (found there by CompareAndTouch or written there) — whatever the read-only mounts hold. -/
theorem C01_put_stores_on_writable (hash : β → δ) (size : β → Nat) (vols : List (Vol δ β)) (rr : Nat)
    (h : δ) (body : β) (cl : Bool) (h200 : (handlePut hash size vols rr h body cl).1.status = 200) :
    ∃ v' ∈ (handlePut hash size vols rr h body cl).2.1, v'.ro = false ∧ v'.files h = some body := by
  unfold handlePut at h200 ⊢
  by_cases hcl : cl = true
  · by_cases hsz : size body > blockSize
    · simp [hcl, hsz] at h200
    · by_cases hw : (allWritable vols).length = 0
      · simp [hcl, hsz, hw] at h200
      · simp only [hcl, hsz, hw, Bool.not_true, Bool.false_eq_true, if_false] at h200 ⊢
        have hsp := (putBlock_spec hash size vols rr h body).stored
        cases ho : (putBlock hash size vols rr h body).1 with
        | ok r => simpa [ho] using hsp r ho
        | requestHash => simp [ho, putStatus] at h200
        | collision => simp [ho, putStatus] at h200
        | full => simp [ho, putStatus] at h200
        | generic => simp [ho, putStatus] at h200
  · simp [hcl] at h200

/-- Once a PUT is acknowledged, a GET over the resulting volumes (e.g. by a freshly started
keepstore over the same directories) answers 200 with an intact body — whatever corrupt copies of
the hash were or still are on any subset of the volumes, read-only or writable. Under
collision-freeness the body is the PUT body. -/
theorem C01_put_ack_then_get (hash : β → δ) (size : β → Nat) (vols : List (Vol δ β)) (rr : Nat) (h : δ)
    (body : β) (cl : Bool) (h200 : (handlePut hash size vols rr h body cl).1.status = 200) :
    ∃ b', (handleGet hash size (handlePut hash size vols rr h body cl).2.1 h).status = 200 ∧
      (handleGet hash size (handlePut hash size vols rr h body cl).2.1 h).body = some b' ∧
      (handleGet hash size (handlePut hash size vols rr h body cl).2.1 h).contentLength = some (size b') ∧
      hash b' = h ∧ (NoColl hash h body → b' = body) := by
  have hack := C01_put_ack_hash hash size vols rr h body cl h200
  rcases C01_put_stores_on_writable hash size vols rr h body cl h200 with ⟨v', hv', _, hf⟩
  exact C01_get_skips_corrupt hash size _ h body ⟨v', hv', hf⟩ hack

end

/-! ### Byte level (collision.go, pipe_adapters.go) -/

section
variable {δ : Type} [DecidableEq δ]

/-- `compareReaderWithBuf` gives the same verdict for every way the file's bytes are cut into
reads (buffer of `min(1<<20, len(expect))` bytes, short reads, a final empty read): identical
content → nil; otherwise CollisionError if the stored bytes hash to the requested hash, else
DiskHashError — which is what `volCompare` says. -/
theorem C01_compare_chunks (hash : Bytes → δ) (h : δ) (expect : Bytes) (chunks : List Bytes) :
    compareReaderWithBuf hash h expect expect chunks =
      if chunks.flatten = expect then .same else collisionOrCorrupt hash h chunks.flatten := by
  have := compareReaderWithBuf_spec hash h expect chunks [] expect rfl
  simpa [collisionOrCorrupt] using this

/-- `UnixVolume.Compare` through the chunk-level loop is `volCompare`. -/
theorem C01_volCompare_chunks (hash : Bytes → δ) (v : Vol δ Bytes) (h : δ) (body : Bytes)
    (chunks : List Bytes) (f : Bytes) (hf : v.files h = some f) (hc : chunks.flatten = f)
    (hs : f.length ≤ blockSize) :
    volCompare hash List.length v h body = compareReaderWithBuf hash h body body chunks := by
  rw [C01_compare_chunks, hc]
  have hs' : ¬ f.length > blockSize := by omega
  simp only [volCompare, hf, hs', if_false]

/-- `getWithPipe`'s bounded read returns the whole file when stat said it fits the buffer. -/
theorem C01_readFull_exact (stream : Bytes) (hs : stream.length ≤ blockSize) :
    readFull blockSize stream = stream := by
  simp [readFull, List.take_of_length_le hs]

/-- Whatever prefix the bounded read delivers (short read, file changed under the reader), it is
served only if it hashes to the requested hash (the re-hash in GetBlock does not depend on what
the volume claims). -/
theorem C01_short_read_harmless (hash : Bytes → δ) (h : δ) (n : Nat) (stream : Bytes) (e : GetErr)
    (rest : List (ReadResult Bytes)) (b : Bytes)
    (hg : getLoop hash h (.data (readFull n stream) :: rest) e = .ok b) : hash b = h :=
  (getLoop_ok hash h _ e b hg).1

end

/-! ### Non-vacuity: concrete instances of the hypotheses -/

section
/-- toy hash for the examples: the sum of the bytes -/
def exHash (b : List Nat) : Nat := b.foldl (· + ·) 0
def exVolCorrupt : Vol Nat (List Nat) :=
  ⟨false, false, 1, fun k => if k = 6 then some [1, 2, 4] else none⟩
def exVolIntact : Vol Nat (List Nat) :=
  ⟨true, false, 2, fun k => if k = 6 then some [1, 2, 3] else none⟩
def exVolEmpty : Vol Nat (List Nat) := ⟨false, false, 0, fun _ => none⟩
/-- toy hash on bytes: the sum of the byte values -/
def exHashB (b : Bytes) : Nat := b.foldl (fun a x => a + x.toNat) 0

-- a corrupt copy first, an intact copy on a read-only volume second: served from the second
example : (handleGet exHash List.length [exVolCorrupt, exVolIntact] 6).status = 200 := by decide
example : (handleGet exHash List.length [exVolCorrupt, exVolIntact] 6).body = some [1, 2, 3] := by decide
example : ∃ v ∈ [exVolCorrupt, exVolIntact], v.files 6 = some [1, 2, 3] := ⟨exVolIntact, by simp, by decide⟩
example : Intact exHash List.length 6 [1, 2, 3] := ⟨by decide, by decide⟩
-- no intact copy: 500 after a mismatch, 404 with nothing stored
example : ∀ v ∈ [exVolCorrupt], ∀ b, v.files 6 = some b → ¬ Intact exHash List.length 6 b := by
  intro v hv b hb
  simp at hv; subst hv
  have : b = [1, 2, 4] := by simpa [exVolCorrupt] using hb.symm
  subst this; intro hi; exact absurd hi.1 (by decide)
example : (handleGet exHash List.length [exVolCorrupt] 6).status = 500 := by decide
example : (handleGet exHash List.length [exVolEmpty] 6).status = 404 := by decide
-- an acknowledged PUT over a corrupt copy, and a refused one
example : (handlePut exHash List.length [exVolIntact, exVolCorrupt] 0 6 [3, 2, 1] true).1.status = 200 := by decide
example : (handlePut exHash List.length [exVolIntact, exVolCorrupt] 0 6 [3, 2, 2] true).1.status = 422 := by decide
example : exHash [3, 2, 2] ≠ 6 := by decide
-- a hash with a collision (sum): NoColl is a real restriction, satisfiable for the digest 0 of []
example : ¬ NoColl exHash 6 [1, 2, 3] := fun hn => absurd (hn [3, 2, 1] (by decide)) (by decide)
example : NoColl (fun b : List Nat => b.length) 0 [] := by
  intro x hx; exact List.eq_nil_of_length_eq_zero hx
-- the collision branch of CompareAndTouch is an error, not an acknowledgement
example : (handlePut exHash List.length [exVolCorrupt, exVolEmpty] 0 7 [7] true).1.status = 200 := by decide
example : (handlePut exHash List.length
    [⟨false, false, 1, fun k => if k = 6 then some [1, 2, 3] else none⟩] 0 6 [3, 2, 1] true).1.status = 500 := by
  decide
-- read-only and full mounts exist in the frame theorem's hypotheses
example : ([exVolIntact, exVolCorrupt] : List (Vol Nat (List Nat)))[0]? = some exVolIntact ∧ exVolIntact.ro = true :=
  ⟨rfl, rfl⟩
-- chunkings of one file
example : compareReaderWithBuf exHashB 6 [1, 2, 3] [1, 2, 3] [[1], [], [2, 3], []] = .same := by decide
example : compareReaderWithBuf exHashB 6 [1, 2, 3] [1, 2, 3] [[1, 2], [3, 0]] = .collision := by decide
example : compareReaderWithBuf exHashB 6 [1, 2, 3] [1, 2, 3] [[1, 2]] = .corrupt := by decide
end

end ArvVerif.C01
