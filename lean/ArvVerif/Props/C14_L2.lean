/-
C14 layer L2: property theorems about the worker pool's bookkeeping (atomic steps under
`wp.mtx`), for any number of workers and containers.
-/
import ArvVerif.Proofs.C14_L2
namespace ArvVerif.C14

/-- **Start needs an idle worker in run mode.** `StartContainer(it, u)` succeeds only by
choosing a worker of type `it` whose state is Idle and whose idle behaviour is Run — never a
held, draining, booting, unknown, running or shut-down one — and in the same atomic step that
worker becomes Running with `u` in `starting`; all other workers and `exited` are unchanged. -/
theorem C14_start_needs_idle_run (p p' : Pool) (hwf : p.WF) (it : IType) (u : Uuid) (wid : Nat)
    (h : p.startContainer it u wid = some p') :
    ∃ w ∈ p.workers, w.id = wid ∧ w.itype = it ∧ w.state = .idle ∧ w.idleB = .run ∧
      (∀ x ∈ p.workers, x.busy ≤ w.busy ∨ ¬(x.itype = it ∧ x.state = .idle ∧ x.idleB = .run)) ∧
      p' = p.put (w.accept u) ∧ (w.accept u).state = .running ∧ u ∈ (w.accept u).starting := by
  unfold Pool.startContainer at h
  split at h
  · rename_i hc
    simp only [Pool.startCandidates, List.contains_iff_mem, List.mem_map, List.mem_filter,
      List.all_eq_true, decide_eq_true_eq] at hc
    obtain ⟨w, ⟨hw, hmax⟩, hid⟩ := hc
    simp only [Pool.startable, List.mem_filter, Bool.and_eq_true, beq_iff_eq] at hw hmax
    have hf := Pool.find_of_mem hwf hw.1
    rw [hid] at hf
    rw [hf] at h
    simp only [Option.some.injEq] at h
    refine ⟨w, hw.1, hid, hw.2.1.1, hw.2.1.2, hw.2.2, ?_, h.symm, rfl, by simp⟩
    intro x hx
    by_cases hx' : x.itype = it ∧ x.state = .idle ∧ x.idleB = .run
    · exact Or.inl (hmax x ⟨hx, ⟨hx'.1, hx'.2.1⟩, hx'.2.2⟩)
    · exact Or.inr hx'
  · cases h

/-- … and it fails (returns false) exactly when no worker of that type is Idle in run mode. -/
theorem C14_start_fails_iff (p : Pool) (it : IType) :
    p.startCandidates it = [] ↔ p.startable it = [] := by
  unfold Pool.startCandidates
  dsimp only
  constructor
  · intro h
    -- a non-empty finite list has an element with maximal `busy`
    have key : ∀ (l : List Worker), l ≠ [] → ∃ w ∈ l, ∀ x ∈ l, x.busy ≤ w.busy := by
      intro l
      induction l with
      | nil => intro h; exact absurd rfl h
      | cons a rest ih =>
        intro _
        by_cases hr : rest = []
        · subst hr; exact ⟨a, List.mem_cons_self, by simp⟩
        · obtain ⟨m, hm, hmax⟩ := ih hr
          by_cases hle : m.busy ≤ a.busy
          · refine ⟨a, List.mem_cons_self, fun x hx => ?_⟩
            rcases List.mem_cons.mp hx with e | e
            · subst e; exact Nat.le_refl _
            · exact Nat.le_trans (hmax x e) hle
          · refine ⟨m, List.mem_cons_of_mem _ hm, fun x hx => ?_⟩
            rcases List.mem_cons.mp hx with e | e
            · subst e; omega
            · exact hmax x e
    apply Classical.byContradiction
    intro hne
    obtain ⟨w, hw, hmax⟩ := key _ hne
    have : w.id ∈ ((p.startable it).filter
        (fun w => (p.startable it).all (fun x => decide (x.busy ≤ w.busy)))).map (·.id) := by
      refine List.mem_map.mpr ⟨w, List.mem_filter.mpr ⟨hw, ?_⟩, rfl⟩
      simp only [List.all_eq_true, decide_eq_true_eq]
      exact hmax
    rw [h] at this
    cases this
  · intro h; rw [h]; rfl

example : (Pool.startContainer ⟨[⟨1, 1, .idle, .run, [], [], 0, 0, 0⟩], []⟩ 1 7 1).isSome = true := by decide
example : Pool.startCandidates ⟨[⟨1, 1, .idle, .drain, [], [], 0, 0, 0⟩, ⟨2, 1, .booting, .run, [], [], 0, 0, 0⟩,
    ⟨3, 1, .idle, .hold, [], [], 0, 0, 0⟩, ⟨4, 1, .shutdown, .run, [], [], 0, 0, 0⟩], []⟩ 1 = [] := by decide

/-- **`Running()` is a superset of everything tracked.** A container is a key of `Running()`
iff some worker has it in `starting` or `running`, or it has an `exited` entry; its time value
is zero exactly when there is no `exited` entry. -/
theorem C14_running_view (p : Pool) (u : Uuid) :
    ((p.runningView u).isSome ↔
      (∃ w ∈ p.workers, u ∈ w.starting ∨ u ∈ w.running) ∨ (∃ t, (u, t) ∈ p.exited)) ∧
    (u ∈ p.runningKeys ↔ (p.runningView u).isSome) ∧
    (p.runningView u = some none ↔
      (∃ w ∈ p.workers, u ∈ w.starting ∨ u ∈ w.running) ∧ ¬ ∃ t, (u, t) ∈ p.exited) := by
  have hex : (p.exited.find? (fun q => q.1 == u)).isSome ↔ ∃ t, (u, t) ∈ p.exited := by
    rw [List.find?_isSome]
    constructor
    · rintro ⟨⟨a, t⟩, hq, he⟩
      simp only [beq_iff_eq] at he
      exact ⟨t, he ▸ hq⟩
    · rintro ⟨t, ht⟩; exact ⟨(u, t), ht, by simp⟩
  have hany : (p.workers.any (fun w => w.running.contains u || w.starting.contains u)) = true ↔
      ∃ w ∈ p.workers, u ∈ w.starting ∨ u ∈ w.running := by
    simp only [List.any_eq_true, Bool.or_eq_true, List.contains_iff_mem]
    constructor
    · rintro ⟨w, hw, h⟩; exact ⟨w, hw, h.symm⟩
    · rintro ⟨w, hw, h⟩; exact ⟨w, hw, h.symm⟩
  have hview : (p.runningView u).isSome ↔
      (∃ w ∈ p.workers, u ∈ w.starting ∨ u ∈ w.running) ∨ (∃ t, (u, t) ∈ p.exited) := by
    unfold Pool.runningView
    cases hf : p.exited.find? (fun q => q.1 == u) with
    | some q =>
      simp only [Option.isSome_some, true_iff]
      exact Or.inr (hex.mp (by rw [hf]; rfl))
    | none =>
      have hno : ¬ ∃ t, (u, t) ∈ p.exited := fun h => by
        have := hex.mpr h; rw [hf] at this; cases this
      simp only [hno, or_false]
      rw [← hany]
      split <;> simp_all
  refine ⟨hview, ?_, ?_⟩
  · rw [hview]
    simp only [Pool.runningKeys, List.mem_append, List.mem_flatMap, List.mem_map]
    constructor
    · rintro (⟨w, hw, h⟩ | ⟨⟨a, t⟩, hq, he⟩)
      · exact Or.inl ⟨w, hw, h.symm⟩
      · exact Or.inr ⟨t, by simp only at he; exact he ▸ hq⟩
    · rintro (⟨w, hw, h⟩ | ⟨t, ht⟩)
      · exact Or.inl ⟨w, hw, h.symm⟩
      · exact Or.inr ⟨(u, t), ht, rfl⟩
  · unfold Pool.runningView
    cases hf : p.exited.find? (fun q => q.1 == u) with
    | some q =>
      have : ∃ t, (u, t) ∈ p.exited := hex.mp (by rw [hf]; rfl)
      simp [this]
    | none =>
      have hno : ¬ ∃ t, (u, t) ∈ p.exited := fun h => by
        have := hex.mpr h; rw [hf] at this; cases this
      simp only [hno, not_false_eq_true, and_true]
      rw [← hany]
      split <;> simp_all

/-- **A stale probe result is ignored.** If the worker was updated after the probe began (its
`updated` stamp differs from the one the probe read), applying the probe result — to any worker
whatsoever — changes neither
`running` nor `starting` and records no exit — whatever the probe saw. -/
theorem C14_stale_probe_ignored (w : Worker) (p : Probe) (now : Nat)
    (hlt : p.stamp < now) (hstale : p.stamp ≠ w.updated) :
    (w.probeApply p now).1.running = w.running ∧ (w.probeApply p now).1.starting = w.starting ∧
    (w.probeApply p now).2 = [] := by
  apply Worker.probeApply_not_fresh
  cases h : Worker.probeFresh w p now
  · rfl
  · exact absurd (Worker.probeFresh_stamp hlt h).1 hstale

/-- In particular a probe that began before a start completed never removes that container from
`running`: the completion closure (when its runner is still in `starting`) stamps `updated`,
which makes the probe stale. -/
theorem C14_start_completion_not_undone (w : Worker) (u : Uuid) (p : Probe) (t1 t2 : Nat)
    (hu : u ∈ w.starting) (hbegin : p.stamp = w.updated)
    (h1 : w.updated < t1) (h2 : t1 < t2) :
    u ∈ ((w.startDone u t1).probeApply p t2).1.running := by
  have := C14_stale_probe_ignored (w.startDone u t1) p t2 (by omega)
    (by rw [Worker.startDone_updated]; simp [hu]; omega)
  rw [this.1, Worker.startDone_running]
  exact Or.inr ⟨rfl, hu⟩

example : (7 : Uuid) ∈ ((Worker.startDone ⟨1, 1, .running, .run, [7], [], 5, 5, 5⟩ 7 10).probeApply
    ⟨5, true, true, false, [], false, false⟩ 11).1.running := by decide

/-- Fix 18910db: a completion closure whose runner is no longer in `starting` (a probe adopted
it, and possibly closed it again) changes nothing — in particular it cannot put a container back
into `running` of a worker that has gone Idle. -/
theorem C14_late_completion_is_noop (w : Worker) (u : Uuid) (now : Nat) (h : u ∉ w.starting) :
    w.startDone u now = w := Worker.startDone_of_not_mem now h

/-- A fresh, successful probe makes `running` exactly the set the probe reported, and a
container leaves `starting` only by being reported. -/
theorem C14_fresh_probe_applied (w : Worker) (p : Probe) (now : Nat)
    (hidle : w.state = .idle → w.running = [] ∧ w.starting = [])
    (hfresh : Worker.probeFresh w p now = true) (v : Uuid) :
    (v ∈ (w.probeApply p now).1.running ↔ v ∈ p.uuids) ∧
    (v ∈ w.starting → v ∉ p.uuids → v ∈ (w.probeApply p now).1.starting) := by
  obtain ⟨_, h2, _⟩ := Worker.probeApply_spec w p now hidle
  obtain ⟨a, b, _⟩ := h2 hfresh
  exact ⟨a v, fun h1 h2 => (b v).mpr ⟨h1, fun h => absurd h h2⟩⟩

/-- **Every listed container is read.** Whatever the order of the lines of `crunch-run --list`
(in particular wherever "broken" stands), a container is reported running iff it has a line of
its own; "broken" and stale run locks are reported iff such a line exists; a stale line never
counts as running. -/
theorem C14_probe_reads_every_line (ls : List ProbeLine) (u : Uuid) :
    (u ∈ (parseProbe ls).1 ↔ ProbeLine.uuid u ∈ ls) ∧
    ((parseProbe ls).2.1 = true ↔ ProbeLine.broken ∈ ls) ∧
    ((parseProbe ls).2.2 = true ↔ ∃ v, ProbeLine.stale v ∈ ls) := by
  induction ls with
  | nil => simp [parseProbe]
  | cons l rest ih =>
    obtain ⟨i1, i2, i3⟩ := ih
    cases l <;> simp [parseProbe, i1, i2, i3]

example : parseProbe [.broken, .uuid 3, .stale 4, .uuid 5, .empty] = ([3, 5], true, true) := by decide

/-- **A failed instance listing drops nothing.** When `Instances()` returns an error — a
rate-limit error included — `getInstancesAndSync` leaves every worker (and so everything
`Running()` reports) in place; workers are only ever dropped by a `sync` over a list the cloud
actually returned (assumption A2 is about that list). -/
theorem C14_failed_listing_drops_nothing (p : Pool) (retry : Nat → Bool) (th now : Nat) :
    p.getInstancesAndSync .failed retry th now = p := rfl

end ArvVerif.C14
