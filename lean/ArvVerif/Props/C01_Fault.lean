/-
C01 property theorems over mounts with I/O faults on the PUT path (Model/C01_Fault.lean): whatever
block paths refuse `Touch` or `WriteBlock` (any subset, on any mounts), a PUT is acknowledged only for a
body with the right digest that then *is* on a writable mount and is served by the next GET; a PUT that
is not acknowledged changes nothing; the 500 answers are exactly "collision" or "a mount refused the
write"; without faults the model is `handlePut` of Model/C01.lean.
-/
import ArvVerif.Proofs.C01_Fault
import ArvVerif.Proofs.C01_FaultCalm
import ArvVerif.Props.C01
namespace ArvVerif.C01
set_option linter.unusedSectionVars false

section
variable {δ β : Type} [DecidableEq δ] [DecidableEq β]

/-- the exits of `handlePutF` -/
theorem handlePutF_cases (hash : β → δ) (size : β → Nat) (vols : List (FVol δ β)) (rr : Nat) (h : δ)
    (body : β) (cl : Bool) :
    (cl = false ∧ handlePutF hash size vols rr h body cl = ({ status := 411, replicas := none }, vols, rr)) ∨
    (size body > blockSize ∧ handlePutF hash size vols rr h body cl = ({ status := 413, replicas := none }, vols, rr)) ∨
    (writableCountF vols = 0 ∧ handlePutF hash size vols rr h body cl = ({ status := 503, replicas := none }, vols, rr)) ∨
    (cl = true ∧ size body ≤ blockSize ∧ writableCountF vols ≠ 0 ∧
      ((∃ n, (putBlockF hash size vols rr h body).1 = .ok n ∧
          handlePutF hash size vols rr h body cl =
            ({ status := 200, replicas := some n }, (putBlockF hash size vols rr h body).2.1,
              (putBlockF hash size vols rr h body).2.2)) ∨
       ((∀ n, (putBlockF hash size vols rr h body).1 ≠ .ok n) ∧
          handlePutF hash size vols rr h body cl =
            ({ status := putStatus (putBlockF hash size vols rr h body).1, replicas := none },
              (putBlockF hash size vols rr h body).2.1, (putBlockF hash size vols rr h body).2.2)))) := by
  unfold handlePutF
  by_cases hcl : cl = true
  · by_cases hsz : size body > blockSize
    · exact .inr (.inl ⟨hsz, by simp [hcl, hsz]⟩)
    · by_cases hw : writableCountF vols = 0
      · exact .inr (.inr (.inl ⟨hw, by simp [hcl, hsz, hw]⟩))
      · refine .inr (.inr (.inr ⟨hcl, by omega, hw, ?_⟩))
        simp only [hcl, hsz, hw, Bool.not_true, Bool.false_eq_true, if_false]
        cases ho : (putBlockF hash size vols rr h body).1 with
        | ok n => exact .inl ⟨n, rfl, rfl⟩
        | requestHash => exact .inr ⟨(by intro n hn; cases hn), rfl⟩
        | collision => exact .inr ⟨(by intro n hn; cases hn), rfl⟩
        | full => exact .inr ⟨(by intro n hn; cases hn), rfl⟩
        | generic => exact .inr ⟨(by intro n hn; cases hn), rfl⟩
  · have hcl' : cl = false := by simpa using hcl
    exact .inl ⟨hcl', by simp [hcl']⟩

theorem putStatus_ne_200 (o : PutOutcome) (hno : ∀ n, o ≠ .ok n) : putStatus o ≠ 200 := by
  cases o with
  | ok n => exact absurd rfl (hno n)
  | requestHash => decide
  | collision => decide
  | full => decide
  | generic => decide

/-- **Acknowledged PUT under I/O faults**: 200 ⇒ the body has the requested digest, fits, sits under `h`
on a writable mount afterwards, and a GET over the resulting mounts is 200 with an intact body (the PUT
body under `NoColl`) — whichever block paths refused `Touch`/`WriteBlock` on the way. -/
theorem C01_fault_put_ack (hash : β → δ) (size : β → Nat) (vols : List (FVol δ β)) (rr : Nat) (h : δ)
    (body : β) (cl : Bool) (h200 : (handlePutF hash size vols rr h body cl).1.status = 200) :
    hash body = h ∧ size body ≤ blockSize ∧
    (∃ v' ∈ (handlePutF hash size vols rr h body cl).2.1, v'.vol.ro = false ∧ v'.vol.files h = some body) ∧
    ∃ b', (handleGet hash size ((handlePutF hash size vols rr h body cl).2.1.map (·.vol)) h).status = 200 ∧
      (handleGet hash size ((handlePutF hash size vols rr h body cl).2.1.map (·.vol)) h).body = some b' ∧
      (handleGet hash size ((handlePutF hash size vols rr h body cl).2.1.map (·.vol)) h).contentLength = some (size b') ∧
      hash b' = h ∧ (NoColl hash h body → b' = body) := by
  rcases handlePutF_cases hash size vols rr h body cl with ⟨_, he⟩ | ⟨_, he⟩ | ⟨_, he⟩ | ⟨_, hsz, _, hc⟩
  · rw [he] at h200; simp at h200
  · rw [he] at h200; simp at h200
  · rw [he] at h200; simp at h200
  · rcases hc with ⟨n, hok, he⟩ | ⟨hno, he⟩
    · have hh := putBlockF_ok_hash hash size vols rr h body n hok
      have hst := (putBlockF_spec hash size vols rr h body).stored n hok
      rw [he]
      refine ⟨hh, hsz, hst, ?_⟩
      rcases hst with ⟨v', hv', _, hf⟩
      exact C01_get_skips_corrupt hash size _ h body
        ⟨v'.vol, List.mem_map.mpr ⟨v', hv', rfl⟩, hf⟩ ⟨hh, hsz⟩
    · rw [he] at h200
      exact absurd h200 (putStatus_ne_200 _ hno)

/-- **Frame under faults**: a PUT changes a mount not at all, or — only if it is writable, not full and
its block path takes the write — only the file under `h`, to `body`; fault flags never change. -/
theorem C01_fault_put_frame (hash : β → δ) (size : β → Nat) (vols : List (FVol δ β)) (rr : Nat) (h : δ)
    (body : β) (cl : Bool) :
    Pointwise (FrameF h body) vols (handlePutF hash size vols rr h body cl).2.1 := by
  rcases handlePutF_cases hash size vols rr h body cl with ⟨_, he⟩ | ⟨_, he⟩ | ⟨_, he⟩ | ⟨_, _, _, hc⟩
  · rw [he]; exact frameF_refl h body vols
  · rw [he]; exact frameF_refl h body vols
  · rw [he]; exact frameF_refl h body vols
  · rcases hc with ⟨n, _, he⟩ | ⟨_, he⟩ <;> (rw [he]; exact (putBlockF_spec hash size vols rr h body).frame)

/-- A PUT that is not acknowledged changes nothing (a refused write leaves the block path as it was:
the temp file is removed). -/
theorem C01_fault_put_error_no_change (hash : β → δ) (size : β → Nat) (vols : List (FVol δ β)) (rr : Nat)
    (h : δ) (body : β) (cl : Bool) (hne : (handlePutF hash size vols rr h body cl).1.status ≠ 200) :
    (handlePutF hash size vols rr h body cl).2.1 = vols := by
  rcases handlePutF_cases hash size vols rr h body cl with ⟨_, he⟩ | ⟨_, he⟩ | ⟨_, he⟩ | ⟨_, _, _, hc⟩
  · rw [he]
  · rw [he]
  · rw [he]
  · rcases hc with ⟨n, _, he⟩ | ⟨hno, he⟩
    · rw [he] at hne; simp at hne
    · rw [he]; exact (putBlockF_spec hash size vols rr h body).unchanged hno

/-- **What a 500 means**: the digest was right, nothing changed, and either a writable mount holds a
colliding block under `h` (CollisionError), or the block was written nowhere and some writable, non-full
mount refused the write (GenericError: the `default:` branch of `PutBlock`'s loop). -/
theorem C01_fault_put_500 (hash : β → δ) (size : β → Nat) (vols : List (FVol δ β)) (rr : Nat)
    (h : δ) (body : β) (cl : Bool) (h500 : (handlePutF hash size vols rr h body cl).1.status = 500) :
    hash body = h ∧ (handlePutF hash size vols rr h body cl).2.1 = vols ∧
    ((∃ v ∈ vols, v.vol.ro = false ∧ ∃ f, v.vol.files h = some f ∧ f ≠ body ∧ hash f = h) ∨
     (∃ v ∈ vols, v.vol.ro = false ∧ v.vol.full = false ∧ v.noWrite h = true)) := by
  have hunch := C01_fault_put_error_no_change hash size vols rr h body cl (by rw [h500]; decide)
  rcases handlePutF_cases hash size vols rr h body cl with ⟨_, he⟩ | ⟨_, he⟩ | ⟨_, he⟩ | ⟨_, _, _, hc⟩
  · rw [he] at h500; simp at h500
  · rw [he] at h500; simp at h500
  · rw [he] at h500; simp at h500
  · rcases hc with ⟨n, _, he⟩ | ⟨_, he⟩
    · rw [he] at h500; simp at h500
    · rw [he] at h500
      simp only at h500
      have hspec := putBlockF_spec hash size vols rr h body
      cases ho : (putBlockF hash size vols rr h body).1 with
      | ok n => rw [ho] at h500; simp [putStatus] at h500
      | requestHash => rw [ho] at h500; simp [putStatus] at h500
      | full => rw [ho] at h500; simp [putStatus] at h500
      | collision =>
        refine ⟨?_, hunch, .inl (putBlockF_collision hash size vols rr h body ho)⟩
        unfold putBlockF at ho
        by_cases hh : hash body = h
        · exact hh
        · simp [hh] at ho
      | generic =>
        refine ⟨?_, hunch, .inr (hspec.generic ho)⟩
        unfold putBlockF at ho
        by_cases hh : hash body = h
        · exact hh
        · simp [hh] at ho

/-- Without write faults on the block path of `h` a PUT answers 500 only for a collision. -/
theorem C01_fault_no_generic_without_write_fault (hash : β → δ) (size : β → Nat) (vols : List (FVol δ β))
    (rr : Nat) (h : δ) (body : β) (cl : Bool) (hnw : ∀ v ∈ vols, v.noWrite h = false)
    (h500 : (handlePutF hash size vols rr h body cl).1.status = 500) :
    ∃ v ∈ vols, v.vol.ro = false ∧ ∃ f, v.vol.files h = some f ∧ f ≠ body ∧ hash f = h := by
  rcases (C01_fault_put_500 hash size vols rr h body cl h500).2.2 with hc | ⟨v, hv, _, _, hf⟩
  · exact hc
  · rw [hnw v hv] at hf; cases hf

/-- **Conservative extension**: on mounts without faults `handlePutF` is `handlePut` of Model/C01.lean
(same response, same resulting mounts, same round-robin counter). -/
theorem C01_fault_calm (hash : β → δ) (size : β → Nat) (vols : List (Vol δ β)) (rr : Nat) (h : δ) (body : β)
    (cl : Bool) :
    handlePutF hash size (vols.map FVol.calm) rr h body cl =
      ((handlePut hash size vols rr h body cl).1, (handlePut hash size vols rr h body cl).2.1.map FVol.calm,
        (handlePut hash size vols rr h body cl).2.2) := by
  unfold handlePutF handlePut
  rw [writableCountF_calm, putBlockF_calm]
  by_cases hcl : cl = true
  · by_cases hsz : size body > blockSize
    · simp [hcl, hsz]
    · by_cases hw : (allWritable vols).length = 0
      · simp [hcl, hsz, hw]
      · simp only [hcl, hsz, hw, Bool.not_true, Bool.false_eq_true, if_false, liftRes]
        cases (putBlock hash size vols rr h body).1 <;> rfl
  · have hcl' : cl = false := by simpa using hcl
    simp [hcl']

end

/-! ## Non-vacuity -/
section Examples

/-- an intact copy of [1,2,3] under 6 that can neither be touched nor replaced (immutable file) -/
def fxStuck : FVol Nat (List Nat) :=
  { vol := ⟨false, false, 1, fun k => if k = 6 then some [1, 2, 3] else none⟩,
    noTouch := fun k => k = 6, noWrite := fun k => k = 6 }
/-- a corrupt copy under 6 whose block path refuses the write (a directory in the way of the rename) -/
def fxJammed : FVol Nat (List Nat) :=
  { vol := ⟨false, false, 1, fun k => if k = 6 then some [1, 2, 4] else none⟩,
    noTouch := fun _ => false, noWrite := fun k => k = 6 }
def fxFree : FVol Nat (List Nat) := FVol.calm ⟨false, false, 2, fun _ => none⟩

-- the only writable mount refuses Touch and write: 500 (GenericError), nothing acknowledged
example : (handlePutF exHash List.length [fxStuck] 0 6 [1, 2, 3] true).1.status = 500 := by decide
-- hypothesis of C01_fault_put_500's second alternative is what happened
example : ∃ v ∈ [fxStuck], v.vol.ro = false ∧ v.vol.full = false ∧ v.noWrite 6 = true := ⟨fxStuck, by simp, by decide⟩
-- with a second mount the block lands there: acknowledged with that mount's replication
example : (handlePutF exHash List.length [fxStuck, fxFree] 0 6 [1, 2, 3] true).1 = ⟨200, some 2⟩ := by decide
example : (handlePutF exHash List.length [fxFree, fxStuck] 0 6 [1, 2, 3] true).1 = ⟨200, some 2⟩ := by decide
-- a corrupt copy that cannot be replaced stays; the block goes to the other mount and GET serves it
example : (handlePutF exHash List.length [fxJammed, fxFree] 1 6 [1, 2, 3] true).1.status = 200 := by decide
example : (handleGet exHash List.length
    ((handlePutF exHash List.length [fxJammed, fxFree] 1 6 [1, 2, 3] true).2.1.map (·.vol)) 6).body = some [1, 2, 3] := by
  decide
-- touch refused but the write goes through on the same mount (file not writable, directory is)
example : (handlePutF exHash List.length [{ fxStuck with noWrite := fun _ => false }] 0 6 [1, 2, 3] true).1.status = 200 := by
  decide

end Examples

end ArvVerif.C01
