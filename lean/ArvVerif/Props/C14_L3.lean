/-
C14 layer L3: the protocol invariant. Mutual exclusion of executions for every reachable state of
the transition system of Model/C14_Proto.lean — any number of containers and instances, any
interleaving of scheduler calls, probes, start commands, process exits, instance lifecycle events
and dispatcher restarts — under the environment assumptions A1, A2 written into the guards of
`Step` (see the header of Model/C14_Proto.lean).
-/
import ArvVerif.Proofs.C14_L3b
import ArvVerif.Proofs.C14_L3q
namespace ArvVerif.C14

/-- **Mutual exclusion.** In every reachable state a container has live crunch-run processes on
at most one instance. -/
theorem C14_mutual_exclusion (s : PState) (h : Reach s) (c : Uuid) (i j : Nat)
    (hi : c ∈ s.procs i) (hj : c ∈ s.procs j) : i = j :=
  (Inv_reach h).m1 c i j hi hj

/-- … and while it has one, no start command for it is pending on any worker; at most one start
command per container is pending at any time. -/
theorem C14_no_pending_start_while_running (s : PState) (h : Reach s) (c : Uuid) (i j : Nat) :
    (c ∈ s.procs i → s.out j ≠ some (c, false)) ∧
    (s.out i = some (c, false) → s.out j = some (c, false) → i = j) :=
  ⟨(Inv_reach h).m2 c i j, (Inv_reach h).m3 c i j⟩

/-- In every state in which the scheduler's `StartContainer(c)` can be accepted (its previous call
was `KillContainer(c) = false`, the guard of `Step.schedStart`), `c` has no process on any
instance and no other start of `c` is pending. -/
theorem C14_start_only_when_free (s : PState) (h : Reach s) (c : Uuid)
    (h2 : s.lastKillFalse = some c) :
    (∀ j, c ∉ s.procs j) ∧ (∀ j, s.out j ≠ some (c, false)) :=
  (Inv_reach h).kf c h2

/-- On every instance the pool has probed since the last restart, each live process is in its
worker's `starting` or `running` map (design invariant I1), so `Running()` reports it. -/
theorem C14_processes_tracked (s : PState) (h : Reach s) (i : Nat) (c : Uuid)
    (hp : s.probed i = true) (hc : c ∈ s.procs i) : s.claims i c :=
  (Inv_reach h).tracked i c hp hc

/-- Containers are started only on workers that are Idle with idle behaviour Run (never held,
draining, booting, unknown or shut down): every step that adds a container to a worker's
`starting` map is a `schedStart` on such a worker. -/
theorem C14_start_on_idle_run_only (s t : PState) (st : Step s t) (i : Nat) (c : Uuid)
    (w w' : Worker) (hw : s.wk i = some w) (hw' : t.wk i = some w')
    (hnew : c ∈ w'.starting) (hold : c ∉ w.starting) :
    w.state = .idle ∧ w.idleB = .run ∧ s.lastKillFalse = some c := by
  cases st with
  | schedStart i' c' w0 h1 h2 h3 h4 h5 =>
    have a1 := Worker.accept_starting w0 c'
    simp only [upd_eq] at hw'
    grind
  | probeDone i' w0 p smp h1 h2 h3 =>
    have hsub : ∀ v, v ∈ (w0.probeApply p (s.clock + 1)).1.starting → v ∈ w0.starting := by
      intro v hv
      unfold Worker.probeApply at hv
      dsimp only at hv
      obtain ⟨_, d2, _⟩ := Worker.drainStep_spec w0 p (s.clock + 1)
      split at hv
      · obtain ⟨_, f2, _⟩ := Worker.applyFailed_spec (w0.drainStep p (s.clock + 1)) p (s.clock + 1)
        rw [f2, d2] at hv; exact hv
      · split at hv
        · rw [← d2]; exact hv
        · have := (Worker.applyFresh_spec_starting _ p (s.clock + 1) v).mp hv
          rw [← d2]; exact this.1
    simp only [upd_eq] at hw'
    grind
  | startDone i' c' w0 h1 h2 =>
    have a1 := fun v => Worker.startDone_starting w0 c' v (s.clock + 1)
    simp only [upd_eq] at hw'
    grind
  | killed i' c' w0 h1 h2 =>
    obtain ⟨_, c2, _⟩ := Worker.closeRunner_spec w0 c' (s.clock + 1)
    simp only [upd_eq] at hw'
    grind
  | setIdle i' w0 b t g h1 =>
    obtain ⟨_, a2, _⟩ := Worker.setIdleBehavior_spec w0 b t g (s.clock + 1)
    simp only [upd_eq] at hw'
    grind
  | shutdown i' w0 h1 =>
    have a1 := Worker.shutdown_starting w0 (s.clock + 1)
    simp only [upd_eq] at hw'
    grind
  | poolAdd i' st ib it h1 h2 => simp only [upd_eq] at hw'; grind
  | poolTouch i' w0 h1 => simp only [upd_eq] at hw'; grind
  | poolRemove i' h1 => simp only [upd_eq] at hw'; grind
  | restart => simp at hw'
  | _ => simp only at hw'; grind

/-! ### non-vacuity: a reachable state in which a container runs, started by the scheduler -/

example : ∃ s, Reach s ∧ (7 : Uuid) ∈ s.procs 1 ∧ s.phase = .scheduling := by
  have r0 := Reach.init
  have r1 := Reach.step r0 (Step.recoveryDone _ rfl (by intro i _; rfl))
  have r2 := Reach.step r1 (Step.instCreate _ 1 rfl rfl rfl rfl)
  have r3 := Reach.step r2 (Step.poolAdd _ 1 .booting .run 1 rfl (Or.inr rfl))
  have r4 := Reach.step r3 (Step.probeBegin _ 1 _ rfl rfl (by decide))
  have r5 := Reach.step r4 (Step.probeSample _ 1 _ rfl rfl)
  have r6 := Reach.step r5 (Step.probeDone _ 1 _
    ⟨1, true, true, false, [], false, false⟩ (some []) rfl rfl (fun _ => rfl))
  have r7 := Reach.step r6 (Step.schedKillFalse _ 7 rfl (by
    rintro i ⟨w, hw, hc⟩
    by_cases hi : i = 1
    · subst hi
      simp only [upd_same, Option.some.injEq] at hw
      subst hw
      revert hc; decide
    · simp [upd, hi, PState.init] at hw))
  have r8 := Reach.step r7 (Step.schedStart _ 1 7 _ rfl rfl rfl (by decide) (by decide))
  have r9 := Reach.step r8 (Step.startExec _ 1 7 true rfl)
  exact ⟨_, r9, by decide, rfl⟩

/-- **Snapshot check is sound.** Whatever set of instances a snapshot covers, a reachable model
state passes `snapOK`: Idle workers track nothing, every process on an Idle/Running worker's
instance is in its `starting` or `running` map, and no container has processes on two instances.
(The e2e driver evaluates `snapOK` on snapshots of the real pool + stub cloud.) -/
theorem C14_snapshot_check_sound (s : PState) (h : Reach s) (dom : List Nat) :
    snapOK (s.snap dom) = true := by
  have inv := Inv_reach h
  unfold snapOK PState.snap
  simp only [Bool.and_eq_true, List.all_eq_true, List.mem_filterMap, Option.map_eq_some_iff]
  constructor
  · rintro w ⟨i, _, wk, hwk, rfl⟩
    unfold SnapW.ok
    simp only [Bool.and_eq_true, Bool.or_eq_true, bne_iff_ne, ne_eq, List.isEmpty_iff,
      Bool.not_eq_eq_eq_not, Bool.not_true, List.all_eq_true, List.contains_iff_mem]
    constructor
    · by_cases hi : wk.state = .idle
      · have := inv.idleEmpty i wk hwk hi
        exact Or.inr ⟨this.2, this.1⟩
      · exact Or.inl hi
    · by_cases ha : wk.state = .idle ∨ wk.state = .running
      · right
        intro c hc
        have hp := inv.activeProbed i wk hwk ha
        obtain ⟨w', hw', hcl⟩ := inv.tracked i c hp hc
        rw [hwk] at hw'; cases hw'
        exact hcl
      · left
        cases hst : wk.state <;> simp_all
  · rintro a ⟨i, _, wa, hwa, rfl⟩ b ⟨j, _, wb, hwb, rfl⟩
    simp only [Bool.or_eq_true, beq_iff_eq, List.all_eq_true, Bool.not_eq_eq_eq_not, Bool.not_true]
    by_cases hij : i = j
    · exact Or.inl hij
    · refine Or.inr (fun c hc => ?_)
      cases hcc : (s.procs j).contains c
      · rfl
      · exact absurd (inv.m1 c i j hc (by simpa using hcc)) hij

example : snapOK [⟨1, .running, [], [7], [7]⟩, ⟨2, .idle, [], [], []⟩, ⟨3, .unknown, [], [], [9]⟩] = true := by decide
example : snapOK [⟨1, .running, [], [7], [7]⟩, ⟨2, .running, [7], [], [7]⟩] = false := by decide

/-! ### A1 is necessary: the escape hatch of `fixStaleLocks` (finding F11)

`fixStaleLocks` may finish while an instance that still runs a container has not been probed:
on its timeout, when such an instance is shut down as unresponsive while still Unknown, or at
once when no *Locked* container is missing from `Running()` (e.g. the surviving process belongs
to a container that was unlocked before the restart). `StepU` adds that step without the A1
guard; mutual exclusion then fails. -/

inductive StepU : PState → PState → Prop where
  | base {s t : PState} : Step s t → StepU s t
  /-- `fixStaleLocks` returns although an unprobed instance may still run containers -/
  | giveUp (s : PState) (h1 : s.phase = .recovering) : StepU s { s with phase := .scheduling }

inductive ReachU : PState → Prop where
  | init : ReachU PState.init
  | step {s t : PState} : ReachU s → StepU s t → ReachU t

/-- Mutual exclusion without assumption A1. -/
def C14_mutual_exclusion_Full : Prop :=
  ∀ s, ReachU s → ∀ (c : Uuid) (i j : Nat), c ∈ s.procs i → c ∈ s.procs j → i = j

/-- It is false: container 7 runs on instance 1, the dispatcher restarts and gives up waiting
before instance 1 has been probed, locks (not modelled) and starts 7 on the new instance 2. -/
theorem C14_mutual_exclusion_full_fails : ¬ C14_mutual_exclusion_Full := by
  intro hfull
  have r0 := ReachU.init
  have r1 := ReachU.step r0 (.base (Step.recoveryDone _ rfl (by intro i _; rfl)))
  have r2 := ReachU.step r1 (.base (Step.instCreate _ 1 rfl rfl rfl rfl))
  have r3 := ReachU.step r2 (.base (Step.poolAdd _ 1 .booting .run 1 rfl (Or.inr rfl)))
  have r4 := ReachU.step r3 (.base (Step.probeBegin _ 1 _ rfl rfl (by decide)))
  have r5 := ReachU.step r4 (.base (Step.probeSample _ 1 _ rfl rfl))
  have r6 := ReachU.step r5 (.base (Step.probeDone _ 1 _
    ⟨1, true, true, false, [], false, false⟩ (some []) rfl rfl (fun _ => rfl)))
  have r7 := ReachU.step r6 (.base (Step.schedKillFalse _ 7 rfl (by
    rintro i ⟨w, hw, hc⟩
    by_cases hi : i = 1
    · subst hi
      simp only [upd_same, Option.some.injEq] at hw
      subst hw
      revert hc; decide
    · simp [upd, hi, PState.init] at hw)))
  have r8 := ReachU.step r7 (.base (Step.schedStart _ 1 7 _ rfl rfl rfl (by decide) (by decide)))
  have r9 := ReachU.step r8 (.base (Step.startExec _ 1 7 true rfl))
  -- the dispatcher dies; the new one gives up before instance 1 is probed
  have r10 := ReachU.step r9 (.base (Step.restart _))
  have r11 := ReachU.step r10 (.giveUp _ rfl)
  have r12 := ReachU.step r11 (.base (Step.instCreate _ 2 rfl rfl rfl rfl))
  have r13 := ReachU.step r12 (.base (Step.poolAdd _ 2 .booting .run 1 rfl (Or.inr rfl)))
  have r14 := ReachU.step r13 (.base (Step.probeBegin _ 2 _ rfl rfl (by decide)))
  have r15 := ReachU.step r14 (.base (Step.probeSample _ 2 _ rfl rfl))
  have r16 := ReachU.step r15 (.base (Step.probeDone _ 2 _
    ⟨3, true, true, false, [], false, false⟩ (some []) rfl rfl (fun _ => rfl)))
  have r17 := ReachU.step r16 (.base (Step.schedKillFalse _ 7 rfl (by
    rintro i ⟨w, hw, hc⟩
    by_cases hi : i = 2
    · subst hi
      simp only [upd_same, Option.some.injEq] at hw
      subst hw
      revert hc; decide
    · simp [upd, hi] at hw)))
  have r18 := ReachU.step r17 (.base (Step.schedStart _ 2 7 _ rfl rfl rfl (by decide) (by decide)))
  have r19 := ReachU.step r18 (.base (Step.startExec _ 2 7 true rfl))
  have := hfull _ r19 7 1 2 (by decide) (by decide)
  cases this

/-- `C14_mutual_exclusion` above is the partial theorem: it holds for `Reach`, whose
`recoveryDone` step carries A1 as its guard. Every `Reach`able state is `ReachU`able. -/
theorem C14_reach_sub (s : PState) (h : Reach s) : ReachU s := by
  induction h with
  | init => exact ReachU.init
  | step _ st ih => exact ReachU.step ih (.base st)

/-! ### the queue cache: finished and re-queued containers -/

/-- Once the dispatcher's queue shows a container as Complete or Cancelled it never shows it as
anything else again (it stays finished or is dropped) … -/
theorem C14_finished_stays_finished (s t : QState) (hs : QReach s) (h : QReachFrom s t) (c : Uuid)
    (st : CState) (hc : s.cache c = some st) (hf : st.final = true) :
    t.cache c = none ∨ ∃ st', t.cache c = some st' ∧ st'.final = true := by
  have hinv := QInv_reachFrom QInv_init hs
  have key : QInv t ∧ (s.api c).final = true ∧ (t.api c).final = true ∧
      (t.cache c = none ∨ ∃ st', t.cache c = some st' ∧ st'.final = true) ∧
      (t.polling = true → ∀ x, t.snap c = some x → ¬ t.dont c = true → x.final = true) := by
    induction h with
    | refl =>
      refine ⟨hinv, hinv.q1 c st hc hf, hinv.q1 c st hc hf, Or.inr ⟨st, hc, hf⟩, ?_⟩
      intro hp x hx hd
      exact hinv.q2 c x st hp hx (by simpa using hd) hc hf
    | @step t1 u1 ev hr stp ih =>
      obtain ⟨i1, i2, i3, i4, i5⟩ := ih
      have i1' := QInv_step i1 stp
      refine ⟨i1', i2, ?_, ?_, ?_⟩
      · cases stp <;> (try simp only [qupd_eq, QState.localUpdate]) <;> grind [final_iff]
      · cases stp with
        | pollEnd hp =>
          show (if t1.dont c = true then t1.cache c else t1.snap c) = none ∨
            ∃ st', (if t1.dont c = true then t1.cache c else t1.snap c) = some st' ∧ st'.final = true
          by_cases hd : t1.dont c = true
          · simp only [hd, if_true]; exact i4
          · simp only [hd]
            cases hsn : t1.snap c with
            | none => exact Or.inl rfl
            | some x => exact Or.inr ⟨x, rfl, i5 hp x hsn hd⟩
        | _ => (try simp only [qupd_eq, QState.localUpdate]) <;> grind [final_iff]
      · cases stp <;> (try simp only [qupd_eq, QState.localUpdate]) <;> grind [final_iff, QInv]
  exact key.2.2.2.1

/-- **No restart of a finished container.** … hence no later scheduler pass ever starts it. -/
theorem C14_no_restart_of_finished (s t u : QState) (hs : QReach s) (h : QReachFrom s t) (c : Uuid)
    (st : CState) (hc : s.cache c = some st) (hf : st.final = true) :
    ¬ QStep t (.start c) u := by
  intro hstep
  cases hstep with
  | start _ hl =>
    rcases C14_finished_stays_finished s t hs h c st hc hf with h0 | ⟨st', h1, h2⟩
    · rw [h0] at hl; cases hl
    · rw [h1] at hl; cases hl; cases h2

/-- **Started only while Locked.** Whenever `StartContainer(c)` happens the queue shows `c` as
Locked, and the API record is not Queued: a container that was unlocked / re-queued (by
`requeue`, the over-quota unlock or `fixStaleLocks`) is started again only after a successful
`Lock` by this dispatcher, because nothing else moves an API record from Queued to Locked. -/
theorem C14_start_requires_lock (s t : QState) (hs : QReach s) (c : Uuid) (h : QStep s (.start c) t) :
    s.cache c = some .locked ∧ s.api c ≠ .queued ∧ s.api c ≠ .other := by
  cases h with
  | start _ hl => exact ⟨hl, (QInv_reachFrom QInv_init hs).q3 c hl⟩

/-- … and only the dispatcher's own `Lock` makes a Queued record Locked. -/
theorem C14_only_lock_locks (s t : QState) (ev : QEv) (c : Uuid) (h : QStep s ev t)
    (h1 : s.api c = .queued) (h2 : t.api c = .locked) : ev = .lock c := by
  cases h <;> (try simp only [qupd_eq, QState.localUpdate] at h2) <;> grind

example : ∃ s t, QReach s ∧ QStep s (.start 3) t := by
  have r0 : QReach QState.init := QReachFrom.refl
  have r1 := QReachFrom.step r0 (QStep.apiSubmit _ 3 rfl rfl)
  have r2 := QReachFrom.step r1 (QStep.pollBegin _ rfl)
  have r3 := QReachFrom.step r2 (QStep.pollRead _ 3 rfl)
  have r4 := QReachFrom.step r3 (QStep.pollEnd _ rfl)
  have r5 := QReachFrom.step r4 (QStep.lockOk _ 3 (by decide))
  exact ⟨_, _, r5, QStep.start _ 3 (by decide)⟩

end ArvVerif.C14
