/-
C14: the L2 pool model refines the pool part of the L3 protocol state.

L3 keeps the workers as a function `wk : instance id → Option Worker`; L2 keeps them as the list
`Pool.workers` with distinct ids. For a reachable pool `p` and an L3 state whose `wk` is `p.find`,
* `KillContainer(c) = false` in L2 is exactly the guard of `Step.schedKillFalse` (no worker
  claims `c`), and `= true` the guard of `Step.schedKillTrue`;
* a successful `StartContainer(it, u)` in L2, made directly after `KillContainer(u) = false`
  (which is what L1 `C14_start_only_locked` proves about a pass), *is* `Step.schedStart`: the
  chosen worker is Idle in run mode and the new pool is the L3 successor state.
So the guards of the L3 scheduler steps are no longer taken "by construction" from L1/L2: the
link is these theorems.
-/
import ArvVerif.Model.C14_Proto
import ArvVerif.Props.C14_Compose
namespace ArvVerif.C14

theorem find?_put_list (w : Worker) (j : Nat) : ∀ (l : List Worker),
    (l.map (fun x => if x.id == w.id then w else x)).find? (fun x => x.id == j) =
      if j = w.id then (l.find? (fun x => x.id == j)).map (fun _ => w) else l.find? (fun x => x.id == j)
  | [] => by simp
  | x :: rest => by
    have ih := find?_put_list w j rest
    simp only [List.map_cons, List.find?_cons]
    by_cases hx : x.id = w.id
    · simp only [hx, beq_self_eq_true, if_true]
      by_cases hj : j = w.id
      · subst hj; simp
      · have : (w.id == j) = false := by simpa using fun e => hj e.symm
        simp only [this, hj, if_false]
        simpa [hj] using ih
    · have hxw : (x.id == w.id) = false := by simpa using hx
      simp only [hxw, Bool.false_eq_true, if_false]
      by_cases hxj : x.id = j
      · have : j ≠ w.id := fun e => hx (hxj.trans e)
        simp [hxj, this]
      · have : (x.id == j) = false := by simpa using hxj
        simp only [this]
        exact ih

theorem Pool.find_put (p : Pool) (w : Worker) (j : Nat) :
    (p.put w).find j = if j = w.id then (p.find j).map (fun _ => w) else p.find j :=
  find?_put_list w j p.workers

theorem Pool.mem_of_find {p : Pool} {i : Nat} {w : Worker} (h : p.find i = some w) : w ∈ p.workers ∧ w.id = i := by
  unfold Pool.find at h
  have h1 := List.mem_of_find?_eq_some h
  have h2 := List.find?_some h
  exact ⟨h1, by simpa using h2⟩

/-- **`KillContainer` answers false iff no worker claims the container** — the guard of
`Step.schedKillFalse` / `Step.schedKillTrue`, read off the L2 pool. -/
theorem C14_L2_kill_is_L3_guard (p : Pool) (hwf : p.WF) (s : PState) (hwk : s.wk = p.find) (c : Uuid) :
    p.killContainer c = false ↔ ∀ i, ¬ s.claims i c := by
  unfold Pool.killContainer PState.claims
  rw [hwk]
  constructor
  · intro h i ⟨w, hw, hc⟩
    obtain ⟨hm, _⟩ := Pool.mem_of_find hw
    have : (p.workers.any fun w => w.running.contains c || w.starting.contains c) = true :=
      List.any_eq_true.mpr ⟨w, hm, by simpa using hc⟩
    rw [h] at this; cases this
  · intro h
    cases hb : (p.workers.any fun w => w.running.contains c || w.starting.contains c)
    · rfl
    · obtain ⟨w, hm, hc⟩ := List.any_eq_true.mp hb
      exact absurd ⟨w, Pool.find_of_mem hwf hm, by simpa using hc⟩ (h w.id)

/-- `KillContainer(c)` of the L2 pool as an L3 step. -/
theorem C14_L2_kill_is_L3_step (p : Pool) (hr : p.Reachable) (s : PState) (hwk : s.wk = p.find)
    (hph : s.phase = .scheduling) (c : Uuid) :
    Step s { s with lastKillFalse := if p.killContainer c then none else some c } := by
  have hwf := Pool.WF_of_reachable hr
  cases hk : p.killContainer c
  · exact Step.schedKillFalse s c hph ((C14_L2_kill_is_L3_guard p hwf s hwk c).mp hk)
  · have : ∃ i, s.claims i c := by
      apply Classical.byContradiction
      intro hn
      have := (C14_L2_kill_is_L3_guard p hwf s hwk c).mpr (fun i hi => hn ⟨i, hi⟩)
      rw [hk] at this; cases this
    exact Step.schedKillTrue s c hph this

/-- **L2 `StartContainer` is L3 `schedStart`.** On a reachable pool, a `StartContainer(it, u)` that
succeeds directly after `KillContainer(u) = false` is a step of the protocol model: the chosen
worker is Idle in run mode, and the new pool is the successor state's `wk`. -/
theorem C14_L2_start_is_L3_step (p p' : Pool) (hr : p.Reachable) (s : PState) (hwk : s.wk = p.find)
    (hph : s.phase = .scheduling) (it : IType) (u : Uuid) (wid : Nat) (hk : s.lastKillFalse = some u)
    (h : p.startContainer it u wid = some p') :
    Step s { s with wk := p'.find, out := upd s.out wid (some (u, false)), lastKillFalse := none } := by
  obtain ⟨w, hm, hid, _, hidle, hrun, _, hp', _, _⟩ :=
    C14_start_needs_idle_run_reachable p p' hr it u wid h
  have hwf := Pool.WF_of_reachable hr
  have hfind : s.wk wid = some w := by rw [hwk, ← hid]; exact Pool.find_of_mem hwf hm
  have hfun : p'.find = upd s.wk wid (some (w.accept u)) := by
    funext j
    rw [hp', Pool.find_put]
    have hacc : (w.accept u).id = wid := hid
    rw [hacc]
    by_cases hj : j = wid
    · subst hj
      rw [if_pos rfl, upd_same, ← hwk, hfind]; rfl
    · rw [if_neg hj, upd_ne _ _ hj, hwk]
  rw [hfun]
  exact Step.schedStart s wid u w hph hk hfind hidle hrun

/-- Together with L1: in a pass, `StartContainer(t, u)` comes directly after `KillContainer(u)`
answering false (`C14_start_only_locked`), so the hypothesis `lastKillFalse = some u` above is
what the pass establishes. Stated here on the call list for reference. -/
theorem C14_L1_start_follows_kill_false (entries sorted : List Ent) (hord : IsPriorityOrder entries sorted)
    (running : Uuid → Bool) (un : Unalloc) (script : List Bool) (t : IType) (u : Uuid) (a : Bool)
    (h : Call.start t u a ∈ runQueue sorted running un script) :
    ∃ pre post, runQueue sorted running un script = pre ++ [.kill u false, .start t u a] ++ post :=
  (C14_start_only_locked entries sorted hord running un script t u a h).2

/-- non-vacuity: a reachable pool on which `StartContainer` succeeds -/
example : ∃ p, Pool.Reachable p ∧ (p.startContainer 1 7 1).isSome = true :=
  ⟨(Pool.empty.apply (.sync 0 [⟨1, 1, none, false⟩] (fun _ => false) 5)).apply
      (.probeApply 1 ⟨5, true, true, false, [], false, false⟩ 6), .step _ (.step _ .init), by decide⟩

end ArvVerif.C14
