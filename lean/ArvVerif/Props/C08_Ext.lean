/-
C08 — a collection filesystem behaves like an ordinary in-memory filesystem.
Property theorems of the EXTENSION LAYER (`Model/C08_Ext.lean`): paged `Readdir(count > 0)`,
`collectionFileSystem.Size()`, `MemorySize()`, and the spare capacity of memSegment buffers.

`stepX (concImpl hash max) memOf` is the model of the code, `stepX specImpl (fun _ => 0)` the plain
model; both keep the `unreaddirs` snapshot of every handle slot; `absX` maps one to the other.
-/
import ArvVerif.Props.C08_History
import ArvVerif.Proofs.C08_Ext
namespace ArvVerif.C08

variable {max : Nat} {hash : Bytes → Loc}

abbrev CXFS := XFS FileNode Ptr Store

def absX (x : CXFS) : XFS Bytes Nat Unit := ⟨absFS x.fs, x.unread⟩

/-- Operations whose outputs must be identical in the two models: as `Op.det`; `MemorySize()` is not a
quantity of the plain model (its contract is `C08_memsize_le_size`). -/
def XOp.det : XOp → Bool
  | XOp.base o => o.det
  | XOp.memSize => false
  | _ => true

/-- **One step of the extended history.** Every operation of `C08_step_refines` and in addition
`Readdir(count)` for any `count` (paged or not) through any handle and `Size()` of the filesystem give
the same result in the concrete and in the plain model, from any state satisfying the invariant and
with any `unreaddirs` snapshots pending; abstraction commutes, invariant kept. -/
theorem C08_xstep_refines (hinj : Function.Injective hash) (hmax : 1 ≤ max) {x : CXFS} (hinv : Inv max hash x.fs)
    (op : XOp) (hop : op.det = true) :
    (stepX (concImpl hash max) memOf x op).2 = (stepX specImpl (fun _ => 0) (absX x) op).2 ∧
    absX (stepX (concImpl hash max) memOf x op).1 = (stepX specImpl (fun _ => 0) (absX x) op).1 ∧
    Inv max hash (stepX (concImpl hash max) memOf x op).1.fs := by
  cases op with
  | base o =>
    obtain ⟨h1, h2, h3⟩ := C08_step_refines hinj hmax hinv o hop
    refine ⟨?_, ?_, h3⟩
    · simp only [stepX, absX, h1]
    · simp only [stepX, absX, h1, h2]
  | hreaddirN h count =>
    unfold stepX
    simp only [absX, getHandle_abs]
    cases getHandle x.fs h with
    | none => exact ⟨rfl, rfl, hinv⟩
    | some hd =>
      simp only [Option.map_some, absH_node]
      cases hd.node with
      | file f => exact ⟨rfl, rfl, hinv⟩
      | dir d =>
        by_cases hc : count = 0
        · refine ⟨?_, ?_, ?_⟩ <;> simp only [hc, if_true, listingOf_abs hinv]
          exact hinv
        · refine ⟨?_, ?_, ?_⟩ <;> simp only [hc, if_false, entriesList_abs hinv]
          exact hinv
  | fsSize =>
    refine ⟨?_, ?_, hinv⟩ <;> simp only [stepX, absX, fsSize_abs hinv]
  | memSize => cases hop

/-- **Extended histories**: any sequence of the operations above, of any length. -/
theorem C08_xhistory_refines (hinj : Function.Injective hash) (hmax : 1 ≤ max) :
    ∀ (ops : List XOp) (x : CXFS), Inv max hash x.fs → (∀ op ∈ ops, op.det = true) →
      (runX (concImpl hash max) memOf x ops).2 = (runX specImpl (fun _ => 0) (absX x) ops).2 ∧
      absX (runX (concImpl hash max) memOf x ops).1 = (runX specImpl (fun _ => 0) (absX x) ops).1 ∧
      Inv max hash (runX (concImpl hash max) memOf x ops).1.fs := by
  intro ops
  induction ops with
  | nil => intro x hinv _; exact ⟨rfl, rfl, hinv⟩
  | cons op rest ih =>
    intro x hinv hdet
    obtain ⟨h1, h2, h3⟩ := C08_xstep_refines hinj hmax hinv op (hdet op (List.mem_cons_self ..))
    obtain ⟨i1, i2, i3⟩ := ih _ h3 (fun o ho => hdet o (List.mem_cons_of_mem _ ho))
    simp only [runX]
    rw [← h2] at *
    exact ⟨by rw [h1, i1], i2, i3⟩

/-- Histories on a filesystem opened from any manifest (no snapshot pending at the start). -/
theorem C08_loaded_xhistory_refines (hinj : Function.Injective hash) (hmax : 1 ≤ max)
    (streams : List (String × List Bytes × List (Nat × Nat × String))) (s : CFS)
    (h : loadManifest hash streams = some s) (ops : List XOp) (hdet : ∀ op ∈ ops, op.det = true) :
    (runX (concImpl hash max) memOf ⟨s, []⟩ ops).2 = (runX specImpl (fun _ => 0) (absX ⟨s, []⟩) ops).2 :=
  (C08_xhistory_refines hinj hmax ops ⟨s, []⟩ (C08_load_inv hinj streams s h) hdet).1

/-- **Paging table.** With a snapshot `u` pending, `Readdir(count)` returns `io.EOF` (no entries, state
unchanged) exactly when the snapshot is used up; otherwise it returns the next
`min count (entries left)` entries of the snapshot — at least one when `count > 0` — and advances by
that many, never beyond the end. -/
theorem C08_readdir_paging_table (u : Unread) (count : Nat) :
    ((pageStep u count).2.2 = Err.eof ↔ u.pos ≥ u.snap.length) ∧
    (u.pos ≥ u.snap.length → pageStep u count = ([], u, Err.eof)) ∧
    (u.pos < u.snap.length →
      (pageStep u count).1 = (u.snap.drop u.pos).take count ∧
      (pageStep u count).1.length = min count (u.snap.length - u.pos) ∧
      (0 < count → 0 < (pageStep u count).1.length) ∧
      (pageStep u count).2.2 = Err.ok ∧
      (pageStep u count).2.1.snap = u.snap ∧
      (pageStep u count).2.1.pos = u.pos + (pageStep u count).1.length ∧
      (pageStep u count).2.1.pos ≤ u.snap.length) := by
  refine ⟨?_, pageStep_eof u count, ?_⟩
  · by_cases h : u.pos ≥ u.snap.length
    · simp [pageStep_eof u count h, h]
    · have h' : u.pos < u.snap.length := by omega
      simp [pageStep_ok u count h', h]
  · intro h
    rw [pageStep_ok u count h]
    simp only [List.length_take, List.length_drop]
    refine ⟨trivial, trivial, fun hc => by omega, trivial, trivial, trivial, by omega⟩

/-- **Pages add up to the snapshot.** For every sequence of counts, the pages handed out, concatenated,
are exactly the next `Σ counts` entries of the snapshot (each entry once, in snapshot order); so as soon
as `Σ counts` reaches the number of entries left, the whole rest of the snapshot has been delivered. -/
theorem C08_readdir_pages_concat (u : Unread) (cs : List Nat) :
    (pageRun u cs).flatten = (u.snap.drop u.pos).take cs.sum ∧
    (u.snap.length - u.pos ≤ cs.sum → (pageRun u cs).flatten = u.snap.drop u.pos) := by
  refine ⟨pageRun_flatten cs u, fun h => ?_⟩
  rw [pageRun_flatten, List.take_of_length_le (by rw [List.length_drop]; exact h)]

/-- **A paged call in a history**: through a directory handle, `Readdir(count)` with `count > 0` pages
through the pending snapshot of that handle slot, or — when the slot has none (`unreaddirs == nil`) —
through the listing of the directory *at this moment*; the filesystem itself is unchanged, and the
slot's snapshot afterwards is the one `pageStep` returns. -/
theorem C08_readdir_paged_step {F P W : Type} (impl : FileImpl F P W) (mem : F → Nat) (x : XFS F P W)
    (h count d : Nat) (hd : Handle P) (hg : getHandle x.fs h = some hd) (hn : hd.node = Node.dir d)
    (hc : count ≠ 0) :
    let u := (getUnread x.unread h).getD ⟨entriesList impl x.fs d, 0⟩
    stepX impl mem x (XOp.hreaddirN h count) =
      (⟨x.fs, setUnread x.unread h (pageStep u count).2.1⟩, XRes.page (pageStep u count).1 (pageStep u count).2.2) ∧
    getUnread (stepX impl mem x (XOp.hreaddirN h count)).1.unread h = some (pageStep u count).2.1 := by
  intro u
  have e : stepX impl mem x (XOp.hreaddirN h count) =
      (⟨x.fs, setUnread x.unread h (pageStep u count).2.1⟩, XRes.page (pageStep u count).1 (pageStep u count).2.2) := by
    simp only [stepX, hg, hn, hc, if_false]
    rfl
  refine ⟨e, ?_⟩
  rw [e]
  exact getUnread_setUnread _ _ _

/-- **Pages of one handle in a history.** From the moment slot `h` has a snapshot `u` and for as long as
the slot keeps its filehandle (no open/create/close on `h`), whatever operations run in between — other
handles paging through the same or other directories, entries created, removed, renamed, files written,
truncated, flushed —: the pages handed out through `h`, concatenated, are exactly the next entries of
`u`'s snapshot (in order, each once, nothing that was not in the snapshot), and the slot has advanced by
that many entries. Together with `C08_readdir_paging_table` (EOF exactly at the end) and
`C08_readdir_paged_step` (the snapshot is the listing at the first paged call): reading a handle until
EOF delivers the directory listing of the first call. Holds for the concrete and the plain model. -/
theorem C08_readdir_history {F P W : Type} (impl : FileImpl F P W) (mem : F → Nat) (h : Nat)
    (ops : List XOp) (x : XFS F P W) (u : Unread) (hu : getUnread x.unread h = some u)
    (hk : ∀ op ∈ ops, keepsSlot h op = true) :
    (pagesOf h ops (runX impl mem x ops).2).flatten =
      (u.snap.drop u.pos).take (pagesOf h ops (runX impl mem x ops).2).flatten.length ∧
    getUnread (runX impl mem x ops).1.unread h =
      some ⟨u.snap, u.pos + (pagesOf h ops (runX impl mem x ops).2).flatten.length⟩ :=
  pages_history impl mem h ops x u hu hk

/-- `MemorySize()` never exceeds `Size()`: the bytes held in memSegments are part of the files. -/
theorem C08_memsize_le_size {s : CFS} (hinv : Inv max hash s) :
    memSize memOf s ≤ fsSize (concImpl hash max) s :=
  memSize_le_fsSize hinv

/-- **The spare capacity of a memSegment buffer is invisible.** `memSegment.Truncate` (reallocation
when `n > cap` or when growing a buffer shared with a flush; otherwise reslice in place *and zero the
reclaimed part*), `WriteAt` (copy-on-write) and `Slice`, run on a buffer with arbitrary stale bytes in
its spare capacity, produce exactly what `memTruncate` / `memWriteAt` / `Seg.slice` of `Model/C08`
produce — whatever the spare bytes are. Hence all file-layer theorems hold for the real buffers. -/
theorem C08_capacity_invisible (c : CapSeg) :
    (∀ n, (capTruncate true c n).seg = memTruncate c.buf c.fl n) ∧
    (∀ p off, (capWriteAt c p off).map CapSeg.seg = memWriteAt c.buf p off) ∧
    (∀ n l, (capSlice c n l).seg = c.seg.slice n l) :=
  ⟨capTruncate_seg c, capWriteAt_seg c, capSlice_seg c⟩

/-- Regression witness (seeded change C08-h, mutation M4): without the zeroing loop a shrink followed
by a grow inside the capacity brings the cut-off bytes back, with it they read as zeros. -/
theorem C08_capacity_needs_zeroing :
    (capTruncate false (capTruncate false ⟨[1, 2, 3], [], Flush.none⟩ 1) 3).buf = [1, 2, 3] ∧
    (capTruncate true (capTruncate true ⟨[1, 2, 3], [], Flush.none⟩ 1) 3).buf = [1, 0, 0] := by
  decide

/-! ### Non-vacuity -/

/-- the hypotheses of `C08_xstep_refines` / `C08_xhistory_refines` hold for the example state of
`Props/C08_History` (a file with a stored and a mem segment, two handles) with a snapshot pending -/
example : ∃ x : CXFS, Inv 2 id x.fs ∧ x.unread ≠ [] ∧ (XOp.hreaddirN 0 2).det = true ∧ XOp.fsSize.det = true :=
  ⟨⟨FS.init (fun _ => none), [(3, ⟨[("f", false, 3)], 0⟩)]⟩, C08_init_inv, by simp, rfl, rfl⟩

/-- three entries paged with counts 2, 2, 2: two, one, none -/
example : pageRun ⟨[("a", true, 0), ("b", false, 5), ("c", false, 0)], 0⟩ [2, 2, 2] =
    [[("a", true, 0), ("b", false, 5)], [("c", false, 0)], []] := by decide

example : (pageStep ⟨[("a", true, 0), ("b", false, 5), ("c", false, 0)], 3⟩ 1).2.2 = Err.eof := by decide

/-- a paged listing through a handle on a root directory with two subdirectories: one entry, the
other entry, then EOF (twice) -/
example : ((runX specImpl (fun _ => 0)
      ⟨⟨(), [((0, "a"), Node.dir 1), ((0, "b"), Node.dir 2)], [(".", 0), ("a", 0), ("b", 0)], [],
        [(0, ⟨Node.dir 0, 0, false, false, false⟩)]⟩, []⟩
      [XOp.hreaddirN 0 1, XOp.hreaddirN 0 5, XOp.hreaddirN 0 5, XOp.hreaddirN 0 1]).2.map
        (fun r => match r with
          | XRes.page p e => some (p.map (·.1), e)
          | _ => none)) =
    [some (["a"], Err.ok), some (["b"], Err.ok), some ([], Err.eof), some ([], Err.eof)] := by
  decide

/-- `C08_readdir_history`: slot 0 has a snapshot, the ops keep the slot -/
example : getUnread ([(0, ⟨[("a", true, 0)], 0⟩)] : List (Nat × Unread)) 0 = some ⟨[("a", true, 0)], 0⟩ ∧
    (∀ op ∈ [XOp.hreaddirN 0 1, XOp.base (Op.mkdir "c"), XOp.base (Op.close 1), XOp.fsSize], keepsSlot 0 op = true) := by
  refine ⟨rfl, ?_⟩
  intro op hop
  simp only [List.mem_cons, List.not_mem_nil, or_false] at hop
  rcases hop with h | h | h | h <;> subst h <;> rfl

end ArvVerif.C08
