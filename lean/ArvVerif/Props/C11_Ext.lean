/-
C11, third extension pass: the pieces of code between the layers of Props/C11.lean.

* what `uploadToKeepServer` reads out of a 200 response (`X-Keep-Replicas-Stored` through
  `Sscanf("%d")`, the locator through `TrimSpace`) — and what that means for the count a Put reports;
* the glue between `loadKeepServers` and `putReplicas` (only services that the list it was given
  marks as not read-only are ever asked);
* the asyncbuf between PutHR's stream and the upload goroutines (every request body is the whole
  stream and ends as `bufferEnd` says, for every interleaving of the writer and the readers).
-/
import ArvVerif.Props.C11
import ArvVerif.Proofs.C11_Parse
import ArvVerif.Proofs.C11_Abuf
namespace ArvVerif.C11

/-! ### X-Keep-Replicas-Stored -/

/-- `rep := 1; fmt.Sscanf(header, "%d", &rep)` on any header text:
(1) the result is an int64; (2) the decimal number a service writes (`toString n`), also after
blanks and followed by any non-digit text, is read back exactly when it fits int64, and (3) is NOT
believed when it does not (the default 1 stays); (4) `-n` is read as −n — the client believes a
negative count; (5) whatever the text, the result is the default 1 or ± the value of a non-empty
digit run that stands in the header after optional blanks and one optional sign — the client never
counts a number the service did not write. -/
theorem C11_replicas_header :
    (∀ s, -(2^63 : Int) ≤ parseRep s ∧ parseRep s < 2^63) ∧
    (∀ (n : Nat) (ws rest : List Char), n < 2^63 → (∀ c ∈ ws, isScanSpace c = true) →
      (∀ c, rest.head? = some c → isDecDigit c = false) →
      parseRep (ws ++ ((toString n).toList ++ rest)) = n) ∧
    (∀ n : Nat, 2^63 ≤ n → parseRep (toString n).toList = 1) ∧
    (∀ n : Nat, n ≤ 2^63 → parseRep ('-' :: (toString n).toList) = -(n : Int)) ∧
    (∀ s, parseRep s = 1 ∨
      ∃ ws sg ds rest, s = ws ++ (sg ++ (ds ++ rest)) ∧ (∀ c ∈ ws, isScanSpace c = true) ∧
        (sg = [] ∨ sg = ['-'] ∨ sg = ['+']) ∧ ds ≠ [] ∧ (∀ c ∈ ds, isDecDigit c = true) ∧
        parseRep s = (if sg = ['-'] then - (decVal ds : Int) else (decVal ds : Int))) := by
  have hts : ∀ n : Nat, (toString n).toList = Nat.toDigits 10 n := by
    intro n; simp
  refine ⟨parseRep_range, ?_, ?_, ?_, parseRep_backed⟩
  · intro n ws rest hn hws hrest
    rw [hts]; exact parseRep_toDigits n hn ws rest hws hrest
  · intro n hn; rw [hts]; exact parseRep_huge n hn
  · intro n hn
    rw [hts]
    have h := (parseRep_number [] (Nat.toDigits 10 n) [] (by simp) Nat.toDigits_ne_nil
      (toDigits_all_digits n) (by simp)).2.2
    rw [decVal_toDigits] at h
    simp only [List.nil_append, List.append_nil] at h
    rw [h, if_pos hn]

/-- a header without a leading number (after blanks and an optional sign) counts as one replica -/
theorem C11_replicas_header_malformed (ws rest : List Char) (hws : ∀ c ∈ ws, isScanSpace c = true)
    (hrest : ∀ c, rest.head? = some c → isDecDigit c = false) :
    parseRep (ws ++ '-' :: rest) = 1 ∧ parseRep (ws ++ '+' :: rest) = 1 ∧
    ((∀ c, rest.head? = some c → isScanSpace c = false ∧ c ≠ '-' ∧ c ≠ '+') →
      parseRep (ws ++ rest) = 1) :=
  parseRep_malformed ws rest hws hrest

/-- the locator: white space around the body is removed and nothing else (`trimSpace` yields a
middle part of its input that neither starts nor ends with white space; the removed parts are all
white space; it is idempotent), and a locator `L` (no white space at its ends) sent with white space
around it, e.g. a trailing newline, within the 4096-byte limit comes out as exactly `L`. -/
theorem C11_locator_trim (code : Nat) (hdr : Option (List Char)) (be : Bool) :
    (∀ bs, ∃ pre post, bs = pre ++ (trimSpace bs ++ post) ∧ (∀ b ∈ pre, isTrimSpace b = true) ∧
      (∀ b ∈ post, isTrimSpace b = true) ∧
      (∀ b, (trimSpace bs).head? = some b → isTrimSpace b = false) ∧
      (∀ b, (trimSpace bs).getLast? = some b → isTrimSpace b = false)) ∧
    (∀ bs, trimSpace (trimSpace bs) = trimSpace bs) ∧
    (∀ pre L post, (∀ b ∈ pre, isTrimSpace b = true) → (∀ b ∈ post, isTrimSpace b = true) →
      (∀ b, L.head? = some b → isTrimSpace b = false) →
      (∀ b, L.getLast? = some b → isTrimSpace b = false) →
      (pre ++ (L ++ post)).length ≤ bodyLimit →
      (upload (.resp code hdr (pre ++ (L ++ post)) be)).body = L) := by
  refine ⟨trimSpace_spec, trimSpace_idem, ?_⟩
  intro pre L post h1 h2 h3 h4 hlen
  show trimSpace ((pre ++ (L ++ post)).take bodyLimit) = L
  rw [List.take_of_length_le hlen]
  exact trimSpace_clean pre L post h1 h2 h3 h4

/-- a response as a service that confirms `n` replicas sends it: status 200, the header absent
(n = 1) or the decimal number `n` -/
def Confirms (h : Http) (n : Nat) : Prop :=
  ∃ body be, (h = .resp 200 none body be ∧ n = 1) ∨
    (h = .resp 200 (some (toString n).toList) body be ∧ n < 2^63)

theorem repSum_congr (c : Cfg) (conf : Srv → Nat → Nat) (l : List (Srv × Nat))
    (h : ∀ e ∈ l, (c.script e.1 e.2).rep = conf e.1 e.2) :
    repSum c l = ((l.map fun e => conf e.1 e.2).sum : Nat) := by
  induction l with
  | nil => rfl
  | cons a t ih =>
    have h1 := h a List.mem_cons_self
    have h2 := ih (fun e he => h e (List.mem_cons_of_mem _ he))
    simp only [repSum, List.map_cons, List.sum_cons] at h2 ⊢
    rw [h1, h2]
    omega

/-- the replica count a Put returns (with or without error) -/
def Res.count : Res → Int
  | .ok _ n => n
  | .insufficient _ n => n

/-- **The number a Put reports is the number the services confirmed.** Let every 200 answer
`http x k` confirm `conf x k` replicas in the way Keep services do (`Confirms`); other answers are
arbitrary. Then the count returned — with a nil error or with the insufficient-replicas error — is
the sum of `conf` over the 200 answers that were processed, computed through the real header
parser. -/
theorem C11_count_is_confirmed (c : Cfg) (http : Srv → Nat → Http)
    (conf : Srv → Nat → Nat) (sv : List Srv) (picks : List Nat) (r : Res) (s : St)
    (hscript : ∀ x k, c.script x k = upload (http x k))
    (hconf : ∀ x k, (upload (http x k)).code = 200 → Confirms (http x k) (conf x k))
    (h : put c sv picks = some (r, s)) :
    r.count =
      ((((s.respLog.filter (is200 c)).map fun e => conf e.1 e.2).sum : Nat) : Int) := by
  have hpt : ∀ e ∈ s.respLog.filter (is200 c), (c.script e.1 e.2).rep = conf e.1 e.2 := by
    intro e he
    rw [List.mem_filter] at he
    have h200 : (upload (http e.1 e.2)).code = 200 := by
      rw [← hscript]; simpa [is200] using he.2
    rw [hscript]
    obtain ⟨body, be, hc | hc⟩ := hconf e.1 e.2 h200
    · rw [hc.1, hc.2]; rfl
    · rw [hc.1]
      show (if (toString (conf e.1 e.2)).toList.isEmpty then (1 : Int) else parseRep _) = _
      have hts : (toString (conf e.1 e.2)).toList = Nat.toDigits 10 (conf e.1 e.2) := by simp
      rw [hts]
      have hne : (Nat.toDigits 10 (conf e.1 e.2)).isEmpty = false := by
        cases hd : Nat.toDigits 10 (conf e.1 e.2) with
        | nil => exact absurd hd Nat.toDigits_ne_nil
        | cons _ _ => rfl
      rw [hne]
      have := parseRep_toDigits (conf e.1 e.2) hc.2 [] [] (by simp) (by simp)
      simpa using this
  cases r with
  | ok loc n =>
    have := (C11_ok_sound _ sv picks loc n s h).2.1
    show n = _
    rw [this]; exact repSum_congr _ conf _ hpt
  | insufficient loc n =>
    have := (C11_err_reports_count _ sv picks loc n s h).2
    show n = _
    rw [this]; exact repSum_congr _ conf _ hpt

/-! ### loadKeepServers → putReplicas -/

theorem mem_writableIdx (l : List Svc) (i : Nat) (h : i ∈ writableIdx l) :
    ∃ hi : i < l.length, ∃ e ∈ (load false l).writable, e.1 = l[i].uuid := by
  unfold writableIdx at h
  rw [List.mem_filter, List.mem_range] at h
  obtain ⟨hi, hm⟩ := h
  refine ⟨hi, ?_⟩
  rw [List.getElem?_eq_getElem hi] at hm
  simp only [List.any_eq_true, beq_iff_eq] at hm
  exact hm

/-- **Only services that the list marks as not read-only are written to.** A client loads the
service list `l` (distinct uuids) and `putReplicas` probes the writable roots in some order `sv`
(positions in `l`, any order, any subset of `writableIdx l`): every request goes to a listed service
whose `read_only` flag is false — so every replica the Put counts was confirmed by such a service. -/
theorem C11_requests_listed_writable (l : List Svc) (hu : (l.map (·.uuid)).Nodup) (c : Cfg)
    (sv : List Srv) (picks : List Nat) (r : Res) (s : St) (hsv : ∀ x ∈ sv, x ∈ writableIdx l)
    (h : put c sv picks = some (r, s)) :
    (∀ e ∈ s.reqLog, ∃ hi : e.1 < l.length, l[e.1].ro = false) ∧
    (∀ e ∈ s.respLog, ∃ hi : e.1 < l.length, l[e.1].ro = false) := by
  have key : ∀ e ∈ s.reqLog, ∃ hi : e.1 < l.length, l[e.1].ro = false := by
    intro e he
    have hx := hsv _ (C11_only_writable c sv picks r s h e he)
    obtain ⟨hi, ent, hent, huu⟩ := mem_writableIdx l e.1 hx
    refine ⟨hi, ?_⟩
    obtain ⟨t, ht, htu, _, htro⟩ := C11_writable_map_sound false l ent hent
    obtain ⟨j, hj, hjt⟩ := List.getElem_of_mem ht
    have hji : j = e.1 := by
      have h1 : (l.map (·.uuid))[j]'(by simpa using hj) = (l.map (·.uuid))[e.1]'(by simpa using hi) := by
        simp only [List.getElem_map]
        rw [hjt, htu, huu]
      exact (List.getElem_inj hu).mp h1
    subst hji
    rw [hjt]; exact htro
  refine ⟨key, ?_⟩
  intro e he
  have ht := run_preserved (trace_preserved c sv) _ _ _ _ _ (trace_init c sv) h
  exact key e (ht.respReq e he)

/-! ### asyncbuf: what every upload goroutine reads -/

/-- **Independent readers.** The writer goroutine writes `chunks` one after the other and then
closes the buffer with `e` (`copyProg`); readers are made at any time and read with any buffer
sizes, interleaved with the writer in any way (`sched`, any length). Then at every moment every
reader has received a prefix of the whole data, and a reader that has been given an error has
received the whole data, and the error is the one the buffer was closed with (io.EOF for nil). No
reader is ever given an error while the writer is still writing. -/
theorem C11_asyncbuf_readers (init : List Nat) (chunks : List (List Nat)) (e : Option AErr)
    (sched : List Sched) :
    ∀ r ∈ (runSys (ABuf.new init) (copyProg chunks e) sched).1.readers,
      r.got <+: init ++ chunks.flatten ∧
      (∀ e', r.ended = some e' → r.got = init ++ chunks.flatten ∧ e' = e.getD .eof ∧
        (runSys (ABuf.new init) (copyProg chunks e) sched).2 = []) := by
  have h := runSys_inv init chunks e sched _ _ (sysInv_init init chunks e)
  intro r hr
  obtain ⟨hoff, hgot⟩ := h.1.rinv r hr
  refine ⟨?_, ?_⟩
  · rw [hgot]
    exact (List.take_prefix _ _).trans h.1.pre
  · intro e' he'
    obtain ⟨h1, h2, h3⟩ := h.1.ended r hr e' he'
    refine ⟨h2, h1, ?_⟩
    rcases h.2 with ⟨_, _, _, _, herr⟩ | ⟨hp, _⟩
    · exact absurd herr h3
    · exact hp

/-- Once the buffer is closed no `Read` waits, and a `Read` never waits when there is data the
reader has not seen — so a reader that keeps reading gets to the end. -/
theorem C11_asyncbuf_no_wait (b : ABuf) (i n : Nat) (h : (AStep b (.read i n)).2 = .block) :
    b.err = none ∧ ∃ r, b.readers[i]? = some r ∧ b.data.length ≤ r.off ∧ 0 < n := by
  simp only [AStep] at h
  split at h
  · cases h
  · rename_i r hr
    split at h
    · cases h
    · rename_i hge
      split at h
      · cases h
      · rename_i herr
        split at h
        · cases h
        · exact ⟨herr, r, hr, by omega, by omega⟩

theorem endOf_closeArg (x : BodyEnd) : endOf ((closeArg x).getD .eof) = x := by
  cases x <;> rfl

/-- **Every request body of a `PutHR` is the whole stream and ends as `bufferEnd` says.** The copy
goroutine delivers the stream `st` in any pieces (`chunks.flatten = st.data`) and closes the buffer
with the outcome of the checked copy (`closeArg (bufferEnd md5hex hash st)`); the upload goroutines
read through `buf.NewReader()` at their own pace (`sched`). A body that has reached its end has
delivered exactly `st.data`, and its end is `bufferEnd md5hex hash st`: EOF only for a stream that
ended normally with MD5 `hash` — this is the pair `putHRWire` puts into every request
(`C11_puthr_delivered` takes it from there), for every retry and every interleaving. -/
theorem C11_puthr_body (md5hex : List Nat → List Char) (hash : List Char) (st : Stream)
    (chunks : List (List Nat)) (sched : List Sched) (hch : chunks.flatten = st.data) :
    ∀ r ∈ (runSys (ABuf.new []) (copyProg chunks (closeArg (bufferEnd md5hex hash st))) sched).1.readers,
      r.got <+: st.data ∧
      (∀ e', r.ended = some e' → (r.got, endOf e') = (st.data, bufferEnd md5hex hash st)) := by
  intro r hr
  obtain ⟨h1, h2⟩ := C11_asyncbuf_readers [] chunks (closeArg (bufferEnd md5hex hash st)) sched r hr
  rw [List.nil_append, hch] at h1 h2
  refine ⟨h1, ?_⟩
  intro e' he'
  obtain ⟨hg, he, _⟩ := h2 e' he'
  rw [hg, he, endOf_closeArg]

/-! ### Non-vacuity -/

namespace ExamplesExt

/-- header texts: canonical, blanks and trailing text, negative, huge, malformed -/
example : parseRep "2".toList = 2 ∧ parseRep " \t2 replicas".toList = 2 ∧ parseRep "-1".toList = -1 ∧
    parseRep "99999999999999999999".toList = 1 ∧ parseRep "x2".toList = 1 ∧ parseRep "- 2".toList = 1 ∧
    parseRep "+2".toList = 2 ∧ parseRep "".toList = 1 := by decide

/-- `C11_locator_trim`: "abc\n" with leading blanks -/
example : (upload (.resp 200 none [32, 9, 97, 98, 99, 13, 10] false)).body = [97, 98, 99] := by decide

/-- `C11_count_is_confirmed`: service 0 confirms 2 replicas, service 1 one (no header) -/
def httpConf : Srv → Nat → Http := fun x _ =>
  if x = 0 then .resp 200 (some (toString 2).toList) [76] false else .resp 200 none [77] false

example : ∀ x k, (upload (httpConf x k)).code = 200 → Confirms (httpConf x k) (if x = 0 then 2 else 1) := by
  intro x k _
  unfold httpConf Confirms
  by_cases hx : x = 0
  · simp only [hx, if_true]; exact ⟨[76], false, Or.inr ⟨rfl, by decide⟩⟩
  · simp only [hx, if_false]; exact ⟨[77], false, Or.inl ⟨rfl, by simp⟩⟩

example : (put { want := 3, rps := 1, retries := 0, script := fun x k => upload (httpConf x k) } [1, 0] []).map
    (fun r => r.1.count) = some 3 := by decide

/-- `C11_requests_listed_writable`: the second of three services is read-only -/
def svcs3 : List Svc :=
  [⟨['a'], ['h'], 1, false, "disk".toList, false⟩, ⟨['b'], ['g'], 1, false, "disk".toList, true⟩,
   ⟨['c'], ['f'], 1, false, "proxy".toList, false⟩]

example : writableIdx svcs3 = [0, 2] ∧ (svcs3.map (·.uuid)).Nodup := by decide

/-- `C11_asyncbuf_readers` / `C11_puthr_body`: two readers, the second made after the first write;
reader 0 reads to the end, reader 1 is still in the middle -/
example : ((runSys (ABuf.new []) (copyProg [[1, 2], [3]] none)
      [.newReader, .writer, .read 0 1, .newReader, .writer, .read 1 2, .read 0 5, .writer, .read 0 5, .read 1 0]).1.readers.map
      fun r => (r.got, r.ended)) = [([1, 2, 3], some .eof), ([1, 2], none)] := by decide

/-- a Read that has to wait, and one that does not because the buffer was closed -/
example : (AStep (AStep (ABuf.new []) .newReader).1 (.read 0 4)).2 = .block ∧
    (AStep (AStep (AStep (ABuf.new []) .newReader).1 (.close (some (.other 1)))).1 (.read 0 4)).2 =
      .fin (.other 1) := by decide

end ExamplesExt

end ArvVerif.C11
