/-
C01 — extension round. Property theorems about
  * the request environment: buffer-pool exhaustion, client disconnect, short request body
    (`handleGetEnv`, `handlePutEnv`) — the soundness clauses hold in every environment;
  * what is served when several copies hash to H: the first intact copy in mount order;
  * what a PUT guarantees when mounts that CompareAndTouch does not look at (read-only ones) hold
    something else under H: the outcome does not depend on them, an acknowledged body is on a
    writable mount, a 500 means a genuine collision on a writable mount.
Same generality as Props/C01.lean (arbitrary hash, any volumes, any counter, any environment).
-/
import ArvVerif.Props.C01
import ArvVerif.Proofs.C01_Ext
namespace ArvVerif.C01
set_option linter.unusedSectionVars false
set_option linter.unusedSimpArgs false

section
variable {δ β : Type} [DecidableEq δ] [DecidableEq β]

/-! ### HEAD -/

/-- HEAD is GET without the body: same status, same Content-Length, no body. -/
theorem C01_head_eq_get (hash : β → δ) (size : β → Nat) (vols : List (Vol δ β)) (h : δ) :
    (handleHead hash size vols h).status = (handleGet hash size vols h).status ∧
    (handleHead hash size vols h).contentLength = (handleGet hash size vols h).contentLength ∧
    (handleHead hash size vols h).body = none := ⟨rfl, rfl, rfl⟩

/-! ### which copy is served -/

/-- The body of a 200 GET is the *first* intact copy in mount order: every earlier mount holds
nothing servable under H (nothing, an oversize file, or bytes with another digest). -/
theorem C01_get_first_intact (hash : β → δ) (size : β → Nat) (vols : List (Vol δ β)) (h : δ) (b : β)
    (hb : (handleGet hash size vols h).body = some b) :
    ∃ pre v post, vols = pre ++ v :: post ∧ v.files h = some b ∧ Intact hash size h b ∧
      ∀ u ∈ pre, ∀ c, u.files h = some c → ¬ Intact hash size h c := by
  unfold handleGet at hb
  cases hg : getBlock hash size vols h with
  | err e => simp [hg] at hb
  | ok b' =>
    simp only [hg] at hb
    cases hb
    rcases getLoop_first hash h _ _ b hg with ⟨pre, post, he, hh, hpre⟩
    simp only [allReadable] at he
    rcases List.map_eq_append_iff.mp he with ⟨l1, l2, hv, h1, h2⟩
    rcases List.map_eq_cons_iff.mp h2 with ⟨v, l3, hl2, hv2, _⟩
    have hfd := (volRead_data size v h b).mp hv2
    refine ⟨l1, v, l3, by rw [hv, hl2], hfd.1, ⟨hh, hfd.2⟩, ?_⟩
    intro u hu c hc hint
    have : ReadResult.data c ∈ pre := by
      rw [← h1]
      exact List.mem_map.mpr ⟨u, hu, (volRead_data size u h c).mpr ⟨hc, hint.2⟩⟩
    exact hpre c this hint.1

/-! ### GET/HEAD in any environment -/

/-- In every environment (no buffer, client gone at any check) a 200 GET still carries a body with
the requested digest, the reported length, stored under that hash on some volume. -/
theorem C01_get_sound_env (hash : β → δ) (size : β → Nat) (env : GetEnv) (vols : List (Vol δ β)) (h : δ)
    (h200 : (handleGetEnv hash size env vols h).status = 200) :
    ∃ b, (handleGetEnv hash size env vols h).body = some b ∧
      (handleGetEnv hash size env vols h).contentLength = some (size b) ∧
      Intact hash size h b ∧ ∃ v ∈ vols, v.files h = some b := by
  unfold handleGetEnv at h200 ⊢
  by_cases hbuf : env.bufOk = true
  · simp only [hbuf, Bool.not_true, Bool.false_eq_true, if_false] at h200 ⊢
    cases hg : getLoopEnv hash h ((allReadable vols).map (fun v => volRead size v h)) .notFound env.goneAfter with
    | ok b =>
      have h1 := getLoopEnv_ok hash h _ _ _ b hg
      rcases (mem_reads size vols h b).mp h1.2 with ⟨v, hv, hf, hs⟩
      exact ⟨b, rfl, rfl, ⟨h1.1, hs⟩, v, hv, hf⟩
    | err e => simp only [hg] at h200; cases e <;> simp [getErrStatus] at h200
    | disconnected => simp [hg] at h200
  · simp [hbuf] at h200

/-- Every answer other than 200 carries no body and no Content-Length, and is 404, 500 or 503. -/
theorem C01_get_env_error (hash : β → δ) (size : β → Nat) (env : GetEnv) (vols : List (Vol δ β)) (h : δ)
    (hne : (handleGetEnv hash size env vols h).status ≠ 200) :
    (handleGetEnv hash size env vols h).body = none ∧
    (handleGetEnv hash size env vols h).contentLength = none ∧
    ((handleGetEnv hash size env vols h).status = 404 ∨ (handleGetEnv hash size env vols h).status = 500 ∨
      (handleGetEnv hash size env vols h).status = 503) := by
  unfold handleGetEnv at hne ⊢
  by_cases hbuf : env.bufOk = true
  · simp only [hbuf, Bool.not_true, Bool.false_eq_true, if_false] at hne ⊢
    cases hg : getLoopEnv hash h ((allReadable vols).map (fun v => volRead size v h)) .notFound env.goneAfter with
    | ok b => simp [hg] at hne
    | err e => cases e <;> simp [getErrStatus]
    | disconnected => simp
  · simp [hbuf]

/-- Without buffer shortage and disconnect the environment model is `handleGet`. -/
theorem C01_get_env_calm (hash : β → δ) (size : β → Nat) (vols : List (Vol δ β)) (h : δ) :
    handleGetEnv hash size GetEnv.calm vols h = handleGet hash size vols h := by
  unfold handleGetEnv handleGet getBlock
  simp only [GetEnv.calm, Bool.not_true, Bool.false_eq_true, if_false, getLoopEnv_none]
  cases getLoop hash h ((allReadable vols).map (fun v => volRead size v h)) .notFound <;> rfl

/-- No buffer before the client goes away: 503, whatever the volumes hold. -/
theorem C01_get_env_nobuf (hash : β → δ) (size : β → Nat) (env : GetEnv) (vols : List (Vol δ β)) (h : δ)
    (hb : env.bufOk = false) : (handleGetEnv hash size env vols h).status = 503 := by
  simp [handleGetEnv, hb]

/-! ### PUT in any environment -/

/-- Without disturbance the environment model is `handlePut`. -/
theorem C01_put_env_calm (hash : β → δ) (size : β → Nat) (vols : List (Vol δ β)) (rr : Nat) (h : δ)
    (body : β) (cl : Bool) :
    handlePutEnv hash size PutEnv.calm vols rr h body cl = handlePut hash size vols rr h body cl := by
  unfold handlePutEnv
  by_cases hcl : cl = true
  · by_cases hsz : size body > blockSize
    · simp [hcl, hsz, handlePut]
    · by_cases hw : (allWritable vols).length = 0
      · simp [hcl, hsz, hw, handlePut]
      · simp [hcl, hsz, hw, PutEnv.calm]
  · simp [hcl, handlePut]

/-- In every environment an acknowledgement (200) is an undisturbed acknowledgement or a touch of
an identical copy: so everything proved about `handlePut`'s 200 carries over — the body hashes to
H, it sits on a writable mount, a GET afterwards serves an intact copy. -/
theorem C01_put_env_ack (hash : β → δ) (size : β → Nat) (env : PutEnv) (vols : List (Vol δ β)) (rr : Nat)
    (h : δ) (body : β) (cl : Bool)
    (h200 : (handlePutEnv hash size env vols rr h body cl).1.status = 200) :
    hash body = h ∧ size body ≤ blockSize ∧
    (∃ v' ∈ (handlePutEnv hash size env vols rr h body cl).2.1, v'.ro = false ∧ v'.files h = some body) ∧
    ∃ b', (handleGet hash size (handlePutEnv hash size env vols rr h body cl).2.1 h).status = 200 ∧
      (handleGet hash size (handlePutEnv hash size env vols rr h body cl).2.1 h).body = some b' ∧
      hash b' = h ∧ (NoColl hash h body → b' = body) := by
  have calm : ∀ (hc : (handlePut hash size vols rr h body cl).1.status = 200),
      hash body = h ∧ size body ≤ blockSize ∧
      (∃ v' ∈ (handlePut hash size vols rr h body cl).2.1, v'.ro = false ∧ v'.files h = some body) ∧
      ∃ b', (handleGet hash size (handlePut hash size vols rr h body cl).2.1 h).status = 200 ∧
        (handleGet hash size (handlePut hash size vols rr h body cl).2.1 h).body = some b' ∧
        hash b' = h ∧ (NoColl hash h body → b' = body) := by
    intro hc
    have ha := C01_put_ack_hash hash size vols rr h body cl hc
    rcases C01_put_ack_then_get hash size vols rr h body cl hc with ⟨b', h1, h2, _, h4, h5⟩
    exact ⟨ha.1, ha.2, C01_put_stores_on_writable hash size vols rr h body cl hc, b', h1, h2, h4, h5⟩
  unfold handlePutEnv at h200 ⊢
  by_cases hcl : cl = true
  · subst hcl
    by_cases hsz : size body > blockSize
    · simp [hsz] at h200
    · by_cases hw : (allWritable vols).length = 0
      · simp [hsz, hw] at h200
      · by_cases hbuf : env.bufOk = true
        · by_cases hbody : env.bodyOk = true
          · simp only [hsz, hw, hbuf, hbody, Bool.not_true, Bool.false_eq_true, if_false] at h200 ⊢
            cases hgone : env.gone with
            | never => simp only [hgone] at h200 ⊢; exact calm h200
            | beforeWrite =>
              simp only [hgone] at h200
              by_cases hh : hash body = h <;> simp [hh] at h200
            | duringWrite landed =>
              simp only [hgone] at h200 ⊢
              by_cases hh : hash body = h
              · simp only [hh, ne_eq, not_true_eq_false, if_false] at h200 ⊢
                cases hc : compareAndTouch hash size h body vols with
                | touched r =>
                  simp only [hc]
                  rcases compareAndTouch_touched hash size h body vols r hc with ⟨v, hv, hro, hf, hs⟩
                  rcases C01_get_skips_corrupt hash size vols h body ⟨v, hv, hf⟩ ⟨hh, hs⟩ with
                    ⟨b', g1, g2, _, g4, g5⟩
                  exact ⟨trivial, hs, ⟨v, hv, hro, hf⟩, b', g1, g2, g4, g5⟩
                | collision => simp [hc] at h200
                | miss => simp [hc] at h200
              · simp [hh] at h200
          · simp [hsz, hw, hbuf, hbody] at h200
        · simp [hsz, hw, hbuf] at h200
  · simp [hcl] at h200

/-- In every environment a PUT respects the frame: each mount is unchanged or — only if neither
read-only nor full — has `body` under H and is otherwise unchanged. (A disconnect during the write
answers 503 while the write may still land: the frame is all that is guaranteed then.) -/
theorem C01_put_env_frame (hash : β → δ) (size : β → Nat) (env : PutEnv) (vols : List (Vol δ β)) (rr : Nat)
    (h : δ) (body : β) (cl : Bool) :
    Pointwise (Frame h body) vols (handlePutEnv hash size env vols rr h body cl).2.1 := by
  unfold handlePutEnv
  repeat' split
  all_goals first
    | exact frame_refl h body vols
    | exact C01_put_frame hash size vols rr h body cl
    | exact (putNew_spec hash h body vols rr).frame

/-- Unless the write was overtaken by a disconnect and landed, a refused PUT changes nothing. -/
theorem C01_put_env_error_no_change (hash : β → δ) (size : β → Nat) (env : PutEnv) (vols : List (Vol δ β))
    (rr : Nat) (h : δ) (body : β) (cl : Bool) (hg : env.gone ≠ .duringWrite true)
    (hne : (handlePutEnv hash size env vols rr h body cl).1.status ≠ 200) :
    (handlePutEnv hash size env vols rr h body cl).2.1 = vols := by
  unfold handlePutEnv at hne ⊢
  by_cases hcl : cl = true
  · subst hcl
    by_cases hsz : size body > blockSize
    · simp [hsz]
    · by_cases hw : (allWritable vols).length = 0
      · simp [hsz, hw]
      · by_cases hbuf : env.bufOk = true
        · by_cases hbody : env.bodyOk = true
          · simp only [hsz, hw, hbuf, hbody, Bool.not_true, Bool.false_eq_true, if_false] at hne ⊢
            cases hgone : env.gone with
            | never =>
              simp only [hgone] at hne ⊢
              exact C01_put_error_no_change hash size vols rr h body true hne
            | beforeWrite => simp only [hgone]; split <;> rfl
            | duringWrite landed =>
              have hl : landed = false := by
                cases landed with
                | false => rfl
                | true => exact absurd hgone hg
              subst hl
              simp only [hgone]
              split
              · rfl
              · split <;> simp
          · simp [hsz, hw, hbuf, hbody]
        · simp [hsz, hw, hbuf]
  · simp [hcl]

/-- No buffer ⇒ 503, short body ⇒ 500 (after the 411/413/503-no-writable exits), nothing changes. -/
theorem C01_put_env_nobuf_shortbody (hash : β → δ) (size : β → Nat) (env : PutEnv) (vols : List (Vol δ β))
    (rr : Nat) (h : δ) (body : β) (hsz : size body ≤ blockSize) (hw : (allWritable vols).length ≠ 0) :
    (env.bufOk = false →
      handlePutEnv hash size env vols rr h body true = ({ status := 503, replicas := none }, vols, rr)) ∧
    (env.bufOk = true → env.bodyOk = false →
      handlePutEnv hash size env vols rr h body true = ({ status := 500, replicas := none }, vols, rr)) := by
  have hsz' : ¬ size body > blockSize := by omega
  constructor
  · intro hb; simp [handlePutEnv, hsz', hw, hb]
  · intro hb hbo; simp [handlePutEnv, hsz', hw, hb, hbo]

/-! ### PUT and the mounts CompareAndTouch does not look at -/

/-- PUT does not depend on what read-only mounts hold: for two mount lists that differ only in the
contents (and full marker / replication) of read-only mounts, the response and the counter are the
same and the results again differ only on read-only mounts. In particular a different block with
the same digest on a read-only mount is *not* detected as a collision. -/
theorem C01_put_ignores_ro_contents (hash : β → δ) (size : β → Nat) (vols vols' : List (Vol δ β))
    (hrel : Pointwise RoRel vols vols') (rr : Nat) (h : δ) (body : β) (cl : Bool) :
    (handlePut hash size vols rr h body cl).1 = (handlePut hash size vols' rr h body cl).1 ∧
    (handlePut hash size vols rr h body cl).2.2 = (handlePut hash size vols' rr h body cl).2.2 ∧
    Pointwise RoRel (handlePut hash size vols rr h body cl).2.1 (handlePut hash size vols' rr h body cl).2.1 := by
  unfold handlePut
  rw [roRel_allWritable_length hrel]
  by_cases hcl : cl = true
  · by_cases hsz : size body > blockSize
    · simp only [hcl, hsz, Bool.not_true, Bool.false_eq_true, if_false, if_true]; exact ⟨trivial, trivial, hrel⟩
    · by_cases hw : (allWritable vols').length = 0
      · simp only [hcl, hsz, hw, Bool.not_true, Bool.false_eq_true, if_false, if_true]; exact ⟨trivial, trivial, hrel⟩
      · simp only [hcl, hsz, hw, Bool.not_true, Bool.false_eq_true, if_false]
        have hr := roRel_putBlock hash size h body hrel rr
        rcases hr with ⟨h1, h2, h3⟩
        rw [h1]
        cases (putBlock hash size vols' rr h body).1 <;> exact ⟨rfl, h3, h2⟩
  · simp only [hcl, Bool.not_false, if_true]; exact ⟨trivial, trivial, hrel⟩

/-- A PUT is answered 500 only for a genuine collision on a *writable* mount: that mount holds, under
H, bytes different from the body with the same digest as the body. Nothing is written. -/
theorem C01_put_500_is_collision (hash : β → δ) (size : β → Nat) (vols : List (Vol δ β)) (rr : Nat)
    (h : δ) (body : β) (cl : Bool) (h500 : (handlePut hash size vols rr h body cl).1.status = 500) :
    hash body = h ∧ (handlePut hash size vols rr h body cl).2.1 = vols ∧
    ∃ v ∈ vols, v.ro = false ∧ ∃ f, v.files h = some f ∧ f ≠ body ∧ hash f = hash body := by
  have hunch := C01_put_error_no_change hash size vols rr h body cl (by rw [h500]; decide)
  refine ⟨?_, hunch, ?_⟩ <;>
  · unfold handlePut at h500
    by_cases hcl : cl = true
    · by_cases hsz : size body > blockSize
      · simp [hcl, hsz] at h500
      · by_cases hw : (allWritable vols).length = 0
        · simp [hcl, hsz, hw] at h500
        · simp only [hcl, hsz, hw, Bool.not_true, Bool.false_eq_true, if_false] at h500
          unfold putBlock at h500
          by_cases hh : hash body = h
          · simp only [hh, ne_eq, not_true_eq_false, if_false] at h500
            cases hc : compareAndTouch hash size h body vols with
            | touched r => simp [hc] at h500
            | collision =>
              first
                | exact hh
                | (rcases compareAndTouch_collision hash size h body vols hc with ⟨v, hv, hro, f, hf, hne, hhf⟩
                   exact ⟨v, hv, hro, f, hf, hne, by rw [hhf, hh]⟩)
            | miss =>
              simp only [hc] at h500
              rcases putNew_outcome h body vols rr with ho | ⟨r, ho⟩
              · simp [ho, putStatus] at h500
              · simp [ho] at h500
          · simp [hh, putStatus] at h500
    · simp [hcl] at h500

/-- Under collision-freeness at H a PUT is never answered 500. -/
theorem C01_put_no_500_without_collision (hash : β → δ) (size : β → Nat) (vols : List (Vol δ β)) (rr : Nat)
    (h : δ) (body : β) (cl : Bool) (hnc : NoColl hash h body) :
    (handlePut hash size vols rr h body cl).1.status ≠ 500 := by
  intro h500
  rcases C01_put_500_is_collision hash size vols rr h body cl h500 with ⟨hh, _, v, _, _, f, _, hne, hf⟩
  exact hne (hnc f (by rw [hf, hh]))

end

/-! ### pipe_adapters.go at byte level -/

/-- Whatever the block reader writes and however it ends, `getWithPipe` hands GetBlock a prefix of
what was written, never longer than the buffer; and with a regular end (nil or the short-read
verdict, which it swallows) of a stream that fits the buffer, exactly the stream. -/
theorem C01_getWithPipe_prefix (bufLen : Nat) (written : Bytes) (wend : PipeEnd) :
    (getWithPipeBytes bufLen written wend).1 = written.take (getWithPipeBytes bufLen written wend).1.length ∧
    (getWithPipeBytes bufLen written wend).1.length ≤ max bufLen written.length ∧
    (bufLen ≤ written.length → (getWithPipeBytes bufLen written wend).1.length = bufLen) ∧
    (written.length ≤ bufLen → (getWithPipeBytes bufLen written wend).1 = written) := by
  unfold getWithPipeBytes readFull
  by_cases hl : bufLen ≤ written.length
  · simp only [hl, if_true]
    refine ⟨by simp [List.length_take, Nat.min_eq_left hl], by simp [List.length_take]; omega,
      fun _ => by simp [List.length_take, Nat.min_eq_left hl], fun h2 => ?_⟩
    exact List.take_of_length_le (by omega)
  · simp only [hl, if_false]
    cases wend <;> simp <;> omega

/-- `getWithPipe` reports an error only when the writer ended with one (other than the short-read
verdict) before the buffer was full. -/
theorem C01_getWithPipe_error (bufLen : Nat) (written : Bytes) (wend : PipeEnd)
    (he : (getWithPipeBytes bufLen written wend).2 ≠ .none) :
    written.length < bufLen ∧ (wend = .notExist ∨ wend = .other) := by
  unfold getWithPipeBytes at he
  by_cases hl : bufLen ≤ written.length
  · simp [hl] at he
  · simp only [hl, if_false] at he
    cases wend <;> simp at he ⊢ <;> omega

/-! ### Non-vacuity -/

section
-- the environments are inhabited by disturbed and undisturbed values, and they matter
example : (handleGetEnv exHash List.length ⟨false, none⟩ [exVolIntact] 6).status = 503 := by decide
example : (handleGetEnv exHash List.length ⟨true, some 0⟩ [exVolIntact] 6).status = 503 := by decide
example : (handleGetEnv exHash List.length ⟨true, some 1⟩ [exVolCorrupt, exVolIntact] 6).status = 503 := by decide
example : (handleGetEnv exHash List.length ⟨true, some 2⟩ [exVolCorrupt, exVolIntact] 6).status = 200 := by decide
example : (handlePutEnv exHash List.length ⟨false, true, .never⟩ [exVolEmpty] 0 6 [1, 2, 3] true).1.status = 503 := by decide
example : (handlePutEnv exHash List.length ⟨true, false, .never⟩ [exVolEmpty] 0 6 [1, 2, 3] true).1.status = 500 := by decide
example : (handlePutEnv exHash List.length ⟨true, true, .beforeWrite⟩ [exVolEmpty] 0 6 [1, 2, 3] true).1.status = 503 := by decide
-- a write overtaken by a disconnect: 503, but the block is there
example : (handlePutEnv exHash List.length ⟨true, true, .duringWrite true⟩ [exVolEmpty] 0 6 [1, 2, 3] true).1.status = 503 ∧
    ((handlePutEnv exHash List.length ⟨true, true, .duringWrite true⟩ [exVolEmpty] 0 6 [1, 2, 3] true).2.1.head?.bind
      (fun v => v.files 6)) = some [1, 2, 3] := by decide
-- a colliding partner ([1,2,3] vs body [3,2,1], both sum 6) on a read-only mount is not detected …
example : (handlePut exHash List.length [exVolIntact, exVolEmpty] 0 6 [3, 2, 1] true).1.status = 200 := by decide
example : (handleGet exHash List.length (handlePut exHash List.length [exVolIntact, exVolEmpty] 0 6 [3, 2, 1] true).2.1 6).body
    = some [1, 2, 3] := by decide
-- … on a writable mount it is
example : (handlePut exHash List.length [⟨false, false, 1, fun k => if k = 6 then some [1, 2, 3] else none⟩, exVolEmpty]
    0 6 [3, 2, 1] true).1.status = 500 := by decide
example : getWithPipeBytes 4 [1, 2, 3, 4, 5, 6] .other = ([1, 2, 3, 4], .none) := by decide
example : getWithPipeBytes 8 [1, 2, 3] .unexpectedEOF = ([1, 2, 3], .none) := by decide
example : getWithPipeBytes 8 [1, 2, 3] .notExist = ([1, 2, 3], .notExist) := by decide
example : Pointwise RoRel [exVolIntact, exVolEmpty] [⟨true, true, 7, fun _ => none⟩, exVolEmpty] :=
  .cons (.inr ⟨rfl, rfl⟩) (.cons (.inl rfl) .nil)
end

end ArvVerif.C01
