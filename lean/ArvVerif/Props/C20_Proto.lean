/-
C20, third extension pass: property theorems about the concurrent part of `splitListRequest`
(goroutine per cluster, `errs` channel, collector with first-error cancellation), modelled as the
transition system of Model/C20_Proto.lean. They connect *every schedule* of that system with the
sequential model (`run`, `runCancel`) that the other C20 theorems are about, and turn the causality
hypothesis `ValidCut` of `C20_cancel` into a theorem.
-/
import ArvVerif.Proofs.C20_Proto2
import ArvVerif.Props.C20_Ext
namespace ArvVerif.C20

theorem runClusterCut_eq_full (cfg : Cfg) (o : Opts) (c : ClusterId) (todo : List Uuid) (cut : Option Nat) :
    runClusterCut cfg o c todo cut = full cfg (remoteOpts cfg.localId o) c todo cut := by
  unfold runClusterCut full
  cases backendFor cfg c <;> rfl

theorem runCluster_eq_full (cfg : Cfg) (o : Opts) (c : ClusterId) (todo : List Uuid) :
    runCluster cfg o c todo = full cfg (remoteOpts cfg.localId o) c todo none := by
  unfold runCluster full
  cases backendFor cfg c <;> rfl

theorem find_c (l : List GState) (hnd : (l.map (·.c)).Nodup) (g : GState) (hg : g ∈ l) :
    l.find? (fun x => decide (x.c = g.c)) = some g := by
  induction l with
  | nil => cases hg
  | cons a l ih =>
    simp only [List.map_cons, List.nodup_cons] at hnd
    rcases List.mem_cons.mp hg with rfl | hg'
    · simp
    · have hne : a.c ≠ g.c := by
        intro heq; apply hnd.1; rw [heq]; exact List.mem_map_of_mem hg'
      simp [hne, ih hnd.2 hg']

/-- **Every schedule of the goroutines, the channel and the collector is a run of the sequential model.**
For a split request, arbitrary backends, any allocation of the goroutines' `remoteOpts` variables in
which no two goroutines share one (the code: declared inside the goroutine), and any complete run of
the transition system (any interleaving of goroutine steps and receives, a cancelled context seen or
not seen by each later call):
* there is exactly one goroutine per group, and what each did — the requests it sent (each carrying
  *its own* batch), the answers, the pages handed to the merge callback, how it ended — is exactly
  `runClusterCut` of the sequential model under the cancellation schedule `cutOf` the run realised;
* that schedule has a cause (`ValidCut`): a goroutine sees a cancelled context only after a goroutine
  that never saw one has failed by itself — the hypothesis of `C20_cancel` is a theorem here;
* `firstErr = nil` ⇒ nobody was cancelled and the request is the undisturbed `run`, which succeeded;
* `firstErr = e` ⇒ `e` is one of the errors `runCancel` allows (the genuine failure of an unaffected
  cluster), so `C20_cancel`/`C20_fail_whole` apply to what Go returns. -/
theorem C20_proto_sound (cfg : Cfg) (o : Opts) (gs : List (ClusterId × List Uuid))
    (hplan : plan cfg.localId cfg.maxItems o = .split gs)
    (slotOf : ClusterId → ClusterId) (hslots : (gs.map (fun g => slotOf g.1)).Nodup)
    (s : PState) (hrun : PSteps cfg (remoteOpts cfg.localId o) (initP slotOf o gs) s) (hc : s.complete) :
    s.gs.map (fun g => (g.c, g.todo0)) = gs ∧
    (∀ g ∈ s.gs, g.result = runClusterCut cfg o g.c g.todo0 (s.cutOf g.c)) ∧
    ValidCut cfg o gs s.cutOf ∧
    (s.firstErr = none → (∀ c, s.cutOf c = none) ∧ runCancel cfg o s.cutOf false = run cfg o ∧
      ∃ items, (run cfg o).out = .ok items) ∧
    (∀ e, s.firstErr = some e → ∃ ss, (runCancel cfg o s.cutOf false).out = .err ss ∧ e ∈ ss) := by
  have hinv := psteps_inv cfg (remoteOpts cfg.localId o) _ (by simpa [List.map_map, Function.comp_def] using hslots)
    _ s (init_inv cfg (remoteOpts cfg.localId o) slotOf o gs) hrun
  obtain ⟨m, -, hgs, -⟩ := plan_split _ _ _ _ hplan
  have hcn : (gs.map (·.1)).Nodup := by rw [hgs, groups_fst]; exact nodup_clusterIds _
  -- one goroutine per group
  have hcs : s.gs.map (fun g => (g.c, g.todo0)) = gs := by
    have := congrArg (List.map (fun t : ClusterId × List Uuid × ClusterId => (t.1, t.2.1))) hinv.static
    simpa [List.map_map, Function.comp_def, staticOf] using this
  have hcids : (s.gs.map (·.c)).Nodup := by
    have : s.gs.map (·.c) = gs.map (·.1) := by rw [← hcs, List.map_map]; rfl
    rw [this]; exact hcn
  have hcut : ∀ g ∈ s.gs, s.cutOf g.c = g.sawCancel := by
    intro g hg; unfold PState.cutOf; rw [find_c s.gs hcids g hg]; rfl
  have hgrp : ∀ g ∈ s.gs, (g.c, g.todo0) ∈ gs := by
    intro g hg; rw [← hcs]; exact List.mem_map.mpr ⟨g, hg, rfl⟩
  have hgor : ∀ gg ∈ gs, ∃ g ∈ s.gs, gg = (g.c, g.todo0) := by
    intro gg hgg; rw [← hcs] at hgg
    obtain ⟨g, hg, rfl⟩ := List.mem_map.mp hgg
    exact ⟨g, hg, rfl⟩
  -- every goroutine has finished; what it did is the sequential model's run under its cut
  have hfin : ∀ g ∈ s.gs, ∃ st, g.phase = .finished st := by
    intro g hg
    have := hc.1 g hg
    cases hp : g.phase with
    | finished st => exact ⟨st, rfl⟩
    | loop _ _ => simp [GState.isFinished, hp] at this
    | prepared _ _ => simp [GState.isFinished, hp] at this
  have hres : ∀ g ∈ s.gs, g.result = runClusterCut cfg o g.c g.todo0 (s.cutOf g.c) := by
    intro g hg
    obtain ⟨st, hp⟩ := hfin g hg
    have hl := hinv.loc g hg
    rw [hcut g hg, runClusterCut_eq_full]
    simp only [LInv, hp] at hl
    cases hsc : g.sawCancel with
    | none => rw [hsc] at hl; simp only at hl; rw [hl]; simp [GState.result, hp]
    | some k => rw [hsc] at hl; simp only at hl; rw [hl.1]; simp [GState.result, hp]
  -- a goroutine that never saw a cancellation: its group is unaffected, its result is `runCluster`
  have hunaff : ∀ g ∈ s.gs, g.sawCancel = none →
      affected cfg o s.cutOf (g.c, g.todo0) = false ∧
      ∀ st, g.phase = .finished st → (runCluster cfg o g.c g.todo0).stop = st := by
    intro g hg hsc
    refine ⟨by simp [affected, hcut g hg, hsc], ?_⟩
    intro st hp
    have hl := hinv.loc g hg
    simp only [LInv, hp, hsc] at hl
    rw [runCluster_eq_full, hl]
  have hvalid : ValidCut cfg o gs s.cutOf := by
    rintro ⟨gg, hgg, haff⟩
    obtain ⟨g, hg, rfl⟩ := hgor gg hgg
    have hsome : g.sawCancel ≠ none := by
      intro hn
      rw [(hunaff g hg hn).1] at haff; cases haff
    have hcancelled : s.cancelled = true := by
      cases hcl : s.cancelled with
      | true => rfl
      | false => exact absurd (hinv.nocancel hcl g hg) hsome
    have hfirst : s.firstErr ≠ none := by
      intro hn; rw [hinv.first_iff.mp hn] at hcancelled; cases hcancelled
    obtain ⟨e, he⟩ := Option.ne_none_iff_exists'.mp hfirst
    obtain ⟨r, hr, hrp, hrs⟩ := hinv.first_src e he
    refine ⟨(r.c, r.todo0), hgrp r hr, (hunaff r hr hrs).1, ?_⟩
    rw [(hunaff r hr hrs).2 _ hrp]
    simp
  refine ⟨hcs, hres, hvalid, ?_, ?_⟩
  · intro hnone
    have hcl := hinv.first_iff.mp hnone
    have hnocut : ∀ c, s.cutOf c = none := by
      intro c
      unfold PState.cutOf
      cases hf : s.gs.find? (fun g => decide (g.c = c)) with
      | none => rfl
      | some g => exact hinv.nocancel hcl g (List.mem_of_find?_eq_some hf)
    have hunaffAll : ∀ g ∈ gs, affected cfg o s.cutOf g = false := by
      intro g _; simp [affected, hnocut g.1]
    refine ⟨hnocut, (C20_cancel cfg o gs s.cutOf hplan).1 hunaffAll, ?_⟩
    -- nothing is left in the channel, so no goroutine failed
    have hflt : s.gs.filter GState.isFinished = s.gs := List.filter_eq_self.mpr hc.1
    have hchan : s.chan = [] := by
      have := hinv.count
      rw [hflt, hc.2] at this
      exact List.length_eq_zero_iff.mp (by omega)
    have hdone : ∀ g ∈ gs, (runCluster cfg o g.1 g.2).stop = .done := by
      intro gg hgg
      obtain ⟨g, hg, rfl⟩ := hgor gg hgg
      obtain ⟨st, hp⟩ := hfin g hg
      rw [(hunaff g hg (hinv.nocancel hcl g hg)).2 st hp]
      cases st with
      | done => rfl
      | failed e =>
        rcases hinv.failed_seen g hg e hp with h1 | ⟨e', h1⟩
        · exact absurd hnone h1
        · rw [hchan] at h1; cases h1
      | starved =>
        have := (hunaff g hg (hinv.nocancel hcl g hg)).2 _ hp
        exact absurd this (runCluster_not_starved cfg o g.c g.todo0).1
    rw [run_of_split cfg o gs hplan, if_pos ((errs_nil_iff _).mpr (results_of_done cfg o gs hdone))]
    exact ⟨_, rfl⟩
  · intro e he
    obtain ⟨r, hr, hrp, hrs⟩ := hinv.first_src e he
    obtain ⟨hra, hrst⟩ := hunaff r hr hrs
    have hstop : (runCluster cfg o r.c r.todo0).stop = .failed e := hrst _ hrp
    have hne : (gs.map (fun g => (g.1, runClusterCut cfg o g.1 g.2 (s.cutOf g.1)))).filterMap
        (fun r => r.2.stop.status?) ≠ [] := by
      intro hnil
      have := (errs_nil_iff _).mp hnil (r.c, runClusterCut cfg o r.c r.todo0 (s.cutOf r.c))
        (List.mem_map.mpr ⟨(r.c, r.todo0), hgrp r hr, rfl⟩)
      rw [runClusterCut_unaffected cfg o s.cutOf (r.c, r.todo0) hra] at this
      simp only at this
      rw [hstop] at this; cases this
    refine ⟨(gs.filter (fun g => !affected cfg o s.cutOf g)).filterMap
        (fun g => (runCluster cfg o g.1 g.2).stop.status?), ?_, ?_⟩
    · unfold runCancel; rw [hplan]; simp only
      rw [if_neg hne]; simp
    · exact List.mem_filterMap.mpr ⟨(r.c, r.todo0),
        List.mem_filter.mpr ⟨hgrp r hr, by simp [hra]⟩, by simp [hstop]⟩

/-- The code's allocation — `remoteOpts := opts` inside the goroutine, one variable each (tied by
`tie_splitConds`/`tie_splitAssigns`: the `remoteOpts.Select != nil` test and the assignment stand
behind the backend selection of the goroutine) — satisfies the hypothesis of `C20_proto_sound`. -/
theorem C20_proto_own_vars (cfg : Cfg) (o : Opts) (gs : List (ClusterId × List Uuid))
    (hplan : plan cfg.localId cfg.maxItems o = .split gs) : (gs.map (fun g => id g.1)).Nodup := by
  obtain ⟨m, -, hgs, -⟩ := plan_split _ _ _ _ hplan
  have : gs.map (fun g => id g.1) = gs.map (·.1) := rfl
  rw [this, hgs, groups_fst]; exact nodup_clusterIds _

/-- **No deadlock, no endless run.** In every state reachable from the start (arbitrary backends, any
schedule) that is not complete some step is possible — a goroutine can always move, and once all
have sent, the value is in the channel for the collector — and every step decreases a measure that
starts at `Σ_c (2·|todo_c| + 2) + #clusters`. So `splitListRequest` returns, after at most that many
steps, whatever the backends answer (the property's "instead of … looping"). -/
theorem C20_proto_terminates (cfg : Cfg) (o : Opts) (gs : List (ClusterId × List Uuid))
    (slotOf : ClusterId → ClusterId) (hslots : (gs.map (fun g => slotOf g.1)).Nodup)
    (s : PState) (hrun : PSteps cfg (remoteOpts cfg.localId o) (initP slotOf o gs) s) :
    (¬ s.complete → ∃ t, PStep cfg (remoteOpts cfg.localId o) s t) ∧
    (∀ t, PStep cfg (remoteOpts cfg.localId o) s t → t.measure < s.measure) ∧
    s.measure ≤ (initP slotOf o gs).measure ∧
    (initP slotOf o gs).measure = (gs.map (fun g => 2 * g.2.length + 2)).sum + gs.length := by
  have hst : ((gs.map (fun g => (g.1, g.2, slotOf g.1))).map (·.2.2)).Nodup := by
    simpa [List.map_map, Function.comp_def] using hslots
  have hinit := init_inv cfg (remoteOpts cfg.localId o) slotOf o gs
  have hinv := psteps_inv cfg (remoteOpts cfg.localId o) _ hst _ s hinit hrun
  refine ⟨pstep_progress cfg _ _ s hinv, fun t ht => pstep_measure cfg _ _ s t hinv ht, ?_, ?_⟩
  · clear hinv
    induction hrun with
    | refl => exact Nat.le_refl _
    | tail t u hst' hstep ih =>
      have hinvt := psteps_inv cfg (remoteOpts cfg.localId o) _ hst _ t hinit hst'
      have := pstep_measure cfg _ _ t u hinvt hstep
      omega
  · simp [PState.measure, initP, List.map_map, Function.comp_def, initG, GState.measure]

theorem psteps_trans (cfg : Cfg) (ropts : Opts) (s t u : PState)
    (h1 : PSteps cfg ropts s t) (h2 : PSteps cfg ropts t u) : PSteps cfg ropts s u := by
  induction h2 with
  | refl => exact h1
  | tail v w _ hstep ih => exact PSteps.tail _ _ _ ih hstep

/-- Non-vacuity of `C20_proto_sound` for *every* instance: a complete run exists (follow any enabled
step until the measure is used up). -/
theorem C20_proto_run_exists (cfg : Cfg) (o : Opts) (gs : List (ClusterId × List Uuid))
    (slotOf : ClusterId → ClusterId) (hslots : (gs.map (fun g => slotOf g.1)).Nodup) :
    ∃ s, PSteps cfg (remoteOpts cfg.localId o) (initP slotOf o gs) s ∧ s.complete := by
  have key : ∀ n, ∀ s, PSteps cfg (remoteOpts cfg.localId o) (initP slotOf o gs) s → s.measure ≤ n →
      ∃ t, PSteps cfg (remoteOpts cfg.localId o) (initP slotOf o gs) t ∧ t.complete := by
    intro n
    induction n with
    | zero =>
      intro s hs hm
      by_cases hc : s.complete
      · exact ⟨s, hs, hc⟩
      · obtain ⟨hprog, hdec, -⟩ := C20_proto_terminates cfg o gs slotOf hslots s hs
        obtain ⟨t, ht⟩ := hprog hc
        have := hdec t ht
        omega
    | succ n ih =>
      intro s hs hm
      by_cases hc : s.complete
      · exact ⟨s, hs, hc⟩
      · obtain ⟨hprog, hdec, -⟩ := C20_proto_terminates cfg o gs slotOf hslots s hs
        obtain ⟨t, ht⟩ := hprog hc
        have := hdec t ht
        exact ih t (PSteps.tail _ _ _ hs ht) (by omega)
  exact key _ _ (PSteps.refl _) (Nat.le_refl _)

/-! ### what distinct variables buy: the same system with ONE shared `remoteOpts`

Two remote clusters, one uuid each; `slotOf = fun _ => []` puts both goroutines' `remoteOpts` into
one variable (what hoisting `remoteOpts := opts` out of the goroutine does). Schedule: bbbbb writes its
request, ccccc writes its request, bbbbb calls `fn`: cluster bbbbb is asked for ccccc's uuid. So the
hypothesis `hslots` of `C20_proto_sound` cannot be dropped. -/

def sB1 : Uuid := "bbbbb-4zz18-000000000000001".toList
def sC1 : Uuid := "ccccc-4zz18-000000000000001".toList
def sBk : Backend := fun _ _ => .page []

def sCfg : Cfg :=
  { localId := "aaaaa".toList, maxItems := 10, localB := sBk
    remotes := fun c => if c = "bbbbb".toList ∨ c = "ccccc".toList then some sBk else none }

def sOpts : Opts :=
  { filters := [⟨sUuid, sIn, .slist [sB1, sC1]⟩], count := sNone, limit := -1, offset := 0,
    order := [], select := none, bypass := false, fwd := [] }

def sGs : List (ClusterId × List Uuid) := [("bbbbb".toList, [sB1]), ("ccccc".toList, [sC1])]

example : plan sCfg.localId sCfg.maxItems sOpts = .split sGs := by decide
-- with the code's allocation the hypothesis holds on this instance
example : (sGs.map (fun g => id g.1)).Nodup := by decide

theorem C20_proto_shared_var_unsafe :
    ∃ s, PSteps sCfg (remoteOpts sCfg.localId sOpts) (initP (fun _ => []) sOpts sGs) s ∧
      ∃ g ∈ s.gs, g.c = "bbbbb".toList ∧
        g.acc.log = [(batchReq (remoteOpts sCfg.localId sOpts) [sC1], .page [])] := by
  have hb : backendFor sCfg "bbbbb".toList = some sBk := by
    unfold backendFor sCfg; simp
  have hcb : backendFor sCfg "ccccc".toList = some sBk := by
    unfold backendFor sCfg; simp
  let ro := remoteOpts sCfg.localId sOpts
  let gb := initG (fun _ => []) ("bbbbb".toList, [sB1])
  let gc := initG (fun _ => []) ("ccccc".toList, [sC1])
  let gb1 : GState := { gb with phase := .prepared [sB1] 0 }
  let gc1 : GState := { gc with phase := .prepared [sC1] 0 }
  let s0 := initP (fun _ => []) sOpts sGs
  let s1 : PState := { s0 with gs := [] ++ gb1 :: [gc], vars := setVar s0.vars gb.slot (batchReq ro [sB1]),
                               chan := s0.chan ++ (none : Option Sent).toList }
  let s2 : PState := { s1 with gs := [gb1] ++ gc1 :: [], vars := setVar s1.vars gc.slot (batchReq ro [sC1]),
                               chan := s1.chan ++ (none : Option Sent).toList }
  have step1 : PStep sCfg ro s0 s1 := PStep.gor s0 [] [gc] gb _ _ _ rfl
    (GStep.prepare gb [sB1] 0 sBk rfl (by simp) hb)
  have step2 : PStep sCfg ro s1 s2 := PStep.gor s1 [gb1] [] gc _ _ _ rfl
    (GStep.prepare gc [sC1] 0 sBk rfl (by simp) hcb)
  have step3 := PStep.gor (cfg := sCfg) (ropts := ro) s2 [] [gc1] gb1 _ _ _ rfl
    (GStep.call gb1 [sB1] 0 sBk rfl hb)
  refine ⟨_, PSteps.tail _ _ _ (PSteps.tail _ _ _ (PSteps.tail _ _ _ (PSteps.refl _) step1) step2) step3, ?_⟩
  refine ⟨_, List.mem_cons_self, ?_, ?_⟩
  · simp [afterCall, sBk, gb1, gb, initG]
  · simp [afterCall, sBk, gb1, gb, gc, initG, setVar, Acc.add, ro, s2]

/-- **Options the split never reads reach every backend unchanged**: `where`, `include`, `cluster_id`,
`include_trash`, `include_old_versions`, `distinct` of every request a split sends are the client's. -/
theorem C20_options_forwarded (cfg : Cfg) (o : Opts) (c : ClusterId) (todo : List Uuid) :
    ∀ e ∈ (runCluster cfg o c todo).log,
      e.1.whereKV = o.whereKV ∧ e.1.includeS = o.includeS ∧ e.1.clusterId = o.clusterId ∧
      e.1.includeTrash = o.includeTrash ∧ e.1.includeOldVersions = o.includeOldVersions ∧
      e.1.distinct = o.distinct := by
  intro e he
  unfold runCluster at he
  cases hb : backendFor cfg c with
  | none => rw [hb] at he; simp at he
  | some B =>
    rw [hb] at he
    obtain ⟨batch, i, _, _, rfl⟩ := (loop_log B _ _ todo 0).1 e he
    exact ⟨rfl, rfl, rfl, rfl, rfl, rfl⟩

end ArvVerif.C20
