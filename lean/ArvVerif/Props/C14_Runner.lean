/-
C14: the runner's Kill/Close state machine (Model/C14_Runner.lean).

A kill loop acts on the pool only by `closeRunner` after a `crunch-run --kill` that reported
success, or by draining the worker after giving up; it never removes another container's runner,
never touches `starting`, and each of its actions is a step of the L3 protocol model — so the
invariant behind `C14_mutual_exclusion` is preserved by any number of kill loops.
-/
import ArvVerif.Model.C14_Runner
import ArvVerif.Model.C14_Proto
import ArvVerif.Proofs.C14_L2
namespace ArvVerif.C14

/-- **At most one kill loop per runner.** `Kill` sets `stopping` and starts a loop only if it was
not set; a second `Kill` does nothing. It never closes the runner or marks it given up. -/
theorem C14_kill_starts_one_loop (r : Runner) :
    r.kill.1.stopping = true ∧ (r.kill.2 = true ↔ r.stopping = false) ∧
    r.kill.1.kill = (r.kill.1, false) ∧ r.kill.1.closed = r.closed ∧ r.kill.1.givenup = r.givenup := by
  unfold Runner.kill
  cases h : r.stopping <;> simp [h]

example : (Runner.kill {}).2 = true ∧ ((Runner.kill {}).1.kill).2 = false := by decide

/-- The three things a tick can do to the worker. -/
theorem killTick_cases (w : Worker) (u : Uuid) (r : Runner) (pd ok g : Bool) (now : Nat) :
    ((w.killTick u r pd ok g now).1 = w ∧ (w.killTick u r pd ok g now).2.2.2 = false) ∨
    (r.closed = false ∧ pd = false ∧ ok = true ∧
      (w.killTick u r pd ok g now).1 = (w.closeRunner u now).1 ∧
      (w.killTick u r pd ok g now).2.2.2 = (w.closeRunner u now).2) ∨
    (r.closed = false ∧ pd = true ∧ w.idleB ≠ .hold ∧
      (w.killTick u r pd ok g now).1 = w.setIdleBehavior .drain false g now ∧
      (w.killTick u r pd ok g now).2.2.2 = false) := by
  unfold Worker.killTick Runner.tickAct
  cases hc : r.closed
  · cases hp : pd
    · cases hk : ok
      · simp
      · simp [Worker.onKilled]
    · by_cases hh : w.idleB = .hold
      · simp [Worker.onUnkillable, hh]
      · simp [Worker.onUnkillable, hh]
  · simp

/-- **A runner leaves `running` only when its kill succeeded.** If a tick of the kill loop of
container `u` removes some container `v` from the worker's `running`, then `v = u`, the runner was
not closed, the deadline had not passed, and `crunch-run --kill` reported success (truthful kill:
the process is gone). Nothing is ever added, and `starting` is untouched. -/
theorem C14_runner_removed_only_when_killed (w : Worker) (u : Uuid) (r : Runner) (pd ok g : Bool) (now : Nat) :
    (∀ v, v ∈ w.running → v ∉ (w.killTick u r pd ok g now).1.running →
      v = u ∧ r.closed = false ∧ pd = false ∧ ok = true) ∧
    (∀ v, v ∈ (w.killTick u r pd ok g now).1.running → v ∈ w.running) ∧
    (w.killTick u r pd ok g now).1.starting = w.starting := by
  rcases killTick_cases w u r pd ok g now with ⟨h, _⟩ | ⟨hc, hp, hk, h, _⟩ | ⟨_, _, _, h, _⟩
  · rw [h]; exact ⟨fun v hv hn => absurd hv hn, fun v hv => hv, rfl⟩
  · rw [h]
    obtain ⟨s1, s2, _⟩ := Worker.closeRunner_spec w u now
    refine ⟨fun v hv hn => ⟨?_, hc, hp, hk⟩, fun v hv => ((s1 v).mp hv).1, s2⟩
    apply Classical.byContradiction
    intro hne
    exact hn ((s1 v).mpr ⟨hv, hne⟩)
  · rw [h]
    obtain ⟨s1, s2, _⟩ := Worker.setIdleBehavior_spec w .drain false g now
    rw [s1]
    exact ⟨fun v hv hn => absurd hv hn, fun v hv => hv, s2⟩

/-- **Giving up drains, it does not forget.** When the SIGTERM deadline has passed (and the runner
is not closed) the tick marks the runner given up, ends the loop, keeps `running` and `starting`
as they are, leaves the worker in a mode other than Run (so `StartContainer` never picks it
again: `Pool.startable`), and shuts a worker that is still Running down only if every one of its
runners has given up. -/
theorem C14_giveup_drains (w : Worker) (u : Uuid) (r : Runner) (ok g : Bool) (now : Nat) (hc : r.closed = false) :
    (w.killTick u r true ok g now).2.1.givenup = true ∧ (w.killTick u r true ok g now).2.2.1 = false ∧
    (w.killTick u r true ok g now).1.running = w.running ∧
    (w.killTick u r true ok g now).1.starting = w.starting ∧
    (w.killTick u r true ok g now).1.idleB ≠ .run ∧
    ((w.killTick u r true ok g now).1.state = .shutdown →
      w.state = .shutdown ∨ w.state = .booting ∨ w.state = .idle ∨ (w.state = .running ∧ g = true)) := by
  have ht : (w.killTick u r true ok g now) =
      (w.onUnkillable g now, { r with givenup := true }, false, false) := by
    simp [Worker.killTick, Runner.tickAct, hc]
  rw [ht]
  refine ⟨rfl, rfl, ?_⟩
  unfold Worker.onUnkillable
  by_cases hh : w.idleB = .hold
  · simp only [hh, beq_self_eq_true, if_true]
    exact ⟨trivial, trivial, by simp, fun h => Or.inl h⟩
  · have hb : (w.idleB == IdleB.hold) = false := by simpa using hh
    simp only [hb]
    obtain ⟨s1, s2, s3, _⟩ := Worker.setIdleBehavior_spec w .drain false g now
    refine ⟨s1, s2, by simp only [Bool.false_eq_true, if_false]; rw [s3]; simp, ?_⟩
    simp only [Bool.false_eq_true, if_false]
    unfold Worker.setIdleBehavior Worker.shutdownIfIdle Worker.eligibleForShutdown
    cases hs : w.state <;> cases g <;> simp [Worker.shutdown]

example : ((Worker.killTick ⟨1, 1, .running, .run, [], [7, 8], 0, 0, 0⟩ 7 {stopping := true} true false false 9).1.idleB,
    (Worker.killTick ⟨1, 1, .running, .run, [], [7, 8], 0, 0, 0⟩ 7 {stopping := true} true false false 9).1.state,
    (Worker.killTick ⟨1, 1, .running, .run, [], [7, 8], 0, 0, 0⟩ 7 {stopping := true} true false false 9).1.running)
    = (.drain, .running, [7, 8]) := by decide
example : (Worker.killTick ⟨1, 1, .running, .run, [], [7], 0, 0, 0⟩ 7 {stopping := true} true false true 9).1.state
    = .shutdown := by decide
example : ((Worker.killTick ⟨1, 1, .running, .run, [], [7, 8], 0, 0, 0⟩ 7 {stopping := true} false true false 9).1.running,
    (Worker.killTick ⟨1, 1, .running, .run, [], [7, 8], 0, 0, 0⟩ 7 {stopping := true} false true false 9).2.2.2)
    = ([8], true) := by decide

/-- **The kill loop refines the protocol model.** Under truthful kill (`crunch-run --kill` reports
success only when the process is gone: `c ∉ s.procs i`) every tick of a kill loop on worker `i`
either leaves the worker as it is or is a step of the L3 transition system (`Step.killed` or
`Step.setIdle`). Hence every state reached with any number of kill loops running is `Reach`able,
and `C14_mutual_exclusion` covers it. -/
theorem C14_kill_tick_is_step (s : PState) (i : Nat) (w : Worker) (c : Uuid) (r : Runner) (pd ok g : Bool)
    (hw : s.wk i = some w) (htruth : ok = true → c ∉ s.procs i) :
    (w.killTick c r pd ok g (s.clock + 1)).1 = w ∨
    Step s { s with wk := upd s.wk i (some (w.killTick c r pd ok g (s.clock + 1)).1), clock := s.clock + 1 } := by
  rcases killTick_cases w c r pd ok g (s.clock + 1) with ⟨h, _⟩ | ⟨_, _, hk, h, _⟩ | ⟨_, _, _, h, _⟩
  · exact Or.inl h
  · rw [h]; exact Or.inr (Step.killed s i c w hw (htruth hk))
  · rw [h]; exact Or.inr (Step.setIdle s i w .drain false g hw)

theorem C14_kill_tick_reach (s : PState) (hs : Reach s) (i : Nat) (w : Worker) (c : Uuid) (r : Runner)
    (pd ok g : Bool) (hw : s.wk i = some w) (htruth : ok = true → c ∉ s.procs i) :
    (w.killTick c r pd ok g (s.clock + 1)).1 = w ∨
    Reach { s with wk := upd s.wk i (some (w.killTick c r pd ok g (s.clock + 1)).1), clock := s.clock + 1 } := by
  rcases C14_kill_tick_is_step s i w c r pd ok g hw htruth with h | h
  · exact Or.inl h
  · exact Or.inr (Reach.step hs h)

end ArvVerif.C14
