/-
C11 — the Keep client reports a successful write only when enough replicas are confirmed.

All theorems are about `put c sv picks` (Model/C11.lean): `putReplicas` run with the writable
services in probe order `sv` (any list), for every configuration `c` (want, replicasPerService,
retries, and every answer script `c.script service round`) and every completion order `picks`.
`s` is the state at the return; `s.reqLog` / `s.respLog` are the requests sent and the answers
processed, as (service, round) pairs; `is200 c e` says the answer to request `e` had status 200 and
`repSum c l` adds up the X-Keep-Replicas-Stored values of the answers to the requests in `l`.
-/
import ArvVerif.Proofs.C11_Trace
import ArvVerif.Proofs.C11_Load
import ArvVerif.Proofs.C11_Order
namespace ArvVerif.C11

/-- A nil error comes only with at least `want` replicas confirmed by the 200 answers that were
processed; the count returned is exactly their sum; and (for want > 0) the locator returned is the
trimmed body of one of those 200 answers. -/
theorem C11_ok_sound (c : Cfg) (sv : List Srv) (picks : List Nat) (loc : List Nat) (n : Int) (s : St)
    (h : put c sv picks = some (.ok loc n, s)) :
    (c.want : Int) ≤ n ∧ n = repSum c (s.respLog.filter (is200 c)) ∧
    (∀ e ∈ s.respLog, e ∈ s.reqLog) ∧
    (0 < c.want → ∃ e ∈ s.respLog, is200 c e = true ∧ loc = (c.script e.1 e.2).body) := by
  have hi := run_preserved (inv_preserved c) _ _ _ _ _ (inv_init c sv) h
  have ht := run_preserved (trace_preserved c sv) _ _ _ _ _ (trace_init c sv) h
  have hr : OkAt s loc n := run_result_at c _ _ _ _ _ (inv_init c sv) h
  obtain ⟨hloc, hn, htodo⟩ := hr
  have hbal := hi.bal
  refine ⟨by omega, ?_, ht.respReq, ?_⟩
  · rw [hn, hi.acct, hi.okf]
  · intro hw
    have hsum : 0 < repSum c s.okLog := by rw [← hi.acct]; omega
    cases hok : s.okLog with
    | nil => rw [hok] at hsum; simp [repSum] at hsum
    | cons e t =>
      have hmem : e ∈ s.respLog.filter (is200 c) := by rw [← hi.okf, hok]; exact List.mem_cons_self
      rw [List.mem_filter] at hmem
      refine ⟨e, hmem.1, hmem.2, ?_⟩
      rw [hloc, hi.loc, hok]; rfl

/-- With services that answer 200 only with the locator `L` they issue for this hash and size
(honest services), a successful write of want > 0 replicas returns exactly `L`. -/
theorem C11_locator_issued (c : Cfg) (sv : List Srv) (picks : List Nat) (loc L : List Nat) (n : Int)
    (s : St) (honest : ∀ x k, (c.script x k).code = 200 → (c.script x k).body = L)
    (hw : 0 < c.want) (h : put c sv picks = some (.ok loc n, s)) : loc = L := by
  obtain ⟨e, _, h200, hloc⟩ := (C11_ok_sound c sv picks loc n s h).2.2.2 hw
  rw [hloc]
  exact honest e.1 e.2 (by simpa [is200] using h200)

/-- What the client does with 200 bodies: the locator returned (with or without error) is, verbatim,
the trimmed body of the most recently processed 200 answer ("" if there was none). It is not
parsed and not compared with the hash or size that was sent. -/
theorem C11_locator_verbatim (c : Cfg) (sv : List Srv) (picks : List Nat) (r : Res) (s : St)
    (h : put c sv picks = some (r, s)) :
    (match r with | .ok loc _ => loc | .insufficient loc _ => loc) =
      lastBody c (s.respLog.filter (is200 c)) := by
  have hi := run_preserved (inv_preserved c) _ _ _ _ _ (inv_init c sv) h
  have hr := run_result_at c _ _ _ _ _ (inv_init c sv) h
  cases r with
  | ok loc n => simp only []; rw [hr.1, hi.loc, hi.okf]
  | insufficient loc n => simp only []; rw [hr.1, hi.loc, hi.okf]

/-- the hash part of a locator: the bytes before the first '+' -/
def locHash (loc : List Nat) : List Nat := loc.takeWhile (· != 43)

/-- "The locator returned names the hash that was written" without assuming honest services … -/
def C11_locator_names_hash_Full : Prop :=
  ∀ (c : Cfg) (sv : List Srv) (picks : List Nat) (hash loc : List Nat) (n : Int) (s : St),
    0 < c.want → put c sv picks = some (.ok loc n, s) → locHash loc = hash

/-- … is false: a service that answers 200 with a locator for another hash is believed (the client
has no check). With honest services `C11_locator_issued` gives the clause. -/
theorem C11_locator_names_hash_full_fails : ¬ C11_locator_names_hash_Full := by
  intro hfull
  have h := hfull { want := 1, rps := 1, retries := 0, script := fun _ _ => ⟨200, 1, [98, 43, 51]⟩ }
    [0] [] [97] [98, 43, 51] 1
  have hrun : (put { want := 1, rps := 1, retries := 0, script := fun _ _ => ⟨200, 1, [98, 43, 51]⟩ }
      [0] []).map (·.1) = some (.ok [98, 43, 51] 1) := by decide
  cases hp : put { want := 1, rps := 1, retries := 0, script := fun _ _ => ⟨200, 1, [98, 43, 51]⟩ } [0] [] with
  | none => rw [hp] at hrun; cases hrun
  | some rs =>
    obtain ⟨r, s⟩ := rs
    rw [hp] at hrun
    simp only [Option.map_some, Option.some.injEq] at hrun
    subst hrun
    have := h s (by decide) hp
    revert this; decide

/-- Otherwise the result is the insufficient-replicas error (the only other result the machine
has), and the count returned is the number confirmed by the processed 200 answers, which is less
than `want`. -/
theorem C11_err_reports_count (c : Cfg) (sv : List Srv) (picks : List Nat) (loc : List Nat) (n : Int)
    (s : St) (h : put c sv picks = some (.insufficient loc n, s)) :
    n < (c.want : Int) ∧ n = repSum c (s.respLog.filter (is200 c)) := by
  have hi := run_preserved (inv_preserved c) _ _ _ _ _ (inv_init c sv) h
  have hr : FailAt s loc n := run_result_at c _ _ _ _ _ (inv_init c sv) h
  obtain ⟨_, hn, htodo, _⟩ := hr
  have hbal := hi.bal
  refine ⟨by omega, ?_⟩
  rw [hn, hi.acct, hi.okf]

/-- Every request goes to a service of the writable probe list. -/
theorem C11_only_writable (c : Cfg) (sv : List Srv) (picks : List Nat) (r : Res) (s : St)
    (h : put c sv picks = some (r, s)) : ∀ e ∈ s.reqLog, e.1 ∈ sv := by
  have ht := run_preserved (trace_preserved c sv) _ _ _ _ _ (trace_init c sv) h
  exact fun e he => (ht.reqSub e he).1

/-- ... and `loadKeepServers` puts a root into the writable map only for a listed service that is
not read-only (whatever `foundNonDiskSvc` was before). -/
theorem C11_writable_map_sound (nd0 : Bool) (l : List Svc) :
    ∀ e ∈ (load nd0 l).writable, ∃ s ∈ l, s.uuid = e.1 ∧ s.url = e.2 ∧ s.ro = false :=
  load_writable nd0 l

/-- A long-lived client that is given service lists one after the other (second
`LoadKeepServicesFromJSON`, refreshed discovery answer) holds, after the last one, exactly the maps
and `replicasPerService` a fresh client would build from that last list: nothing of an earlier
list survives (a service that turned read-only is no longer writable, one that turned writable is).
In particular the writable map is sound for the last list. -/
theorem C11_reload_last_wins (nd0 : Bool) (ls : List (List Svc)) (l : List Svc) :
    (reload nd0 (ls ++ [l])).core = (load false l).core ∧
    (∀ e ∈ (reload nd0 (ls ++ [l])).writable, ∃ s ∈ l, s.uuid = e.1 ∧ s.url = e.2 ∧ s.ro = false) := by
  have h := reload_last nd0 ls l
  refine ⟨h, ?_⟩
  have hw : (reload nd0 (ls ++ [l])).writable = (load false l).writable := by
    simp only [Roots.core, Prod.mk.injEq] at h
    exact h.2.2.1
  rw [hw]
  exact load_writable false l

/-- The retry rule. (a) a service is asked in round k+1 only if its round-k answer was processed
and was transient (connection error, 408, 429, 5xx other than 503) — so 400/403/503/200 answers are
never retried; (b) no request is made after round `Retries`; (c) with distinct services, no service
is asked more than 1+Retries times. -/
theorem C11_retry_rule (c : Cfg) (sv : List Srv) (picks : List Nat) (r : Res) (s : St)
    (hnd : sv.Nodup) (h : put c sv picks = some (r, s)) :
    (∀ x k, (x, k + 1) ∈ s.reqLog → (x, k) ∈ s.respLog ∧
      ((c.script x k).code = 0 ∨ (c.script x k).code = 408 ∨ (c.script x k).code = 429 ∨
       (500 ≤ (c.script x k).code ∧ (c.script x k).code ≠ 503))) ∧
    (∀ e ∈ s.reqLog, e.2 ≤ c.retries) ∧
    (∀ x, reqCount s.reqLog x ≤ c.retries + 1) := by
  have ht := run_preserved (trace_preserved c sv) _ _ _ _ _ (trace_init c sv) h
  have hb := run_preserved (bound_preserved c sv.length) _ _ _ _ _ (bound_init c sv) h
  have ho := run_preserved (once_preserved c) _ _ _ _ _ (once_init c sv hnd) h
  have hrounds := hb.rounds
  refine ⟨?_, ?_, ?_⟩
  · intro x k hm
    have := ht.reqPrev x k hm
    exact ⟨this.1, (retryable_iff _).mp this.2⟩
  · intro e he
    have := (ht.reqSub e he).2
    omega
  · intro x
    have := ho.cnt x
    split at this <;> omega

/-- The requests to one service are its attempts 0, 1, 2, … without gaps: a request in round k
means a request in every earlier round (so "round" is "attempt number of that service"). -/
theorem C11_attempts_contiguous (c : Cfg) (sv : List Srv) (picks : List Nat) (r : Res) (s : St)
    (h : put c sv picks = some (r, s)) :
    ∀ k x, (x, k) ∈ s.reqLog → ∀ j, j ≤ k → (x, j) ∈ s.reqLog := by
  have ht := run_preserved (trace_preserved c sv) _ _ _ _ _ (trace_init c sv) h
  intro k
  induction k with
  | zero =>
    intro x hm j hj
    have : j = 0 := by omega
    subst this; exact hm
  | succ n ih =>
    intro x hm j hj
    by_cases hjn : j = n + 1
    · subst hjn; exact hm
    · exact ih x (ht.respReq _ (ht.reqPrev x n hm).1) j (by omega)

/-- **The k-th request a service receives is its round-k request.** With distinct services, the
rounds of the requests sent to a service `x`, listed in the order the requests were sent
(`roundsOf`), are exactly 0, 1, …, n-1 where n is the number of requests to `x`. So a scripted
service that answers "my k-th request" (the correspondence driver, and the property's "per-attempt
outcome") and the model's `script x k` (answer to the round-k request) are the same thing, and
"attempt" in the property text can be read either way. -/
theorem C11_kth_request (c : Cfg) (sv : List Srv) (picks : List Nat) (r : Res) (s : St)
    (hnd : sv.Nodup) (h : put c sv picks = some (r, s)) (x : Srv) :
    roundsOf s.reqLog x = List.range (reqCount s.reqLog x) ∧
    (∀ (k : Nat) (e : Srv × Nat), (s.reqLog.reverse.filter (fun e => e.1 == x))[k]? = some e → e = (x, k)) := by
  have ho := (run_preserved (orderedOnce_preserved c) _ _ _ _ _ (orderedOnce_init c sv hnd) h).2
  have hc := C11_attempts_contiguous c sv picks r s h
  have h1 := roundsOf_eq_range s.reqLog x ho.sorted ho.nodup (fun k hk j hj => hc k x hk j hj)
  refine ⟨h1, ?_⟩
  intro k e he
  have hmem : e ∈ s.reqLog.reverse.filter (fun e => e.1 == x) := List.mem_of_getElem? he
  have hx : e.1 = x := by
    rw [List.mem_filter, beq_iff_eq] at hmem; exact hmem.2
  have h2 : (roundsOf s.reqLog x)[k]? = some e.2 := by
    unfold roundsOf; rw [List.getElem?_map, he]; rfl
  rw [h1] at h2
  obtain ⟨_, hv⟩ := List.getElem?_eq_some_iff.mp h2
  rw [List.getElem_range] at hv
  cases e with
  | mk a b =>
    simp only at hx hv
    rw [hx, hv]

/-- When the client gives up, it has asked every writable service, and every service that gave a
transient answer has been asked again until the retry limit. -/
theorem C11_retry_complete (c : Cfg) (sv : List Srv) (picks : List Nat) (loc : List Nat) (n : Int)
    (s : St) (h : put c sv picks = some (.insufficient loc n, s)) :
    (∀ x ∈ sv, (x, 0) ∈ s.respLog) ∧
    (∀ x k, (x, k) ∈ s.respLog → retryable (c.script x k).code = true → k < c.retries →
      (x, k + 1) ∈ s.respLog) := by
  have hb := run_preserved (bound_preserved c sv.length) _ _ _ _ _ (bound_init c sv) h
  have hc := run_preserved (complete_preserved c) _ _ _ _ _ (complete_init c sv) h
  have hf := run_preserved (first_preserved c sv) _ _ _ _ _ (first_init c sv) h
  have hr : FailAt s loc n := run_result_at c _ _ _ _ _ (inv_init c sv) h
  obtain ⟨_, _, _, hact, hrr, hnext⟩ := hr
  have hdrop : s.sv.drop s.next = [] := List.drop_eq_nil_of_le hnext
  have hrounds := hb.rounds
  refine ⟨?_, ?_⟩
  · intro x hx
    rcases hf.first x hx with h1 | ⟨_, h2⟩
    · exact h1
    · rw [hdrop, hact] at h2; simp at h2
  · intro x k hm hret hk
    rcases hc.prevRetried x k hm hret (by omega) with h1 | ⟨_, h2⟩
    · exact h1
    · rw [hdrop, hact] at h2; simp at h2

/-- If at least `want` of the writable services (counted by position in `sv`) answer 200 with at
least one replica on every attempt, the write succeeds — whatever the other services answer (as
long as no 200 answer carries a negative replica count), for every completion order. -/
theorem C11_enough_acceptors_partial (c : Cfg) (sv : List Srv) (picks : List Nat) (acc : Srv → Bool)
    (hacc : ∀ x k, acc x = true → (c.script x k).code = 200 ∧ 1 ≤ (c.script x k).rep)
    (hnn : ∀ x k, (c.script x k).code = 200 → 0 ≤ (c.script x k).rep)
    (hcount : c.want ≤ sv.countP acc) :
    ∃ loc n s, put c sv picks = some (.ok loc n, s) := by
  obtain ⟨⟨r, s⟩, h⟩ := put_terminates c sv picks
  cases r with
  | ok loc n => exact ⟨loc, n, s, h⟩
  | insufficient loc n =>
    exfalso
    have hi := run_preserved (inv_preserved c) _ _ _ _ _ (inv_init c sv) h
    have ha := run_preserved (acc_preserved c acc (sv.countP acc) hacc hnn) _ _ _ _ _
      (acc_init c acc sv) h
    have hr : FailAt s loc n := run_result_at c _ _ _ _ _ (inv_init c sv) h
    obtain ⟨_, _, htodo, hact, _, hnext⟩ := hr
    have hp := ha.pend
    rw [List.drop_eq_nil_of_le hnext, hact] at hp
    simp only [List.countP_nil, Nat.add_zero] at hp
    have hbal := hi.bal
    omega

/-- what `uploadToKeepServer` reports for an answer of the property's alphabet: at least one
replica for a response, none (and no status) for a failed exchange -/
theorem upload_alphabet (h : Http) (ha : InAlphabet h) :
    (∃ code hdr body be, h = .resp code hdr body be ∧ (upload h).code = code ∧ 1 ≤ (upload h).rep) ∨
    (h = .connErr ∧ (upload h).code = 0 ∧ (upload h).rep = 0) := by
  cases h with
  | connErr => exact Or.inr ⟨rfl, rfl, rfl⟩
  | resp code hdr body be =>
    left
    refine ⟨code, hdr, body, be, rfl, rfl, ?_⟩
    rcases ha with h1 | h1 | h1 <;> subst h1
    · exact (by decide : (1 : Int) ≤ 1)
    · have : parseRep ['1'] = 1 := by decide
      show (1 : Int) ≤ parseRep ['1']; rw [this]; decide
    · have : parseRep ['2'] = 2 := by decide
      show (1 : Int) ≤ parseRep ['2']; rw [this]; decide

/-- **Full strength for the property's answer alphabet.** Let every answer of every service be
one of the alphabet (`InAlphabet`: connection error, or a response with any status whose
X-Keep-Replicas-Stored is absent, "1" or "2"), as extracted by `uploadToKeepServer` (`upload`). If
at least `want` of the writable services (positions of `sv` marked by `acc`) answer 200 on every
attempt, the write succeeds — whatever the other services answer, for every completion order,
every `replicasPerService` and every retry limit. No hypothesis on integers is left. -/
theorem C11_enough_acceptors (want rps retries : Nat) (http : Srv → Nat → Http) (sv : List Srv)
    (picks : List Nat) (acc : Srv → Bool)
    (halpha : ∀ x k, InAlphabet (http x k))
    (hacc : ∀ x k, acc x = true → ∃ hdr body be, http x k = .resp 200 hdr body be)
    (hcount : want ≤ sv.countP acc) :
    ∃ loc n s, put { want := want, rps := rps, retries := retries,
                     script := fun x k => upload (http x k) } sv picks = some (.ok loc n, s) := by
  apply C11_enough_acceptors_partial _ sv picks acc
  · intro x k hx
    obtain ⟨hdr, body, be, he⟩ := hacc x k hx
    rcases upload_alphabet (http x k) (halpha x k) with ⟨code, hdr', body', be', h1, h2, h3⟩ | ⟨h1, _, _⟩
    · simp only []
      rw [he] at h1
      cases h1
      exact ⟨h2, h3⟩
    · rw [he] at h1; cases h1
  · intro x k h200
    rcases upload_alphabet (http x k) (halpha x k) with ⟨_, _, _, _, _, _, h3⟩ | ⟨_, _, h3⟩
    · simp only []; omega
    · simp only []; omega
  · exact hcount

/-- The version without the side condition on other services' replica counts is false: a 200
answer with a negative X-Keep-Replicas-Stored is believed and pushes the target away. (Such an
answer is outside the property's alphabet; recorded so that the hypothesis is not silently assumed.) -/
def C11_enough_acceptors_Full : Prop :=
  ∀ (c : Cfg) (sv : List Srv) (picks : List Nat) (acc : Srv → Bool),
    (∀ x k, acc x = true → (c.script x k).code = 200 ∧ 1 ≤ (c.script x k).rep) →
    c.want ≤ sv.countP acc → ∃ loc n s, put c sv picks = some (.ok loc n, s)

/-- service 0 answers 200 with a replica count of -1, service 1 is an honest acceptor -/
def cNeg : Cfg := { want := 1, rps := 1, retries := 0,
                    script := fun x _ => if x = 0 then ⟨200, -1, []⟩ else ⟨200, 1, [7]⟩ }

theorem C11_enough_acceptors_full_fails : ¬ C11_enough_acceptors_Full := by
  intro hfull
  obtain ⟨loc, n, s, h⟩ := hfull cNeg [0, 1] [] (fun x => x == 1)
    (by intro x k hx; have : x = 1 := by simpa using hx
        subst this; simp [cNeg])
    (by decide)
  have : (put cNeg [0, 1] []).map (·.1) = some (.insufficient [7] 0) := by decide
  rw [h] at this
  cases this

/-- Puts issued one after the other on the same client: the client keeps nothing from one call
that enters the next, so a sequence is modelled as the independent puts. -/
def putSeq (l : List (Cfg × List Srv × List Nat)) : List (Option (Res × St)) :=
  l.map fun x => put x.1 x.2.1 x.2.2

/-- Each Put of a sequence is decided by its own services, answers and completion order alone —
whatever the earlier Puts on that client were and whatever their services answered (503, errors,
…). In particular a later Put whose services accept it succeeds although the same services refused
an earlier one. (The correspondence check runs such sequences on one real `KeepClient`.) -/
theorem C11_seq_independent (l : List (Cfg × List Srv × List Nat)) (i : Nat) (c : Cfg)
    (sv : List Srv) (picks : List Nat) (h : l[i]? = some (c, sv, picks)) :
    (putSeq l)[i]? = some (put c sv picks) ∧
    ((∃ acc : Srv → Bool,
        (∀ x k, acc x = true → (c.script x k).code = 200 ∧ 1 ≤ (c.script x k).rep) ∧
        (∀ x k, (c.script x k).code = 200 → 0 ≤ (c.script x k).rep) ∧
        c.want ≤ sv.countP acc) →
      ∃ loc n s, (putSeq l)[i]? = some (some (.ok loc n, s))) := by
  have h1 : (putSeq l)[i]? = some (put c sv picks) := by
    simp [putSeq, List.getElem?_map, h]
  refine ⟨h1, ?_⟩
  rintro ⟨acc, hacc, hnn, hcount⟩
  obtain ⟨loc, n, s, hp⟩ := C11_enough_acceptors_partial c sv picks acc hacc hnn hcount
  exact ⟨loc, n, s, by rw [h1, hp]⟩

/-! ### What reaches the services (PutHR's stream check, PutHB, PutB) -/

/-- Whatever a service receives completely from `PutHR(hash, r, n)`: with n > 0 it is the whole
stream, the stream ended with EOF, its MD5 is `hash` and its length is `n` (the client-side check of
`HashCheckingReader` through the asyncbuf); with n ≤ 0 no body is attached at all, whatever the
stream holds. The URL carries `hash`, and n ≤ BLOCKSIZE. -/
theorem C11_puthr_delivered (md5hex : List Nat → List Char) (hash : List Char) (st : Stream)
    (n : Int) (w : Wire) (b : List Nat) (hw : putHRWire md5hex hash st n = some w)
    (hd : w.delivered = some b) :
    w.hash = hash ∧ n ≤ blockSize ∧
    ((0 < n ∧ b = st.data ∧ st.fin = .eof ∧ md5hex b = hash ∧ (b.length : Int) = n) ∨
     (n ≤ 0 ∧ b = [] ∧ w.body = none)) := by
  unfold putHRWire putHR at hw
  split at hw
  · cases hw
  · rename_i p hp
    split at hp
    · cases hp
    · rename_i hc
      cases hp
      cases hw
      have hle : n ≤ blockSize := by
        unfold blockSize at hc ⊢; omega
      refine ⟨rfl, hle, ?_⟩
      by_cases hn : 0 < n
      · left
        simp only [wireOf, hn, decide_true, if_true, Wire.delivered] at hd
        unfold bufferEnd at hd
        cases hf : st.fin with
        | err => simp [hf] at hd
        | eof =>
          simp only [hf] at hd
          by_cases hm : md5hex st.data = hash
          · simp only [hm, if_true] at hd
            split at hd
            · rename_i hl
              cases hd
              exact ⟨hn, rfl, rfl, hm, hl⟩
            · cases hd
          · simp [hm] at hd
      · right
        have hn' : ¬ (n > 0) := hn
        simp only [wireOf, hn', decide_false, Bool.false_eq_true, if_false, Wire.delivered] at hd ⊢
        cases hd
        exact ⟨by omega, rfl, trivial⟩

/-- `PutB` sends the buffer under its own MD5; `PutHB` sends the buffer under the caller's hash,
unchecked. Both requests are always complete. -/
theorem C11_putb_delivered (md5hex : List Nat → List Char) (hash : List Char) (buf : List Nat) :
    (putBWire md5hex buf).delivered = some buf ∧ (putBWire md5hex buf).hash = md5hex buf ∧
    (putHBWire hash buf).delivered = some buf ∧ (putHBWire hash buf).hash = hash := by
  have key : ∀ h : List Char, (putHBWire h buf).delivered = some buf ∧ (putHBWire h buf).hash = h := by
    intro h
    unfold putHBWire putHB
    simp only [wireOf, Wire.delivered]
    by_cases hl : buf.length > 0
    · simp [hl]
    · have : buf = [] := by
        cases buf with
        | nil => rfl
        | cons a t => simp at hl
      subst this; simp
  exact ⟨(key _).1, (key _).2, (key _).1, (key _).2⟩

/-- If no service answers 200 (e.g. because no request can be delivered: wrong hash, short or
failing stream), a Put of want > 0 fails with zero replicas. -/
theorem C11_no_200_fails (c : Cfg) (sv : List Srv) (picks : List Nat) (r : Res) (s : St)
    (hno : ∀ x k, (c.script x k).code ≠ 200) (hw : 0 < c.want)
    (h : put c sv picks = some (r, s)) : ∃ loc, r = .insufficient loc 0 := by
  cases r with
  | ok loc n =>
    obtain ⟨e, _, h200, _⟩ := (C11_ok_sound c sv picks loc n s h).2.2.2 hw
    exact absurd (by simpa [is200] using h200) (hno e.1 e.2)
  | insufficient loc n =>
    have := (C11_err_reports_count c sv picks loc n s h).2
    have hnil : s.respLog.filter (is200 c) = [] := by
      rw [List.filter_eq_nil_iff]
      intro e _
      simpa [is200] using hno e.1 e.2
    rw [hnil] at this
    exact ⟨loc, by rw [this]; rfl⟩

/-- **An acknowledged `PutHR` (declared size n > 0) was checked by the client**: if a 200 only ever
answers a request that was delivered completely (any service, honest about content or not), then
a nil error for want > 0 implies that the stream ended normally, has length n and has MD5 `hash`. -/
theorem C11_puthr_ack_checked (md5hex : List Nat → List Char) (hash : List Char) (st : Stream)
    (n : Int) (w : Wire) (c : Cfg) (sv : List Srv) (picks : List Nat) (loc : List Nat) (k : Int) (s : St)
    (hw : putHRWire md5hex hash st n = some w) (hn : 0 < n)
    (hrec : ∀ x r, (c.script x r).code = 200 → ∃ b, w.delivered = some b)
    (hwant : 0 < c.want) (h : put c sv picks = some (.ok loc k, s)) :
    md5hex st.data = hash ∧ st.fin = .eof ∧ (st.data.length : Int) = n := by
  obtain ⟨e, _, h200, _⟩ := (C11_ok_sound c sv picks loc k s h).2.2.2 hwant
  obtain ⟨b, hb⟩ := hrec e.1 e.2 (by simpa [is200] using h200)
  rcases (C11_puthr_delivered md5hex hash st n w b hw hb).2.2 with ⟨_, h1, h2, h3, h4⟩ | ⟨h1, _, _⟩
  · subst h1; exact ⟨h3, h2, h4⟩
  · omega

/-- Without n > 0 this is false: `PutHR(hash, r, 0)` attaches no body and checks nothing the
services see, so services that do not verify content acknowledge it whatever `r` holds. (An honest
store compares the MD5 of the empty body with the URL hash and refuses; the correspondence check
runs both kinds.) -/
def C11_puthr_ack_checked_Full : Prop :=
  ∀ (md5hex : List Nat → List Char) (hash : List Char) (st : Stream) (n : Int) (w : Wire) (c : Cfg)
    (sv : List Srv) (picks : List Nat) (loc : List Nat) (k : Int) (s : St),
    putHRWire md5hex hash st n = some w →
    (∀ x r, (c.script x r).code = 200 → ∃ b, w.delivered = some b) →
    0 < c.want → put c sv picks = some (.ok loc k, s) → md5hex st.data = hash

theorem C11_puthr_ack_checked_full_fails : ¬ C11_puthr_ack_checked_Full := by
  intro hfull
  let c : Cfg := { want := 1, rps := 1, retries := 0, script := fun _ _ => ⟨200, 1, [76]⟩ }
  have hrun : (put c [0] []).map (·.1) = some (.ok [76] 1) := by decide
  cases hp : put c [0] [] with
  | none => rw [hp] at hrun; cases hrun
  | some rs =>
    obtain ⟨r, s⟩ := rs
    rw [hp] at hrun
    simp only [Option.map_some, Option.some.injEq] at hrun
    subst hrun
    have := hfull (fun _ => ['y']) ['x'] ⟨[1], .eof⟩ 0 _ c [0] [] [76] 1 s rfl
      (by intro x r _; exact ⟨[], rfl⟩) (by decide) hp
    revert this; decide

/-- `putReplicas` always returns, after processing at most (1+Retries)·|sv| answers (and sending
at most that many requests). -/
theorem C11_terminates (c : Cfg) (sv : List Srv) (picks : List Nat) :
    ∃ r s, put c sv picks = some (r, s) ∧
      s.respLog.length ≤ (c.retries + 1) * sv.length ∧
      s.reqLog.length ≤ (c.retries + 1) * sv.length := by
  obtain ⟨⟨r, s⟩, h⟩ := put_terminates c sv picks
  refine ⟨r, s, h, ?_⟩
  have hb := run_preserved (bound_preserved c sv.length) _ _ _ _ _ (bound_init c sv) h
  have h1 := hb.resp; have h2 := hb.req; have h3 := hb.nextLe; have h4 := hb.svLe
  have h5 := hb.rounds
  have h6 : s.round * sv.length ≤ c.retries * sv.length := Nat.mul_le_mul_right _ (by omega)
  rw [Nat.add_mul, Nat.one_mul]
  omega

/-- `PutHR` refuses a declared size above BLOCKSIZE without calling `putReplicas`, and otherwise
passes the given hash and size on; `PutHB`/`PutB` have no size check. -/
theorem C11_oversize (hash : List Char) (n : Int) :
    (putHR hash n = .oversize ↔ blockSize < n) ∧
    (∀ p, putHR hash n = .call p → p.hash = hash ∧ p.expectedLength = n ∧ n ≤ blockSize) ∧
    (∀ len, putHB hash len ≠ .oversize ∧ putB hash len ≠ .oversize) := by
  refine ⟨?_, ?_, ?_⟩
  · unfold putHR blockSize
    constructor
    · intro h; split at h
      · omega
      · cases h
    · intro h; rw [if_pos ⟨by omega, h⟩]
  · intro p hp
    unfold putHR at hp
    split at hp
    · cases hp
    · rename_i hc
      cases hp
      refine ⟨rfl, rfl, ?_⟩
      unfold blockSize at hc ⊢
      omega
  · intro len
    exact ⟨by simp [putHB], by simp [putB, putHB]⟩

/-- What `uploadToKeepServer` reports: a failed exchange has status 0 (which the retry rule treats
as transient); a response keeps its status code; without the header one replica is assumed. -/
theorem C11_upload_status (code : Nat) (hdr : Option (List Char)) (body : List Nat) (be : Bool) :
    (upload .connErr).code = 0 ∧ retryable (upload .connErr).code = true ∧
    (upload (.resp code hdr body be)).code = code ∧
    (upload (.resp code none body be)).rep = 1 ∧
    (upload (.resp code hdr body be)).body = trimSpace (body.take bodyLimit) :=
  ⟨rfl, rfl, rfl, rfl, rfl⟩

/-! ### Non-vacuity: concrete runs -/

namespace Examples

/-- service 0 fails transiently in round 0 and accepts in round 1; service 1 refuses (403);
service 2 accepts with 2 replicas -/
def script1 : Srv → Nat → Up := fun x k =>
  if x = 0 then (if k = 0 then ⟨500, 1, []⟩ else ⟨200, 1, [65]⟩)
  else if x = 1 then ⟨403, 1, []⟩
  else ⟨200, 2, [66]⟩

def c2 : Cfg := { want := 2, rps := 1, retries := 1, script := script1 }
def c3 : Cfg := { c2 with want := 1 }
def cAllFail : Cfg := { want := 2, rps := 0, retries := 2, script := fun _ _ => ⟨0, 0, []⟩ }

/-- a failing write with one replica stored after a retry (0 retried after its 500, 1 refuses);
a successful one when service 2 is there -/
example : (put c2 [0, 1] [1, 0]).map (·.1) = some (.insufficient [65] 1) := by decide
example : (put c2 [0, 2, 1] [0, 0]).map (·.1) = some (.ok [66] 2) := by decide
example : (put c2 [0, 1, 2] [1, 0, 0]).map (fun r => (r.1, r.2.reqLog.reverse)) =
    some (.ok [66] 2, [(0, 0), (1, 0), (2, 0)]) := by decide
/-- `C11_enough_acceptors_partial`'s hypotheses are satisfiable (service 2 is the acceptor), and so is
`C11_ok_sound`'s with want > 0 -/
example : ∃ loc n s, put c3 [0, 2, 1] [0, 0] = some (.ok loc n, s) ∧ 0 < c3.want := by
  obtain ⟨loc, n, s, h⟩ := C11_enough_acceptors_partial c3 [0, 2, 1] [0, 0] (fun x => x == 2)
    (by intro x k hx; have : x = 2 := by simpa using hx
        subst this; simp [c3, c2, script1])
    (by intro x k; simp only [c3, c2, script1]; split
        · split <;> simp
        · split <;> simp)
    (by decide)
  exact ⟨loc, n, s, h, by decide⟩
/-- `C11_err_reports_count` / `C11_retry_complete`: a failing run in which every service is asked
1+Retries times -/
example : (put cAllFail [0, 1] []).map (fun r => (r.1, r.2.reqLog.length, reqCount r.2.reqLog 0)) =
    some (.insufficient [] 0, 6, 3) := by decide
/-- `C11_retry_rule`: a run with a second-round request, on a duplicate-free service list -/
example : [0, 1].Nodup ∧ (put c2 [0, 1] [1, 0]).map (fun r => r.2.reqLog) =
    some [(0, 1), (1, 0), (0, 0)] := by decide
/-- `C11_kth_request`: service 0 is asked in rounds 0 and 1, in that order -/
example : [0, 1].Nodup ∧ (put c2 [0, 1] [1, 0]).map (fun r => (roundsOf r.2.reqLog 0, roundsOf r.2.reqLog 1)) =
    some ([0, 1], [0]) := by decide
/-- `C11_writable_map_sound`: a list with a read-only and a writable service -/
example : (load false [⟨['a'], ['h'], 1, false, "disk".toList, true⟩,
                       ⟨['b'], ['g'], 2, true, "proxy".toList, false⟩]).writable =
    [(['b'], "https://g:2".toList)] := by decide
/-- an alphabet script: service 1 always accepts (two replicas), the others answer 503, then fail -/
def httpEx : Srv → Nat → Http := fun x k =>
  if x = 1 then .resp 200 (some ['2']) [76] false
  else if k = 0 then .resp 503 none [] false else .connErr

/-- `C11_enough_acceptors`: its hypotheses are satisfiable -/
example : ∃ loc n s, put { want := 1, rps := 0, retries := 1, script := fun x k => upload (httpEx x k) }
      [0, 1] [] = some (.ok loc n, s) :=
  C11_enough_acceptors 1 0 1 httpEx [0, 1] [] (fun x => x == 1)
    (by intro x k; unfold httpEx; by_cases h1 : x = 1
        · simp [h1, InAlphabet, AlphaHdr]
        · by_cases h2 : k = 0 <;> simp [h1, h2, InAlphabet, AlphaHdr])
    (by intro x k hx; have : x = 1 := by simpa using hx
        subst this; exact ⟨_, _, _, rfl⟩)
    (by decide)
/-- `C11_reload_last_wins`: service a turns read-only, service b turns into a writable proxy -/
example : (reload false [[⟨['a'], ['h'], 1, false, "disk".toList, false⟩, ⟨['b'], ['g'], 1, false, "disk".toList, true⟩],
                         [⟨['a'], ['h'], 1, false, "disk".toList, true⟩, ⟨['b'], ['g'], 1, false, "proxy".toList, false⟩]]).writable
    = [(['b'], "http://g:1".toList)] := by decide
/-- `C11_seq_independent`: service 1 refuses the first put with 503 and accepts the second -/
example : (putSeq [({ want := 1, rps := 1, retries := 0, script := fun _ _ => ⟨503, 1, []⟩ }, [0, 1], []),
                   (c3, [0, 2, 1], [0, 0])]).map (fun r => r.map (·.1)) =
    [some (.insufficient [] 0), some (.ok [66] 2)] := by decide
example : putHR ['x'] 67108865 = .oversize ∧ putHR ['x'] 67108864 = .call ⟨['x'], 67108864, true⟩ := by
  decide

end Examples

end ArvVerif.C11
