/-
C11 — the Keep client reports a successful write only when enough replicas are confirmed.

All theorems are about `put c sv picks` (Model/C11.lean): `putReplicas` run with the writable
services in probe order `sv` (any list), for every configuration `c` (want, replicasPerService,
retries, and every answer script `c.script service round`) and every completion order `picks`.
`s` is the state at the return; `s.reqLog` / `s.respLog` are the requests sent and the answers
processed, as (service, round) pairs; `is200 c e` says the answer to request `e` had status 200 and
`repSum c l` adds up the X-Keep-Replicas-Stored values of the answers to the requests in `l`.
-/
import ArvVerif.Proofs.C11_Trace
import ArvVerif.Proofs.C11_Load
namespace ArvVerif.C11

/-- A nil error comes only with at least `want` replicas confirmed by the 200 answers that were
processed; the count returned is exactly their sum; and (for want > 0) the locator returned is the
trimmed body of one of those 200 answers. -/
theorem C11_ok_sound (c : Cfg) (sv : List Srv) (picks : List Nat) (loc : List Nat) (n : Int) (s : St)
    (h : put c sv picks = some (.ok loc n, s)) :
    (c.want : Int) ≤ n ∧ n = repSum c (s.respLog.filter (is200 c)) ∧
    (∀ e ∈ s.respLog, e ∈ s.reqLog) ∧
    (0 < c.want → ∃ e ∈ s.respLog, is200 c e = true ∧ loc = (c.script e.1 e.2).body) := by
  have hi := run_preserved (inv_preserved c) _ _ _ _ _ (inv_init c sv) h
  have ht := run_preserved (trace_preserved c sv) _ _ _ _ _ (trace_init c sv) h
  have hr : OkAt s loc n := run_result_at c _ _ _ _ _ (inv_init c sv) h
  obtain ⟨hloc, hn, htodo⟩ := hr
  have hbal := hi.bal
  refine ⟨by omega, ?_, ht.respReq, ?_⟩
  · rw [hn, hi.acct, hi.okf]
  · intro hw
    have hsum : 0 < repSum c s.okLog := by rw [← hi.acct]; omega
    cases hok : s.okLog with
    | nil => rw [hok] at hsum; simp [repSum] at hsum
    | cons e t =>
      have hmem : e ∈ s.respLog.filter (is200 c) := by rw [← hi.okf, hok]; exact List.mem_cons_self
      rw [List.mem_filter] at hmem
      refine ⟨e, hmem.1, hmem.2, ?_⟩
      rw [hloc, hi.loc, hok]; rfl

/-- With services that answer 200 only with the locator `L` they issue for this hash and size
(honest services), a successful write of want > 0 replicas returns exactly `L`. -/
theorem C11_locator_issued (c : Cfg) (sv : List Srv) (picks : List Nat) (loc L : List Nat) (n : Int)
    (s : St) (honest : ∀ x k, (c.script x k).code = 200 → (c.script x k).body = L)
    (hw : 0 < c.want) (h : put c sv picks = some (.ok loc n, s)) : loc = L := by
  obtain ⟨e, _, h200, hloc⟩ := (C11_ok_sound c sv picks loc n s h).2.2.2 hw
  rw [hloc]
  exact honest e.1 e.2 (by simpa [is200] using h200)

/-- Otherwise the result is the insufficient-replicas error (the only other result the machine
has), and the count returned is the number confirmed by the processed 200 answers, which is less
than `want`. -/
theorem C11_err_reports_count (c : Cfg) (sv : List Srv) (picks : List Nat) (loc : List Nat) (n : Int)
    (s : St) (h : put c sv picks = some (.insufficient loc n, s)) :
    n < (c.want : Int) ∧ n = repSum c (s.respLog.filter (is200 c)) := by
  have hi := run_preserved (inv_preserved c) _ _ _ _ _ (inv_init c sv) h
  have hr : FailAt s loc n := run_result_at c _ _ _ _ _ (inv_init c sv) h
  obtain ⟨_, hn, htodo, _⟩ := hr
  have hbal := hi.bal
  refine ⟨by omega, ?_⟩
  rw [hn, hi.acct, hi.okf]

/-- Every request goes to a service of the writable probe list. -/
theorem C11_only_writable (c : Cfg) (sv : List Srv) (picks : List Nat) (r : Res) (s : St)
    (h : put c sv picks = some (r, s)) : ∀ e ∈ s.reqLog, e.1 ∈ sv := by
  have ht := run_preserved (trace_preserved c sv) _ _ _ _ _ (trace_init c sv) h
  exact fun e he => (ht.reqSub e he).1

/-- ... and `loadKeepServers` puts a root into the writable map only for a listed service that is
not read-only (whatever `foundNonDiskSvc` was before). -/
theorem C11_writable_map_sound (nd0 : Bool) (l : List Svc) :
    ∀ e ∈ (load nd0 l).writable, ∃ s ∈ l, s.uuid = e.1 ∧ s.url = e.2 ∧ s.ro = false :=
  load_writable nd0 l

/-- The retry rule. (a) a service is asked in round k+1 only if its round-k answer was processed
and was transient (connection error, 408, 429, 5xx other than 503) — so 400/403/503/200 answers are
never retried; (b) no request is made after round `Retries`; (c) with distinct services, no service
is asked more than 1+Retries times. -/
theorem C11_retry_rule (c : Cfg) (sv : List Srv) (picks : List Nat) (r : Res) (s : St)
    (hnd : sv.Nodup) (h : put c sv picks = some (r, s)) :
    (∀ x k, (x, k + 1) ∈ s.reqLog → (x, k) ∈ s.respLog ∧
      ((c.script x k).code = 0 ∨ (c.script x k).code = 408 ∨ (c.script x k).code = 429 ∨
       (500 ≤ (c.script x k).code ∧ (c.script x k).code ≠ 503))) ∧
    (∀ e ∈ s.reqLog, e.2 ≤ c.retries) ∧
    (∀ x, reqCount s.reqLog x ≤ c.retries + 1) := by
  have ht := run_preserved (trace_preserved c sv) _ _ _ _ _ (trace_init c sv) h
  have hb := run_preserved (bound_preserved c sv.length) _ _ _ _ _ (bound_init c sv) h
  have ho := run_preserved (once_preserved c) _ _ _ _ _ (once_init c sv hnd) h
  have hrounds := hb.rounds
  refine ⟨?_, ?_, ?_⟩
  · intro x k hm
    have := ht.reqPrev x k hm
    exact ⟨this.1, (retryable_iff _).mp this.2⟩
  · intro e he
    have := (ht.reqSub e he).2
    omega
  · intro x
    have := ho.cnt x
    split at this <;> omega

/-- The requests to one service are its attempts 0, 1, 2, … without gaps: a request in round k
means a request in every earlier round (so "round" is "attempt number of that service"). -/
theorem C11_attempts_contiguous (c : Cfg) (sv : List Srv) (picks : List Nat) (r : Res) (s : St)
    (h : put c sv picks = some (r, s)) :
    ∀ k x, (x, k) ∈ s.reqLog → ∀ j, j ≤ k → (x, j) ∈ s.reqLog := by
  have ht := run_preserved (trace_preserved c sv) _ _ _ _ _ (trace_init c sv) h
  intro k
  induction k with
  | zero =>
    intro x hm j hj
    have : j = 0 := by omega
    subst this; exact hm
  | succ n ih =>
    intro x hm j hj
    by_cases hjn : j = n + 1
    · subst hjn; exact hm
    · exact ih x (ht.respReq _ (ht.reqPrev x n hm).1) j (by omega)

/-- When the client gives up, it has asked every writable service, and every service that gave a
transient answer has been asked again until the retry limit. -/
theorem C11_retry_complete (c : Cfg) (sv : List Srv) (picks : List Nat) (loc : List Nat) (n : Int)
    (s : St) (h : put c sv picks = some (.insufficient loc n, s)) :
    (∀ x ∈ sv, (x, 0) ∈ s.respLog) ∧
    (∀ x k, (x, k) ∈ s.respLog → retryable (c.script x k).code = true → k < c.retries →
      (x, k + 1) ∈ s.respLog) := by
  have hb := run_preserved (bound_preserved c sv.length) _ _ _ _ _ (bound_init c sv) h
  have hc := run_preserved (complete_preserved c) _ _ _ _ _ (complete_init c sv) h
  have hf := run_preserved (first_preserved c sv) _ _ _ _ _ (first_init c sv) h
  have hr : FailAt s loc n := run_result_at c _ _ _ _ _ (inv_init c sv) h
  obtain ⟨_, _, _, hact, hrr, hnext⟩ := hr
  have hdrop : s.sv.drop s.next = [] := List.drop_eq_nil_of_le hnext
  have hrounds := hb.rounds
  refine ⟨?_, ?_⟩
  · intro x hx
    rcases hf.first x hx with h1 | ⟨_, h2⟩
    · exact h1
    · rw [hdrop, hact] at h2; simp at h2
  · intro x k hm hret hk
    rcases hc.prevRetried x k hm hret (by omega) with h1 | ⟨_, h2⟩
    · exact h1
    · rw [hdrop, hact] at h2; simp at h2

/-- If at least `want` of the writable services (counted by position in `sv`) answer 200 with at
least one replica on every attempt, the write succeeds — whatever the other services answer (as
long as no 200 answer carries a negative replica count), for every completion order. -/
theorem C11_enough_acceptors_partial (c : Cfg) (sv : List Srv) (picks : List Nat) (acc : Srv → Bool)
    (hacc : ∀ x k, acc x = true → (c.script x k).code = 200 ∧ 1 ≤ (c.script x k).rep)
    (hnn : ∀ x k, (c.script x k).code = 200 → 0 ≤ (c.script x k).rep)
    (hcount : c.want ≤ sv.countP acc) :
    ∃ loc n s, put c sv picks = some (.ok loc n, s) := by
  obtain ⟨⟨r, s⟩, h⟩ := put_terminates c sv picks
  cases r with
  | ok loc n => exact ⟨loc, n, s, h⟩
  | insufficient loc n =>
    exfalso
    have hi := run_preserved (inv_preserved c) _ _ _ _ _ (inv_init c sv) h
    have ha := run_preserved (acc_preserved c acc (sv.countP acc) hacc hnn) _ _ _ _ _
      (acc_init c acc sv) h
    have hr : FailAt s loc n := run_result_at c _ _ _ _ _ (inv_init c sv) h
    obtain ⟨_, _, htodo, hact, _, hnext⟩ := hr
    have hp := ha.pend
    rw [List.drop_eq_nil_of_le hnext, hact] at hp
    simp only [List.countP_nil, Nat.add_zero] at hp
    have hbal := hi.bal
    omega

/-- The version without the side condition on other services' replica counts is false: a 200
answer with a negative X-Keep-Replicas-Stored is believed and pushes the target away. (Such an
answer is outside the property's alphabet; recorded so that the hypothesis is not silently assumed.) -/
def C11_enough_acceptors_Full : Prop :=
  ∀ (c : Cfg) (sv : List Srv) (picks : List Nat) (acc : Srv → Bool),
    (∀ x k, acc x = true → (c.script x k).code = 200 ∧ 1 ≤ (c.script x k).rep) →
    c.want ≤ sv.countP acc → ∃ loc n s, put c sv picks = some (.ok loc n, s)

/-- service 0 answers 200 with a replica count of -1, service 1 is an honest acceptor -/
def cNeg : Cfg := { want := 1, rps := 1, retries := 0,
                    script := fun x _ => if x = 0 then ⟨200, -1, []⟩ else ⟨200, 1, [7]⟩ }

theorem C11_enough_acceptors_full_fails : ¬ C11_enough_acceptors_Full := by
  intro hfull
  obtain ⟨loc, n, s, h⟩ := hfull cNeg [0, 1] [] (fun x => x == 1)
    (by intro x k hx; have : x = 1 := by simpa using hx
        subst this; simp [cNeg])
    (by decide)
  have : (put cNeg [0, 1] []).map (·.1) = some (.insufficient [7] 0) := by decide
  rw [h] at this
  cases this

/-- Puts issued one after the other on the same client: the client keeps nothing from one call
that enters the next, so a sequence is modelled as the independent puts. -/
def putSeq (l : List (Cfg × List Srv × List Nat)) : List (Option (Res × St)) :=
  l.map fun x => put x.1 x.2.1 x.2.2

/-- Each Put of a sequence is decided by its own services, answers and completion order alone —
whatever the earlier Puts on that client were and whatever their services answered (503, errors,
…). In particular a later Put whose services accept it succeeds although the same services refused
an earlier one. (The correspondence check runs such sequences on one real `KeepClient`.) -/
theorem C11_seq_independent (l : List (Cfg × List Srv × List Nat)) (i : Nat) (c : Cfg)
    (sv : List Srv) (picks : List Nat) (h : l[i]? = some (c, sv, picks)) :
    (putSeq l)[i]? = some (put c sv picks) ∧
    ((∃ acc : Srv → Bool,
        (∀ x k, acc x = true → (c.script x k).code = 200 ∧ 1 ≤ (c.script x k).rep) ∧
        (∀ x k, (c.script x k).code = 200 → 0 ≤ (c.script x k).rep) ∧
        c.want ≤ sv.countP acc) →
      ∃ loc n s, (putSeq l)[i]? = some (some (.ok loc n, s))) := by
  have h1 : (putSeq l)[i]? = some (put c sv picks) := by
    simp [putSeq, List.getElem?_map, h]
  refine ⟨h1, ?_⟩
  rintro ⟨acc, hacc, hnn, hcount⟩
  obtain ⟨loc, n, s, hp⟩ := C11_enough_acceptors_partial c sv picks acc hacc hnn hcount
  exact ⟨loc, n, s, by rw [h1, hp]⟩

/-- `putReplicas` always returns, after processing at most (1+Retries)·|sv| answers (and sending
at most that many requests). -/
theorem C11_terminates (c : Cfg) (sv : List Srv) (picks : List Nat) :
    ∃ r s, put c sv picks = some (r, s) ∧
      s.respLog.length ≤ (c.retries + 1) * sv.length ∧
      s.reqLog.length ≤ (c.retries + 1) * sv.length := by
  obtain ⟨⟨r, s⟩, h⟩ := put_terminates c sv picks
  refine ⟨r, s, h, ?_⟩
  have hb := run_preserved (bound_preserved c sv.length) _ _ _ _ _ (bound_init c sv) h
  have h1 := hb.resp; have h2 := hb.req; have h3 := hb.nextLe; have h4 := hb.svLe
  have h5 := hb.rounds
  have h6 : s.round * sv.length ≤ c.retries * sv.length := Nat.mul_le_mul_right _ (by omega)
  rw [Nat.add_mul, Nat.one_mul]
  omega

/-- `PutHR` refuses a declared size above BLOCKSIZE without calling `putReplicas`, and otherwise
passes the given hash and size on; `PutHB`/`PutB` have no size check. -/
theorem C11_oversize (hash : List Char) (n : Int) :
    (putHR hash n = .oversize ↔ blockSize < n) ∧
    (∀ p, putHR hash n = .call p → p.hash = hash ∧ p.expectedLength = n ∧ n ≤ blockSize) ∧
    (∀ len, putHB hash len ≠ .oversize ∧ putB hash len ≠ .oversize) := by
  refine ⟨?_, ?_, ?_⟩
  · unfold putHR blockSize
    constructor
    · intro h; split at h
      · omega
      · cases h
    · intro h; rw [if_pos ⟨by omega, h⟩]
  · intro p hp
    unfold putHR at hp
    split at hp
    · cases hp
    · rename_i hc
      cases hp
      refine ⟨rfl, rfl, ?_⟩
      unfold blockSize at hc ⊢
      omega
  · intro len
    exact ⟨by simp [putHB], by simp [putB, putHB]⟩

/-- What `uploadToKeepServer` reports: a failed exchange has status 0 (which the retry rule treats
as transient); a response keeps its status code; without the header one replica is assumed. -/
theorem C11_upload_status (code : Nat) (hdr : Option (List Char)) (body : List Nat) (be : Bool) :
    (upload .connErr).code = 0 ∧ retryable (upload .connErr).code = true ∧
    (upload (.resp code hdr body be)).code = code ∧
    (upload (.resp code none body be)).rep = 1 ∧
    (upload (.resp code hdr body be)).body = trimSpace (body.take bodyLimit) :=
  ⟨rfl, rfl, rfl, rfl, rfl⟩

/-! ### Non-vacuity: concrete runs -/

namespace Examples

/-- service 0 fails transiently in round 0 and accepts in round 1; service 1 refuses (403);
service 2 accepts with 2 replicas -/
def script1 : Srv → Nat → Up := fun x k =>
  if x = 0 then (if k = 0 then ⟨500, 1, []⟩ else ⟨200, 1, [65]⟩)
  else if x = 1 then ⟨403, 1, []⟩
  else ⟨200, 2, [66]⟩

def c2 : Cfg := { want := 2, rps := 1, retries := 1, script := script1 }
def c3 : Cfg := { c2 with want := 1 }
def cAllFail : Cfg := { want := 2, rps := 0, retries := 2, script := fun _ _ => ⟨0, 0, []⟩ }

/-- a failing write with one replica stored after a retry (0 retried after its 500, 1 refuses);
a successful one when service 2 is there -/
example : (put c2 [0, 1] [1, 0]).map (·.1) = some (.insufficient [65] 1) := by decide
example : (put c2 [0, 2, 1] [0, 0]).map (·.1) = some (.ok [66] 2) := by decide
example : (put c2 [0, 1, 2] [1, 0, 0]).map (fun r => (r.1, r.2.reqLog.reverse)) =
    some (.ok [66] 2, [(0, 0), (1, 0), (2, 0)]) := by decide
/-- `C11_enough_acceptors_partial`'s hypotheses are satisfiable (service 2 is the acceptor), and so is
`C11_ok_sound`'s with want > 0 -/
example : ∃ loc n s, put c3 [0, 2, 1] [0, 0] = some (.ok loc n, s) ∧ 0 < c3.want := by
  obtain ⟨loc, n, s, h⟩ := C11_enough_acceptors_partial c3 [0, 2, 1] [0, 0] (fun x => x == 2)
    (by intro x k hx; have : x = 2 := by simpa using hx
        subst this; simp [c3, c2, script1])
    (by intro x k; simp only [c3, c2, script1]; split
        · split <;> simp
        · split <;> simp)
    (by decide)
  exact ⟨loc, n, s, h, by decide⟩
/-- `C11_err_reports_count` / `C11_retry_complete`: a failing run in which every service is asked
1+Retries times -/
example : (put cAllFail [0, 1] []).map (fun r => (r.1, r.2.reqLog.length, reqCount r.2.reqLog 0)) =
    some (.insufficient [] 0, 6, 3) := by decide
/-- `C11_retry_rule`: a run with a second-round request, on a duplicate-free service list -/
example : [0, 1].Nodup ∧ (put c2 [0, 1] [1, 0]).map (fun r => r.2.reqLog) =
    some [(0, 1), (1, 0), (0, 0)] := by decide
/-- `C11_writable_map_sound`: a list with a read-only and a writable service -/
example : (load false [⟨['a'], ['h'], 1, false, "disk".toList, true⟩,
                       ⟨['b'], ['g'], 2, true, "proxy".toList, false⟩]).writable =
    [(['b'], "https://g:2".toList)] := by decide
/-- `C11_seq_independent`: service 1 refuses the first put with 503 and accepts the second -/
example : (putSeq [({ want := 1, rps := 1, retries := 0, script := fun _ _ => ⟨503, 1, []⟩ }, [0, 1], []),
                   (c3, [0, 2, 1], [0, 0])]).map (fun r => r.map (·.1)) =
    [some (.insufficient [] 0), some (.ok [66] 2)] := by decide
example : putHR ['x'] 67108865 = .oversize ∧ putHR ['x'] 67108864 = .call ⟨['x'], 67108864, true⟩ := by
  decide

end Examples

end ArvVerif.C11
