/-
C17 — non-vacuity: concrete host trees that satisfy the hypotheses of the property theorems.
-/
import ArvVerif.Props.C17
set_option linter.unusedSimpArgs false
namespace ArvVerif.C17

/-- output directory with a file, a directory with a file, an empty directory, a relative link to a
file and an absolute link to a directory -/
def xH : Host := [(["o"], .dir), (["o", "a"], .file [1, 2]), (["o", "d"], .dir), (["o", "d", "b"], .file [3]),
                  (["o", "e"], .dir), (["o", "l"], .link false ["d", "b"]), (["o", "ld"], .link true ["out", "d"])]
def xC : Cfg := { ctrOut := ["out"], hostOut := ["o"], mounts := [(["out"], { kind := "tmp" })], secrets := [] }

theorem xH_wf : HostWF xH := ⟨by decide, by decide, by decide⟩
theorem xC_wf : CfgWF xH xC := ⟨by decide, by simp [OutDirReal, namei, xH, xC, Host.get], by decide⟩
theorem xC_in (x : Path) (hx : x = ["out"] ∨ x = ["out", "d"] ∨ x = ["out", "d", "b"]) : InOut xC x := by
  rcases hx with rfl | rfl | rfl <;> exact ⟨by decide, { kind := "tmp" }, by decide, rfl, rfl⟩

theorem xH_direct : Direct xH xC := by
  intro e he a t hl rel hrel hpre
  simp only [xH, List.mem_cons, List.not_mem_nil, or_false] at he
  rcases he with rfl | rfl | rfl | rfl | rfl | rfl | rfl <;> try (cases hl)
  · -- l -> d/b
    have : rel = ["l"] := by simpa [xC] using hrel.symm
    subst this
    refine ⟨by decide, by decide, ?_⟩
    intro k h1 h2 a t
    have hk : k = 2 := by
      have : (linkTarget (xC.ctrOut ++ ["l"]) false ["d", "b"]).length = 3 := by decide
      have : xC.ctrOut.length = 1 := rfl
      omega
    subst hk
    have hg : xH.get (xC.hostOut ++
        List.drop (List.length xC.ctrOut) (List.take 2 (linkTarget (xC.ctrOut ++ ["l"]) false ["d", "b"])))
        = some .dir := by decide
    rw [hg]; simp
  · -- ld -> /out/d
    have : rel = ["ld"] := by simpa [xC] using hrel.symm
    subst this
    refine ⟨by decide, by decide, ?_⟩
    intro k h1 h2 a t
    have : (linkTarget (xC.ctrOut ++ ["ld"]) true ["out", "d"]).length = 2 := by decide
    have : xC.ctrOut.length = 1 := rfl
    omega

theorem xH_n0 : namei xH [] ["o"] 0 = .found ["o"] .dir := by simp [namei, xH, Host.get]
theorem xH_n1 : namei xH [] ["o", "a"] 0 = .found ["o", "a"] (.file [1, 2]) := by simp [namei, xH, Host.get]
theorem xH_n2 : namei xH [] ["o", "d"] 0 = .found ["o", "d"] .dir := by simp [namei, xH, Host.get]
theorem xH_n3 : namei xH [] ["o", "d", "b"] 0 = .found ["o", "d", "b"] (.file [3]) := by simp [namei, xH, Host.get]
theorem xH_n4 : namei xH [] ["o", "e"] 0 = .found ["o", "e"] .dir := by simp [namei, xH, Host.get]
theorem xH_n5 : namei xH [] ["o", "l"] 0 = .found ["o", "l"] (.link false ["d", "b"]) := by simp [namei, xH, Host.get]
theorem xH_n6 : namei xH [] ["o", "ld"] 0 = .found ["o", "ld"] (.link true ["out", "d"]) := by
  simp [namei, xH, Host.get]

def xPlan : Plan :=
  { dirs := [["d"], ["e"], ["ld"]],
    files := [(["a"], some ["o", "a"]), (["d", "b"], some ["o", "d", "b"]), (["e", ".keep"], none),
              (["l"], some ["o", "d", "b"]), (["ld", "b"], some ["o", "d", "b"])],
    frags := [] }

theorem xH_scan : scan xH xC 60 = .ok xPlan := by
  have c0 : xH.children ["o"] = ["a", "d", "e", "l", "ld"] := by decide
  have c1 : xH.children ["o", "d"] = ["b"] := by decide
  have c2 : xH.children ["o", "e"] = [] := by decide
  have e1 : sortNames ["a", "d", "e", "l", "ld"] = ["a", "d", "e", "l", "ld"] := by decide
  have e2 : sortNames ["b"] = ["b"] := by decide
  simp [scan, walk, xC, xPlan, srcMount, underSecret, rootLen, limitFollowSymlinks, Res.bind,
    xH_n0, xH_n1, xH_n2, xH_n3, xH_n4, xH_n5, xH_n6, c0, c1, c2, e1, e2,
    skipMount, Cfg.mount, copyRegular, Plan.addDir, Plan.addKeep, Plan.addFile, cleanAbs, cleanAbsStep]

theorem xH_nocollide : NoCollide [] xPlan :=
  ⟨fun d _ => Or.inl (by
      unfold Tree.get; split
      · rename_i h0; subst h0; simp [xPlan] at *
      · rfl),
   fun f hf => by
      unfold Tree.get; split
      · rename_i h0; simp [xPlan] at hf; rcases hf with rfl | rfl | rfl | rfl | rfl <;> cases h0
      · rfl⟩

/-- the hypotheses of `C17_output_equals_tree_partial` (and of `C17_secrets_absent_partial`) hold of
this tree: the theorem applies, `Copy` succeeds and saves exactly what `Shows` derives -/
example : OutputEqualsTree xH xC 60 [] :=
  C17_output_equals_tree_partial xH xC xH_wf xC_wf (by decide) (by decide) (xC_in _ (Or.inl rfl)) xH_direct
    60 xPlan xH_scan [] (by simp [loadFrags, xPlan]) xH_nocollide

/-- … and the specification is not empty: `/ld/b` shows the file `/out/d/b` through the link -/
example : Shows xH xC ["ld", "b"] ["out", "d", "b"] :=
  Shows.child (d := ["ld"]) (s := ["out", "d"]) (c := "b")
    (Shows.link (d := ["ld"]) (s := ["out", "ld"]) (a := true) (t := ["out", "d"])
      (Shows.child (d := []) (s := ["out"]) (c := "ld") Shows.root (by decide)
        ⟨.link true ["out", "d"], by decide⟩ (by decide) (by decide))
      (by decide) (xC_in _ (Or.inr (Or.inl rfl))))
    (by decide) ⟨.file [3], by decide⟩ (by decide) (by decide)

example : fuelBound xH xC ≤ 100000 := by decide

/-! ### mounted collections -/

/-- a collection mounted beneath the output path at `/out/m`, another one at `/mnt/c`, and a link
`lc -> /mnt/c/sub` -/
def xMH : Host := [(["o"], .dir), (["o", "m"], .dir), (["o", "lc"], .link true ["mnt", "c", "sub"])]
def xMC : Cfg :=
  { ctrOut := ["out"], hostOut := ["o"],
    mounts := [(["out"], { kind := "tmp" }),
               (["out", "m"], { kind := "collection", coll := some [([], "f", [1])] }),
               (["mnt", "c"], { kind := "collection", coll := some [([], "g", [2]), (["sub"], "z", [3]), (["sub2"], "w", [4])] })],
    secrets := [] }

theorem xMH_scan : scan xMH xMC 60 =
    .ok { dirs := [], files := [], frags := [(["m", "f"], some [1]), (["lc", "z"], some [3])] } := by
  have n0 : namei xMH [] ["o"] 0 = .found ["o"] .dir := by simp [namei, xMH, Host.get]
  have n1 : namei xMH [] ["o", "lc"] 0 = .found ["o", "lc"] (.link true ["mnt", "c", "sub"]) := by
    simp [namei, xMH, Host.get]
  have c0 : xMH.children ["o"] = ["m", "lc"] := by decide
  have e1 : sortNames ["m", "lc"] = ["lc", "m"] := by decide
  simp [scan, walk, xMC, srcMount, underSecret, rootLen, limitFollowSymlinks, belowMaxSymlinks, Res.bind,
    n0, n1, c0, e1, skipMount, Cfg.mount, copyRegular, Plan.addDir, Plan.addKeep, Plan.addFile, Plan.addFrags,
    extract, cleanRel, cleanRelStep]

/-- the link's extract is what `fragOf` names for the jump to `/mnt/c/sub` at `/lc` -/
example : fragOf xMC ["lc"] ["mnt", "c", "sub"] = [(["lc", "z"], some [3])] := by
  simp [fragOf, xMC, srcMount, underSecret, rootLen, extract, cleanRel, cleanRelStep]

example : Jumps xMH xMC ["lc"] ["mnt", "c", "sub"] :=
  Jumps.link (d := ["lc"]) (s := ["out", "lc"]) (a := true) (t := ["mnt", "c", "sub"])
    (Shows.child (d := []) (s := ["out"]) (c := "lc") Shows.root (by decide)
      ⟨.link true ["mnt", "c", "sub"], by decide⟩ (by decide) (by decide))
    (by decide)

theorem xMC_wf : CfgWF xMH xMC := ⟨by decide, by simp [OutDirReal, namei, xMH, xMC, Host.get], by decide⟩

theorem xMH_direct : Direct xMH xMC := by
  intro e he a t hl rel hrel hpre
  simp only [xMH, List.mem_cons, List.not_mem_nil, or_false] at he
  rcases he with rfl | rfl | rfl <;> try (cases hl)
  have : rel = ["lc"] := by simpa [xMC] using hrel.symm
  subst this
  exact absurd hpre (by decide)

theorem xMH_mountsReal : MountsReal xMH xMC := by
  constructor
  · intro e he hp _
    simp only [xMC, List.mem_cons, List.not_mem_nil, or_false] at he
    rcases he with rfl | rfl | rfl
    · exact absurd hp (by decide)
    · decide
    · exact absurd hp (by decide)
  · intro e he hp _ y hy hye
    simp only [xMC, List.mem_cons, List.not_mem_nil, or_false] at he
    rcases he with rfl | rfl | rfl
    · exact absurd hp (by decide)
    · have hyl : y = ["out", "m"] := isPrefixOf_eq_of_length y _ hye (by
        have := hy.2
        have h1 : xMC.ctrOut.length = 1 := rfl
        simp only [List.length_cons, List.length_nil]; omega)
      subst hyl; decide
    · exact absurd hp (by decide)

/-- the hypotheses of `C17_output_equals_tree_mounts_real` hold of a tree with a collection mounted
beneath the output path and a link into another mounted collection -/
example : OutputEqualsTree xMH xMC 60 [(["m"], .dir), (["m", "f"], .file [1]), (["lc"], .dir), (["lc", "z"], .file [3])] :=
  C17_output_equals_tree_mounts_real xMH xMC ⟨by decide, by decide, by decide⟩ xMC_wf (by decide) (by decide)
    ⟨by decide, { kind := "tmp" }, by decide, rfl, rfl⟩ xMH_direct xMH_mountsReal 60 _ xMH_scan _
    (by simp [loadFrags, addFrag, mkParents, Tree.get, Tree.set])

/-! ### the mounted content loads: `CollsWF`, `SitesApart`, `SpecCompat` -/

theorem xMC_collsWF : CollsWF xMC := by
  intro e he c hc
  simp only [xMC, List.mem_cons, List.not_mem_nil, or_false] at he
  rcases he with rfl | rfl | rfl
  · cases hc
  · simp only [Option.some.injEq] at hc; subst hc; unfold CollWF entryPath; decide
  · simp only [Option.some.injEq] at hc; subst hc; unfold CollWF entryPath; decide

theorem xMH_get (p : Path) (n : Node) (hg : xMH.get p = some n) :
    (p = [] ∧ n = .dir) ∨ (p = ["o"] ∧ n = .dir) ∨ (p = ["o", "m"] ∧ n = .dir) ∨
    (p = ["o", "lc"] ∧ n = .link true ["mnt", "c", "sub"]) := by
  unfold Host.get at hg
  split at hg
  · rename_i h0; left; exact ⟨h0, by simpa using hg.symm⟩
  · right
    simp only [xMH, List.find?_cons] at hg
    by_cases h1 : (["o"] : Path) = p
    · simp [h1] at hg; exact Or.inl ⟨h1.symm, hg.symm⟩
    · by_cases h2 : (["o", "m"] : Path) = p
      · simp [h1, h2] at hg; exact Or.inr (Or.inl ⟨h2.symm, hg.symm⟩)
      · by_cases h3 : (["o", "lc"] : Path) = p
        · simp [h1, h2, h3] at hg; exact Or.inr (Or.inr ⟨h3.symm, hg.symm⟩)
        · simp [h1, h2, h3] at hg

/-- everything the specification shows for `xMH`: the root and the link `lc` -/
theorem xMH_shows (d s : Path) (hs : Shows xMH xMC d s) :
    (d = [] ∧ s = ["out"]) ∨ (d = ["lc"] ∧ s = ["out", "lc"]) := by
  induction hs with
  | root => exact Or.inl ⟨rfl, rfl⟩
  | child hsh0 hdir hex hsec hskip ih =>
    rename_i d0 s0 c
    rcases ih with ⟨rfl, rfl⟩ | ⟨rfl, rfl⟩
    · obtain ⟨n, hn⟩ := hex
      have hn' : xMH.get ["o", c] = some n := hn
      rcases xMH_get _ _ hn' with ⟨h0, _⟩ | ⟨h0, _⟩ | ⟨h0, _⟩ | ⟨h0, _⟩
      · cases h0
      · cases h0
      · simp only [List.cons.injEq, and_true, true_and] at h0; subst h0
        exact absurd hskip (by decide)
      · simp only [List.cons.injEq, and_true, true_and] at h0; subst h0
        exact Or.inr ⟨rfl, rfl⟩
    · exact absurd hdir (by decide)
  | link hsh0 hnode hin ih =>
    rcases ih with ⟨rfl, rfl⟩ | ⟨rfl, rfl⟩
    · have h0 : nodeAt xMH xMC ["out"] = some .dir := by decide
      rw [h0] at hnode; cases hnode
    · have h1 : nodeAt xMH xMC ["out", "lc"] = some (.link true ["mnt", "c", "sub"]) := by decide
      rw [h1] at hnode
      simp only [Option.some.injEq, Node.link.injEq] at hnode
      obtain ⟨rfl, rfl⟩ := hnode
      obtain ⟨_, m, hsm, hk, _⟩ := hin
      have h2 : srcMount xMC (linkTarget ["out", "lc"] true ["mnt", "c", "sub"]) =
          some (["mnt", "c"], { kind := "collection", coll := some [([], "g", [2]), (["sub"], "z", [3]), (["sub2"], "w", [4])] }) := by
        decide
      rw [h2] at hsm
      simp only [Option.some.injEq, Prod.mk.injEq] at hsm
      exact absurd hsm.1 (by decide)

/-- the jump positions of `xMH`: the root and the target of `lc` -/
theorem xMH_jumps (d x : Path) (hj : Jumps xMH xMC d x) :
    (d = [] ∧ x = ["out"]) ∨ (d = ["lc"] ∧ x = ["mnt", "c", "sub"]) := by
  cases hj with
  | root => exact Or.inl ⟨rfl, rfl⟩
  | link hsh hnode =>
    rcases xMH_shows _ _ hsh with ⟨rfl, rfl⟩ | ⟨rfl, rfl⟩
    · have h0 : nodeAt xMH xMC ["out"] = some .dir := by decide
      rw [h0] at hnode; cases hnode
    · have h1 : nodeAt xMH xMC ["out", "lc"] = some (.link true ["mnt", "c", "sub"]) := by decide
      rw [h1] at hnode
      simp only [Option.some.injEq, Node.link.injEq] at hnode
      obtain ⟨rfl, rfl⟩ := hnode
      exact Or.inr ⟨rfl, rfl⟩

/-- the sites of `xMH`: the two jump positions and the mount `/out/m` below the root -/
theorem xMH_sites (D y : Path) (hs : Site xMH xMC D y) :
    (D = [] ∧ y = ["out"]) ∨ (D = ["lc"] ∧ y = ["mnt", "c", "sub"]) ∨ (D = ["m"] ∧ y = ["out", "m"]) := by
  rcases hs with hj | ⟨d, x, hj, _, m, hm, hpre, hlt, _, hD⟩
  · rcases xMH_jumps _ _ hj with h | h
    · exact Or.inl h
    · exact Or.inr (Or.inl h)
  · simp only [xMC, List.mem_cons, List.not_mem_nil, or_false, Prod.mk.injEq] at hm
    rcases xMH_jumps _ _ hj with ⟨rfl, rfl⟩ | ⟨rfl, rfl⟩
    · rcases hm with ⟨rfl, _⟩ | ⟨rfl, _⟩ | ⟨rfl, _⟩
      · exact absurd hlt (by decide)
      · exact Or.inr (Or.inr ⟨by simpa using hD, rfl⟩)
      · exact absurd hpre (by decide)
    · rcases hm with ⟨rfl, _⟩ | ⟨rfl, _⟩ | ⟨rfl, _⟩
      · exact absurd hpre (by decide)
      · exact absurd hpre (by decide)
      · exact absurd hlt (by decide)

theorem xMH_sitesApart : SitesApart xMH xMC := by
  intro D y D' y' s1 s2 hne hpre g hg
  have f0 : fragOf xMC [] ["out"] = [] := by
    simp [fragOf, xMC, srcMount, underSecret, rootLen]
  rcases xMH_sites _ _ s1 with ⟨rfl, rfl⟩ | ⟨rfl, rfl⟩ | ⟨rfl, rfl⟩
  · exact absurd f0 hne
  · rcases xMH_sites _ _ s2 with ⟨rfl, rfl⟩ | ⟨rfl, rfl⟩ | ⟨rfl, rfl⟩
    · exact absurd hpre (by decide)
    · exact hg
    · exact absurd hpre (by decide)
  · rcases xMH_sites _ _ s2 with ⟨rfl, rfl⟩ | ⟨rfl, rfl⟩ | ⟨rfl, rfl⟩
    · exact absurd hpre (by decide)
    · exact absurd hpre (by decide)
    · exact hg

/-- the hypotheses of `C17_output_equals_tree_apart` hold of the tree with a collection mounted
beneath the output path and a link into another mounted collection; no loading hypothesis is left -/
example : ∃ t0, loadFrags [] (Plan.frags { dirs := [], files := [], frags := [(["m", "f"], some [1]), (["lc", "z"], some [3])] }) = some t0 ∧
    OutputEqualsTree xMH xMC 60 t0 :=
  C17_output_equals_tree_apart xMH xMC ⟨by decide, by decide, by decide⟩ xMC_wf (by decide) (by decide)
    ⟨by decide, { kind := "tmp" }, by decide, rfl, rfl⟩ xMH_direct xMH_mountsReal xMC_collsWF xMH_sitesApart 60 _ xMH_scan

/-- … and `SpecCompat` holds of it (`C17_frags_load_iff`, left to right) -/
example : SpecCompat xMH xMC :=
  (C17_frags_load_iff xMH xMC ⟨by decide, by decide, by decide⟩ xMC_wf (by decide) (by decide)
    ⟨by decide, { kind := "tmp" }, by decide, rfl, rfl⟩ xMH_direct 60 _ xMH_scan).mp
    ⟨_, by simp [loadFrags, addFrag, mkParents, Tree.get, Tree.set]; rfl⟩

/-- overlapping mounts: the collection at `/out/m` has the *file* `s`, another collection is mounted
at `/out/m/s` — the items contradict each other (`¬ SpecCompat`), `Copy` fails (`C17_frags_conflict_fails`) -/
def xOC : Cfg :=
  { ctrOut := ["out"], hostOut := ["o"],
    mounts := [(["out"], { kind := "tmp" }),
               (["out", "m"], { kind := "collection", coll := some [([], "s", [1])] }),
               (["out", "m", "s"], { kind := "collection", coll := some [([], "f", [2])] })],
    secrets := [] }

example (h : Host) : ¬ SpecCompat h xOC := by
  intro hsc
  have s1 : Site h xOC ["m"] ["out", "m"] :=
    Or.inr ⟨[], ["out"], Jumps.root, by unfold notSecret; decide,
      { kind := "collection", coll := some [([], "s", [1])] }, by simp [xOC], by decide, by decide, by decide, rfl⟩
  have s2 : Site h xOC ["m", "s"] ["out", "m", "s"] :=
    Or.inr ⟨[], ["out"], Jumps.root, by unfold notSecret; decide,
      { kind := "collection", coll := some [([], "f", [2])] }, by simp [xOC], by decide, by decide, by decide, rfl⟩
  have f1 : (["m", "s"], some [1]) ∈ fragOf xOC ["m"] ["out", "m"] := by
    simp [fragOf, xOC, srcMount, underSecret, rootLen, extract, cleanRel, cleanRelStep]
  have f2 : (["m", "s", "f"], some [2]) ∈ fragOf xOC ["m", "s"] ["out", "m", "s"] := by
    simp [fragOf, xOC, srcMount, underSecret, rootLen, extract, cleanRel, cleanRelStep]
  have := (hsc _ _ _ _ s1 s2 _ f1 _ f2 rfl).2 (by decide)
  exact absurd this.1 (by decide)

/-- `NoNestedMounts` holds of the configuration with two separate collection mounts, and the
conclusion of `C17_mounted_view_partial` is not empty there -/
theorem xMC_noNested : NoNestedMounts xMC := by
  intro e he e' he' hk
  simp only [xMC, List.mem_cons, List.not_mem_nil, or_false] at he he'
  rcases he with rfl | rfl | rfl <;> rcases he' with rfl | rfl | rfl <;> first | decide | (exact absurd hk (by decide))

example : ∀ f ∈ (Plan.frags { dirs := [], files := [], frags := [(["m", "f"], some [1]), (["lc", "z"], some [3])] }),
    ∃ D y, Site xMH xMC D y ∧ f ∈ fragOf xMC D y ∧ Unshadowed xMC D y f :=
  C17_mounted_view_partial xMH xMC ⟨by decide, by decide, by decide⟩ xMC_wf (by decide) (by decide) xMH_direct
    xMC_noNested 60 _ xMH_scan

/-! ### failing trees -/

/-- FIFO in a subdirectory -/
def xS : Host := [(["o"], .dir), (["o", "d"], .dir), (["o", "d", "p"], .special)]
theorem xS_wf : HostWF xS := ⟨by decide, by decide, by decide⟩

example : ∃ e, copy xS xC (fuelBound xS xC) = .err e :=
  C17_special_files_fail xS xC xS_wf (by decide) (xC_in _ (Or.inl rfl))
    (by simp [OutDirReal, namei, xS, xC, Host.get]) ["d", "p"] (by decide)
    ⟨by intro k h1 h2; have : k = 1 := by simp at h2; omega
        subst this; decide,
     by intro k h1 h2
        have : k = 1 ∨ k = 2 := by simp at h2; omega
        rcases this with rfl | rfl <;> decide,
     by decide⟩ _ (Nat.le_refl _)

/-- a link out of every mount, a link to itself, a link to the directory above it -/
def xL : Host := [(["o"], .dir), (["o", "d"], .dir), (["o", "d", "up"], .link false ["..", "..", "x"])]
def xSelf : Host := [(["o"], .dir), (["o", "me"], .link false ["me"])]
def xUp : Host := [(["o"], .dir), (["o", "d"], .dir), (["o", "d", "back"], .link true ["out", "d"])]

example : ∃ e, copy xL xC (fuelBound xL xC) = .err e :=
  C17_bad_links_fail xL xC ⟨by decide, by decide, by decide⟩ (by decide) (xC_in _ (Or.inl rfl))
    (by simp [OutDirReal, namei, xL, xC, Host.get]) ["d", "up"] (by decide) false ["..", "..", "x"]
    ⟨by intro k h1 h2; have : k = 1 := by simp at h2; omega
        subst this; decide,
     by intro k h1 h2
        have : k = 1 ∨ k = 2 := by simp at h2; omega
        rcases this with rfl | rfl <;> decide,
     by decide⟩
    ⟨by decide, by decide⟩ _ (Nat.le_refl _)

example : ∃ e, copy xSelf xC (fuelBound xSelf xC) = .err e :=
  C17_bad_links_fail_cycle xSelf xC ⟨by decide, by decide, by decide⟩ (by decide) (xC_in _ (Or.inl rfl))
    (by simp [OutDirReal, namei, xSelf, xC, Host.get]) ["me"] [] false ["me"]
    ⟨by decide, { kind := "tmp" }, by decide, rfl, rfl⟩
    (Or.inr ⟨by intro k h1 h2; simp at h2; omega,
             by intro k h1 h2
                have : k = 1 := by simp at h2; omega
                subst this; decide,
             by decide⟩)
    (Or.inl rfl) (by decide) (by decide) _ (Nat.le_refl _)

example : ∃ e, copy xUp xC (fuelBound xUp xC) = .err e :=
  C17_bad_links_fail_cycle xUp xC ⟨by decide, by decide, by decide⟩ (by decide) (xC_in _ (Or.inl rfl))
    (by simp [OutDirReal, namei, xUp, xC, Host.get]) ["d"] ["back"] true ["out", "d"]
    (xC_in _ (Or.inr (Or.inl rfl)))
    (Or.inr ⟨by intro k h1 h2; simp at h2; omega,
             by intro k h1 h2
                have : k = 1 := by simp at h2; omega
                subst this; decide,
             by decide⟩)
    (Or.inr ⟨by intro k h1 h2; simp at h2; omega,
             by intro k h1 h2
                have : k = 1 := by simp at h2; omega
                subst this; decide,
             by decide⟩)
    (by decide) (by decide) _ (Nat.le_refl _)

end ArvVerif.C17
