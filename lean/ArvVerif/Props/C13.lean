/-
C13 — concurrent use of a collection filesystem never loses or mixes file data.
Property theorems on the ATOMIC-STEP model (Model/C13.lean, on top of C08's model):

  C13_inv_invariant           the invariant (C08's + "every flushing token is backed by the bytes handed
                              to PutB") holds initially and after every step of any schedule
  C13_flush_completion_safe   a background completion, whenever and with whatever it arrives, leaves the
                              abstract state untouched; it replaces exactly under the guards
  C13_handoff_immutable       copy-on-write: a buffer handed to PutB is never written afterwards
  C13_handoff_immutable_rt    the same for the model compared with the real memSegment (any runtime
                              capacity), plus: a written / grown segment shares no array with a hand-off
  C13_linearizable            every interleaving is the sequential history in that order
  C13_saved_manifest          a save at any point returns the contents at that point of the history
  C13_lock_order              hierarchical locking: no wait-for cycle; Rename / Flush obey the rule
  C13_rwlock_order            the same for sync.RWMutex semantics (shared read locks, pending writers
                              block new readers) for the single-path operations; a re-entrant read
                              lock (seed C13-h) is a cycle

What these theorems do NOT say: that the Go code really is atomic at these steps (data-race freedom),
that sync.RWMutex / channels behave, deadlock freedom with the throttle and real goroutines. Those
are exercised by the correspondence run (race detector, parked PutB, deadline), not proved.
-/
import ArvVerif.Proofs.C13_Hist
import ArvVerif.Proofs.C13_Cow
import ArvVerif.Proofs.C13_Lock
import ArvVerif.Proofs.C13_RW
import ArvVerif.Proofs.C13_CowRt
namespace ArvVerif.C13
open ArvVerif.C08

variable {max : Nat} {hash : Bytes → Loc}

/-- **Invariant.** From the empty collection, after any sequence of atomic steps — foreground
operations of any workers in any interleaving (including single `read` calls), async flushes,
completions of any background write in any order with any outcome, saves — the state satisfies
`Inv13`: C08's invariant (files well-formed, pointers valid, Keep consistent) and every `flushing`
token on a segment is backed: the segment's bytes are a prefix of the piece of the block that was
handed to PutB under that token, and the block is in Keep. -/
theorem C13_inv_invariant (hinj : Function.Injective hash) (hmax : 1 ≤ max) :
    Inv13 max hash St.init ∧
    ∀ (s : St) (e : Ev), Inv13 max hash s → Inv13 max hash (evStep hash max s e).1 := by
  refine ⟨init_inv13, ?_⟩
  intro s e hinv
  by_cases hdet : e.det = true
  · exact (event_refines hinj hmax hinv e hdet).2.2
  · -- the only event that is not `det` is a single Read call
    cases e with
    | fg w op =>
      cases op with
      | read h n =>
        obtain ⟨_, _, _, h3, _⟩ := C08_read_step_refines (max := max) (hash := hash) hinv.base h n
        obtain ⟨p1, p2⟩ := step_plain (hash := hash) (markOK_truncClosed (max := max) (hash := hash) s.fs.world s.toks)
          s.fs (Op.read h n) rfl
        refine ⟨h3, ?_⟩
        show AllSegs (MarkOK max hash (step (concImpl hash max) s.fs (Op.read h n)).1.world s.toks) _
        rw [p1]
        exact p2 hinv.marks
      | _ => exact absurd rfl hdet
    | _ => exact absurd rfl hdet

/-- **A background completion is safe.** In any state satisfying the invariant — i.e. at any later
time, after any other completions and foreground operations — the goroutine tail of
pruneMemSegments / async commitBlock, run for ANY list of (file, captured index, token) references
and with success or failure of PutB:

* leaves the abstract filesystem (every file's content, the tree, every handle's offset) unchanged
  and keeps the invariant (so it can be followed by anything);
* is a no-op when PutB failed;
* per reference, is a no-op unless the segment at the captured index is a mem segment that still
  carries this very token (overwritten data got a new buffer and lost the token: it is never put
  back) and, for pruneMemSegments, still has the captured length;
* when it does replace, installs the stored segment over the handed-off block with the segment's
  current length — whose bytes are the segment's bytes (C08_flush_invisible). -/
theorem C13_flush_completion_safe {s : St} (hinv : Inv13 max hash s) (refs : List (Nat × Nat × Nat)) (ok : Bool) :
    absFS (completeRefs hash max s.toks ok s.fs refs) = absFS s.fs ∧
    Inv13 max hash { s with fs := completeRefs hash max s.toks ok s.fs refs } ∧
    completeRefs hash max s.toks false s.fs refs = s.fs ∧
    (∀ (fs : Conc) (r : Nat × Nat × Nat), (∀ buf, segAt fs r.1 r.2.1 ≠ some (Seg.mem buf (mark max r.2.2))) →
      completeRef hash max s.toks ok fs r = fs) ∧
    (∀ (fs : Conc) (r : Nat × Nat × Nat) (tk : Tok) (n : Nat) (buf : Bytes) (fl : Flush),
      s.toks[r.2.2]? = some tk → tk.plen = some n → segAt fs r.1 r.2.1 = some (Seg.mem buf fl) → buf.length ≠ n →
      completeRef hash max s.toks ok fs r = fs) ∧
    (∀ (fs : Conc) (r : Nat × Nat × Nat) (tk : Tok) (buf : Bytes),
      s.toks[r.2.2]? = some tk → segAt fs r.1 r.2.1 = some (Seg.mem buf (mark max r.2.2)) →
      (tk.plen = none ∨ tk.plen = some buf.length) →
      completeRef hash max s.toks true fs r =
        setSegAt fs r.1 r.2.1 (Seg.stored (hash tk.block) tk.block.length tk.off buf.length)) := by
  obtain ⟨h1, h2⟩ := completeRefs_spec ok refs hinv
  refine ⟨h2, h1, ?_, fun fs r h => completeRef_guard s.toks ok fs r h,
    fun fs r tk n buf fl h1 h2 h3 h4 => completeRef_resized s.toks ok fs r h1 h2 h3 h4,
    fun fs r tk buf h1 h2 h3 => completeRef_replaces s.toks fs r h1 h2 h3⟩
  induction refs generalizing s with
  | nil => rfl
  | cons r rest ih =>
    simp only [completeRefs, List.foldl_cons, completeRef_failed]
    exact ih hinv (completeRefs_spec ok rest hinv).1 (completeRefs_spec ok rest hinv).2

/-- the completion of a whole group, and the "complete everything" loop before a save -/
theorem C13_complete_group_safe {s : St} (hinv : Inv13 max hash s) (g : Nat) (ok : Bool) :
    Inv13 max hash (complete hash max s g ok).1 ∧ absFS (complete hash max s g ok).1.fs = absFS s.fs :=
  complete_spec hinv g ok

/-- **Copy-on-write.** In the heap model of memSegment (slice header + allocation; Truncate and
WriteAt allocate a new buffer exactly when the Go code does), after any sequence of Truncate /
WriteAt / Slice / hand-off / drop operations on any number of segments, every buffer that was ever
handed to a background writer still holds exactly the bytes it held at hand-off. -/
theorem C13_handoff_immutable (ops : List Cow.Op) {st st' : Cow.State} (hinv : Cow.Inv st)
    (hrun : Cow.run st ops = some st') :
    (∀ sh ∈ st.shared, sh ∈ st'.shared) ∧
    (∀ sh ∈ st'.shared, ((st'.heap[sh.ptr]?).getD []).take sh.len = sh.snap) ∧ Cow.Inv st' := by
  obtain ⟨h1, h2⟩ := Cow.run_inv ops hinv hrun
  exact ⟨h2, h1.intact, h1⟩

/-- **Copy-on-write, whatever capacity the runtime picks.** The heap model the `cow` correspondence
run compares with the real memSegment (`Cow.stepRt acap`: the copy made by WriteAt on a shared buffer
gets capacity `acap len`, everything else as in `Cow.step`), for EVERY `acap`: from the driver's
initial state (one empty segment) or any state satisfying the invariant, after any operation
sequence every handed-off buffer still holds its bytes; and — the aliasing rule of the `cow` oracle —
right after a WriteAt, or a Truncate that grows the segment, that segment has `flushing == nil` and
shares its array with no handed-off buffer. -/
theorem C13_handoff_immutable_rt (acap : Nat → Nat) :
    Cow.Inv Cow.initRt ∧
    (∀ (ops : List Cow.Op) (st st' : Cow.State), Cow.Inv st → Cow.runRt acap st ops = some st' →
      Cow.Inv st' ∧ (∀ sh ∈ st.shared, sh ∈ st'.shared) ∧
      ∀ sh ∈ st'.shared, ((st'.heap[sh.ptr]?).getD []).take sh.len = sh.snap) ∧
    (∀ (st st' : Cow.State) (i off : Nat) (p : Bytes), Cow.Inv st → Cow.stepRt acap st (Cow.Op.writeAt i p off) = some st' →
      ∃ sg', st'.segs[i]? = some sg' ∧ sg'.flushing = none ∧ ∀ sh ∈ st'.shared, sh.ptr ≠ sg'.ptr) ∧
    (∀ (st st' : Cow.State) (i n : Nat) (sg : Cow.MSeg), Cow.Inv st → st.segs[i]? = some sg → sg.len < n →
      Cow.stepRt acap st (Cow.Op.truncate i n) = some st' →
      ∃ sg', st'.segs[i]? = some sg' ∧ sg'.flushing = none ∧ sg'.len = n ∧ ∀ sh ∈ st'.shared, sh.ptr ≠ sg'.ptr) :=
  ⟨Cow.initRt_inv,
   fun ops _ _ hinv hrun => let h := Cow.runRt_inv acap ops hinv hrun; ⟨h.1, h.2, h.1.intact⟩,
   fun _ _ _ _ _ hinv h => Cow.writeAt_unshared acap hinv h,
   fun _ _ _ _ _ hinv hi hg h => Cow.truncate_grow_unshared acap hinv hi hg h⟩

/-- non-vacuity: hand-off, overwrite (copy with a rounded-up capacity 8), grow within that capacity
(in place: the heap keeps 2 allocations), the handed-off bytes stay -/
example : ((Cow.runRt (fun _ => 8) ⟨[[1, 2, 3, 0]], [⟨0, 3, 4, none⟩], []⟩
      [Cow.Op.handOff 0 0, Cow.Op.writeAt 0 [7] 1, Cow.Op.truncate 0 5]).map
      (fun st => (st.segs, st.shared.map (·.snap), st.heap))) =
    some ([⟨1, 5, 8, none⟩], [[1, 2, 3]], [[1, 2, 3, 0], [1, 7, 3, 0, 0, 0, 0, 0]]) := by decide

/-- the empty heap satisfies the copy-on-write invariant -/
theorem C13_cow_init : Cow.Inv ⟨[], [], []⟩ :=
  ⟨(fun _ _ _ _ h => by simp at h), (fun _ h => by cases h), (fun _ h => by cases h), (fun _ h => by cases h),
   (fun _ h => by cases h)⟩

/-- **Linearizability.** For every schedule — any list of atomic steps: foreground operations tagged
with the worker that issues them, async flushes, completions of background writes (any of them, in
any order, at any time, succeeding or failing), saves — run from any state satisfying the invariant
(in particular the empty collection): the results the workers get are the results of the plain
in-memory filesystem executing the foreground operations sequentially in schedule order
(completions and flushes invisible); the final state abstracts to the plain model's final state;
the invariant holds at the end. Since the sequential order IS the schedule order, it respects every
worker's program order (`C13_program_order`). -/
theorem C13_linearizable (hinj : Function.Injective hash) (hmax : 1 ≤ max) (evs : List Ev) (s : St)
    (hinv : Inv13 max hash s) (hdet : ∀ e ∈ evs, e.det = true) :
    OutsRef (run13 hash max s evs).2 (runSpec (absFS s.fs) evs).2 ∧
    absFS (run13 hash max s evs).1.fs = (runSpec (absFS s.fs) evs).1 ∧
    Inv13 max hash (run13 hash max s evs).1 :=
  history_refines hinj hmax evs s hinv hdet

/-- the worker that issues an event (completions are issued by no worker) -/
def Ev.worker : Ev → Option Nat
  | Ev.fg w _ => some w
  | Ev.flush w _ _ => some w
  | Ev.save w _ _ => some w
  | Ev.complete _ _ => none

/-- the foreground part of a schedule: what the sequential specification executes -/
def fgPart (evs : List Ev) : List Ev := evs.filter (fun e => e.worker.isSome)

/-- A schedule is an interleaving of the workers' programs iff its projection to each worker is that
worker's program; the sequential history (the foreground part, in schedule order) has the same
projections: every handle's program order is respected. -/
theorem C13_program_order (progs : Nat → List Ev) (evs : List Ev)
    (h : ∀ w, evs.filter (fun e => e.worker == some w) = progs w) :
    ∀ w, (fgPart evs).filter (fun e => e.worker == some w) = progs w := by
  intro w
  rw [← h w]
  unfold fgPart
  rw [List.filter_filter]
  congr 1
  funext e
  cases hw : e.worker <;> simp

/-- the specification ignores completion events -/
theorem runSpec_complete (S : Plain) (g : Nat) (ok : Bool) (rest : List Ev) :
    (runSpec S (Ev.complete g ok :: rest)).1 = (runSpec S rest).1 := rfl

theorem run13_append (s : St) (a b : List Ev) :
    run13 hash max s (a ++ b) =
      ((run13 hash max (run13 hash max s a).1 b).1, (run13 hash max s a).2 ++ (run13 hash max (run13 hash max s a).1 b).2) := by
  induction a generalizing s with
  | nil => rfl
  | cons e rest ih => simp only [List.cons_append, run13, ih]

theorem runSpec_append (S : Plain) (a b : List Ev) :
    runSpec S (a ++ b) = ((runSpec (runSpec S a).1 b).1, (runSpec S a).2 ++ (runSpec (runSpec S a).1 b).2) := by
  induction a generalizing S with
  | nil => rfl
  | cons e rest ih => simp only [List.cons_append, runSpec, ih]

/-- **Saved manifests.** A save issued at any point of any schedule (after any prefix `pre`) either
fails (only when Keep writes were made to fail) or returns, for every file, exactly the content the
plain model holds after the prefix — a content the file actually passed through, consistent across
files. -/
theorem C13_saved_manifest (hinj : Function.Injective hash) (hmax : 1 ≤ max) (pre : List Ev) (s : St)
    (hinv : Inv13 max hash s) (hdet : ∀ e ∈ pre, e.det = true) (w mask : Nat) (fail : Bool) :
    (evStep hash max (run13 hash max s pre).1 (Ev.save w mask fail)).2 =
        Out.snap (snapshot id (runSpec (absFS s.fs) pre).1) ∨
    ((evStep hash max (run13 hash max s pre).1 (Ev.save w mask fail)).2 = Out.failed ∧ fail = true) := by
  obtain ⟨_, h2, h3⟩ := history_refines hinj hmax pre s hinv hdet
  obtain ⟨_, _, h⟩ := save_spec hinj h3 w mask fail
  rw [h2] at h
  exact h

/-- **Lock order.** Operations that obey the hierarchical rule (first lock taken holding nothing;
every further lock is the child of a held lock; exclusive locks) cannot form a wait-for cycle, in
any configuration of any number of operations. -/
theorem C13_lock_order {parent : Lock.Lk → Lock.Lk} {depth : Lock.Lk → Nat} {ops : List Lock.OpState}
    (hok : ∀ o ∈ ops, Lock.OpOK parent depth o) (hex : Lock.Exclusive ops) (i : Nat) : ¬ Lock.Path ops i i :=
  Lock.no_cycle hok hex i

/-- Rename (mutex, ancestors of newdir then of olddir root-first without repetition, moved inode)
and Flush / MarshalManifest (directory, then descendants level by level) take their locks by the
rule, on every inode tree; hence every state they pass through is `OpOK` (`Lock.script_opOK`). -/
theorem C13_lock_scripts {par : Nat → Nat} {dep : Nat → Nat} (ht : Lock.TreeOK par dep) :
    (∀ (fuel od nd moved : Nat), dep od ≤ fuel → dep nd ≤ fuel → moved ≠ 0 → par moved = od →
      moved + 1 ∉ ((Lock.chainUp par fuel od ++ Lock.chainUp par fuel nd).reverse.map (· + 1)).foldl Lock.addNew [0] →
      Lock.ScriptOK (Lock.lparent par) (Lock.ldepth dep) (Lock.renameScript par fuel od nd moved)) ∧
    (∀ (kids : Nat → List Nat), (∀ d c, c ∈ kids d → par c = d ∧ c ≠ 0) → ∀ (fuel d : Nat),
      (Lock.flushScript kids fuel d).Nodup →
      Lock.ScriptOK (Lock.lparent par) (Lock.ldepth dep) (Lock.flushScript kids fuel d)) ∧
    (∀ (script : List Lock.Lk) (s0 : Lock.Lk), script[0]? = some s0 →
      Lock.ScriptOK (Lock.lparent par) (Lock.ldepth dep) script → ∀ k,
      Lock.OpOK (Lock.lparent par) (Lock.ldepth dep) ⟨s0, script.take k, (script[k]?).toList⟩) :=
  ⟨fun fuel od nd moved h1 h2 h3 h4 h5 => (Lock.renameScript_ok ht fuel od nd moved h1 h2 h3 h4 h5).1,
   fun kids hk fuel d hnd => Lock.flushScript_ok ht hk fuel d hnd,
   fun script s0 h0 hs k => Lock.script_opOK h0 hs k⟩

/-- **Lock order with reader/writer locks.** With read locks shared, write locks exclusive and a
pending `Lock()` blocking every later `RLock()` (sync.RWMutex), operations that only ever ask for a
lock ranking strictly above every lock they hold — in any mode, so never one they hold — cannot form a
wait-for cycle (no `Exclusive` hypothesis: any number of readers may share a lock). On every inode tree
the single-path operations keep this discipline at every step with rank = depth: filehandle
Read / Seek / Stat (one read lock), Write / Truncate / completion goroutines / waitPrune (one write
lock), OpenFile, Readdir, remove / Mkdir (directory, then one child). The discipline cannot be
dropped: a second read lock on a held mutex is a cycle as soon as a writer is pending — the state
the Seek of seed C13-h reaches. -/
theorem C13_rwlock_order {par : Nat → Nat} {dep : Nat → Nat} (ht : Lock.TreeOK par dep) :
    (∀ (ops : List RW.ROp), (∀ o ∈ ops, RW.Ordered (Lock.ldepth dep) o) → ∀ i, ¬ RW.Path ops i i) ∧
    (∀ n k, RW.Ordered (Lock.ldepth dep) (RW.atStep (RW.readScript n) k) ∧
            RW.Ordered (Lock.ldepth dep) (RW.atStep (RW.seekScript n) k) ∧
            RW.Ordered (Lock.ldepth dep) (RW.atStep (RW.statScript n) k) ∧
            RW.Ordered (Lock.ldepth dep) (RW.atStep (RW.writeScript n) k)) ∧
    (∀ d c, c ≠ 0 → par c = d → ∀ k (create isDir : Bool),
            RW.Ordered (Lock.ldepth dep) (RW.atStep (RW.openScript create d c) k) ∧
            RW.Ordered (Lock.ldepth dep) (RW.atStep (RW.readdirScript d c isDir) k) ∧
            RW.Ordered (Lock.ldepth dep) (RW.atStep (RW.removeScript d c) k)) ∧
    (∀ n, RW.Path [RW.atStep (RW.reentrantSeekScript n) 1, RW.atStep (RW.writeScript n) 0] 0 0 ∧
          ∀ rank : Lock.Lk → Nat, ¬ RW.Ordered rank (RW.atStep (RW.reentrantSeekScript n) 1)) :=
  ⟨fun _ hord i => RW.no_cycle hord i,
   fun _ k => ⟨RW.script_ordered (RW.single_inc _) k, RW.script_ordered (RW.single_inc _) k,
               RW.script_ordered (RW.single_inc _) k, RW.script_ordered (RW.single_inc _) k⟩,
   fun _ _ hc hp k _ _ => ⟨RW.script_ordered (RW.pair_inc ht hc hp _ _) k, RW.script_ordered (RW.pair_inc ht hc hp _ _) k,
                           RW.script_ordered (RW.pair_inc ht hc hp _ _) k⟩,
   fun n => ⟨RW.reentrant_read_cycle (n + 1), fun _ => RW.reentrantSeek_not_ordered n⟩⟩

/-- non-vacuity: three readers sharing a file's lock (a Read, a Seek inside Size, a Stat), a pending
completion goroutine, and a non-creating OpenFile with O_TRUNC holding the directory's read lock
together with a Readdir: every one keeps the discipline (root = inode 0, directory 1, file 2) -/
example : ∀ o ∈ [RW.atStep (RW.readScript 2) 1, RW.atStep (RW.seekScript 2) 1, RW.atStep (RW.statScript 2) 0,
      RW.atStep (RW.writeScript 2) 0, RW.atStep (RW.openScript false 1 2) 1, RW.atStep (RW.readdirScript 1 2 false) 1],
    RW.Ordered (Lock.ldepth (fun n => n)) o := by
  intro o ho
  simp only [List.mem_cons, List.mem_singleton, List.not_mem_nil, or_false] at ho
  rcases ho with h | h | h | h | h | h <;> subst h <;> intro a ha x hx <;>
    simp [RW.atStep, RW.readScript, RW.seekScript, RW.statScript, RW.writeScript, RW.openScript, RW.readdirScript] at ha hx <;>
    (try subst ha) <;> (try subst hx) <;> simp [Lock.ldepth]

example : Lock.TreeOK (fun n => n - 1) (fun n => n) :=
  ⟨rfl, fun n hn => ⟨by omega, by omega⟩⟩

/-! ### Non-vacuity -/

/-- `id` is a collision-free locator function; block size 2 -/
example : Function.Injective (id : Bytes → Loc) := fun _ _ h => h

/-- the empty collection satisfies the invariant -/
example : Inv13 2 id St.init := init_inv13

/-- a state with one empty file and two read-write handles on it (two workers) -/
def exState : St :=
  { fs := { world := fun _ => none, ents := [((0, "a"), Node.file 0)], dirs := [(".", 0)],
            files := [("a", FileNode.empty)],
            handles := [(0, ⟨Node.file 0, Ptr.zero, false, true, true⟩), (1, ⟨Node.file 0, Ptr.zero, false, true, true⟩)] },
    toks := [], groups := [] }

theorem exState_inv : Inv13 2 id exState := by
  refine ⟨⟨(fun _ _ h => by cases h), ?_, ?_, ?_⟩, ?_⟩
  · intro nf hnf
    simp only [exState, List.mem_singleton] at hnf
    rw [hnf]; exact ⟨⟨rfl, fun s hs => by cases hs⟩, by decide⟩
  · intro e he f hf
    simp only [exState, List.mem_cons, List.not_mem_nil, or_false] at he
    rcases he with he | he
    · rw [he] at hf ⊢; cases hf
      exact ⟨("a", FileNode.empty), rfl, by decide, fun _ => Or.inl (by decide)⟩
    · rw [he] at hf ⊢; cases hf
      exact ⟨("a", FileNode.empty), rfl, by decide, fun _ => Or.inl (by decide)⟩
  · intro e he f hf
    simp only [exState, List.mem_singleton] at he
    rw [he] at hf; cases hf; decide
  · intro nf hnf sg hsg
    simp only [exState, List.mem_singleton] at hnf
    rw [hnf] at hsg; cases hsg

/-- A schedule with two workers: worker 0 writes 4 bytes with block size 2 (two background writes
start), worker 1 overwrites the first block through its own handle (copy-on-write: the segment loses
its token and is flushed again under a new one), then the first background write completes
successfully (stale: it must not replace), then the second one (replaces). -/
def exSched : List Ev :=
  [Ev.fg 0 (Op.write 0 [1, 2, 3, 4]), Ev.fg 1 (Op.write 1 [9, 9]), Ev.complete 0 true, Ev.complete 1 true,
   Ev.fg 0 (Op.seek 0 0 0), Ev.fg 0 (Op.readn 0 4)]

example : ∀ e ∈ exSched, e.det = true := by decide

/-- segment kinds of file 0 (true = mem) -/
def memShape (s : St) : List Bool :=
  match s.fs.files[0]? with
  | some nf => nf.2.segs.map Seg.isMem
  | none => []

example : memShape (run13 id 2 exState (exSched.take 2)).1 = [true, true] := by decide
example : ((run13 id 2 exState (exSched.take 2)).1.groups.map (·.isOpen)) = [true, true, true] := by decide
/-- the stale completion of group 0 leaves the overwritten segment alone -/
example : memShape (run13 id 2 exState (exSched.take 3)).1 = [true, true] := by decide
/-- the completion of group 1 replaces the second segment -/
example : memShape (run13 id 2 exState (exSched.take 4)).1 = [true, false] := by decide

/-- the theorems apply to it: the invariant holds at the end, and the reader sees the overwrite -/
example : Inv13 2 id (run13 id 2 exState exSched).1 :=
  (C13_linearizable (fun _ _ h => h) (by decide) exSched exState exState_inv (by decide)).2.2

/-- a non-trivial copy-on-write run: write, hand off, overwrite (new allocation), truncate -/
def exCow : List Cow.Op :=
  [Cow.Op.handOff 0 7, Cow.Op.writeAt 0 [9] 1, Cow.Op.truncate 0 1, Cow.Op.handOff 0 8, Cow.Op.truncate 0 3]

def exCowState : Cow.State := ⟨[[1, 2, 3, 0]], [⟨0, 3, 4, none⟩], []⟩

example : Cow.Inv exCowState := by
  refine ⟨?_, ?_, (fun _ h => by cases h), (fun _ h => by cases h), (fun _ h => by cases h)⟩
  · intro i j a b ha hb _
    have hi : i = 0 := by
      cases i with
      | zero => rfl
      | succ i => simp [exCowState] at ha
    have hj : j = 0 := by
      cases j with
      | zero => rfl
      | succ j => simp [exCowState] at hb
    omega
  · intro sg h
    simp only [exCowState, List.mem_singleton] at h
    subst h; decide

example : ((Cow.run exCowState exCow).map (fun st => (st.shared.map (·.snap), st.heap.length))) =
    some ([[1], [1, 2, 3]], 3) := by decide

/-- a configuration obeying the locking rule: a Rename holding mutex, root and directory 1, blocked
on directory 2 held by a Flush of directory 2 that is blocked on its child 3 held by a writer -/
example : ∀ o ∈ [(⟨0, [0, 1, 2], [3]⟩ : Lock.OpState), ⟨3, [3], [4]⟩, ⟨4, [4], []⟩],
    Lock.OpOK (fun l => if l = 0 then 0 else if l = 4 then 3 else if l = 3 then 1 else l - 1)
      (fun l => if l = 4 then 3 else if l = 3 then 2 else l) o := by
  intro o ho
  simp only [List.mem_cons, List.mem_singleton, List.not_mem_nil, or_false] at ho
  rcases ho with h | h | h <;> subst h <;> constructor <;> decide

end ArvVerif.C13
