/- C13 property theorems (placeholder while the proofs are being built) -/
import ArvVerif.Model.C13
namespace ArvVerif.C13
open ArvVerif.C08

theorem C13_complete_absent (hash : Bytes → Loc) (max : Nat) (s : St) (g : Nat) (ok : Bool)
    (h : s.groups[g]? = none) : (complete hash max s g ok).1 = s := by
  simp [complete, h]

end ArvVerif.C13
