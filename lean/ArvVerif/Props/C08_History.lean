/-
C08 — a collection filesystem behaves like an ordinary in-memory filesystem.
Property theorems, DIRECTORY / HANDLE LAYER and histories.

`step (concImpl hash max)` is the model of the code (segments, pointers, Keep, background flushes at
quiescence); `step specImpl` is the plain model (a file is a byte list, a handle has an offset, a
flush does nothing) over the same flat directory map. `absFS` maps a concrete state to the plain
state it stands for.
-/
import ArvVerif.Proofs.C08_Load
import ArvVerif.Proofs.C08_Tree5
import ArvVerif.Props.C08
namespace ArvVerif.C08

variable {max : Nat} {hash : Bytes → Loc}

/-- Operations whose outputs must be *identical* in the two models: everything except the
single-call `read`, which may legitimately deliver fewer bytes than the plain `pread` (its contract
is `C08_read_refines` / `C08_read_step_refines`); `readn` (read until n bytes) is included. -/
def Op.det : Op → Bool
  | Op.read _ _ => false
  | _ => true

/-- **One step.** From any state satisfying the invariant, every operation (create/open with any
flag combination, write, append, seek, read-until-n, truncate, mkdir, rename, remove, removeAll, stat,
readdir, handle stat/readdir, close, flush, sync) yields the same result in the concrete model and
in the plain model, the abstraction commutes, and the invariant is preserved. -/
theorem C08_step_refines (hinj : Function.Injective hash) (hmax : 1 ≤ max) {s : CFS} (hinv : Inv max hash s)
    (op : Op) (hop : op.det = true) :
    (step (concImpl hash max) s op).2 = (step specImpl (absFS s) op).2 ∧
    absFS (step (concImpl hash max) s op).1 = (step specImpl (absFS s) op).1 ∧
    Inv max hash (step (concImpl hash max) s op).1 := by
  cases op with
  | openF h path acc app cre excl trunc sync dirPerm => exact step_open hmax hinv h path acc app cre excl trunc sync dirPerm
  | create h path => exact step_create hmax hinv h path
  | write h data => exact step_write hinj hmax hinv h data
  | read h n => cases hop
  | readn h n => exact step_readn hinv h n
  | seek h off whence => exact step_seek hinv h off whence
  | trunc h size => exact step_trunc hmax hinv h size
  | close h => exact step_close hinv h
  | hstat h => exact step_hstat hinv h
  | hreaddir h => exact step_hreaddir hinv h
  | hsync h =>
    show Ref3 max hash (step (concImpl hash max) s (Op.hsync h)) (step specImpl (absFS s) (Op.hsync h))
    unfold step
    simp only [getHandle_abs]
    cases getHandle s h with
    | none => exact Ref3.same hinv _
    | some hd => exact doSync_ref hinj hinv
  | mkdir path => exact step_mkdir hinv path
  | rename a b => exact step_rename hinv a b
  | remove path => exact step_remove hinv path
  | removeAll path => exact step_removeAll hinv path
  | stat path => exact step_stat hinv path
  | readdir path => exact step_readdir hmax hinv path
  | flush path short => exact doFlush_ref hinj hinv path short
  | sync => exact doSync_ref hinj hinv

/-- **Histories.** For every operation sequence of any length, over any number of files,
directories and handles, from any state satisfying the invariant: the concrete run and the plain
run produce identical outputs, end in corresponding states, and the invariant holds at the end
(hence after every prefix). Block size `max ≥ 1` arbitrary; flushes (explicit and background) are
invisible. -/
theorem C08_history_refines (hinj : Function.Injective hash) (hmax : 1 ≤ max) :
    ∀ (ops : List Op) (s : CFS), Inv max hash s → (∀ op ∈ ops, op.det = true) →
      (run (concImpl hash max) s ops).2 = (run specImpl (absFS s) ops).2 ∧
      absFS (run (concImpl hash max) s ops).1 = (run specImpl (absFS s) ops).1 ∧
      Inv max hash (run (concImpl hash max) s ops).1 := by
  intro ops
  induction ops with
  | nil => intro s hinv _; exact ⟨rfl, rfl, hinv⟩
  | cons op rest ih =>
    intro s hinv hdet
    obtain ⟨h1, h2, h3⟩ := C08_step_refines hinj hmax hinv op (hdet op (List.mem_cons_self ..))
    obtain ⟨i1, i2, i3⟩ := ih _ h3 (fun o ho => hdet o (List.mem_cons_of_mem _ ho))
    simp only [run]
    rw [← h2] at *
    exact ⟨by rw [h1, i1], i2, i3⟩

/-- The empty collection satisfies the invariant, so `C08_history_refines` applies to every history
that starts from an empty filesystem. -/
theorem C08_init_inv : Inv max hash (FS.init (fun _ => none) : CFS) :=
  ⟨(fun _ _ h => by cases h), (fun _ h => by cases h), (fun _ h => by cases h), (fun _ h => by cases h)⟩

/-- **Loaded filesystems.** Whatever (tokenised) manifest `loadManifest` accepts — any number of
streams, blocks of any sizes including empty ones, file tokens overlapping, repeated, zero-length,
spanning blocks — the resulting state satisfies the invariant: every file is well-formed (each
stored segment non-empty and inside a block that is in Keep, size = Σ lengths), Keep is consistent,
directory entries name existing files, and there are no handles. So `C08_history_refines` needs no
side condition for filesystems opened from a manifest. -/
theorem C08_load_inv (hinj : Function.Injective hash)
    (streams : List (String × List Bytes × List (Nat × Nat × String))) (s : CFS)
    (h : loadManifest hash streams = some s) : Inv max hash s :=
  (loadManifest_inv hinj streams s h).1

/-- Histories on a filesystem opened from any manifest. -/
theorem C08_loaded_history_refines (hinj : Function.Injective hash) (hmax : 1 ≤ max)
    (streams : List (String × List Bytes × List (Nat × Nat × String))) (s : CFS)
    (h : loadManifest hash streams = some s) (ops : List Op) (hdet : ∀ op ∈ ops, op.det = true) :
    (run (concImpl hash max) s ops).2 = (run specImpl (absFS s) ops).2 :=
  (C08_history_refines hinj hmax ops s (C08_load_inv hinj streams s h) hdet).1

/-- **Flushes are invisible (3)**: `dirnode.flush` / `commitBlock` on the files of a directory —
whatever the packing into blocks, in sync or async mode, with or without short blocks — only adds
blocks to Keep and leaves every file's content, segment lengths, size and `repacked` unchanged (so
all handle pointers stay valid) and every segment well-formed. Used by C09/C13. -/
theorem C08_flush_invisible_commit {st : Store} (hinj : Function.Injective hash) (hok : StoreOK hash st)
    (files : List FileNode) (hwf : AllWF max hash st files) (short : Bool) :
    StoreExt st (flushFiles hash max st files short).1 ∧ StoreOK hash (flushFiles hash max st files short).1 ∧
    AllWF max hash (flushFiles hash max st files short).1 (flushFiles hash max st files short).2 ∧
    (flushFiles hash max st files short).2.map (abs (flushFiles hash max st files short).1) = files.map (abs st) ∧
    (flushFiles hash max st files short).2.map (fun fn => (fn.segs.map Seg.len, fn.size, fn.repacked))
      = files.map (fun fn => (fn.segs.map Seg.len, fn.size, fn.repacked)) := by
  obtain ⟨h1, h2, h3, h4⟩ := flushFiles_spec hinj hok files hwf short
  refine ⟨h1, h2, h3, map_abs_of_key h4, ?_⟩
  have : ∀ (x : Store) (l : List FileNode), l.map (fun fn => (fn.segs.map Seg.len, fn.size, fn.repacked)) =
      (l.map (fileKey x)).map (fun k => k.2) := by
    intro x l; rw [List.map_map]; rfl
  rw [this (flushFiles hash max st files short).1, this st, h4]

/-- **Single `Read` call inside a history**: the data is what the plain model has at the handle's
offset (a prefix of the plain `pread`, of the length actually returned), the handle advances by that
length — i.e. the state afterwards is the plain state after reading exactly that many bytes —, the
invariant is kept, and nothing else changes. Errors for write-only handles, directories etc. are the
same as in the plain model. -/
theorem C08_read_step_refines {s : CFS} (hinv : Inv max hash s) (h n : Nat) :
    ∃ k, k ≤ n ∧
      absFS (step (concImpl hash max) s (Op.read h n)).1 = (step specImpl (absFS s) (Op.read h k)).1 ∧
      Inv max hash (step (concImpl hash max) s (Op.read h n)).1 ∧
      (∀ d e, (step (concImpl hash max) s (Op.read h n)).2 = Res.data d e →
        ∃ e', (step specImpl (absFS s) (Op.read h k)).2 = Res.data d e' ∧ d.length ≤ k) := by
  unfold step
  simp only [getHandle_abs]
  cases hg : getHandle s h with
  | none => exact ⟨n, Nat.le_refl _, rfl, hinv, fun d e hde => by cases hde⟩
  | some hd =>
    simp only [Option.map_some]
    obtain ⟨node, ptr, app, rd, wr⟩ := hd
    cases rd with
    | false =>
      refine ⟨n, Nat.le_refl _, ?_, ?_, ?_⟩
      · simp [handleRead, absH]
      · simp only [handleRead]; exact hinv
      · intro d e hde
        simp [handleRead] at hde
        refine ⟨Err.wronly, ?_, by rw [hde.1]; simp⟩
        simp [handleRead, absH, hde.1]
    | true =>
      cases node with
      | dir dd =>
        refine ⟨n, Nat.le_refl _, ?_, ?_, ?_⟩
        · simp only [handleRead, absH, Bool.not_true, Bool.false_eq_true, if_false]
          rw [setHandle_abs]; rfl
        · simp only [handleRead, Bool.not_true, Bool.false_eq_true, if_false]
          apply hinv.setHandle
          intro f hf; cases hf
        · intro d e hde
          simp [handleRead] at hde
          refine ⟨Err.invalop, ?_, by rw [hde.1]; simp⟩
          simp [handleRead, absH, hde.1]
      | file f =>
        cases hf : s.files[f]? with
        | none =>
          refine ⟨n, Nat.le_refl _, ?_, ?_, ?_⟩
          · simp [handleRead, absH, hf, absFiles_get]
          · simp only [handleRead, Bool.not_true, Bool.false_eq_true, if_false, hf]; exact hinv
          · intro d e hde
            simp [handleRead, hf] at hde
            refine ⟨Err.panic, ?_, by rw [hde.1]; simp⟩
            simp [handleRead, absH, hf, absFiles_get, hde.1]
        | some nf =>
          obtain ⟨hwf, hrep⟩ := hinv.files nf (List.mem_of_getElem? hf)
          obtain ⟨e0, he0, heq⟩ := getHandle_mem hg
          obtain ⟨nf', hnf', hp⟩ := hinv.handles e0 he0 f (by rw [heq])
          rw [hf] at hnf'; cases hnf'
          rw [heq] at hp
          simp only [] at hp
          obtain ⟨r, hr1, hr2⟩ := readAt_spec hwf hp n
          have hcr : (concImpl hash max).read s.world nf.2 ptr n = Except.ok (r.data, r.ptr, ioErr r.err) := by
            show (match readAt s.world nf.2 ptr n with
              | some r => (pure (r.data, r.ptr, ioErr r.err) : Except Err _)
              | none => throw Err.panic) = _
            rw [hr1]; rfl
          refine ⟨r.data.length, hr2.len_le, ?_, ?_, ?_⟩
          · simp only [handleRead, absH, Bool.not_true, Bool.false_eq_true, if_false, hf, hcr, absFS_files,
              absFiles_get, Option.map_some]
            rw [setHandle_abs]
            show setHandle (absFS s) h ⟨Node.file f, r.ptr.off, app, true, wr⟩ =
              setHandle (absFS s) h ⟨Node.file f, ptr.off + (specRead (abs s.world nf.2) ptr.off r.data.length).length, app, true, wr⟩
            rw [hr2.off_eq, ← hr2.data_eq]
          · simp only [handleRead, Bool.not_true, Bool.false_eq_true, if_false, hf, hcr]
            apply hinv.setHandle
            intro f' hf'
            have : Node.file f = Node.file f' := hf'
            cases this
            exact ⟨nf, hf, hr2.ptr_ok⟩
          · intro d e hde
            simp only [handleRead, Bool.not_true, Bool.false_eq_true, if_false, hf, hcr, Res.data.injEq] at hde
            simp only [handleRead, absH, Bool.not_true, Bool.false_eq_true, if_false, absFS_files, absFiles_get, hf,
              Option.map_some]
            show ∃ e', Res.data (specRead (abs s.world nf.2) ptr.off r.data.length) _ = Res.data d e' ∧ _
            rw [← hr2.data_eq, hde.1]
            exact ⟨_, rfl, Nat.le_refl _⟩

/-! ### Directory rules: what a rename does to the flat map (finding F13, fixed by 100856b) -/

/-- the directory map after a successful `Rename` of node `n` from (od, oldname) to (nd, newname):
store under the new name, then delete the old name unless it is the same entry (`doRename`) -/
def renameEnts (ents : List ((Nat × String) × Node)) (od : Nat) (oldname : String) (nd : Nat) (newname : String)
    (n : Node) : List ((Nat × String) × Node) :=
  if od = nd ∧ oldname = newname then setEnt ents nd newname n
  else eraseEnt (setEnt ents nd newname n) od oldname

/-- what the map looked like before the fix: the old name was deleted unconditionally -/
def renameEntsOld (ents : List ((Nat × String) × Node)) (od : Nat) (oldname : String) (nd : Nat) (newname : String)
    (n : Node) : List ((Nat × String) × Node) :=
  eraseEnt (setEnt ents nd newname n) od oldname

/-- Regression witness for F13: with the unconditional delete, `Rename("f","f")` lost the file. -/
theorem C08_rename_old_code_lost_node :
    child (renameEntsOld [((0, "f"), Node.file 0)] 0 "f" 0 "f" (Node.file 0)) 0 "f" = none := by decide

theorem child_setEnt_self (ents : List ((Nat × String) × Node)) (d : Nat) (name : String) (n : Node) :
    child (setEnt ents d name n) d name = some n := by
  unfold child setEnt eraseEnt
  rw [List.find?_append]
  have : (ents.filter (fun e => !(e.1 == (d, name)))).find? (fun e => e.1 == (d, name)) = none := by
    rw [List.find?_eq_none]
    intro x hx
    have := (List.mem_filter.mp hx).2
    simpa using this
  rw [this]
  simp

theorem child_eraseEnt_ne (ents : List ((Nat × String) × Node)) (d d' : Nat) (name name' : String)
    (hne : (d', name') ≠ (d, name)) : child (eraseEnt ents d' name') d name = child ents d name := by
  unfold child eraseEnt
  congr 1
  induction ents with
  | nil => rfl
  | cons x rest ih =>
    simp only [List.filter_cons]
    by_cases hx : x.1 = (d', name')
    · have h3 : (x.1 == (d, name)) = false := by
        rw [hx]; simp only [beq_eq_false_iff_ne, ne_eq]; exact hne
      have h4 : (x.1 == (d', name')) = true := by simp [hx]
      simp only [h4, Bool.not_true, Bool.false_eq_true, if_false, List.find?_cons, h3]
      exact ih
    · have h1 : (x.1 == (d', name')) = false := by simp [hx]
      simp only [h1, Bool.not_false, if_true]
      cases hy : (x.1 == (d, name)) with
      | true => simp only [List.find?_cons, hy]
      | false => simp only [List.find?_cons, hy]; exact ih

theorem child_eraseEnt_self (ents : List ((Nat × String) × Node)) (d : Nat) (name : String) :
    child (eraseEnt ents d name) d name = none := by
  unfold child eraseEnt
  have : (ents.filter (fun e => !(e.1 == (d, name)))).find? (fun e => e.1 == (d, name)) = none := by
    rw [List.find?_eq_none]
    intro x hx
    have := (List.mem_filter.mp hx).2
    simpa using this
  rw [this]; rfl

/-- **Rename keeps the node** (full strength, holds of the fixed code): after a successful rename
the node is reachable under its new name — also when old and new name are the same directory entry —
and, when they are different entries, no longer under the old one. -/
theorem C08_rename_keeps_node (ents : List ((Nat × String) × Node)) (od : Nat) (oldname : String)
    (nd : Nat) (newname : String) (n : Node) :
    child (renameEnts ents od oldname nd newname n) nd newname = some n ∧
    ((od, oldname) ≠ (nd, newname) → child (renameEnts ents od oldname nd newname n) od oldname = none) := by
  unfold renameEnts
  by_cases hc : od = nd ∧ oldname = newname
  · rw [if_pos hc]
    refine ⟨child_setEnt_self .., fun hne => ?_⟩
    exact absurd (by rw [hc.1, hc.2]) hne
  · rw [if_neg hc]
    have hne : (od, oldname) ≠ (nd, newname) := by
      intro h; apply hc; cases h; exact ⟨rfl, rfl⟩
    exact ⟨by rw [child_eraseEnt_ne _ _ _ _ _ hne]; exact child_setEnt_self .., fun _ => child_eraseEnt_self ..⟩

theorem walk_err {ents : List ((Nat × String) × Node)} {dirs : List (String × Nat)} :
    ∀ (comps : List String) (n : Node) (e : Err), walk ents dirs n comps = Except.error e →
      e = Err.notdir ∨ e = Err.noent := by
  intro comps
  induction comps with
  | nil => intro n e h; cases n <;> simp [walk, pure, Except.pure] at h
  | cons name rest ih =>
    intro n e h
    cases n with
    | file f => simp [walk, throw, throwThe, MonadExceptOf.throw] at h; exact Or.inl h.symm
    | dir d =>
      simp only [walk] at h
      split at h
      · exact ih _ _ h
      · split at h
        · exact ih _ _ h
        · split at h
          · simp [throw, throwThe, MonadExceptOf.throw] at h; exact Or.inr h.symm
          · exact ih _ _ h

theorem lookupDir_err {F P W : Type} (s : FS F P W) (comps : List String) (e : Err)
    (h : lookupDir s comps = Except.error e) : e ≠ Err.ok := by
  unfold lookupDir at h
  cases hw : walk s.ents s.dirs (Node.dir 0) comps with
  | error e' =>
    rw [hw] at h
    simp [throw, throwThe, MonadExceptOf.throw] at h
    rcases walk_err _ _ _ hw with h1 | h1 <;> (rw [← h, h1]; decide)
  | ok n =>
    rw [hw] at h
    cases n with
    | dir d => simp [pure, Except.pure] at h
    | file f => simp [throw, throwThe, MonadExceptOf.throw] at h; rw [← h]; decide

theorem ite_err_elim {F P W : Type} {c : Prop} [Decidable c] {s s' : FS F P W} {X : FS F P W × Res} {e : Err}
    (he : e ≠ Err.ok) (h : (if c then (s, Res.err e) else X) = (s', Res.err Err.ok)) :
    X = (s', Res.err Err.ok) := by
  by_cases hc : c
  · rw [if_pos hc] at h
    simp only [Prod.mk.injEq, Res.err.injEq] at h
    exact absurd h.2 he
  · rw [if_neg hc] at h; exact h

/-- Tie between `renameEnts` and the step function: a `Rename` that reports success has resolved an
existing source node `n` at `(od, oldname)` and left exactly the entries `renameEnts …`. Together
with `C08_rename_keeps_node`: after every successful rename the node is reachable under its new name. -/
theorem C08_rename_step {F P W : Type} (s s' : FS F P W) (old new : String)
    (h : doRename s old new = (s', Res.err Err.ok)) :
    ∃ od oldname nd newname n, child s.ents od oldname = some n ∧
      s'.ents = renameEnts s.ents od oldname nd newname n := by
  unfold doRename at h
  generalize splitDirBase old = sp at h
  obtain ⟨ocomps, oldname⟩ := sp
  generalize splitDirBase new = sp2 at h
  obtain ⟨ncomps, newname0⟩ := sp2
  simp only [] at h
  have h := ite_err_elim (by decide) h
  cases hod : lookupDir s ocomps with
  | error e =>
    rw [hod] at h
    simp only [Prod.mk.injEq, Res.err.injEq] at h
    exact absurd h.2 (lookupDir_err s ocomps e hod)
  | ok od =>
    rw [hod] at h
    simp only [] at h
    have h := ite_err_elim (by decide) h
    cases hnd : lookupDir s ncomps with
    | error e =>
      rw [hnd] at h
      simp only [Prod.mk.injEq, Res.err.injEq] at h
      exact absurd h.2 (lookupDir_err s ncomps e hnd)
    | ok nd =>
      rw [hnd] at h
      simp only [] at h
      cases hch : child s.ents od oldname with
      | none => rw [hch] at h; simp at h
      | some n =>
        rw [hch] at h
        simp only [] at h
        have h := ite_err_elim (by decide) h
        obtain ⟨newname, hnn⟩ : ∃ nn, nn = (if (newname0 == "") = true then oldname else newname0) := ⟨_, rfl⟩
        rw [← hnn] at h
        have hents : ∀ (x : FS F P W), (setNameParent x n newname nd).ents = x.ents := by
          intro x
          cases n with
          | dir k => rfl
          | file f => simp only [setNameParent]; cases x.files[f]? <;> rfl
        have hfin : ∀ (t : FS F P W × Res),
            t = ({ (setNameParent { s with ents := setEnt s.ents nd newname n } n newname nd) with
                    ents := if od = nd ∧ oldname = newname then
                        (setNameParent { s with ents := setEnt s.ents nd newname n } n newname nd).ents
                      else eraseEnt (setNameParent { s with ents := setEnt s.ents nd newname n } n newname nd).ents od oldname },
                  Res.err Err.ok) →
            t = (s', Res.err Err.ok) → s'.ents = renameEnts s.ents od oldname nd newname n := by
          intro t ht ht'
          rw [ht] at ht'
          simp only [Prod.mk.injEq] at ht'
          rw [← ht'.1]
          simp only [hents]
          unfold renameEnts
          by_cases hc : od = nd ∧ oldname = newname
          · simp only [if_pos hc]
          · simp only [if_neg hc]
        refine ⟨od, oldname, nd, newname, n, hch, ?_⟩
        cases hex : child s.ents nd newname with
        | none => rw [hex] at h; exact hfin _ rfl h
        | some x =>
          rw [hex] at h
          cases x with
          | dir k => simp at h
          | file f => exact hfin _ rfl h

/-! ### Error tables of the directory operations ("fails exactly when …") -/

/-- **Mkdir** succeeds exactly when the parent path resolves to a directory, the last component is a
proper name and nothing of that name exists; then the new directory is reachable under that name.
Every failure leaves the state unchanged. -/
theorem C08_mkdir_table {F P W : Type} (impl : FileImpl F P W) (s : FS F P W) (path : String) :
    ((doMkdir impl s path).2 = Res.err Err.ok ↔
      ∃ d, lookupDir s (splitDirBase path).1 = Except.ok d ∧ special (splitDirBase path).2 = false ∧
        child s.ents d (splitDirBase path).2 = none) ∧
    ((doMkdir impl s path).2 ≠ Res.err Err.ok → (doMkdir impl s path).1 = s) ∧
    (∀ d, lookupDir s (splitDirBase path).1 = Except.ok d → (doMkdir impl s path).2 = Res.err Err.ok →
      child (doMkdir impl s path).1.ents d (splitDirBase path).2 = some (Node.dir s.dirs.length)) := by
  unfold doMkdir
  generalize splitDirBase path = sp
  obtain ⟨dcomps, name⟩ := sp
  dsimp only
  cases hl : lookupDir s dcomps with
  | error e =>
    have he := lookupDir_err s dcomps e hl
    dsimp only
    refine ⟨⟨?_, ?_⟩, (fun _ => rfl), ?_⟩
    · intro h; rw [Res.err.injEq] at h; exact absurd h he
    · rintro ⟨d, h, _⟩; cases h
    · intro d h; cases h
  | ok d =>
    dsimp only
    by_cases hsp : special name = true
    · rw [if_pos hsp]
      refine ⟨⟨?_, ?_⟩, (fun _ => rfl), ?_⟩
      · intro h; cases h
      · rintro ⟨_, _, h, _⟩; rw [hsp] at h; cases h
      · intro _ _ h; cases h
    · rw [if_neg hsp]
      have hsp' : special name = false := by cases h : special name <;> simp_all
      cases hc : child s.ents d name with
      | some n =>
        dsimp only
        refine ⟨⟨?_, ?_⟩, (fun _ => rfl), ?_⟩
        · intro h; cases h
        · rintro ⟨d', h1, _, h3⟩; cases h1; rw [hc] at h3; cases h3
        · intro _ _ h; cases h
      | none =>
        dsimp only
        refine ⟨⟨(fun _ => ⟨d, rfl, hsp', hc⟩), (fun _ => rfl)⟩, (fun h => absurd rfl h), ?_⟩
        intro d' h _
        cases h
        show child (setEnt s.ents d name (Node.dir s.dirs.length)) d name = _
        exact child_setEnt_self ..

/-- **Remove** (non-recursive) succeeds exactly when the last component is a proper name, the parent
resolves, the entry exists and is not a non-empty directory; then the name is gone. Every failure
leaves the state unchanged. -/
theorem C08_remove_table {F P W : Type} (s : FS F P W) (path : String) :
    ((doRemove s path false).2 = Res.err Err.ok ↔
      special (splitDirBase (trimSlashes path)).2 = false ∧
      ∃ d n, lookupDir s (splitDirBase (trimSlashes path)).1 = Except.ok d ∧
        child s.ents d (splitDirBase (trimSlashes path)).2 = some n ∧
        (∀ k, n = Node.dir k → dirSize s k = 0)) ∧
    ((doRemove s path false).2 ≠ Res.err Err.ok → (doRemove s path false).1 = s) ∧
    (∀ d, lookupDir s (splitDirBase (trimSlashes path)).1 = Except.ok d →
      (doRemove s path false).2 = Res.err Err.ok →
      child (doRemove s path false).1.ents d (splitDirBase (trimSlashes path)).2 = none) := by
  unfold doRemove
  generalize splitDirBase (trimSlashes path) = sp
  obtain ⟨dcomps, name⟩ := sp
  dsimp only
  by_cases hsp : special name = true
  · rw [if_pos hsp]
    refine ⟨⟨?_, ?_⟩, (fun _ => rfl), ?_⟩
    · intro h; cases h
    · rintro ⟨h, _⟩; rw [hsp] at h; cases h
    · intro _ _ h; cases h
  · rw [if_neg hsp]
    have hsp' : special name = false := by cases h : special name <;> simp_all
    cases hl : lookupDir s dcomps with
    | error e =>
      have he := lookupDir_err s dcomps e hl
      dsimp only
      refine ⟨⟨?_, ?_⟩, (fun _ => rfl), ?_⟩
      · intro h
        rw [Res.err.injEq, if_neg (fun hc => by cases hc.1)] at h
        exact absurd h he
      · rintro ⟨_, d, n, h, _⟩; cases h
      · intro d h; cases h
    | ok d =>
      dsimp only
      cases hc : child s.ents d name with
      | none =>
        dsimp only
        refine ⟨⟨?_, ?_⟩, (fun _ => rfl), ?_⟩
        · intro h; simp at h
        · rintro ⟨_, d', n, h1, h2, _⟩; cases h1; rw [hc] at h2; cases h2
        · intro _ _ h; simp at h
      | some n =>
        dsimp only
        have hok : ∀ (hz : ∀ k, n = Node.dir k → dirSize s k = 0),
            ((({ s with ents := eraseEnt s.ents d name }, Res.err Err.ok) : FS F P W × Res).2 = Res.err Err.ok ↔
              special name = false ∧ ∃ d_1 n_1, (Except.ok d : Except Err Nat) = Except.ok d_1 ∧
                child s.ents d_1 name = some n_1 ∧ ∀ k, n_1 = Node.dir k → dirSize s k = 0) ∧
            ((({ s with ents := eraseEnt s.ents d name }, Res.err Err.ok) : FS F P W × Res).2 ≠ Res.err Err.ok →
              (({ s with ents := eraseEnt s.ents d name }, Res.err Err.ok) : FS F P W × Res).1 = s) ∧
            (∀ d_1, (Except.ok d : Except Err Nat) = Except.ok d_1 →
              (({ s with ents := eraseEnt s.ents d name }, Res.err Err.ok) : FS F P W × Res).2 = Res.err Err.ok →
              child (({ s with ents := eraseEnt s.ents d name }, Res.err Err.ok) : FS F P W × Res).1.ents d_1 name = none) := by
          intro hz
          refine ⟨⟨(fun _ => ⟨hsp', d, n, rfl, hc, hz⟩), (fun _ => rfl)⟩, (fun h => absurd rfl h), ?_⟩
          intro d' h1 _
          cases h1
          exact child_eraseEnt_self ..
        cases n with
        | file f =>
          rw [if_neg (by simp)]
          exact hok (fun k h => by cases h)
        | dir k =>
          by_cases hk : dirSize s k > 0
          · rw [if_pos (by simp [hk])]
            refine ⟨⟨?_, ?_⟩, (fun _ => rfl), ?_⟩
            · intro h; cases h
            · rintro ⟨_, d', n', h1, h2, h3⟩
              cases h1; rw [hc] at h2; cases h2
              have := h3 k rfl; omega
            · intro _ _ h; cases h
          · rw [if_neg (by simp [hk])]
            exact hok (fun k' h => by cases h; omega)

/-- **RemoveAll** fails only for an improper last component or when the parent path runs through a
file (ErrNotADirectory); a missing entry or parent is success, and an existing entry — file or
directory, empty or not — is removed. -/
theorem C08_removeAll_table {F P W : Type} (s : FS F P W) (path : String) :
    ((doRemove s path true).2 = Res.err Err.ok ↔
      special (splitDirBase (trimSlashes path)).2 = false ∧
      lookupDir s (splitDirBase (trimSlashes path)).1 ≠ Except.error Err.notdir) ∧
    (∀ d, lookupDir s (splitDirBase (trimSlashes path)).1 = Except.ok d →
      special (splitDirBase (trimSlashes path)).2 = false →
      child (doRemove s path true).1.ents d (splitDirBase (trimSlashes path)).2 = none) := by
  unfold doRemove
  generalize splitDirBase (trimSlashes path) = sp
  obtain ⟨dcomps, name⟩ := sp
  dsimp only
  by_cases hsp : special name = true
  · rw [if_pos hsp]
    refine ⟨⟨?_, ?_⟩, ?_⟩
    · intro h; cases h
    · rintro ⟨h, _⟩; rw [hsp] at h; cases h
    · intro _ _ h; rw [hsp] at h; cases h
  · rw [if_neg hsp]
    have hsp' : special name = false := by cases h : special name <;> simp_all
    cases hl : lookupDir s dcomps with
    | error e =>
      dsimp only
      have hcls : e = Err.notdir ∨ e = Err.noent := by
        unfold lookupDir at hl
        cases hw : walk s.ents s.dirs (Node.dir 0) dcomps with
        | error e' =>
          rw [hw] at hl
          simp [throw, throwThe, MonadExceptOf.throw] at hl
          rw [← hl]; exact walk_err _ _ _ hw
        | ok n =>
          rw [hw] at hl
          cases n with
          | dir d => simp [pure, Except.pure] at hl
          | file f => simp [throw, throwThe, MonadExceptOf.throw] at hl; exact Or.inl hl.symm
      refine ⟨⟨?_, ?_⟩, ?_⟩
      · intro h
        refine ⟨hsp', ?_⟩
        intro hc; cases hc
        rw [Res.err.injEq, if_neg (fun hc => by cases hc.2)] at h
        cases h
      · rintro ⟨_, h⟩
        rcases hcls with h1 | h1
        · rw [h1] at h; exact absurd rfl h
        · rw [h1, if_pos ⟨rfl, rfl⟩]
      · intro d h; cases h
    | ok d =>
      dsimp only
      cases hc : child s.ents d name with
      | none =>
        dsimp only
        refine ⟨⟨(fun _ => ⟨hsp', fun h => by cases h⟩), (fun _ => rfl)⟩, ?_⟩
        intro d' h1 _; cases h1; exact hc
      | some n =>
        dsimp only
        rw [if_neg (by simp)]
        refine ⟨⟨(fun _ => ⟨hsp', fun h => by cases h⟩), (fun _ => rfl)⟩, ?_⟩
        intro d' h1 _; cases h1
        exact child_eraseEnt_self ..

/-- **Rename** succeeds exactly when: the source's last component is a proper name, both parent
paths resolve to directories, the target's last component is not `.`/`..`, the source entry exists,
it is not a directory that is an ancestor-or-self of either parent ("moved into itself"), and the
target name (the source name when the target ends in `/`) is not an existing directory. Every
failure leaves the state unchanged. (What success does: `C08_rename_step`, `C08_rename_keeps_node`.) -/
theorem C08_rename_table {F P W : Type} (s : FS F P W) (old new : String) :
    ((doRename s old new).2 = Res.err Err.ok ↔
      special (splitDirBase old).2 = false ∧
      ((splitDirBase new).2 == "." || (splitDirBase new).2 == "..") = false ∧
      ∃ od nd n, lookupDir s (splitDirBase old).1 = Except.ok od ∧
        lookupDir s (splitDirBase new).1 = Except.ok nd ∧
        child s.ents od (splitDirBase old).2 = some n ∧
        (∀ k, n = Node.dir k →
          (ancestors s.dirs s.dirs.length od ++ ancestors s.dirs s.dirs.length nd).contains k = false) ∧
        (∀ k, child s.ents nd (if ((splitDirBase new).2 == "") = true then (splitDirBase old).2
              else (splitDirBase new).2) ≠ some (Node.dir k))) ∧
    ((doRename s old new).2 ≠ Res.err Err.ok → (doRename s old new).1 = s) := by
  unfold doRename
  generalize splitDirBase old = sp
  obtain ⟨ocomps, oldname⟩ := sp
  generalize splitDirBase new = sp2
  obtain ⟨ncomps, newname0⟩ := sp2
  dsimp only
  by_cases hsp : special oldname = true
  · rw [if_pos hsp]
    refine ⟨⟨?_, ?_⟩, (fun _ => rfl)⟩
    · intro h; cases h
    · rintro ⟨h, _⟩; rw [hsp] at h; cases h
  · rw [if_neg hsp]
    have hsp' : special oldname = false := by cases h : special oldname <;> simp_all
    cases hod : lookupDir s ocomps with
    | error e =>
      have he := lookupDir_err s ocomps e hod
      dsimp only
      refine ⟨⟨?_, ?_⟩, (fun _ => rfl)⟩
      · intro h; rw [Res.err.injEq] at h; exact absurd h he
      · rintro ⟨_, _, od, nd, n, h, _⟩; cases h
    | ok od =>
      dsimp only
      by_cases hdot : (newname0 == "." || newname0 == "..") = true
      · rw [if_pos hdot]
        refine ⟨⟨?_, ?_⟩, (fun _ => rfl)⟩
        · intro h; cases h
        · rintro ⟨_, h, _⟩; rw [hdot] at h; cases h
      · rw [if_neg hdot]
        have hdot' : (newname0 == "." || newname0 == "..") = false := by
          cases h : (newname0 == "." || newname0 == "..") <;> simp_all
        cases hnd : lookupDir s ncomps with
        | error e =>
          have he := lookupDir_err s ncomps e hnd
          dsimp only
          refine ⟨⟨?_, ?_⟩, (fun _ => rfl)⟩
          · intro h; rw [Res.err.injEq] at h; exact absurd h he
          · rintro ⟨_, _, od', nd, n, _, h, _⟩; cases h
        | ok nd =>
          dsimp only
          cases hch : child s.ents od oldname with
          | none =>
            dsimp only
            refine ⟨⟨?_, ?_⟩, (fun _ => rfl)⟩
            · intro h; simp at h
            · rintro ⟨_, _, od', nd', n, h1, _, h3, _⟩; cases h1; rw [hch] at h3; cases h3
          | some n =>
            dsimp only
            cases n with
            | file f =>
              dsimp only
              rw [if_neg (by simp)]
              have hself : ∀ k, Node.file f = Node.dir k →
                  (ancestors s.dirs s.dirs.length od ++ ancestors s.dirs s.dirs.length nd).contains k = false :=
                fun k h => by cases h
              obtain ⟨newname, hnn⟩ : ∃ nn, nn = (if (newname0 == "") = true then oldname else newname0) := ⟨_, rfl⟩
              rw [← hnn]
              cases hex : child s.ents nd newname with
              | none =>
                dsimp only
                refine ⟨⟨(fun _ => ⟨hsp', hdot', od, nd, _, rfl, rfl, hch, hself, fun k h => by rw [hex] at h; cases h⟩),
                  (fun _ => rfl)⟩, (fun h => absurd rfl h)⟩
              | some x =>
                cases x with
                | dir k' =>
                  dsimp only
                  refine ⟨⟨?_, ?_⟩, (fun _ => rfl)⟩
                  · intro h; cases h
                  · rintro ⟨_, _, od', nd', n', h1, h2, _, _, h5⟩
                    cases h1; cases h2
                    exact absurd hex (h5 k')
                | file f' =>
                  dsimp only
                  refine ⟨⟨(fun _ => ⟨hsp', hdot', od, nd, _, rfl, rfl, hch, hself, fun k h => by rw [hex] at h; cases h⟩),
                    (fun _ => rfl)⟩, (fun h => absurd rfl h)⟩
            | dir k =>
              dsimp only
              by_cases hk : (ancestors s.dirs s.dirs.length od ++ ancestors s.dirs s.dirs.length nd).contains k = true
              · rw [if_pos hk]
                refine ⟨⟨?_, ?_⟩, (fun _ => rfl)⟩
                · intro h; cases h
                · rintro ⟨_, _, od', nd', n', h1, h2, h3, h4, _⟩
                  cases h1; cases h2; rw [hch] at h3; cases h3
                  have := h4 k rfl; rw [hk] at this; cases this
              · rw [if_neg hk]
                have hself : ∀ k', Node.dir k = Node.dir k' →
                    (ancestors s.dirs s.dirs.length od ++ ancestors s.dirs s.dirs.length nd).contains k' = false := by
                  intro k' h; cases h
                  cases hh : (ancestors s.dirs s.dirs.length od ++ ancestors s.dirs s.dirs.length nd).contains k with
                  | true => exact absurd hh hk
                  | false => rfl
                obtain ⟨newname, hnn⟩ : ∃ nn, nn = (if (newname0 == "") = true then oldname else newname0) := ⟨_, rfl⟩
                rw [← hnn]
                cases hex : child s.ents nd newname with
                | none =>
                  dsimp only
                  refine ⟨⟨(fun _ => ⟨hsp', hdot', od, nd, _, rfl, rfl, hch, hself, fun k h => by rw [hex] at h; cases h⟩),
                    (fun _ => rfl)⟩, (fun h => absurd rfl h)⟩
                | some x =>
                  cases x with
                  | dir k' =>
                    dsimp only
                    refine ⟨⟨?_, ?_⟩, (fun _ => rfl)⟩
                    · intro h; cases h
                    · rintro ⟨_, _, od', nd', n', h1, h2, _, _, h5⟩
                      cases h1; cases h2
                      exact absurd hex (h5 k')
                  | file f' =>
                    dsimp only
                    refine ⟨⟨(fun _ => ⟨hsp', hdot', od, nd, _, rfl, rfl, hch, hself, fun k h => by rw [hex] at h; cases h⟩),
                      (fun _ => rfl)⟩, (fun h => absurd rfl h)⟩

/-- **A failed open changes nothing** (any file implementation, any flag combination): whenever
`openFile` returns an error — missing path, O_EXCL on an existing target, O_SYNC, invalid access
mode, O_TRUNC on a read-only handle or a directory, … — the filesystem state is exactly what it was.
(In particular O_EXCL|O_TRUNC on an existing file does not truncate it: the class of seeded change
C08-d.) -/
theorem C08_open_fail_unchanged {F P W : Type} (impl : FileImpl F P W) (s : FS F P W) (path : String) (acc : Nat)
    (app cre excl trunc sync dirPerm : Bool) (e : Err)
    (h : (openFile impl s path acc app cre excl trunc sync dirPerm).2 = Except.error e) :
    (openFile impl s path acc app cre excl trunc sync dirPerm).1 = s := by
  unfold openFile at h ⊢
  generalize splitDirBase path = sp at h ⊢
  obtain ⟨dcomps, name⟩ := sp
  dsimp only at h ⊢
  by_cases h1 : sync = true
  · rw [if_pos h1]
  · rw [if_neg h1] at h ⊢
    cases hl : lookupDir s dcomps with
    | error e' => rfl
    | ok d =>
      rw [hl] at h
      dsimp only at h ⊢
      by_cases h2 : acc > 2
      · rw [if_pos h2]
      · rw [if_neg h2] at h ⊢
        by_cases h3 : (!(acc == 1 || acc == 2) && (name == "." || name == "")) = true
        · rw [if_pos h3]
        · rw [if_neg h3] at h ⊢
          by_cases h4 : (!(acc == 1 || acc == 2) && name == "..") = true
          · rw [if_pos h4]
          · rw [if_neg h4] at h ⊢
            by_cases h5 : special name = true
            · rw [if_pos h5]
            · rw [if_neg h5] at h ⊢
              cases hc : child s.ents d name with
              | none =>
                rw [hc] at h
                dsimp only at h ⊢
                by_cases h6 : (!cre) = true
                · rw [if_pos h6]
                · rw [if_neg h6] at h
                  dsimp only at h
                  cases h
              | some n =>
                rw [hc] at h
                dsimp only at h ⊢
                by_cases h6 : excl = true
                · rw [if_pos h6]
                · rw [if_neg h6] at h ⊢
                  by_cases h7 : trunc = true
                  · rw [if_pos h7] at h ⊢
                    by_cases h8 : (!(acc == 1 || acc == 2)) = true
                    · rw [if_pos h8]
                    · rw [if_neg h8] at h ⊢
                      cases n with
                      | dir k => rfl
                      | file f =>
                        dsimp only at h ⊢
                        cases hf : s.files[f]? with
                        | none => rfl
                        | some nc =>
                          rw [hf] at h
                          dsimp only at h ⊢
                          cases ht : impl.trunc nc.2 0 with
                          | error e'' => rfl
                          | ok c' => rw [ht] at h; dsimp only at h; cases h
                  · rw [if_neg h7] at h
                    cases h

/-- **Access modes**: a write through a handle that is not writable fails with `rofile`, a read
through a handle that is not readable fails with `wronly`; neither changes anything. -/
theorem C08_access_mode_table {F P W : Type} (impl : FileImpl F P W) (s : FS F P W) (h : Nat) (hd : Handle P)
    (hg : getHandle s h = some hd) :
    (hd.wr = false → ∀ data, step impl s (Op.write h data) = (s, Res.wrote 0 Err.rofile)) ∧
    (hd.rd = false → ∀ n, step impl s (Op.read h n) = (s, Res.data [] Err.wronly)) := by
  constructor
  · intro hw data
    simp only [step, hg, hw, Bool.not_false, if_true]
  · intro hr n
    simp only [step, hg, handleRead, hr, Bool.not_false, if_true]

/-! ### Treeness of the directory table -/

/-- **The directory table is a tree, always.** `TreeInv` — the root is its own parent, every parent
pointer names an existing directory, every parent chain reaches the root within `dirs.length` steps
(so no cycle exists), every entry that names a directory names an existing one — holds for the empty
filesystem and for every filesystem loaded from a manifest, and is preserved by every operation, for
every file implementation (so for the model of the code and for the plain model alike). In
particular `Rename` never creates a cycle: its "moved into itself" test is exactly strong enough. -/
theorem C08_tree_invariant {F P W : Type} (impl : FileImpl F P W) :
    (∀ w : W, TreeInv (FS.init w : FS F P W)) ∧
    (∀ (s : FS F P W) (op : Op), TreeInv s → TreeInv (step impl s op).1) ∧
    (∀ (s : FS F P W) (ops : List Op), TreeInv s → TreeInv (run impl s ops).1) :=
  ⟨TreeInv.init, fun _ op h => step_tree impl h op, fun s ops h => run_tree impl ops s h⟩

theorem C08_loaded_tree (streams : List (String × List Bytes × List (Nat × Nat × String))) (s : CFS)
    (h : loadManifest hash streams = some s) : TreeInv s :=
  loadManifest_tree streams s h

/-- **The fuel-bounded ancestor walk is complete**: in a tree-shaped table, `ancestors dirs
dirs.length d` (the model of Rename's `for node.Parent() != node` loop, which has no bound in the
code) contains exactly the ancestors-or-self of `d`; the fuel `dirs.length` always suffices
(pigeonhole on the parent chain). -/
theorem C08_ancestors_complete {F P W : Type} {s : FS F P W} (h : TreeInv s) {d : Nat} (hd : d < s.dirs.length)
    (k : Nat) : k ∈ ancestors s.dirs s.dirs.length d ↔ ∃ i, up s.dirs d i = k :=
  mem_ancestors h.dirs.root s.dirs.length d k (h.dirs.reach d hd)

/-- Path resolution stays inside the table: whatever `rlookup` returns for a parent path is an
existing directory. -/
theorem C08_lookup_valid {F P W : Type} {s : FS F P W} (h : TreeInv s) {comps : List String} {d : Nat}
    (hl : lookupDir s comps = Except.ok d) : d < s.dirs.length :=
  lookupDir_valid h hl

/-- non-vacuity: a table in which directory 1 ("a") contains directory 2 ("b") is a tree, and moving
"a" below "b" is exactly what the ancestor test forbids -/
example : DirsOK [(".", 0), ("a", 0), ("b", 1)] := by
  refine ⟨by decide, rfl, ?_, ?_⟩ <;> intro k hk <;>
    (have : k = 0 ∨ k = 1 ∨ k = 2 := by simp at hk; omega) <;>
    rcases this with h | h | h <;> subst h <;> decide

example : (ancestors [(".", 0), ("a", 0), ("b", 1)] 3 2).contains 1 = true := by decide

/-! ### Non-vacuity -/

/-- a non-trivial state satisfying the invariant: the example file of Props/C08 under the name "f"
in the root directory, with a stale read-write handle and an append handle on it -/
def exFS : CFS :=
  { world := exStore, ents := [((0, "f"), Node.file 0)], dirs := [(".", 0)], files := [("f", exFile)],
    handles := [(0, ⟨Node.file 0, ⟨1, 17, 42, -1⟩, false, true, true⟩), (1, ⟨Node.file 0, Ptr.zero, true, false, true⟩)] }

example : Inv 2 id exFS := by
  refine ⟨Store.put_ok (fun _ _ h => by cases h) _, ?_, ?_, ?_⟩
  · intro nf hnf
    simp only [exFS, List.mem_cons, List.not_mem_nil, or_false] at hnf
    rw [hnf]; exact ⟨exFile_wf, by decide⟩
  · intro e he f hf
    simp only [exFS, List.mem_cons, List.not_mem_nil, or_false] at he
    rcases he with he | he
    · rw [he] at hf ⊢; cases hf
      exact ⟨("f", exFile), rfl, by decide, fun h => by cases h⟩
    · rw [he] at hf ⊢; cases hf
      exact ⟨("f", exFile), rfl, by decide, fun h => by cases h⟩
  · intro e he f hf
    simp only [exFS, List.mem_cons, List.not_mem_nil, or_false] at he
    rw [he] at hf; cases hf; decide

end ArvVerif.C08
