/-
C10 — property theorems of the third extension pass for the Python range mapper: `replace_range`
(sdk/python/arvados/_ranges.py:144-235, named in the property's mechanism list next to `first_block` and
`locators_and_ranges`; not modelled before this pass), and the explicit three-way agreement of the range mappers
on one file token.
-/
import ArvVerif.Proofs.C10_PyReplace
import ArvVerif.Props.C10
namespace ArvVerif.C10

/-- **C10_py_replace_range.** For every contiguous segment list starting at `s` (zero-length segments allowed,
any length) and every non-empty write `[ns, ns+nsize)` that starts inside the file or exactly at its end,
`replace_range` raises nothing (no IndexError out of `first_block`, no silently dropped write), leaves a list
that is again contiguous from `s` and ends at `max(old end, ns+nsize)`, and re-maps exactly the written range:
position `p` of the range now lives at offset `new_segment_offset + (p - ns)` of the new locator, every other
position lives where it lived before. (`pyrAt` = where a position lives: the first segment that holds it.) -/
theorem C10_py_replace_range (rs : List PyR) (s : Nat) (hc : ContigFrom s rs) (ns nsize : Nat) (nl : Bytes) (no : Nat)
    (hsz : 0 < nsize) (hlo : s ≤ ns) (hhi : ns ≤ s + totalR rs) :
    ∃ rs', pyReplaceRange rs ns nsize nl no = .ok rs' ∧ ContigFrom s rs' ∧
      s + totalR rs' = max (ns + nsize) (s + totalR rs) ∧
      ∀ p, pyrAt rs' p = if ns ≤ p ∧ p < ns + nsize then some (nl, no + (p - ns)) else pyrAt rs p :=
  pyReplaceRange_spec rs s hc ns nsize nl no hsz hlo hhi

/-- a zero-length write changes nothing -/
theorem C10_py_replace_range_empty (rs : List PyR) (ns : Nat) (nl : Bytes) (no : Nat) :
    pyReplaceRange rs ns 0 nl no = .ok rs := by
  simp [pyReplaceRange]

/-- a sequence of writes (start, size, locator, segment offset) applied in turn; a write that starts beyond the
current end of the file is outside `replace_range`'s precondition and skipped here -/
def applyWrites (rs : List PyR) (ws : List (Nat × Nat × Bytes × Nat)) : List PyR :=
  ws.foldl (fun acc w =>
    if w.1 ≤ totalR acc then
      match pyReplaceRange acc w.1 w.2.1 w.2.2.1 w.2.2.2 with | .ok r => r | _ => acc
    else acc) rs

/-- **C10_py_replace_sequence.** The precondition of `C10_py_replace_range` is preserved, so it applies to every
further write: any sequence of writes, each starting inside the file or at its end, keeps the list contiguous
from 0 (the file being written piecewise, as `arvfile` does). -/
theorem C10_py_replace_sequence : ∀ (ws : List (Nat × Nat × Bytes × Nat)) (rs : List PyR), ContigFrom 0 rs →
    ContigFrom 0 (applyWrites rs ws)
  | [], _, hc => hc
  | w :: ws, rs, hc => by
    unfold applyWrites
    simp only [List.foldl_cons]
    apply C10_py_replace_sequence ws
    by_cases hw : w.1 ≤ totalR rs
    · rw [if_pos hw]
      by_cases hz : w.2.1 = 0
      · rw [hz, C10_py_replace_range_empty]; exact hc
      · obtain ⟨rs', h1, h2, _⟩ := pyReplaceRange_spec rs 0 hc w.1 w.2.1 w.2.2.1 w.2.2.2 (by omega) (by omega) (by omega)
        rw [h1]; exact h2
    · rw [if_neg hw]; exact hc

/-- non-vacuity and the quirk the model keeps: a write that starts exactly on a segment start and runs past
its end leaves a zero-length segment behind (harmless: it holds no position) -/
example : pyReplaceRange [⟨[97], 0, 4, 0⟩, ⟨[98], 4, 4, 0⟩, ⟨[99], 8, 4, 0⟩] 4 8 [100] 0 =
    .ok [⟨[97], 0, 4, 0⟩, ⟨[98], 4, 0, 0⟩, ⟨[100], 4, 8, 0⟩] := by decide
example : ContigFrom 0 [⟨[97], 0, 4, 0⟩, ⟨[98], 4, 4, 0⟩, ⟨[99], 8, 4, 0⟩] := ⟨rfl, rfl, rfl, trivial⟩
example : pyReplaceRange [⟨[97], 0, 5, 0⟩, ⟨[98], 5, 3, 0⟩] 3 4 [99] 7 =
    .ok [⟨[97], 0, 3, 0⟩, ⟨[99], 3, 4, 7⟩, ⟨[98], 7, 1, 2⟩] := by decide
example : pyReplaceRange [⟨[97], 0, 5, 0⟩] 5 3 [97] 5 = .ok [⟨[97], 0, 8, 0⟩] := by decide

/-- **C10_codecs_agree_token.** One file token inside its stream (sizes as the Go integer types hold them): the
three range mappers — `sendFileSegmentIterByName` of the Go manifest package (segments `segment()` keeps),
`locators_and_ranges` of the Python SDK (non-empty entries) and the block loop of `loadManifest` (segments it
appends from the start of the line) — produce the *same* list of (block, offset, length), namely the
reference interpreter's. Until this pass the agreement was three separate theorems against `resolveTok`. -/
theorem C10_codecs_agree_token (name : Bytes) (bs : List Loc) (files : List FTok) (f : FTok)
    (hsz : ∀ b ∈ bs, b.size < two63) (htot : streamLen bs < two64) (hin : f.pos + f.len ≤ streamLen bs) :
    ∃ gsegs psegs,
      sendTok firstBlock ⟨name, bs, offsetsFrom 0 bs, files, false⟩ f = .ok gsegs ∧
      pyLocatorsAndRanges pyFirstBlock (pyRangesFrom 0 bs) f.pos f.len = .ok psegs ∧
      keepPositive gsegs = pyKeep psegs ∧
      (fsLoop (f.pos : Int) ((f.pos + f.len : Nat) : Int) bs 0 0 []).2.2 = pyKeep psegs ∧
      pyKeep psegs = resolveTok bs 0 f.pos f.len := by
  obtain ⟨g, hg1, hg2⟩ := C10_pkg_token_agrees name bs files f hsz htot hin
  obtain ⟨p, hp1, hp2⟩ := C10_py_token_agrees bs f.pos f.len hin
  have hf := (C10_fs_token_agrees f.pos f.len bs 0 0 []).1
  refine ⟨g, p, hg1, hp1, by rw [hg2, hp2], ?_, hp2⟩
  rw [hp2]
  simpa using hf

end ArvVerif.C10
