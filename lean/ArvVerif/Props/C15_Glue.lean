/-
C15 property theorems, part 1b (glue; added with the seeded changes C15-g and C15-h):

* a container whose crunch-run has exited — the instance lists it as `"<uuid> stale"` or not at all —
  is found gone by the next successful probe: its runner is closed, `wp.exited[uuid]` is recorded
  (which is what lets `scheduler.sync` cancel / re-queue it, `C15_resp_cancel` / `C15_resp_requeue`)
  and it no longer keeps the worker busy;
* the scheduler's per-container operation latch is free again after every goroutine that has
  returned, on every path, so the responses `cancel` / `requeue` / `lock` are never refused for ever.
-/
import ArvVerif.Proofs.C15_Glue
import ArvVerif.Props.C14_L2
namespace ArvVerif.C15
open ArvVerif.C14

/-- **A dead process is detected by the probe.** Worker not shut down and booted (Idle/Running, or
the boot probe succeeds now); `crunch-run --list` exits 0 printing any lines `ls` — in any order,
with any number of `"<uuid> stale"` lines, the one of `u` included — but no line `u` of its own, and
the probe does not report the instance broken (no "broken" line, stale run locks not yet reported
for longer than timeoutStaleRunLock). Then the tracked container `u` is among the uuids whose exit
is recorded and is no longer in `running`. -/
theorem C15_resp_dead_process_detected (w : Worker) (T : Timeouts) (gu : List Uuid) (bootOk : Bool)
    (ls : List ProbeLine) (staleFor : Option Nat) (dur now : Nat) (u : Uuid)
    (hs : w.state ≠ .shutdown) (hb : w.state = .idle ∨ w.state = .running ∨ bootOk = true)
    (hnb : ProbeLine.broken ∉ ls) (hst : ∀ d, staleFor = some d → d ≤ T.staleRunLock)
    (hu : u ∈ w.running) (hno : ProbeLine.uuid u ∉ ls) :
    u ∈ (probeLines w T gu bootOk ls staleFor dur now).2 ∧
    u ∉ (probeLines w T gu bootOk ls staleFor dur now).1.running := by
  unfold probeLines probeAndUpdate
  have hs' : (w.state == .shutdown) = false := by simpa using hs
  simp only [hs', Bool.false_eq_true, if_false]
  have hbooted : (mkProbe w T gu (probeOfLines bootOk ls staleFor dur)).booted = true := by
    simp only [mkProbe, probeOfLines]
    rcases hb with h | h | h <;> simp [h]
  have hok : (mkProbe w T gu (probeOfLines bootOk ls staleFor dur)).ok = true := by
    have := hbooted
    simp only [mkProbe, probeOfLines] at this ⊢
    simp [this]
  have hbr : (mkProbe w T gu (probeOfLines bootOk ls staleFor dur)).broken = false := by
    have h1 : (parseProbe ls).2.1 = false := by
      cases h : (parseProbe ls).2.1 with
      | false => rfl
      | true => exact absurd ((C14_probe_reads_every_line ls u).2.1.mp h) hnb
    have h2 : staleBroken T (probeOfLines bootOk ls staleFor dur) = false := by
      simp only [staleBroken, probeOfLines]
      cases hsf : staleFor with
      | none => simp
      | some d => have := hst d hsf; simp; intro _; omega
    simp only [mkProbe]
    rw [h2]
    simp [probeOfLines, h1]
  have huu : u ∉ (mkProbe w T gu (probeOfLines bootOk ls staleFor dur)).uuids := by
    have h0 := hok
    simp only [mkProbe] at h0 ⊢
    rw [h0]
    simp only [if_true, probeOfLines]
    exact fun h => hno ((C14_probe_reads_every_line ls u).1.mp h)
  exact probeApply_exited w _ now u hbr hok hbooted rfl hu huu

/-- the configuration of seeded change C15-g: crunch-run of container 7 has crashed, its arv-mount
hangs, so the instance lists `7 stale` on every probe; container 8 is alive -/
example : probeLines ⟨1, 1, .running, .run, [], [7, 8], 5, 5, 5⟩ ⟨60, 60, 180, 60, 60, 60⟩ [] true
    [.uuid 8, .stale 7, .empty] none 0 10 =
    (⟨1, 1, .running, .run, [], [8], 10, 10, 10⟩, [7]) := by decide

example : probeLines ⟨1, 1, .running, .run, [], [7], 5, 5, 5⟩ ⟨60, 60, 180, 60, 60, 60⟩ [] true
    [.stale 7, .empty] (some 30) 0 10 =
    (⟨1, 1, .idle, .run, [], [], 10, 10, 10⟩, [7]) := by decide

/-- A stale line never adds a container: what a fresh successful probe leaves in `running` is
exactly the set of plain uuid lines (C14's `C14_fresh_probe_applied` read through the parser). -/
theorem C15_resp_stale_not_adopted (w : Worker) (T : Timeouts) (gu : List Uuid) (bootOk : Bool)
    (ls : List ProbeLine) (staleFor : Option Nat) (dur now : Nat) (v : Uuid)
    (hidle : w.state = .idle → w.running = [] ∧ w.starting = [])
    (hs : w.state ≠ .shutdown)
    (hfresh : Worker.probeFresh w (mkProbe w T gu (probeOfLines bootOk ls staleFor dur)) now = true) :
    (v ∈ (probeLines w T gu bootOk ls staleFor dur now).1.running ↔ ProbeLine.uuid v ∈ ls) := by
  unfold probeLines probeAndUpdate
  have hs' : (w.state == .shutdown) = false := by simpa using hs
  simp only [hs', Bool.false_eq_true, if_false]
  rw [(C14_fresh_probe_applied w _ now hidle hfresh v).1]
  have hok : (mkProbe w T gu (probeOfLines bootOk ls staleFor dur)).ok = true := by
    cases h : (mkProbe w T gu (probeOfLines bootOk ls staleFor dur)).ok with
    | true => rfl
    | false =>
      have : Worker.probeFresh w (mkProbe w T gu (probeOfLines bootOk ls staleFor dur)) now = false := by
        simp [Worker.probeFresh, Worker.probeFailed, h]
      rw [this] at hfresh; cases hfresh
  have h0 := hok
  simp only [mkProbe] at h0 ⊢
  rw [h0]
  simp only [if_true, probeOfLines]
  exact (C14_probe_reads_every_line ls v).1

/-! ### the operation latch -/

/-- **The latch is released on every path.** After any number of `lockContainer` / `cancel` / `kill`
/ `requeue` goroutines that have run to completion — refused or not, whatever state `queue.Get`
reported (in particular "no longer Queued", the early return of `lockContainer`) and whether or not
their API call failed — the latch holds exactly the containers it held before. -/
theorem C15_resp_latch_released (l : Latch) (bs : List Body) (v : Uuid) :
    (runBodies l bs).1.held v = l.held v := runBodies_held bs l v

/-- **A lock race does not block the responses.** Two scheduler passes both decided to lock `u`; the
second goroutine finds it already Locked and returns early. Whatever else completed meanwhile, a
later `requeue` (resp. `cancel`, `lock`) goroutine for `u` — the response to a crashed crunch-run —
obtains the latch and makes its call. -/
theorem C15_resp_after_lock_race (bs : List Body) (u : Uuid) (st : Option CState) (ok : Bool) (op : Op) :
    let l := (runBodies [] (bs ++ [⟨.lock, u, some .locked, true⟩])).1
    (runBody l ⟨op, u, st, ok⟩).effects = bodyEffects st ok op u ∧
    (runBody l ⟨op, u, st, ok⟩).wake = false ∧
    Effect.queueUnlock u ∈ (runBody l ⟨.requeue, u, st, ok⟩).effects ∧
    Effect.queueCancel u ∈ (runBody l ⟨.cancel, u, st, ok⟩).effects := by
  intro l
  have hl : l.held u = false := by
    show (runBodies [] (bs ++ [⟨.lock, u, some .locked, true⟩])).1.held u = false
    rw [runBodies_held]; rfl
  have h1 := runBody_effects l ⟨op, u, st, ok⟩ hl
  have h2 := runBody_effects l ⟨.requeue, u, st, ok⟩ hl
  have h3 := runBody_effects l ⟨.cancel, u, st, ok⟩ hl
  refine ⟨h1.1, h1.2, ?_, ?_⟩
  · rw [h2.1]; simp [bodyEffects, asyncEffect]
  · rw [h3.1]; simp [bodyEffects, asyncEffect]

/-- While another operation on `u` is in flight the goroutine does nothing, leaves the latch alone
and re-arms the scheduler's wake-up (the next pass retries). -/
theorem C15_resp_latch_refused (l : Latch) (b : Body) (h : l.held b.uuid = true) :
    (runBody l b).effects = [] ∧ (runBody l b).wake = true ∧ (runBody l b).latch = l :=
  runBody_refused l b h

example : (runBodies [] [⟨.lock, 1, some .queued, true⟩, ⟨.lock, 1, some .locked, true⟩,
    ⟨.requeue, 1, some .locked, true⟩]).2.map (·.effects) =
    [[.queueGet 1, .queueLock 1, .queueGet 1], [.queueGet 1], [.queueUnlock 1]] := by decide

example : (runBodies [(1, .kill)] [⟨.requeue, 1, some .locked, true⟩]).2.map (·.wake) = [true] := by decide

end ArvVerif.C15
