/-
C02, third extension pass: the property on a server with SEVERAL Directory volumes
(Model/C02_MV.lean: CompareAndTouch over the writable mounts, NextWritable, the fall-through loop of
PutBlock over every writable mount, GetBlock and /index over all mounts; a crash = truncation of the
cross-volume event list at any prefix), plus the single-volume "kill, then restart" statement in
terms of what the restarted server shows (GetBlock, index).

`hash` is an arbitrary function. `MPutIn.valid` = every WriteBlock run of the request writes the
request's hash and sees EOF only after the whole body (what putWithPipe guarantees,
`C02_cancel_is_error` / `C02_put_through_pipe`). Nothing is assumed about which volumes are full,
read-only or failing, about the round-robin counter, or about where each WriteBlock run fails.
-/
import ArvVerif.Props.C02
import ArvVerif.Proofs.C02_MVAck
namespace ArvVerif.C02

/-- **Crash atomicity on every volume.** For every configuration of mounts (read-only / full / ordinary),
every initial content of every volume, every request (any failing system call in any of its
WriteBlock runs, any cancellation point) and **every prefix** `k` of everything the request does on
all volumes together: on every volume `i` the block path holds the bytes it held before or the
complete request body. -/
theorem C02_mv_crash_atomic (hash : Bytes → Name) (c : MVCfg) (vs : Nat → FS) (p : MPutIn) (hp : p.valid)
    (k i : Nat) :
    (runMV vs ((handlePutMV hash c vs p).1.take k) i).data (blockPath p.h) = (vs i).data (blockPath p.h) ∨
    (runMV vs ((handlePutMV hash c vs p).1.take k) i).data (blockPath p.h) = some p.body := by
  obtain ⟨k', hk', _⟩ := projEvs_take i (handlePutMV hash c vs p).1 k
  simp only [runMV, hk']
  exact safe_handlePutMV hash c vs p hp i (vs i) k'

/-- **Read-only volumes are never touched, full volumes never change a byte.** No event of a PUT
happens on a mount that is not writable (its state after any crash prefix is its initial state),
and on a full volume every file keeps its bytes (only Compare's reads and Touch's timestamp). -/
theorem C02_mv_readonly_full_untouched (hash : Bytes → Name) (c : MVCfg) (vs : Nat → FS) (p : MPutIn) (k i : Nat) :
    (c.readOnly i = true → runMV vs ((handlePutMV hash c vs p).1.take k) i = vs i) ∧
    (c.full i = true → ∀ q, (runMV vs ((handlePutMV hash c vs p).1.take k) i).data q = (vs i).data q) := by
  obtain ⟨k', hk', _⟩ := projEvs_take i (handlePutMV hash c vs p).1 k
  refine ⟨?_, ?_⟩
  · intro hro
    have hni : i ∉ c.writables := fun hm => by
      have := (mem_writables hm).2
      rw [hro] at this; cases this
    have := projEvs_of_not_tagged (tagsIn_handlePutMV hash c vs p) hni
    simp [runMV, hk', this]
  · intro hf q
    simp only [runMV, hk']
    exact data_run_keeping q _
      (fun e he => keeping_handlePutMV_full hash c vs p i hf e (List.mem_of_mem_take he)) (vs i)

/-- **Acknowledged ⇒ durable on the volume that acknowledged.** If the reply is 200 then some writable
mount `j` (< n, not read-only) made `PutBlock` return nil — by Touch of an identical copy or by a
`WriteBlock` whose rename was performed, possibly after other volumes refused (full) or failed — and
after a crash at any later instant (`k ≥` number of events) a fresh process finds the complete body
on that very volume; hence `GetBlock` over all mounts serves a complete block with that hash,
whatever the other volumes hold (absent, corrupt, stale copies). -/
theorem C02_mv_ack_durable (hash : Bytes → Name) (c : MVCfg) (vs : Nat → FS) (p : MPutIn) (hp : p.valid)
    (hack : (handlePutMV hash c vs p).2.1 = .ok200) (k : Nat) (hk : (handlePutMV hash c vs p).1.length ≤ k) :
    ∃ j, (handlePutMV hash c vs p).2.2 = some j ∧ j < c.n ∧ c.readOnly j = false ∧
      getBlock hash (runMV vs ((handlePutMV hash c vs p).1.take k) j) p.h = .ok p.body ∧
      ∃ b, getBlockMV hash c (runMV vs ((handlePutMV hash c vs p).1.take k)) p.h = .ok b ∧ hash b = p.h := by
  obtain ⟨h1, h2⟩ := ack_handlePutMV hash c vs p hp
  obtain ⟨j, hj⟩ := h1 hack
  obtain ⟨hm, _, hh, hd⟩ := h2 j hj
  have hg : getBlock hash (runMV vs ((handlePutMV hash c vs p).1.take k) j) p.h = .ok p.body := by
    rw [List.take_of_length_le hk]
    exact getBlock_of_data hd hh
  refine ⟨j, hj, (mem_writables hm).1, (mem_writables hm).2, hg, ?_⟩
  exact getBlockOver_ok hash _ p.h (List.range c.n) .notFound
    ⟨j, List.mem_range.2 (mem_writables hm).1, p.body, hg⟩

/-- **A block the server could serve stays servable** through any later PUT of that hash on any set
of volumes, killed after any prefix or cancelled anywhere: no fall-through, retry or failed write on
any volume takes the only good copy away. -/
theorem C02_mv_stored_block_survives (hash : Bytes → Name) (c : MVCfg) (vs : Nat → FS) (p : MPutIn) (hp : p.valid)
    (k : Nat) (b : Bytes) (hb : getBlockMV hash c vs p.h = .ok b) :
    ∃ b', getBlockMV hash c (runMV vs ((handlePutMV hash c vs p).1.take k)) p.h = .ok b' ∧ hash b' = p.h := by
  obtain ⟨j, hj, hgj⟩ := getBlockOver_ok_inv hash vs p.h (List.range c.n) .notFound b (fun _ h => by cases h) hb
  apply getBlockOver_ok
  refine ⟨j, hj, ?_⟩
  by_cases hh : hash p.body = p.h
  · rcases C02_mv_crash_atomic hash c vs p hp k j with h1 | h1
    · exact ⟨b, by rw [getBlock_congr_data h1]; exact hgj⟩
    · exact ⟨p.body, getBlock_of_data h1 hh⟩
  · have : (handlePutMV hash c vs p).1 = [] := by
      unfold handlePutMV
      split
      · rfl
      · simp_all
    rw [this]
    exact ⟨b, by simpa [runMV, projEvs] using hgj⟩

/-- **Link to the single-volume history model, and the index after a kill.** After any crash prefix of a
multi-volume PUT, every volume is in a state the single-volume history model (`Reach`: PUT /
WriteBlock / Touch / … micro-steps with a crash anywhere) reaches from its initial state — so every
theorem about `Reach` applies volume by volume. In particular, if all volumes were intact, the index
the restarted server sends (all mounts, one after the other) lists only files whose bytes hash to
the listed name and have the listed size. -/
theorem C02_mv_reach_and_index (hash : Bytes → Name) (c : MVCfg) (vs : Nat → FS) (p : MPutIn) (hp : p.valid) (k : Nat) :
    (∀ i, Reach hash (vs i) (runMV vs ((handlePutMV hash c vs p).1.take k) i)) ∧
    ((∀ i, Intact hash (vs i) ∧ WF (vs i)) →
      ∀ line ∈ indexMV c (runMV vs ((handlePutMV hash c vs p).1.take k)),
        ∃ (i : Nat) (q : Path) (f : File), i < c.n ∧
          (runMV vs ((handlePutMV hash c vs p).1.take k) i).get q = some f ∧ isBlockName q.name = true ∧
          line = (q.name, f.data.length, f.mtime) ∧ hash f.data = q.name) := by
  have hr : ∀ i, Reach hash (vs i) (runMV vs ((handlePutMV hash c vs p).1.take k) i) := by
    intro i
    obtain ⟨k', hk', _⟩ := projEvs_take i (handlePutMV hash c vs p).1 k
    simp only [runMV, hk']
    exact reachSafe_handlePutMV hash c vs p hp i (vs i) k'
  refine ⟨hr, ?_⟩
  intro hi line hl
  simp only [indexMV, List.mem_flatMap, List.mem_range] at hl
  obtain ⟨i, hin, hli⟩ := hl
  obtain ⟨_, hidx⟩ := C02_index_complete_blocks hash (vs i) _ (hi i).1 (hi i).2 (hr i)
  obtain ⟨q, f, hq, _, hb, hline, hh⟩ := hidx line hli
  exact ⟨i, q, f, hin, hq, hb, hline, hh⟩

/-- **Kill anywhere, restart on the same directory** (single volume, in terms of what the restarted
server shows): after any prefix of a PUT's micro-steps on an intact volume, `GetBlock` answers what it
answered before the PUT or the complete body, the volume is still intact, and every index line is
a complete block with its true size. (`C02_put_crash_atomic` + `C02_index_complete_blocks` composed.) -/
theorem C02_kill_then_restart (hash : Bytes → Name) (fs : FS) (p : PutIn) (hv : (Op.put p).valid hash)
    (hi : Intact hash fs) (hw : WF fs) (k : Nat) :
    (getBlock hash (run fs ((handlePut hash fs p).1.take k)) p.h = getBlock hash fs p.h ∨
      getBlock hash (run fs ((handlePut hash fs p).1.take k)) p.h = .ok p.body) ∧
    Intact hash (run fs ((handlePut hash fs p).1.take k)) ∧
    ∀ line ∈ index (run fs ((handlePut hash fs p).1.take k)), ∃ (q : Path) (f : File),
      (run fs ((handlePut hash fs p).1.take k)).get q = some f ∧ isBlockName q.name = true ∧
      line = (q.name, f.data.length, f.mtime) ∧ hash f.data = q.name := by
  have hr : Reach hash fs (run fs ((handlePut hash fs p).1.take k)) := Reach.step (Op.put p) k Reach.init hv
  obtain ⟨hint, hidx⟩ := C02_index_complete_blocks hash fs _ hi hw hr
  refine ⟨?_, hint, ?_⟩
  · by_cases hh : hash p.body = p.h
    · rcases put_crash_atomic hash fs p hv k with h1 | h1
      · left; exact getBlock_congr_data h1
      · right; exact getBlock_of_data h1 hh
    · left
      have : (handlePut hash fs p).1 = [] := by
        unfold handlePut
        split
        · rfl
        · simp_all
      rw [this]; simp
  · intro line hl
    obtain ⟨q, f, hq, _, hb, hline, hh⟩ := hidx line hl
    exact ⟨q, f, hq, hb, hline, hh⟩

section Examples

/-- three mounts: 0 full, 1 ordinary, 2 read-only -/
def exCfg : MVCfg := ⟨3, fun i => i == 2, fun i => i == 0⟩
def exVs : Nat → FS := fun _ => FS.empty
/-- NextWritable = writables[1] = volume 1, whose WriteBlock fails at Chtimes; the loop then skips
volume 0 (full) and writes volume 1 again, successfully -/
def exMPut : MPutIn :=
  ⟨exH, exBody, 7, fun _ => none, 1, { exW with fail := .chtimes }, fun _ => { exW with sfx := ['8'] }, none, none⟩

example : exMPut.valid := ⟨⟨rfl, fun _ => by decide⟩, fun _ => ⟨rfl, fun _ => rfl⟩⟩
example : exCfg.writables = [0, 1] := by decide
-- fall-through: the reply is 200 and volume 1 acknowledged, after a failed attempt on it and a refusal by volume 0
example : (handlePutMV toyHash exCfg exVs exMPut).2 = (.ok200, some 1) := by decide
example : getBlock toyHash (runMV exVs (handlePutMV toyHash exCfg exVs exMPut).1 1) exH = .ok exBody := by decide
example : getBlock toyHash (runMV exVs (handlePutMV toyHash exCfg exVs exMPut).1 0) exH = .notFound := by decide
example : getBlockMV toyHash exCfg (runMV exVs (handlePutMV toyHash exCfg exVs exMPut).1) exH = .ok exBody := by decide
-- killed after the failed first attempt: nothing visible anywhere
example : getBlockMV toyHash exCfg (runMV exVs ((handlePutMV toyHash exCfg exVs exMPut).1.take 8)) exH = .notFound := by
  decide
-- all writable volumes full: 503, no event
example : (handlePutMV toyHash ⟨2, fun _ => false, fun _ => true⟩ exVs exMPut).2 = (.full, none) ∧
    (handlePutMV toyHash ⟨2, fun _ => false, fun _ => true⟩ exVs exMPut).1.map (·.1) = [0, 1] := by
  decide

end Examples

end ArvVerif.C02
