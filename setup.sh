#!/bin/sh
# MANIFEST.setup_cmd: build the framework from files on disk only (offline).
cd "$(dirname "$0")" || exit 2
export GOFLAGS=-mod=mod GOPROXY=off GOSUMDB=off GOTOOLCHAIN=local
mkdir -p build evidence replays
(cd translator && go build -o ../build/translator . && go build -o ../build/instrument ./instrument) || exit 1
exec python3 harness/check.py ALL --prepare
