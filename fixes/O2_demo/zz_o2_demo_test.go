// Witness for O2 (notes/C14.md): copy to lib/dispatchcloud/worker/ and run
//   ARVADOS_API_HOST=localhost:9 go test -vet=off -count=1 -run TestO2 ./lib/dispatchcloud/worker
// Without fixes/O2.patch the test dies with a nil pointer dereference in reportSSHConnected.
package worker

import (
	"testing"
	"time"

	"git.arvados.org/arvados.git/lib/cloud"
	"git.arvados.org/arvados.git/lib/dispatchcloud/test"
	"git.arvados.org/arvados.git/sdk/go/arvados"
	"git.arvados.org/arvados.git/sdk/go/ctxlog"
	"github.com/prometheus/client_golang/prometheus"
)

func TestO2_SSHHandshakeAfterWorkerDropped(t *testing.T) {
	logger := ctxlog.TestLogger(t)
	driver := test.StubDriver{}
	is, err := driver.InstanceSet(nil, "test-instance-set-id", nil, logger)
	if err != nil {
		t.Fatal(err)
	}
	type1 := test.InstanceType(1)
	pool := &Pool{
		arvClient:     arvados.NewClientFromEnv(),
		logger:        logger,
		newExecutor:   func(cloud.Instance) Executor { return &stubExecutor{} },
		instanceSet:   &throttledInstanceSet{InstanceSet: is},
		instanceTypes: arvados.InstanceTypeMap{type1.Name: type1},
	}
	pool.registerMetrics(prometheus.NewRegistry())
	notify := pool.Subscribe()
	defer pool.Unsubscribe(notify)
	pool.Create(type1)
	deadline := time.Now().Add(5 * time.Second)
	for {
		pool.mtx.RLock()
		n := len(pool.workers)
		pool.mtx.RUnlock()
		if n == 1 || time.Now().After(deadline) {
			break
		}
		time.Sleep(time.Millisecond)
	}
	var inst cloud.Instance
	pool.mtx.Lock()
	for _, wkr := range pool.workers {
		inst = wkr.instance // the TagVerifier handed to the SSH executor
	}
	pool.mtx.Unlock()
	if inst == nil {
		t.Fatal("no worker appeared")
	}
	// The instance disappears from the cloud's list: sync() drops the worker ...
	pool.sync(time.Now(), nil)
	// ... while an SSH handshake to it completes: the executor calls VerifyHostKey, which calls
	// ReportVerified = pool.reportSSHConnected.
	inst.(TagVerifier).ReportVerified(inst.(TagVerifier).Instance)
}
