// Witness for O5 (notes/C14.md): copy to lib/dispatchcloud/container/ and run
//   ARVADOS_API_HOST=localhost:9 go test -vet=off -count=1 -run TestO5 ./lib/dispatchcloud/container
// fetchAll orders by uuid and means to page by "uuid > last" (stable when the set changes between
// pages); `len(params.Order) == 1` is never true for the string "uuid", so it pages by offset:
// when the first container of page 1 leaves the result set before page 2 is requested, the offset
// skips a container that is still in the set.
package container

import (
	"io"
	"io/ioutil"
	"sort"
	"testing"

	"git.arvados.org/arvados.git/sdk/go/arvados"
	"github.com/sirupsen/logrus"
)

type o5API struct {
	ctrs  map[string]*arvados.Container
	calls int
}

func (a *o5API) RequestAndDecode(dst interface{}, method, path string, body io.Reader, params interface{}) error {
	p := params.(arvados.ResourceListParams)
	a.calls++
	if a.calls == 2 {
		// between the two pages somebody else takes the first container
		delete(a.ctrs, "zzzzz-dz642-000000000000001")
	}
	var items []arvados.Container
	for _, c := range a.ctrs {
		ok := true
		for _, f := range p.Filters {
			if f.Attr == "uuid" && f.Operator == ">" && !(c.UUID > f.Operand.(string)) {
				ok = false
			}
		}
		if ok {
			items = append(items, *c)
		}
	}
	sort.Slice(items, func(i, j int) bool { return items[i].UUID < items[j].UUID })
	if p.Offset < len(items) {
		items = items[p.Offset:]
	} else {
		items = nil
	}
	if p.Limit != nil && len(items) > *p.Limit {
		items = items[:*p.Limit]
	}
	dst.(*arvados.ContainerList).Items = items
	return nil
}

func TestO5_FetchAllSkipsAContainer(t *testing.T) {
	logger := logrus.New()
	logger.Out = ioutil.Discard
	api := &o5API{ctrs: map[string]*arvados.Container{}}
	for _, u := range []string{"zzzzz-dz642-000000000000001", "zzzzz-dz642-000000000000002", "zzzzz-dz642-000000000000003"} {
		api.ctrs[u] = &arvados.Container{UUID: u, State: arvados.ContainerStateQueued, Priority: 1}
	}
	cq := NewQueue(logger, nil, func(*arvados.Container) (arvados.InstanceType, error) { return arvados.InstanceType{}, nil }, api)
	limit := 2
	got, err := cq.fetchAll(arvados.ResourceListParams{Order: "uuid", Limit: &limit})
	if err != nil {
		t.Fatal(err)
	}
	seen := map[string]bool{}
	for _, c := range got {
		seen[c.UUID] = true
	}
	if !seen["zzzzz-dz642-000000000000003"] {
		t.Errorf("container ...003 was in the result set all the time but fetchAll did not return it (got %d items)", len(got))
	}
}
