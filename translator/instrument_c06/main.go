// C06 instrumenter: copies a Go source file of the CURRENT working tree and, inside every goroutine
// body (`go func(...) {...}(...)`) started by the named function, inserts
//     defer HOOK("g<k>.exit")            after the leading defer statements of the goroutine body (so that
//                                        it runs before them), and
//     HOOK("g<k>.<n>")                   before every statement of every statement list in it
//                                        (block, case and select-clause bodies, nested function literals),
// k = index of the go statement in source order, n = running number. Add-only: every original byte
// is preserved; the hook is a no-op unless a driver installs a schedule controller. The copy is
// substituted for the original with `go test -overlay`; nothing is written into the repository.
//
// usage: instrument_c06 -in <repo>/services/keep-balance/balance.go -out build/C06/balance.go
//          -func GetCurrentState [-hook verifC06Point]
package main

import (
	"flag"
	"fmt"
	"go/ast"
	"go/parser"
	"go/token"
	"os"
	"sort"
)

type insertion struct {
	off  int
	text string
}

func main() {
	in := flag.String("in", "", "input go file")
	out := flag.String("out", "", "output go file")
	fn := flag.String("func", "", "function or method name (without receiver)")
	hook := flag.String("hook", "verifC06Point", "hook function name")
	flag.Parse()
	src, err := os.ReadFile(*in)
	if err != nil {
		fmt.Fprintln(os.Stderr, "instrument_c06:", err)
		os.Exit(2)
	}
	fset := token.NewFileSet()
	f, err := parser.ParseFile(fset, *in, src, parser.ParseComments)
	if err != nil {
		fmt.Fprintln(os.Stderr, "instrument_c06:", err)
		os.Exit(2)
	}
	var ins []insertion
	off := func(p token.Pos) int { return fset.Position(p).Offset }
	found := false
	for _, d := range f.Decls {
		fd, ok := d.(*ast.FuncDecl)
		if !ok || fd.Name.Name != *fn || fd.Body == nil {
			continue
		}
		found = true
		k := 0
		ast.Inspect(fd.Body, func(n ast.Node) bool {
			gs, ok := n.(*ast.GoStmt)
			if !ok {
				return true
			}
			lit, ok := gs.Call.Fun.(*ast.FuncLit)
			if !ok {
				return true
			}
			g := k
			k++
			cnt := 0
			// the exit point is deferred after the goroutine's own leading defers (e.g. `defer
			// wg.Done()`), so that it runs before them: the goroutine reports its end before the
			// function that waits for it can return
			exitOff := off(lit.Body.Lbrace) + 1
			exitTxt := fmt.Sprintf(" defer %s(\"g%d.exit\"); ", *hook, g)
			for _, st := range lit.Body.List {
				if _, isDefer := st.(*ast.DeferStmt); !isDefer {
					break
				}
				exitOff = off(st.End())
				exitTxt = fmt.Sprintf("; defer %s(\"g%d.exit\")", *hook, g)
			}
			ins = append(ins, insertion{exitOff, exitTxt})
			var list func(stmts []ast.Stmt)
			var walk func(n ast.Node)
			list = func(stmts []ast.Stmt) {
				for _, s := range stmts {
					cnt++
					ins = append(ins, insertion{off(s.Pos()), fmt.Sprintf("%s(\"g%d.%d\"); ", *hook, g, cnt)})
					walk(s)
				}
			}
			walk = func(n ast.Node) {
				ast.Inspect(n, func(m ast.Node) bool {
					switch x := m.(type) {
					case *ast.SelectStmt:
						for _, c := range x.Body.List {
							list(c.(*ast.CommClause).Body)
						}
						return false
					case *ast.SwitchStmt:
						for _, c := range x.Body.List {
							list(c.(*ast.CaseClause).Body)
						}
						return false
					case *ast.TypeSwitchStmt:
						for _, c := range x.Body.List {
							list(c.(*ast.CaseClause).Body)
						}
						return false
					case *ast.BlockStmt:
						list(x.List)
						return false
					case *ast.CaseClause:
						list(x.Body)
						return false
					case *ast.CommClause:
						list(x.Body)
						return false
					}
					return true
				})
			}
			list(lit.Body.List)
			return false
		})
		if k == 0 {
			fmt.Fprintf(os.Stderr, "instrument_c06: %s starts no goroutine\n", *fn)
			os.Exit(2)
		}
	}
	if !found {
		fmt.Fprintf(os.Stderr, "instrument_c06: function %s not found\n", *fn)
		os.Exit(2)
	}
	sort.SliceStable(ins, func(i, j int) bool { return ins[i].off < ins[j].off })
	var b []byte
	last := 0
	for _, i := range ins {
		b = append(b, src[last:i.off]...)
		b = append(b, i.text...)
		last = i.off
	}
	b = append(b, src[last:]...)
	if _, err := parser.ParseFile(token.NewFileSet(), *out, b, 0); err != nil {
		fmt.Fprintln(os.Stderr, "instrument_c06: result does not parse:", err)
		os.Exit(2)
	}
	if err := os.WriteFile(*out, b, 0o644); err != nil {
		fmt.Fprintln(os.Stderr, "instrument_c06:", err)
		os.Exit(2)
	}
}
