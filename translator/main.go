// Fact extractor: reads the current /repo working tree with go/ast and regenerates a Lean file of
// source facts for one property. Purely syntactic; stdlib only.
//
// usage: translator -repo /repo -spec harness/props/C12.facts.json -ns C12 -out lean/ArvVerif/Gen/FactsC12.lean
//
// Spec: {"facts":[{"name":..., "kind":..., "file":..., "func":..., "ident":..., "filter":[...]}]}
// kinds:
//   const            package-level const/var `ident`: integer or string constant expression
//   regexp           package-level or function-local `ident = regexp.MustCompile(<lit>)`: the pattern
//   strings_in_func  all string literals in `func`, source order                 : List String
//   ints_in_func     all integer literals in `func`, source order                : List Int
//   calls_in_func    rendered callee of every call in `func` (optionally only those with a prefix
//                    in `filter`), source order                                   : List String
//   conds_in_func    rendered if/for conditions and switch-case expressions in `func`, source order
//                                                                                 : List String
//   func_text        gofmt-normalised, comment-free text of `func`               : String
//   returns_in_func  rendered operands of every return statement in `func`       : List String
//   strings_in_var   all string literals in the initialiser of package-level var `ident` (e.g. the
//                    keys of a map literal), source order                         : List String
//   struct_fields    fields of the package-level struct type `ident`, rendered "names type", source
//                    order (an added field, e.g. a cache on a long-lived object, breaks the tie) : List String
//   lines_matching   any text file (e.g. Python source): trimmed lines matching the Go regexp
//                    given in `ident`, file order                                 : List String
//   skeleton_in_func control skeleton of `func` (calls filtered by `filter`, if/else/for/case/func
//                    brackets, returns), source order                             : List String
//   assigns_in_func  rendered assignment and ++/-- statements in `func` whose left-hand side starts
//                    with a prefix in `filter` (all when no filter), source order : List String
//
// `func` is "Name" or "Recv.Name" (pointer receivers written without the star).
// A fact that cannot be located is an error (exit 2): a moved/renamed anchor is a broken tie, never
// silently skipped.
package main

import (
	"bytes"
	"encoding/json"
	"flag"
	"fmt"
	"go/ast"
	"go/constant"
	"go/parser"
	"go/printer"
	"go/token"
	"os"
	"path/filepath"
	"regexp"
	"sort"
	"strconv"
	"strings"
)

type fact struct {
	Name   string   `json:"name"`
	Kind   string   `json:"kind"`
	File   string   `json:"file"`
	Func   string   `json:"func"`
	Ident  string   `json:"ident"`
	Filter []string `json:"filter"`
}

type spec struct {
	Facts []fact `json:"facts"`
}

// leanCommentSafe keeps a pattern from closing the Lean doc comment it is quoted in.
func leanCommentSafe(s string) string { return strings.ReplaceAll(s, "-/", "- /") }

func die(format string, a ...interface{}) {
	fmt.Fprintf(os.Stderr, "translator: "+format+"\n", a...)
	os.Exit(2)
}

func leanString(s string) string {
	var b strings.Builder
	b.WriteByte('"')
	for _, r := range s {
		switch {
		case r == '"':
			b.WriteString("\\\"")
		case r == '\\':
			b.WriteString("\\\\")
		case r == '\n':
			b.WriteString("\\n")
		case r == '\t':
			b.WriteString("\\t")
		case r == '\r':
			b.WriteString("\\r")
		case r < 0x20 || r == 0x7f:
			fmt.Fprintf(&b, "\\x%02x", r)
		case r > 0x7e:
			fmt.Fprintf(&b, "\\u{%x}", r)
		default:
			b.WriteRune(r)
		}
	}
	b.WriteByte('"')
	return b.String()
}

func leanStringList(ss []string) string {
	q := make([]string, len(ss))
	for i, s := range ss {
		q[i] = leanString(s)
	}
	return "[" + strings.Join(q, ",\n   ") + "]"
}

func render(fset *token.FileSet, n ast.Node) string {
	var buf bytes.Buffer
	cfg := printer.Config{Mode: printer.RawFormat, Tabwidth: 1}
	cfg.Fprint(&buf, fset, n)
	// normalise whitespace
	return strings.Join(strings.Fields(buf.String()), " ")
}

func recvName(fd *ast.FuncDecl) string {
	if fd.Recv == nil || len(fd.Recv.List) == 0 {
		return ""
	}
	t := fd.Recv.List[0].Type
	if s, ok := t.(*ast.StarExpr); ok {
		t = s.X
	}
	if id, ok := t.(*ast.Ident); ok {
		return id.Name
	}
	return ""
}

func findFunc(f *ast.File, name string) *ast.FuncDecl {
	for _, d := range f.Decls {
		fd, ok := d.(*ast.FuncDecl)
		if !ok {
			continue
		}
		full := fd.Name.Name
		if r := recvName(fd); r != "" {
			full = r + "." + full
		}
		if full == name {
			return fd
		}
	}
	return nil
}

// evalConst evaluates simple constant expressions, resolving identifiers among the package-level
// constants of the same file.
func evalConst(f *ast.File, e ast.Expr, depth int) (constant.Value, bool) {
	if depth > 20 {
		return nil, false
	}
	switch x := e.(type) {
	case *ast.BasicLit:
		return constant.MakeFromLiteral(x.Value, x.Kind, 0), true
	case *ast.ParenExpr:
		return evalConst(f, x.X, depth+1)
	case *ast.BinaryExpr:
		a, ok1 := evalConst(f, x.X, depth+1)
		b, ok2 := evalConst(f, x.Y, depth+1)
		if !ok1 || !ok2 {
			return nil, false
		}
		if x.Op == token.SHL || x.Op == token.SHR {
			n, ok := constant.Uint64Val(b)
			if !ok {
				return nil, false
			}
			return constant.Shift(a, x.Op, uint(n)), true
		}
		if x.Op == token.QUO && a.Kind() == constant.Int && b.Kind() == constant.Int {
			return constant.BinaryOp(a, token.QUO_ASSIGN, b), true
		}
		return constant.BinaryOp(a, x.Op, b), true
	case *ast.UnaryExpr:
		a, ok := evalConst(f, x.X, depth+1)
		if !ok {
			return nil, false
		}
		return constant.UnaryOp(x.Op, a, 0), true
	case *ast.Ident:
		if v := findValue(f, x.Name); v != nil {
			return evalConst(f, v, depth+1)
		}
	case *ast.CallExpr:
		// conversions like int64(5) or time.Duration(3)
		if len(x.Args) == 1 {
			return evalConst(f, x.Args[0], depth+1)
		}
	}
	return nil, false
}

// findValue finds the initialiser of package-level const/var `name`.
func findValue(f *ast.File, name string) ast.Expr {
	for _, d := range f.Decls {
		gd, ok := d.(*ast.GenDecl)
		if !ok {
			continue
		}
		for _, s := range gd.Specs {
			vs, ok := s.(*ast.ValueSpec)
			if !ok {
				continue
			}
			for i, n := range vs.Names {
				if n.Name == name && i < len(vs.Values) {
					return vs.Values[i]
				}
			}
		}
	}
	return nil
}

// findAssignedInFile finds `name := <expr>` / `name = <expr>` / `var name = <expr>` anywhere.
func findAssignedAnywhere(f *ast.File, name string) ast.Expr {
	if v := findValue(f, name); v != nil {
		return v
	}
	var found ast.Expr
	ast.Inspect(f, func(n ast.Node) bool {
		if found != nil {
			return false
		}
		switch x := n.(type) {
		case *ast.AssignStmt:
			for i, l := range x.Lhs {
				if id, ok := l.(*ast.Ident); ok && id.Name == name && i < len(x.Rhs) {
					found = x.Rhs[i]
				}
			}
		case *ast.ValueSpec:
			for i, id := range x.Names {
				if id.Name == name && i < len(x.Values) {
					found = x.Values[i]
				}
			}
		}
		return true
	})
	return found
}

// skeleton renders the control skeleton of a block as a token list (kind skeleton_in_func).
func skeleton(fset *token.FileSet, body *ast.BlockStmt, filter []string) []string {
	var out []string
	keep := func(name string) bool {
		if len(filter) == 0 {
			return true
		}
		for _, p := range filter {
			if strings.HasPrefix(name, p) {
				return true
			}
		}
		return false
	}
	var expr func(e ast.Node)
	var stmt func(s ast.Stmt)
	var block func(b *ast.BlockStmt)
	callTok := func(x *ast.CallExpr, lhs string) {
		name := render(fset, x.Fun)
		if _, isLit := x.Fun.(*ast.FuncLit); !isLit && keep(name) {
			if lhs != "" {
				out = append(out, "call "+name+" => "+lhs)
			} else {
				out = append(out, "call "+name)
			}
		}
		expr(x.Fun)
		for _, a := range x.Args {
			expr(a)
		}
	}
	expr = func(e ast.Node) {
		if e == nil {
			return
		}
		ast.Inspect(e, func(n ast.Node) bool {
			switch x := n.(type) {
			case *ast.FuncLit:
				out = append(out, "func {")
				block(x.Body)
				out = append(out, "}")
				return false
			case *ast.CallExpr:
				callTok(x, "")
				return false
			}
			return true
		})
	}
	block = func(b *ast.BlockStmt) {
		if b == nil {
			return
		}
		for _, s := range b.List {
			stmt(s)
		}
	}
	stmt = func(s ast.Stmt) {
		switch x := s.(type) {
		case nil:
		case *ast.BlockStmt:
			block(x)
		case *ast.LabeledStmt:
			stmt(x.Stmt)
		case *ast.AssignStmt:
			if len(x.Rhs) == 1 {
				r := x.Rhs[0]
				for {
					p, ok := r.(*ast.ParenExpr)
					if !ok {
						break
					}
					r = p.X
				}
				if ce, ok := r.(*ast.CallExpr); ok {
					parts := make([]string, len(x.Lhs))
					for i, l := range x.Lhs {
						parts[i] = render(fset, l)
					}
					callTok(ce, strings.Join(parts, ","))
					return
				}
			}
			for _, r := range x.Rhs {
				expr(r)
			}
		case *ast.IfStmt:
			stmt(x.Init)
			expr(x.Cond)
			out = append(out, "if "+render(fset, x.Cond)+" {")
			block(x.Body)
			if x.Else != nil {
				out = append(out, "} else {")
				stmt(x.Else)
			}
			out = append(out, "}")
		case *ast.ForStmt:
			stmt(x.Init)
			expr(x.Cond)
			out = append(out, "for {")
			block(x.Body)
			stmt(x.Post)
			out = append(out, "}")
		case *ast.RangeStmt:
			expr(x.X)
			out = append(out, "for {")
			block(x.Body)
			out = append(out, "}")
		case *ast.SwitchStmt:
			stmt(x.Init)
			expr(x.Tag)
			block(x.Body)
		case *ast.TypeSwitchStmt:
			stmt(x.Init)
			stmt(x.Assign)
			block(x.Body)
		case *ast.SelectStmt:
			block(x.Body)
		case *ast.CaseClause:
			for _, e := range x.List {
				expr(e)
			}
			out = append(out, "case {")
			for _, b := range x.Body {
				stmt(b)
			}
			out = append(out, "}")
		case *ast.CommClause:
			stmt(x.Comm)
			out = append(out, "case {")
			for _, b := range x.Body {
				stmt(b)
			}
			out = append(out, "}")
		case *ast.ReturnStmt:
			for _, r := range x.Results {
				expr(r)
			}
			out = append(out, "return")
		case *ast.DeferStmt:
			out = append(out, "defer")
			expr(x.Call)
		case *ast.GoStmt:
			out = append(out, "go")
			expr(x.Call)
		case *ast.BranchStmt:
			out = append(out, x.Tok.String())
		default:
			expr(s)
		}
	}
	block(body)
	return out
}

type posItem struct {
	pos token.Pos
	s   string
}

func main() {
	repo := flag.String("repo", "/repo", "repository root")
	specPath := flag.String("spec", "", "facts spec json")
	ns := flag.String("ns", "", "Lean namespace suffix, e.g. C12")
	out := flag.String("out", "", "output Lean file")
	flag.Parse()
	raw, err := os.ReadFile(*specPath)
	if err != nil {
		die("%v", err)
	}
	var sp spec
	if err := json.Unmarshal(raw, &sp); err != nil {
		die("spec: %v", err)
	}
	fset := token.NewFileSet()
	files := map[string]*ast.File{}
	load := func(rel string) *ast.File {
		if f, ok := files[rel]; ok {
			return f
		}
		f, err := parser.ParseFile(fset, filepath.Join(*repo, rel), nil, 0)
		if err != nil {
			die("parse %s: %v", rel, err)
		}
		files[rel] = f
		return f
	}
	var b strings.Builder
	fmt.Fprintf(&b, "/- GENERATED by /verif/translator from the /repo working tree on every run. Do not edit. -/\nnamespace ArvVerif.Facts.%s\n\n", *ns)
	for _, fc := range sp.Facts {
		if fc.Kind == "lines_matching" {
			// any text file (e.g. Python): the trimmed lines that match the Go regexp in `ident`
			re, err := regexp.Compile(fc.Ident)
			if err != nil {
				die("fact %s: bad pattern: %v", fc.Name, err)
			}
			raw, err := os.ReadFile(filepath.Join(*repo, fc.File))
			if err != nil {
				die("fact %s: %v", fc.Name, err)
			}
			var ss []string
			for _, l := range strings.Split(string(raw), "\n") {
				if re.MatchString(l) {
					ss = append(ss, strings.TrimSpace(l))
				}
			}
			if len(ss) == 0 {
				die("fact %s: no line of %s matches %s", fc.Name, fc.File, fc.Ident)
			}
			fmt.Fprintf(&b, "/-- lines_matching %s %s -/\ndef %s : List String :=\n  %s\n\n", fc.File, leanCommentSafe(fc.Ident), fc.Name, leanStringList(ss))
			continue
		}
		f := load(fc.File)
		var fd *ast.FuncDecl
		if fc.Func != "" {
			fd = findFunc(f, fc.Func)
			if fd == nil || fd.Body == nil {
				die("fact %s: func %s not found in %s", fc.Name, fc.Func, fc.File)
			}
		}
		fmt.Fprintf(&b, "/-- %s %s %s%s -/\n", fc.Kind, fc.File, fc.Func, fc.Ident)
		switch fc.Kind {
		case "const":
			v := findValue(f, fc.Ident)
			if v == nil {
				die("fact %s: %s not found in %s", fc.Name, fc.Ident, fc.File)
			}
			cv, ok := evalConst(f, v, 0)
			if !ok || cv.Kind() == constant.Unknown {
				die("fact %s: cannot evaluate %s", fc.Name, fc.Ident)
			}
			switch cv.Kind() {
			case constant.String:
				fmt.Fprintf(&b, "def %s : String := %s\n\n", fc.Name, leanString(constant.StringVal(cv)))
			case constant.Int:
				fmt.Fprintf(&b, "def %s : Int := %s\n\n", fc.Name, cv.ExactString())
			case constant.Bool:
				fmt.Fprintf(&b, "def %s : Bool := %v\n\n", fc.Name, constant.BoolVal(cv))
			default:
				die("fact %s: unsupported constant kind %v", fc.Name, cv.Kind())
			}
		case "regexp":
			var v ast.Expr
			if fd != nil {
				ast.Inspect(fd.Body, func(n ast.Node) bool {
					if as, ok := n.(*ast.AssignStmt); ok {
						for i, l := range as.Lhs {
							if id, ok := l.(*ast.Ident); ok && id.Name == fc.Ident && i < len(as.Rhs) {
								v = as.Rhs[i]
							}
						}
					}
					return true
				})
			} else {
				v = findAssignedAnywhere(f, fc.Ident)
			}
			call, ok := v.(*ast.CallExpr)
			if v == nil || !ok || len(call.Args) != 1 || !strings.Contains(render(fset, call.Fun), "regexp.") {
				die("fact %s: %s is not regexp.MustCompile(<lit>) in %s", fc.Name, fc.Ident, fc.File)
			}
			cv, ok := evalConst(f, call.Args[0], 0)
			if !ok || cv.Kind() != constant.String {
				die("fact %s: pattern of %s is not a constant string", fc.Name, fc.Ident)
			}
			fmt.Fprintf(&b, "def %s : String := %s\n\n", fc.Name, leanString(constant.StringVal(cv)))
		case "struct_fields":
			var st *ast.StructType
			ast.Inspect(f, func(n ast.Node) bool {
				if ts, ok := n.(*ast.TypeSpec); ok && ts.Name.Name == fc.Ident {
					if x, ok := ts.Type.(*ast.StructType); ok {
						st = x
					}
				}
				return true
			})
			if st == nil {
				die("fact %s: struct type %s not found in %s", fc.Name, fc.Ident, fc.File)
			}
			var ss []string
			for _, fld := range st.Fields.List {
				var names []string
				for _, nm := range fld.Names {
					names = append(names, nm.Name)
				}
				ss = append(ss, strings.TrimSpace(strings.Join(names, ",")+" "+render(fset, fld.Type)))
			}
			fmt.Fprintf(&b, "def %s : List String :=\n  %s\n\n", fc.Name, leanStringList(ss))
		case "strings_in_var":
			v := findValue(f, fc.Ident)
			if v == nil {
				die("fact %s: %s not found in %s", fc.Name, fc.Ident, fc.File)
			}
			var ss []string
			ast.Inspect(v, func(n ast.Node) bool {
				if bl, ok := n.(*ast.BasicLit); ok && bl.Kind == token.STRING {
					s, err := strconv.Unquote(bl.Value)
					if err != nil {
						die("fact %s: %v", fc.Name, err)
					}
					ss = append(ss, s)
				}
				return true
			})
			fmt.Fprintf(&b, "def %s : List String :=\n  %s\n\n", fc.Name, leanStringList(ss))
		case "strings_in_func", "ints_in_func":
			var items []posItem
			ast.Inspect(fd.Body, func(n ast.Node) bool {
				if bl, ok := n.(*ast.BasicLit); ok {
					if fc.Kind == "strings_in_func" && bl.Kind == token.STRING {
						s, err := strconv.Unquote(bl.Value)
						if err != nil {
							die("fact %s: %v", fc.Name, err)
						}
						items = append(items, posItem{bl.Pos(), s})
					}
					if fc.Kind == "ints_in_func" && bl.Kind == token.INT {
						cv := constant.MakeFromLiteral(bl.Value, token.INT, 0)
						items = append(items, posItem{bl.Pos(), cv.ExactString()})
					}
				}
				return true
			})
			sort.SliceStable(items, func(i, j int) bool { return items[i].pos < items[j].pos })
			if fc.Kind == "strings_in_func" {
				ss := make([]string, len(items))
				for i, it := range items {
					ss[i] = it.s
				}
				fmt.Fprintf(&b, "def %s : List String :=\n  %s\n\n", fc.Name, leanStringList(ss))
			} else {
				ss := make([]string, len(items))
				for i, it := range items {
					ss[i] = it.s
				}
				fmt.Fprintf(&b, "def %s : List Int :=\n  [%s]\n\n", fc.Name, strings.Join(ss, ", "))
			}
		case "calls_in_func":
			var items []posItem
			ast.Inspect(fd.Body, func(n ast.Node) bool {
				if ce, ok := n.(*ast.CallExpr); ok {
					name := render(fset, ce.Fun)
					keep := len(fc.Filter) == 0
					for _, p := range fc.Filter {
						if strings.HasPrefix(name, p) {
							keep = true
						}
					}
					if keep {
						items = append(items, posItem{ce.Pos(), name})
					}
				}
				return true
			})
			sort.SliceStable(items, func(i, j int) bool { return items[i].pos < items[j].pos })
			ss := make([]string, len(items))
			for i, it := range items {
				ss[i] = it.s
			}
			fmt.Fprintf(&b, "def %s : List String :=\n  %s\n\n", fc.Name, leanStringList(ss))
		case "conds_in_func":
			var items []posItem
			ast.Inspect(fd.Body, func(n ast.Node) bool {
				switch x := n.(type) {
				case *ast.IfStmt:
					items = append(items, posItem{x.Cond.Pos(), "if " + render(fset, x.Cond)})
				case *ast.ForStmt:
					if x.Cond != nil {
						items = append(items, posItem{x.Cond.Pos(), "for " + render(fset, x.Cond)})
					}
				case *ast.SwitchStmt:
					if x.Tag != nil {
						items = append(items, posItem{x.Tag.Pos(), "switch " + render(fset, x.Tag)})
					}
				case *ast.CaseClause:
					if len(x.List) == 0 {
						items = append(items, posItem{x.Pos(), "default"})
					}
					for _, e := range x.List {
						items = append(items, posItem{e.Pos(), "case " + render(fset, e)})
					}
				}
				return true
			})
			sort.SliceStable(items, func(i, j int) bool { return items[i].pos < items[j].pos })
			ss := make([]string, len(items))
			for i, it := range items {
				ss[i] = it.s
			}
			fmt.Fprintf(&b, "def %s : List String :=\n  %s\n\n", fc.Name, leanStringList(ss))
		case "returns_in_func":
			var items []posItem
			ast.Inspect(fd.Body, func(n ast.Node) bool {
				if rs, ok := n.(*ast.ReturnStmt); ok {
					parts := make([]string, len(rs.Results))
					for i, r := range rs.Results {
						parts[i] = render(fset, r)
					}
					items = append(items, posItem{rs.Pos(), strings.Join(parts, ", ")})
				}
				return true
			})
			sort.SliceStable(items, func(i, j int) bool { return items[i].pos < items[j].pos })
			ss := make([]string, len(items))
			for i, it := range items {
				ss[i] = it.s
			}
			fmt.Fprintf(&b, "def %s : List String :=\n  %s\n\n", fc.Name, leanStringList(ss))
		case "assigns_in_func":
			// rendered assignment / inc-dec statements of `func` whose left-hand side starts with one
			// of the `filter` prefixes (all of them when no filter is given), source order
			var items []posItem
			ast.Inspect(fd.Body, func(n ast.Node) bool {
				var lhs string
				switch x := n.(type) {
				case *ast.AssignStmt:
					parts := make([]string, len(x.Lhs))
					for i, l := range x.Lhs {
						parts[i] = render(fset, l)
					}
					lhs = strings.Join(parts, ", ")
				case *ast.IncDecStmt:
					lhs = render(fset, x.X)
				default:
					return true
				}
				keep := len(fc.Filter) == 0
				for _, p := range fc.Filter {
					if strings.HasPrefix(lhs, p) {
						keep = true
					}
				}
				if keep {
					items = append(items, posItem{n.Pos(), render(fset, n)})
				}
				return true
			})
			sort.SliceStable(items, func(i, j int) bool { return items[i].pos < items[j].pos })
			ss := make([]string, len(items))
			for i, it := range items {
				ss[i] = it.s
			}
			fmt.Fprintf(&b, "def %s : List String :=\n  %s\n\n", fc.Name, leanStringList(ss))
		case "skeleton_in_func":
			// control skeleton of `func` as a token list, source order (added for C06):
			//   "call NAME"            a call whose rendered callee starts with one of `filter`
			//   "call NAME => LHS"     the same when the call is the only right-hand side of an assignment
			//   "if COND {", "} else {", "}", "for {", "case {", "func {", "return"
			// Calls in an if-statement's init/condition are emitted before its "if" token; function
			// literals are bracketed by "func {" … "}" so that their returns are not the function's.
			fmt.Fprintf(&b, "def %s : List String :=\n  %s\n\n", fc.Name, leanStringList(skeleton(fset, fd.Body, fc.Filter)))
		case "func_text":
			fmt.Fprintf(&b, "def %s : String := %s\n\n", fc.Name, leanString(render(fset, fd.Body)))
		default:
			die("fact %s: unknown kind %s", fc.Name, fc.Kind)
		}
	}
	fmt.Fprintf(&b, "end ArvVerif.Facts.%s\n", *ns)
	if err := os.MkdirAll(filepath.Dir(*out), 0o755); err != nil {
		die("%v", err)
	}
	// write only when changed, so that lake does not rebuild dependants needlessly
	if old, err := os.ReadFile(*out); err == nil && string(old) == b.String() {
		return
	}
	if err := os.WriteFile(*out, []byte(b.String()), 0o644); err != nil {
		die("%v", err)
	}
}
