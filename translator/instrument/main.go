// Instrumenter: copies a Go source file of the CURRENT /repo working tree and inserts
//   verifPoint("<Func>:<callee>:<k>")
// before every statement that directly contains a call whose rendered callee starts with one of the
// -match prefixes (calls inside nested blocks / function literals are attributed to the nested
// statement instead). Add-only: every original byte is preserved, statements are only inserted.
// The copy is substituted for the original with `go test -overlay`; nothing is written into /repo.
// With -event, inserts verifEvent("<Func>") as the first statement of each listed function instead.
//
// usage: instrument -in /repo/services/keepstore/unix_volume.go -out build/C02/unix_volume.go
//          -points build/C02/points.json -match os.,ioutil.,syscall.,io.Copy,v.os.,v.lockfile,v.unlockfile
//          [-funcs WriteBlock,Touch,Trash] [-hook verifPoint]
package main

import (
	"bytes"
	"encoding/json"
	"flag"
	"fmt"
	"go/ast"
	"go/parser"
	"go/printer"
	"go/token"
	"os"
	"sort"
	"strings"
)

type point struct {
	ID     string `json:"id"`
	Func   string `json:"func"`
	Callee string `json:"callee"`
	Line   int    `json:"line"`
}

type insertion struct {
	off  int
	text string
}

func render(fset *token.FileSet, n ast.Node) string {
	var buf bytes.Buffer
	printer.Fprint(&buf, fset, n)
	return strings.Join(strings.Fields(buf.String()), " ")
}

func main() {
	in := flag.String("in", "", "input go file")
	out := flag.String("out", "", "output go file")
	pointsOut := flag.String("points", "", "output json list of points")
	match := flag.String("match", "os.,ioutil.,syscall.,io.Copy,v.os.", "comma separated callee prefixes")
	exclude := flag.String("exclude", "v.os.stats.", "comma separated callee prefixes never instrumented")
	funcs := flag.String("funcs", "", "comma separated function names (methods without receiver); empty = all")
	hook := flag.String("hook", "verifPoint", "hook function name")
	event := flag.Bool("event", false, "insert <hook>(\"<Func>\") at function entry instead of call points")
	flag.Parse()
	src, err := os.ReadFile(*in)
	if err != nil {
		fmt.Fprintln(os.Stderr, "instrument:", err)
		os.Exit(2)
	}
	fset := token.NewFileSet()
	f, err := parser.ParseFile(fset, *in, src, parser.ParseComments)
	if err != nil {
		fmt.Fprintln(os.Stderr, "instrument:", err)
		os.Exit(2)
	}
	prefixes := strings.Split(*match, ",")
	excludes := strings.Split(*exclude, ",")
	want := map[string]bool{}
	for _, n := range strings.Split(*funcs, ",") {
		if n != "" {
			want[n] = true
		}
	}
	var ins []insertion
	var points []point
	found := map[string]bool{}

	// callees directly inside stmt (not inside nested block statements / func literals)
	var directCalls func(n ast.Node, acc *[]string)
	directCalls = func(n ast.Node, acc *[]string) {
		ast.Inspect(n, func(x ast.Node) bool {
			switch y := x.(type) {
			case *ast.BlockStmt:
				if x != n {
					return false
				}
			case *ast.FuncLit:
				return false
			case *ast.CaseClause, *ast.CommClause:
				if x != n {
					return false
				}
			case *ast.CallExpr:
				name := render(fset, y.Fun)
				skip := false
				for _, p := range excludes {
					if p != "" && strings.HasPrefix(name, p) {
						skip = true
					}
				}
				if skip {
					return true
				}
				for _, p := range prefixes {
					if p != "" && strings.HasPrefix(name, p) {
						*acc = append(*acc, name)
						break
					}
				}
			}
			return true
		})
	}

	for _, d := range f.Decls {
		fd, ok := d.(*ast.FuncDecl)
		if !ok || fd.Body == nil {
			continue
		}
		if len(want) > 0 && !want[fd.Name.Name] {
			continue
		}
		found[fd.Name.Name] = true
		if *event {
			off := fset.Position(fd.Body.Lbrace).Offset + 1
			ins = append(ins, insertion{off, fmt.Sprintf(" %s(%q);", *hook, fd.Name.Name)})
			points = append(points, point{ID: fd.Name.Name, Func: fd.Name.Name, Line: fset.Position(fd.Pos()).Line})
			continue
		}
		k := 0
		var visitList func(list []ast.Stmt)
		var visitStmt func(s ast.Stmt)
		visitList = func(list []ast.Stmt) {
			for _, s := range list {
				var calls []string
				// for compound statements only the header (init/cond/tag) counts
				switch y := s.(type) {
				case *ast.IfStmt:
					if y.Init != nil {
						directCalls(y.Init, &calls)
					}
					directCalls(y.Cond, &calls)
				case *ast.ForStmt:
					if y.Init != nil {
						directCalls(y.Init, &calls)
					}
				case *ast.RangeStmt:
					directCalls(y.X, &calls)
				case *ast.SwitchStmt:
					if y.Init != nil {
						directCalls(y.Init, &calls)
					}
					if y.Tag != nil {
						directCalls(y.Tag, &calls)
					}
				case *ast.BlockStmt, *ast.SelectStmt, *ast.TypeSwitchStmt, *ast.LabeledStmt:
				default:
					directCalls(s, &calls)
				}
				if len(calls) > 0 {
					id := fmt.Sprintf("%s:%s:%d", fd.Name.Name, calls[0], k)
					k++
					pos := fset.Position(s.Pos())
					ins = append(ins, insertion{pos.Offset, fmt.Sprintf("%s(%q); ", *hook, id)})
					points = append(points, point{ID: id, Func: fd.Name.Name, Callee: calls[0], Line: pos.Line})
				}
				visitStmt(s)
			}
		}
		visitStmt = func(s ast.Stmt) {
			// descend into nested statement lists and function literals
			ast.Inspect(s, func(x ast.Node) bool {
				switch y := x.(type) {
				case *ast.BlockStmt:
					visitList(y.List)
					return false
				case *ast.CaseClause:
					visitList(y.Body)
					return false
				case *ast.CommClause:
					visitList(y.Body)
					return false
				}
				return true
			})
		}
		visitList(fd.Body.List)
	}
	for n := range want {
		if !found[n] {
			fmt.Fprintf(os.Stderr, "instrument: function %s not found in %s\n", n, *in)
			os.Exit(2)
		}
	}
	sort.SliceStable(ins, func(i, j int) bool { return ins[i].off < ins[j].off })
	var b bytes.Buffer
	last := 0
	for _, i := range ins {
		b.Write(src[last:i.off])
		b.WriteString(i.text)
		last = i.off
	}
	b.Write(src[last:])
	// sanity: result must parse
	if _, err := parser.ParseFile(token.NewFileSet(), *out, b.Bytes(), 0); err != nil {
		fmt.Fprintln(os.Stderr, "instrument: result does not parse:", err)
		os.Exit(2)
	}
	if err := os.WriteFile(*out, b.Bytes(), 0o644); err != nil {
		fmt.Fprintln(os.Stderr, "instrument:", err)
		os.Exit(2)
	}
	if *pointsOut != "" {
		js, _ := json.MarshalIndent(points, "", " ")
		os.WriteFile(*pointsOut, js, 0o644)
	}
}
