#!/bin/bash
# Run the repository's pinned baseline suite (hooks off: nothing from /verif is involved) and
# compare with the stable_pass list of /root/.vp/BASELINE.json. Usage: harness/baseline.sh [outdir]
out=${1:-/verif/build/baseline}
mkdir -p "$out"
cd /repo || exit 2
. /w/out/goenv.sh
export GOPROXY=off GOSUMDB=off GOTOOLCHAIN=local
MF=$(gomodflag)
go test $MF -json -vet=off -count=1 -timeout 25m ./... > "$out/gotest.json" 2> "$out/gotest.err"
python3 - "$out/gotest.json" <<'PY'
import json, sys
base = json.load(open('/root/.vp/BASELINE.json'))
want = set(base['stable_pass'])
res = {}
for line in open(sys.argv[1]):
    try:
        e = json.loads(line)
    except Exception:
        continue
    if e.get('Test') and e.get('Action') in ('pass', 'fail', 'skip') and '/' not in e['Test']:
        res[f"{e['Package']}::{e['Test']}"] = e['Action']
missing = sorted(t for t in want if res.get(t) != 'pass')
print(f"stable tests passing: {len(want) - len(missing)}/{len(want)}")
for t in missing:
    print("NOT PASSING:", t, res.get(t))
sys.exit(1 if missing else 0)
PY
