#!/usr/bin/env python3
"""C12 Python-side driver: runs the Python SDK's copy of the rendezvous algorithm, taken from the
CURRENT sdk/python/arvados/keep.py by AST (keep.py imports pycurl and the whole SDK and is not
importable in the sandbox): class KeepLocator, and KeepClient's methods _service_weight,
weighted_service_roots, build_services_list, _any_nondisk_services, compiled unchanged into a
scratch module; arvados.util.is_hex is taken from util.py the same way. Everything else the methods
touch (API client, lock, logger, error classes) is a stub defined here.

  pyorder <hash32> <uuid,...>                 discovery (build_services_list) of disk services, then
                                              weighted_service_roots: the uuids in probe order
  pyload  <hash32> <uuid:t:ro,...>            t = d(isk) | p(roxy) | g(ateway:x), ro = 0|1: read order ';' write order
  pyroots <locator> <uuid=root,...> <gwuuid=root,...>
                                              static service list: hint roots ';' local order (uuids)
Output "invalid-locator" when KeepLocator raises ValueError, "error <Class>" for anything else.
"""
import ast
import datetime
import hashlib
import logging
import os
import re
import sys
import threading
import types

REPO = os.environ.get("VERIF_REPO", "/repo")
PKG = os.path.join(REPO, "sdk", "python", "arvados")

CLIENT_METHODS = ["_service_weight", "weighted_service_roots", "build_services_list", "_any_nondisk_services"]


class NoKeepServersError(Exception):
    pass


def _load():
    tree = ast.parse(open(os.path.join(PKG, "keep.py")).read())
    body = []
    for node in tree.body:
        if isinstance(node, ast.ClassDef) and node.name == "KeepLocator":
            body.append(node)
        if isinstance(node, ast.ClassDef) and node.name == "KeepClient":
            meths = [n for n in node.body if isinstance(n, ast.FunctionDef) and n.name in CLIENT_METHODS]
            if sorted(m.name for m in meths) != sorted(CLIENT_METHODS):
                raise SystemExit("c12_keep_driver: KeepClient methods not found: %s" % [m.name for m in meths])
            body.append(ast.ClassDef(name="KeepClientCore", bases=[ast.Name(id="object", ctx=ast.Load())],
                                     keywords=[], body=meths, decorator_list=[]))
    if len(body) != 2:
        raise SystemExit("c12_keep_driver: KeepLocator / KeepClient not found in keep.py")
    utree = ast.parse(open(os.path.join(PKG, "util.py")).read())
    ubody = [n for n in utree.body
             if (isinstance(n, ast.FunctionDef) and n.name == "is_hex")
             or (isinstance(n, ast.Assign) and any(isinstance(t, ast.Name) and t.id == "HEX_RE" for t in n.targets))]
    if len(ubody) != 2:
        raise SystemExit("c12_keep_driver: is_hex / HEX_RE not found in util.py")
    arv = types.ModuleType("arvados")
    arv.errors = types.ModuleType("arvados.errors")
    arv.errors.NoKeepServersError = NoKeepServersError
    arv.errors.ArgumentError = type("ArgumentError", (Exception,), {})
    arv.util = types.ModuleType("arvados.util")
    arv.util.__dict__.update({"re": re, "arvados": arv})
    umod = ast.Module(body=ubody, type_ignores=[])
    ast.fix_missing_locations(umod)
    exec(compile(umod, os.path.join(PKG, "util.py"), "exec"), arv.util.__dict__)
    logger = logging.getLogger("arvados.keep")
    logger.addHandler(logging.NullHandler())
    logger.propagate = False
    g = {"re": re, "datetime": datetime, "hashlib": hashlib, "arvados": arv, "native_str": str,
         "_logger": logger, "__name__": "c12_keep_extract"}
    mod = ast.Module(body=body, type_ignores=[])
    ast.fix_missing_locations(mod)
    exec(compile(mod, os.path.join(PKG, "keep.py"), "exec"), g)
    return g["KeepLocator"], g["KeepClientCore"]


KeepLocator, KeepClientCore = _load()


class _Req(object):
    def __init__(self, items):
        self.items = items

    def execute(self):
        return {"items": [dict(i) for i in self.items]}


class _KS(object):
    def __init__(self, items):
        self.items = items

    def accessible(self):
        return _Req(self.items)


class _API(object):
    def __init__(self, items):
        self.items = items

    def keep_services(self):
        return _KS(self.items)


def discovered(items):
    kc = KeepClientCore()
    kc.lock = threading.Lock()
    kc.api_client = _API(items)
    kc._gateway_services = {}
    kc._keep_services = None
    kc._writable_services = None
    kc.using_proxy = None
    kc._static_services_list = False
    kc.max_replicas_per_service = None
    return kc


def static(keep, gateways):
    kc = KeepClientCore()
    kc.lock = threading.Lock()
    kc.api_client = None
    kc._gateway_services = gateways
    kc._keep_services = keep
    kc._writable_services = keep
    kc.using_proxy = None
    kc._static_services_list = True
    return kc


def split(s):
    return [] if s == "-" else s.split(",")


def join(xs):
    return ",".join(xs) if xs else "-"


TYPES = {"d": "disk", "p": "proxy", "g": "gateway:test"}


def item(i, uuid, typ="disk", ro=False):
    return {"uuid": uuid, "service_host": "h%d.example" % i, "service_port": 25107,
            "service_ssl_flag": False, "service_type": typ, "read_only": ro}


def run(line):
    f = line.split(" ")
    if f[0] == "pyorder" and len(f) == 3:
        uuids = split(f[2])
        kc = discovered([item(i, u) for i, u in enumerate(uuids)])
        root2uuid = {"http://h%d.example:25107/" % i: u for i, u in enumerate(uuids)}
        roots = kc.weighted_service_roots(KeepLocator(f[1] + "+3"))
        return join([root2uuid.get(r, r) for r in roots])
    if f[0] == "pyload" and len(f) == 3:
        recs = [p.split(":") for p in split(f[2])]
        if any(len(r) != 3 or r[1] not in TYPES or r[2] not in "01" for r in recs):
            return "bad-op"
        kc = discovered([item(i, r[0], TYPES[r[1]], r[2] == "1") for i, r in enumerate(recs)])
        root2uuid = {"http://h%d.example:25107/" % i: r[0] for i, r in enumerate(recs)}
        rd = kc.weighted_service_roots(KeepLocator(f[1] + "+3"))
        wr = kc.weighted_service_roots(KeepLocator(f[1] + "+3"), need_writable=True)
        return join([root2uuid.get(r, r) for r in rd]) + ";" + join([root2uuid.get(r, r) for r in wr])
    if f[0] == "pyroots" and len(f) == 4:
        keep, root2uuid = [], {}
        for p in split(f[2]):
            u, r = p.split("=", 1)
            keep.append({"uuid": u, "_service_root": r, "service_type": "disk"})
            root2uuid[r] = u
        gws = {}
        for p in split(f[3]):
            u, r = p.split("=", 1)
            gws[u] = {"uuid": u, "_service_root": r, "service_type": "gateway:test"}
        kc = static(keep, gws)
        try:
            loc = KeepLocator(f[1])
        except ValueError:
            return "invalid-locator"
        roots = kc.weighted_service_roots(loc)
        n = len(keep)
        if len(roots) < n:
            return "short " + join(roots)
        hints, order = roots[:len(roots) - n], roots[len(roots) - n:]
        return join(hints) + ";" + join([root2uuid.get(r, r) for r in order])
    return "bad-op"


def main():
    with open(os.environ["VERIF_CASES"]) as fin, open(os.environ["VERIF_OUT"], "w") as fout:
        for line in fin:
            line = line.rstrip("\n")
            try:
                out = run(line)
            except NoKeepServersError:
                out = "no-keep-servers"
            except Exception as e:  # one result line per case, whatever happens
                out = "error " + type(e).__name__
            fout.write(out + "\n")


if __name__ == "__main__":
    main()
