#!/usr/bin/env python3
"""C10 Python-side driver: runs the real sdk/python/arvados/_ranges.py and _normalize_stream.py
(imported as plain files; the only dependency, `arvados.config.EMPTY_BLOCK_LOCATOR`, is supplied
by a shim module) on the case lines of $VERIF_CASES and writes one result line per case to
$VERIF_OUT.

  p.seg <hexmanifest>          valid manifests only: per stream, Range list of the blocks, then
                               locators_and_ranges for every file token, normalize_stream per stream
  p.lr  <s0,s1,...> <start> <size>   locators_and_ranges on blocks of the given sizes (locator b<i>)
  p.fb  <s0,s1,...> <start>    first_block on blocks of the given sizes
  p.esc <hexname>              escape
  p.rr  <w1;w2;...> <start> <size>   replace_range for every write w = start,size,k,off (locator b<k>) in turn on
                               one list that starts empty, then the list and locators_and_ranges(list, start, size)

The tokenizer below (split on newline / space, unescape of \\ooo) is harness code, not Arvados
code: the anchored Python modules are a range mapper and a normalizer, not a parser.
Bytes are carried as latin-1 code points so that arbitrary bytes survive.
"""
import binascii
import importlib.util
import os
import re
import sys
import types

REPO = os.environ.get("VERIF_REPO", "/repo")
PKG = os.path.join(REPO, "sdk", "python", "arvados")


def _load():
    pkg = types.ModuleType("arvados")
    pkg.__path__ = [PKG]
    sys.modules["arvados"] = pkg
    cfg = types.ModuleType("arvados.config")
    cfg.EMPTY_BLOCK_LOCATOR = 'd41d8cd98f00b204e9800998ecf8427e+0'
    sys.modules["arvados.config"] = cfg
    pkg.config = cfg
    mods = {}
    for name in ("_ranges", "_normalize_stream"):
        spec = importlib.util.spec_from_file_location("arvados." + name, os.path.join(PKG, name + ".py"))
        m = importlib.util.module_from_spec(spec)
        sys.modules["arvados." + name] = m
        spec.loader.exec_module(m)
        mods[name] = m
    return mods["_ranges"], mods["_normalize_stream"]


R, N = _load()


def unhex(s):
    return "" if s == "-" else binascii.unhexlify(s).decode("latin-1")


def hx(s):
    return binascii.hexlify(s.encode("latin-1")).decode() or "-"


def unescape(s):
    return re.sub(r'\\([0-7]{3})', lambda m: chr(int(m.group(1), 8)), s)


LOC = re.compile(r'^[0-9a-f]{32}\+[0-9]+(\+[A-Z][-A-Za-z0-9@_]*)*$')


def segs_str(segs):
    return ",".join("%s:%d:%d" % (s.locator, s.segment_offset, s.segment_size) for s in segs) or "-"


def p_seg(txt):
    # combined path = stream name + "/" + file name; like the SDK's collection import, a file is
    # filed under the directory part of its combined path, so one path has one (stream, file) key
    streams = {}   # directory -> {basename -> [LocatorAndRange]}, in manifest order
    for line in txt.split("\n")[:-1]:
        toks = line.split(" ")
        sname = unescape(toks[0])
        blocks, pos, i = [], 0, 1
        while i < len(toks) and LOC.match(toks[i]):
            size = int(toks[i].split("+")[1])
            blocks.append(R.Range(toks[i], pos, size, 0))
            pos += size
            i += 1
        for ft in toks[i:]:
            p, l, name = ft.split(":", 2)
            d, base = (sname + "/" + unescape(name)).rsplit("/", 1)
            streams.setdefault(d, {}).setdefault(base, []).extend(R.locators_and_ranges(blocks, int(p), int(l)))
    files = []
    for d, st in streams.items():
        for base, segs in st.items():
            files.append(hx(d + "/" + base) + "=" + segs_str(segs))
    files.sort()
    norm = ""
    for d in sorted(streams):
        norm += " ".join(N.normalize_stream(d, streams[d])) + "\n"
    return "ok " + (";".join(files) or "-") + " " + hx(norm)


def blocks_of(spec):
    out, pos = [], 0
    if spec != "-":
        for i, s in enumerate(spec.split(",")):
            out.append(R.Range("b%d" % i, pos, int(s), 0))
            pos += int(s)
    return out


def case(line):
    f = line.split(" ")
    try:
        if f[0] == "p.seg" and len(f) == 2:
            return p_seg(unhex(f[1]))
        if f[0] == "p.lr" and len(f) == 4:
            r = R.locators_and_ranges(blocks_of(f[1]), int(f[2]), int(f[3]))
            return "ok " + segs_str(r)
        if f[0] == "p.fb" and len(f) == 3:
            r = R.first_block(blocks_of(f[1]), int(f[2]))
            return "none" if r is None else str(r)
        if f[0] == "p.rr" and len(f) == 4:
            dl = []
            if f[1] != "-":
                for w in f[1].split(";"):
                    a, b, k, o = (int(x) for x in w.split(","))
                    R.replace_range(dl, a, b, "b%d" % k, o)
            lst = ",".join("%s:%d:%d:%d" % (r.locator, r.range_start, r.range_size, r.segment_offset) for r in dl) or "-"
            return "ok " + lst + " " + segs_str(R.locators_and_ranges(dl, int(f[2]), int(f[3])))
        if f[0] == "p.esc" and len(f) == 2:
            return hx(N.escape(unhex(f[1])))
    except Exception as e:  # an exception is the Python analogue of a panic
        return "exc " + type(e).__name__
    return "bad-op"


def main():
    with open(os.environ["VERIF_CASES"]) as fin, open(os.environ["VERIF_OUT"], "w") as fout:
        for line in fin:
            fout.write(case(line.rstrip("\n")) + "\n")


if __name__ == "__main__":
    main()
