#!/usr/bin/env python3
"""Orchestrator for one property check.  See DESIGN.md section 2 / CONVENTIONS.md.

  ./check Cxx [--tier quick|thorough] [--replay FILE]

Steps: translate facts -> build+audit Lean (proof obligations, tie) -> build Go drivers via
overlay -> generate cases -> run implementation and Lean model on the same cases -> compare ->
property oracle on implementation outputs -> (on any break) failing-input search -> evidence.
Exit 0 iff nothing broke (KNOWN-FINDING lines allowed); exit 1 with a VIOLATION line otherwise.
"""
import argparse
import fcntl
import hashlib
import importlib.util
import json
import os
import random
import re
import subprocess
import sys
import time
from concurrent.futures import ThreadPoolExecutor

VERIF = os.path.dirname(os.path.dirname(os.path.abspath(__file__)))
REPO = os.environ.get("VERIF_REPO", "/repo")
LEAN = os.path.join(VERIF, "lean")
BUILD = os.path.join(VERIF, "build")
GOENV = dict(os.environ, GOFLAGS="-mod=mod", GOPROXY="off", GOSUMDB="off", GOTOOLCHAIN="local",
             ARVADOS_API_HOST=os.environ.get("ARVADOS_API_HOST", "localhost:9"))
ALLOWED_AXIOMS = {"propext", "Classical.choice", "Quot.sound"}
FORBIDDEN = re.compile(r"\b(sorry|admit|native_decide|bv_decide|implemented_by|unsafe)\b|^\s*axiom\s|maxHeartbeats\s+0")
NCPU = os.cpu_count() or 4


def log(msg):
    print(f"[check] {msg}", flush=True)


class Lock:
    def __init__(self, name):
        os.makedirs(BUILD, exist_ok=True)
        self.path = os.path.join(BUILD, name)

    def __enter__(self):
        self.f = open(self.path, "w")
        fcntl.flock(self.f, fcntl.LOCK_EX)
        return self

    def __exit__(self, *a):
        fcntl.flock(self.f, fcntl.LOCK_UN)
        self.f.close()


def run(cmd, cwd=None, env=None, timeout=None, stdin=None):
    p = subprocess.run(cmd, cwd=cwd, env=env, timeout=timeout, input=stdin,
                       stdout=subprocess.PIPE, stderr=subprocess.STDOUT, text=True, errors="replace")
    return p.returncode, p.stdout


def load_plugin(pid):
    path = os.path.join(VERIF, "harness", "props", f"{pid}.py")
    spec = importlib.util.spec_from_file_location(f"prop_{pid}", path)
    mod = importlib.util.module_from_spec(spec)
    sys.path.insert(0, os.path.join(VERIF, "harness"))
    spec.loader.exec_module(mod)
    return mod


# ----------------------------------------------------------------------------- Lean side

def strip_comments(src):
    """Remove Lean block comments (nested) and line comments."""
    out, i, depth = [], 0, 0
    while i < len(src):
        if src.startswith("/-", i):
            depth += 1
            i += 2
        elif depth and src.startswith("-/", i):
            depth -= 1
            i += 2
        elif depth:
            if src[i] == "\n":
                out.append("\n")
            i += 1
        elif src.startswith("--", i):
            while i < len(src) and src[i] != "\n":
                i += 1
        else:
            out.append(src[i])
            i += 1
    return "".join(out)


def theorems_of(path):
    """Fully qualified names of the theorems declared in a Lean file (namespace-aware)."""
    names, stack = [], []
    if not os.path.exists(path):
        return names
    for line in strip_comments(open(path).read()).splitlines():
        m = re.match(r"\s*namespace\s+(\S+)", line)
        if m:
            stack.append(m.group(1))
            continue
        m = re.match(r"\s*end\s+(\S+)\s*$", line)
        if m and stack and stack[-1] == m.group(1):
            stack.pop()
            continue
        m = re.match(r"\s*(?:@\[[^\]]*\]\s*)?(?:private\s+|protected\s+)?theorem\s+(\S+)", line)
        if m:
            names.append(".".join(stack + [m.group(1)]))
    return names


def lean_files_of(pid):
    fs = []
    for sub in ("Model", "Proofs", "Props", "Tie", "Driver"):
        d = os.path.join(LEAN, "ArvVerif", sub)
        for fn in sorted(os.listdir(d)) if os.path.isdir(d) else []:
            if fn.startswith(pid) and fn.endswith(".lean"):
                fs.append(os.path.join(d, fn))
    return fs


def lean_phase(pid, plugin, tier, ev):
    """Translate facts, build proofs + model exe, audit axioms. Returns list of break records."""
    breaks = []
    gen = os.path.join(LEAN, "ArvVerif", "Gen")
    os.makedirs(gen, exist_ok=True)
    with Lock(f".lean.{pid}.lock"):  # per property: targets of different properties are disjoint
        # 1 translate
        spec = os.path.join(VERIF, "harness", "props", f"{pid}.facts.json")
        facts_out = os.path.join(gen, f"Facts{pid}.lean")
        if os.path.exists(spec):
            ensure_translator()
            rc, out = run([os.path.join(BUILD, "translator"), "-repo", REPO, "-spec", spec, "-ns", pid,
                           "-out", facts_out])
            if rc != 0:
                breaks.append({"kind": "tie", "what": "fact extraction failed", "detail": out.strip()[-2000:]})
                # keep an empty namespace so the rest can still build where it does not depend on it
                open(facts_out, "w").write(f"namespace ArvVerif.Facts.{pid}\nend ArvVerif.Facts.{pid}\n")
        # 2 audit file (generated: every theorem of Props/ and Tie/ for this property)
        props = sorted(f for f in lean_files_of(pid) if "/Props/" in f)
        ties = sorted(f for f in lean_files_of(pid) if "/Tie/" in f)
        thms = []
        for f in props + ties:
            thms += theorems_of(f)
        imports = [f"import ArvVerif.{os.path.relpath(f, os.path.join(LEAN, 'ArvVerif'))[:-5].replace('/', '.')}"
                   for f in props + ties]
        audit_path = os.path.join(gen, f"Audit{pid}.lean")
        body = "\n".join(imports) + "\n" + "\n".join(f"#print axioms {t}" for t in thms) + "\n"
        if not os.path.exists(audit_path) or open(audit_path).read() != body:
            open(audit_path, "w").write(body)
        ev["obligations"] = len(thms)
        ev["theorems"] = thms
        # 3 forbidden-token scan (comments stripped)
        for f in lean_files_of(pid):
            for n, line in enumerate(strip_comments(open(f).read()).splitlines(), 1):
                if FORBIDDEN.search(line):
                    breaks.append({"kind": "proof", "what": "forbidden token", "detail": f"{f}:{n}: {line.strip()}"})
        # 4 build
        targets = [f"ArvVerif.{os.path.relpath(f, os.path.join(LEAN, 'ArvVerif'))[:-5].replace('/', '.')}"
                   for f in props + ties] + [f"arvmodel_{pid.lower()}"]
        # (No in-place deletion of .olean files: other properties import some of these modules and
        # may be building at the same time. The thorough tier re-checks the compiled modules with
        # leanchecker instead; lake's own trace files make the incremental build sound.)
        t0 = time.time()
        rc, out = run(["lake", "build"] + targets, cwd=LEAN, timeout=3600)
        for attempt in range(3):
            # a concurrent build of an imported property's module may be replacing its .olean
            if rc != 0 and re.search(r"(failed to open file|object file .* does not exist|failed to read file).*", out):
                time.sleep(20 * (attempt + 1))
                rc, out = run(["lake", "build"] + targets, cwd=LEAN, timeout=3600)
            else:
                break
        ev["lake_build_s"] = round(time.time() - t0, 1)
        ok_build = rc == 0
        if not ok_build:
            errs = [l for l in out.splitlines() if "error" in l.lower()][:20]
            failing = sorted(set(re.findall(r"✖ \[\d+/\d+\] Building (\S+)", out)))
            kind = "tie" if any(".Tie." in m or ".Gen." in m for m in failing) and not any(".Props." in m or ".Proofs." in m or ".Model." in m for m in failing) else "proof"
            breaks.append({"kind": kind, "what": "lake build failed", "modules": failing,
                           "detail": "\n".join(errs)[-3000:]})
        # 5 axiom audit
        discharged = 0
        if ok_build:
            rc, out = run(["lake", "env", "lean", audit_path], cwd=LEAN, timeout=1800)
            if rc != 0:
                breaks.append({"kind": "proof", "what": "axiom audit failed to run", "detail": out[-2000:]})
            else:
                flat = " ".join(out.split())
                audited = {}
                for m in re.finditer(r"'([^']+)' depends on axioms: \[([^\]]*)\]", flat):
                    audited[m.group(1)] = {a.strip() for a in m.group(2).split(",") if a.strip()}
                for m in re.finditer(r"'([^']+)' does not depend on any axioms", flat):
                    audited[m.group(1)] = set()
                axioms_used = set()
                for t in thms:
                    if t not in audited:
                        breaks.append({"kind": "proof", "what": "theorem missing from audit", "detail": t})
                        continue
                    bad = audited[t] - ALLOWED_AXIOMS
                    axioms_used |= audited[t]
                    if bad:
                        breaks.append({"kind": "proof", "what": "disallowed axiom", "detail": f"{t}: {sorted(bad)}"})
                    else:
                        discharged += 1
                ev["axioms_used"] = sorted(axioms_used)
            if tier == "thorough":
                mods = [t for t in targets if t.startswith("ArvVerif.")]
                rc, out = run(["lake", "env", "leanchecker"] + mods, cwd=LEAN, timeout=3600)
                ev["leanchecker"] = "ok" if rc == 0 else "failed"
                if rc != 0:
                    breaks.append({"kind": "proof", "what": "leanchecker rejected", "detail": out[-2000:]})
        ev["discharged"] = discharged
    return breaks


def ensure_translator():
    tr = os.path.join(BUILD, "translator")
    src = os.path.join(VERIF, "translator", "main.go")
    if not os.path.exists(tr) or os.path.getmtime(tr) < os.path.getmtime(src):
        rc, out = run(["go", "build", "-o", tr, "."], cwd=os.path.join(VERIF, "translator"), env=GOENV)
        if rc != 0:
            raise SystemExit("cannot build translator: " + out)


# ----------------------------------------------------------------------------- implementation side

def overlay_for(pid, plugin, workdir):
    """Overlay JSON with this property's driver files (zz_verif_<id>_*, zz_verif_common_*) only."""
    repl = {}
    root = os.path.join(VERIF, "harness", "overlay")
    tag = f"zz_verif_{pid.lower()}"
    for d, _, files in os.walk(root):
        for fn in files:
            if fn.startswith(tag) or fn.startswith("zz_verif_common"):
                rel = os.path.relpath(os.path.join(d, fn), root)
                repl[os.path.join(REPO, rel)] = os.path.join(d, fn)
    for dst, src in getattr(plugin, "OVERLAY_EXTRA", {}).items():
        repl[os.path.join(REPO, dst)] = os.path.join(VERIF, src)
    if hasattr(plugin, "overlay_generated"):
        for dst, src in plugin.overlay_generated(REPO, workdir).items():
            repl[os.path.join(REPO, dst)] = src
    path = os.path.join(workdir, "overlay.json")
    json.dump({"Replace": repl}, open(path, "w"), indent=1)
    return path


def build_driver(pid, name, spec, overlay, workdir):
    if spec["kind"] != "gotest":
        return None, None
    binp = os.path.join(workdir, f"{name}.test")
    cmd = ["go", "test", "-c", "-vet=off", "-overlay", overlay, "-o", binp]
    if spec.get("race"):
        cmd.append("-race")
    if spec.get("tags"):
        cmd += ["-tags", spec["tags"]]
    cmd.append("./" + spec["pkg"])
    rc, out = run(cmd, cwd=REPO, env=GOENV, timeout=1800)
    if rc != 0:
        return None, out[-3000:]
    return binp, None


def run_chunk(spec, binp, lines, workdir, tag, timeout):
    """Run one driver process on a list of case lines; returns list of output lines or None."""
    cin = os.path.join(workdir, f"cases.{tag}.txt")
    cout = os.path.join(workdir, f"out.{tag}.txt")
    open(cin, "w").write("".join(l + "\n" for l in lines))
    if os.path.exists(cout):
        os.remove(cout)
    env = dict(GOENV, VERIF_CASES=cin, VERIF_OUT=cout, **spec.get("env", {}))
    if spec["kind"] == "gotest":
        cmd = [binp, "-test.run", f"^{spec['test']}$", "-test.timeout", f"{timeout}s"]
        cwd = os.path.join(REPO, spec["pkg"])
    elif spec["kind"] == "python":
        cmd = [spec.get("python", "python3"), os.path.join(VERIF, spec["script"])]
        cwd = VERIF
    else:
        raise SystemExit("unknown driver kind " + spec["kind"])
    try:
        rc, out = run(cmd, cwd=cwd, env=env, timeout=timeout + 30)
    except subprocess.TimeoutExpired:
        rc, out = -9, "timeout"
    res = open(cout).read().split("\n") if os.path.exists(cout) else []
    if res and res[-1] == "":
        res.pop()
    if rc != 0 or len(res) != len(lines):
        return None, f"rc={rc} got {len(res)}/{len(lines)} lines\n{out[-1500:]}"
    return res, None


def run_driver(spec, binp, lines, workdir, name, tier):
    """Run a driver over all its case lines, sharded; in crashed shards of a driver marked isolate the
    crashing cases are singled out (each becomes the per-case result 'CRASH ...')."""
    if not lines:
        return [], None
    timeout = spec.get("timeout", 600 if tier == "quick" else 3000)
    nshard = max(1, min(spec.get("shards", NCPU), (len(lines) + spec.get("min_chunk", 50) - 1) // spec.get("min_chunk", 50)))
    chunks = [lines[i::nshard] for i in range(nshard)]

    def one_by_one(i, ls):
        res = []
        for l in ls:
            r1, e1 = run_chunk(spec, binp, [l], workdir, f"{name}.{i}.one", spec.get("case_timeout", 60))
            res.append(r1[0] if r1 is not None else "CRASH " + " ".join((e1 or "").split())[:300])
        return res

    def isolate(i, ls, tag):
        """A shard crashed. If the driver flushes its output per case, the lines it managed to write
        locate the culprit: confirm it alone, keep the lines before it, go on with the rest (one
        process per crash instead of one per case). Otherwise fall back to case-by-case."""
        out, rest = [], list(ls)
        while rest:
            cout = os.path.join(workdir, f"out.{tag}.txt")
            partial = open(cout).read().split("\n")[:-1] if os.path.exists(cout) else []
            k = len(partial)
            if k >= len(rest):
                return out + one_by_one(i, rest)
            r1, e1 = run_chunk(spec, binp, [rest[k]], workdir, f"{name}.{i}.one", spec.get("case_timeout", 60))
            if r1 is not None:                      # not the culprit: output was buffered / crash not reproducible alone
                return out + one_by_one(i, rest)
            out += partial + ["CRASH " + " ".join((e1 or "").split())[:300]]
            rest = rest[k + 1:]
            if not rest:
                break
            tag = f"{name}.{i}.iso"
            res, err = run_chunk(spec, binp, rest, workdir, tag, timeout)
            if res is not None:
                return out + res
        return out

    def work(i):
        res, err = run_chunk(spec, binp, chunks[i], workdir, f"{name}.{i}", timeout)
        if res is None and spec.get("isolate"):
            res = isolate(i, chunks[i], f"{name}.{i}")
            err = None
        return res, err

    with ThreadPoolExecutor(max_workers=nshard) as ex:
        results = list(ex.map(work, range(nshard)))
    out = [None] * len(lines)
    for i, (res, err) in enumerate(results):
        if res is None:
            return None, err
        for k, r in enumerate(res):
            out[i + k * nshard] = r
    return out, None


def run_model(pid, lines, workdir):
    exe = os.path.join(LEAN, ".lake", "build", "bin", f"arvmodel_{pid.lower()}")
    if not os.path.exists(exe) or not lines:
        return None if lines else []
    nshard = max(1, min(NCPU, (len(lines) + 199) // 200))
    chunks = [lines[i::nshard] for i in range(nshard)]

    def work(i):
        p = subprocess.run([exe], input="".join(l + "\n" for l in chunks[i]), stdout=subprocess.PIPE,
                           stderr=subprocess.PIPE, text=True, errors="replace", timeout=3000)
        res = p.stdout.split("\n")
        if res and res[-1] == "":
            res.pop()
        return res if p.returncode == 0 and len(res) == len(chunks[i]) else None

    with ThreadPoolExecutor(max_workers=nshard) as ex:
        results = list(ex.map(work, range(nshard)))
    out = [None] * len(lines)
    for i, res in enumerate(results):
        if res is None:
            return None
        for k, r in enumerate(res):
            out[i + k * nshard] = r
    return out


# ----------------------------------------------------------------------------- findings

def load_findings(pid):
    p = os.path.join(VERIF, "known_findings.json")
    if not os.path.exists(p):
        return {}
    data = json.load(open(p))
    return {f["id"]: f for f in data.get("findings", []) if f.get("property") == pid and f.get("status") == "known"}


def call_finding_of(plugin, case, impl, why, model):
    """finding_of(case, impl, why) or, if the plugin declares a 4th parameter, finding_of(case, impl,
    why, model): a plugin may then accept a known finding only where the implementation also behaves
    as its (unfixed-code) model predicts. model is None when the model was not run on the case."""
    f = getattr(plugin, "finding_of", None)
    if f is None:
        return None
    try:
        import inspect
        n = len(inspect.signature(f).parameters)
    except (TypeError, ValueError):
        n = 3
    return f(case, impl, why, model) if n >= 4 else f(case, impl, why)


# ----------------------------------------------------------------------------- main

def all_pids():
    d = os.path.join(VERIF, "harness", "props")
    return sorted(fn[:-3] for fn in os.listdir(d) if re.match(r"C\d\d\.py$", fn))


def prepare():
    """setup_cmd: build everything once from files on disk (translator, facts, all Lean targets,
    all Go drivers) so that later checks are incremental. Failures here are reported but are not
    fatal: each check rebuilds what it needs and reports its own breaks."""
    ensure_translator()
    gen = os.path.join(LEAN, "ArvVerif", "Gen")
    os.makedirs(gen, exist_ok=True)
    targets = []
    for pid in all_pids():
        spec = os.path.join(VERIF, "harness", "props", f"{pid}.facts.json")
        if os.path.exists(spec):
            rc, out = run([os.path.join(BUILD, "translator"), "-repo", REPO, "-spec", spec, "-ns", pid,
                           "-out", os.path.join(gen, f"Facts{pid}.lean")])
            if rc != 0:
                log(f"prepare: facts for {pid} failed: {out[-500:]}")
        for f in lean_files_of(pid):
            if "/Props/" in f or "/Tie/" in f:
                targets.append(f"ArvVerif.{os.path.relpath(f, os.path.join(LEAN, 'ArvVerif'))[:-5].replace('/', '.')}")
        if os.path.exists(os.path.join(LEAN, "ArvVerif", "Driver", f"{pid}.lean")):
            targets.append(f"arvmodel_{pid.lower()}")
    with Lock(".lean.lock"):
        rc, out = run(["lake", "build"] + targets, cwd=LEAN, timeout=7200)
        log(f"prepare: lake build rc={rc}")
        if rc != 0:
            log(out[-3000:])
    jobs = []
    for pid in all_pids():
        plugin = load_plugin(pid)
        workdir = os.path.join(BUILD, pid)
        os.makedirs(workdir, exist_ok=True)
        overlay = overlay_for(pid, plugin, workdir)
        for n, s in plugin.DRIVERS.items():
            jobs.append((pid, n, s, overlay, workdir))
    with ThreadPoolExecutor(max_workers=4) as ex:
        for (pid, n, *_), (binp, err) in zip(jobs, ex.map(lambda j: build_driver(*j), jobs)):
            if err:
                log(f"prepare: driver {pid}/{n} failed: {err[-500:]}")
    return 0


def main():
    ap = argparse.ArgumentParser()
    ap.add_argument("pid")
    ap.add_argument("--tier", default=None)
    ap.add_argument("--replay", default=None)
    ap.add_argument("--prepare", action="store_true")
    a = ap.parse_args()
    if a.prepare:
        return prepare()
    pid = a.pid
    tier = os.environ.get("VERIF_TIER") or a.tier or "quick"
    if tier not in ("quick", "thorough"):
        tier = "quick"
    seed = int(os.environ.get("VERIF_SEED", "1") or 1)
    t_start = time.time()
    plugin = load_plugin(pid)
    workdir = os.path.join(BUILD, pid)
    os.makedirs(workdir, exist_ok=True)
    os.makedirs(os.path.join(VERIF, "evidence"), exist_ok=True)
    os.makedirs(os.path.join(VERIF, "replays"), exist_ok=True)
    ev = {}
    known = load_findings(pid)

    # ---- proof side
    breaks = lean_phase(pid, plugin, tier, ev)
    for b in breaks:
        log(f"BREAK {b['kind']}: {b['what']}: {str(b.get('detail', ''))[:400]}")

    # ---- implementation side
    overlay = overlay_for(pid, plugin, workdir)
    drivers = plugin.DRIVERS
    bins, build_errs = {}, {}
    with ThreadPoolExecutor(max_workers=4) as ex:
        futs = {n: ex.submit(build_driver, pid, n, s, overlay, workdir) for n, s in drivers.items()}
        for n, f in futs.items():
            bins[n], err = f.result()
            if err:
                build_errs[n] = err
                breaks.append({"kind": "correspondence", "what": f"driver {n} does not build against the current tree",
                               "detail": err})
                log(f"BREAK correspondence: driver {n} build failed: {err[-600:]}")

    # ---- cases
    rng = random.Random(seed)
    if a.replay:
        rp = json.load(open(a.replay))
        cases = rp.get("cases") or ([rp["case"]] if rp.get("case") else [])
        if not cases:
            log("replay file carries no input (proof/tie break); re-running the whole check instead")
            cases = corpus_cases(pid) + plugin.generate(rng, tier)
    else:
        cases = corpus_cases(pid) + plugin.generate(rng, tier)
    chan = [plugin.channel(c) for c in cases]
    impl = [None] * len(cases)
    for n, s in drivers.items():
        idx = [i for i, c in enumerate(chan) if c == n]
        if n in build_errs or not idx:
            continue
        res, err = run_driver(s, bins[n], [cases[i] for i in idx], workdir, n, tier)
        if res is None:
            breaks.append({"kind": "correspondence", "what": f"driver {n} crashed or lost lines", "detail": err})
            log(f"BREAK correspondence: driver {n}: {err}")
            continue
        for i, r in zip(idx, res):
            impl[i] = r
    model = run_model(pid, cases, workdir)
    if model is None:
        model = [None] * len(cases)
        if not any(b["what"] == "lake build failed" for b in breaks):
            breaks.append({"kind": "correspondence", "what": "model driver failed to run", "detail": ""})

    # ---- compare + oracle
    disagreements, violations, known_hits = [], [], {}
    nontrivial = set()
    for i, c in enumerate(cases):
        if impl[i] is None:
            continue
        k = plugin.nontrivial_key(c, impl[i])
        if k is not None:
            nontrivial.add(k)
        why = plugin.oracle(c, impl[i])
        fid = None
        if why or (model[i] is not None and not plugin.compare(c, impl[i], model[i])):
            fid = call_finding_of(plugin, c, impl[i], why, model[i])
        if fid and fid in known:
            known_hits.setdefault(fid, c)
            continue
        if why:
            violations.append((i, why))
        elif model[i] is not None and not plugin.compare(c, impl[i], model[i]):
            disagreements.append(i)

    # ---- failing-input search when something broke but the oracle is silent so far
    searched = 0
    if (breaks or disagreements) and not violations and hasattr(plugin, "neighbours"):
        budget = 60 if tier == "quick" else 600
        t0 = time.time()
        seeds_ = [cases[i] for i in disagreements[:20]] or cases[:20]
        srng = random.Random(seed + 7)
        while time.time() - t0 < budget and not violations:
            batch = []
            for c in seeds_:
                batch += plugin.neighbours(c, srng)
            batch = batch[:2000]
            if not batch:
                break
            bchan = [plugin.channel(c) for c in batch]
            bout = [None] * len(batch)
            for n, s in drivers.items():
                idx = [i for i, c in enumerate(bchan) if c == n]
                if n in build_errs or not idx:
                    continue
                res, err = run_driver(s, bins[n], [batch[i] for i in idx], workdir, n + ".srch", tier)
                if res is None:
                    continue
                for i, r in zip(idx, res):
                    bout[i] = r
            searched += len(batch)
            for c, r in zip(batch, bout):
                if r is None:
                    continue
                why = plugin.oracle(c, r)
                if why:
                    fid = plugin.finding_of(c, r, why) if hasattr(plugin, "finding_of") else None
                    if fid and fid in known:
                        continue
                    cases.append(c); impl.append(r); model.append(None)
                    violations.append((len(cases) - 1, why))
                    break
            seeds_ = batch[:40]

    # ---- evidence
    n_eval = sum(1 for r in impl if r is not None)
    dist = plugin.describe(cases, impl) if hasattr(plugin, "describe") else {}
    sample_idx = list(range(min(3, len(cases))))
    evidence = {
        "property_id": pid,
        "tier": tier,
        "seed": seed,
        "level": "proof",
        "coverage": {
            "obligations": ev.get("obligations", 0),
            "discharged": ev.get("discharged", 0),
            "checker_cmd": f"cd /verif/lean && lake build <Props/Tie modules of {pid}> arvmodel_{pid.lower()} && lake env lean ArvVerif/Gen/Audit{pid}.lean"
                           + (" && lake env leanchecker <modules>" if tier == "thorough" else ""),
            "trusted_base": ["Lean 4.33.0 kernel", "axioms: " + ", ".join(ev.get("axioms_used", [])),
                             "hand-written model ArvVerif/Model/" + pid + "*.lean",
                             "fact extractor /verif/translator (go/ast)",
                             "correspondence harness (generator, Go drivers via go test -overlay, comparer)"]
                            + list(getattr(plugin, "TRUSTED", [])),
            "theorems": ev.get("theorems", []),
            "leanchecker": ev.get("leanchecker", "not run (quick tier)"),
            "programs": n_eval,
            "disagreements_checked": n_eval,
            "disagreements_found": len(disagreements),
            "evaluations": n_eval,
            "distinct_nontrivial": len(nontrivial),
            "rule": getattr(plugin, "RULE", ""),
            "samples": [{"case": cases[i][:600], "impl": (impl[i] or "")[:600], "model": (model[i] or "")[:600]}
                        for i in sample_idx],
            "input_distribution": dist,
            "search_cases": searched,
            "known_findings_reproduced": sorted(known_hits),
            "lake_build_s": ev.get("lake_build_s"),
        },
        "assumptions": list(getattr(plugin, "ASSUMPTIONS", [])),
        "wall_s": round(time.time() - t_start, 1),
        "violations": len(violations) + (1 if (breaks or disagreements) and not violations else 0),
    }
    # evidence/ is only ever written by runs against /repo itself; runs against a scratch checkout
    # (VERIF_REPO set, mutation experiments) leave their record in the work directory instead
    ev_path = os.path.join(VERIF, "evidence", f"{pid}.json") if REPO == "/repo" else os.path.join(workdir, "evidence.scratch.json")
    json.dump(evidence, open(ev_path, "w"), indent=1)

    # ---- verdict
    for fid, c in sorted(known_hits.items()):
        print(f"KNOWN-FINDING: property={pid} {fid} {known[fid].get('what', '')} [witness: {c[:200]}]", flush=True)
    stamp = f"{pid}-{tier}-{seed}"
    if violations:
        i, why = violations[0]
        rp = os.path.join(VERIF, "replays", f"{stamp}-violation.json")
        json.dump({"property": pid, "kind": "property-violation", "reason": why, "case": cases[i],
                   "impl": impl[i], "model": model[i], "breaks": breaks,
                   "more": [{"case": cases[j], "reason": w} for j, w in violations[1:10]]}, open(rp, "w"), indent=1)
        log(f"property oracle: {why}")
        print(f"VIOLATION property={pid} replay={rp}", flush=True)
        return 1
    if breaks or disagreements:
        rp = os.path.join(VERIF, "replays", f"{stamp}-unproved.json")
        json.dump({"property": pid, "kind": "no-failing-input-found",
                   "broken": breaks,
                   "theorems": ev.get("theorems", []),
                   "disagreements": [{"case": cases[i], "impl": impl[i], "model": model[i]} for i in disagreements[:20]],
                   "cases": [cases[i] for i in disagreements[:20]],
                   "searched": searched}, open(rp, "w"), indent=1)
        for i in disagreements[:3]:
            log(f"disagreement: case={cases[i][:300]} impl={impl[i][:300]} model={(model[i] or '')[:300]}")
        print(f"VIOLATION property={pid} replay={rp} no-failing-input-found", flush=True)
        return 1
    log(f"{pid} ok: {ev.get('discharged')}/{ev.get('obligations')} obligations, {n_eval} cases, "
        f"{len(nontrivial)} distinct non-trivial, {evidence['wall_s']}s")
    return 0


def corpus_cases(pid):
    d = os.path.join(VERIF, "corpus", pid)
    out = []
    if os.path.isdir(d):
        for fn in sorted(os.listdir(d)):
            for l in open(os.path.join(d, fn)).read().split("\n"):
                if l and not l.startswith("#"):
                    out.append(l)
    return out


if __name__ == "__main__":
    sys.exit(main())
