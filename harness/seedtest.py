#!/usr/bin/env python3
"""Run registered checks against a seeded change in a scratch worktree (never in /repo).

  harness/seedtest.py <seed-dir> Cxx [Cyy ...] [--tier quick|thorough] [--seed N]

<seed-dir> holds patch.diff (applied with `git apply` at the root of a fresh detached worktree of
/repo HEAD). For each property the check is run with VERIF_REPO pointing at the worktree; the
verdict lines are printed and appended to <seed-dir>/results.json. The worktree is removed at the
end. Afterwards the property's facts are regenerated against /repo by the next normal run.
"""
import json, os, subprocess, sys, time

V = os.path.dirname(os.path.dirname(os.path.abspath(__file__)))


def main():
    args = [a for a in sys.argv[1:] if not a.startswith("--")]
    tier = "quick"
    seed = "1"
    for i, a in enumerate(sys.argv):
        if a == "--tier":
            tier = sys.argv[i + 1]
        if a == "--seed":
            seed = sys.argv[i + 1]
    args = [a for a in args if a not in (tier, seed)] if False else args
    sd = os.path.abspath(args[0])
    pids = [a for a in args[1:] if a.startswith("C")]
    wt = f"/tmp/wt-seedtest-{os.path.basename(sd)}-{os.getpid()}"
    subprocess.check_call(["git", "-C", "/repo", "worktree", "add", "--detach", wt, "HEAD"],
                          stdout=subprocess.DEVNULL, stderr=subprocess.DEVNULL)
    results = {}
    try:
        subprocess.check_call(["git", "-C", wt, "apply", os.path.join(sd, "patch.diff")])
        for pid in pids:
            t0 = time.time()
            env = dict(os.environ, VERIF_REPO=wt, VERIF_TIER=tier, VERIF_SEED=seed)
            p = subprocess.run([os.path.join(V, "check"), pid], env=env, stdout=subprocess.PIPE,
                               stderr=subprocess.STDOUT, text=True, cwd=V)
            lines = p.stdout.splitlines()
            verdict = [l for l in lines if l.startswith(("VIOLATION", "KNOWN-FINDING"))]
            detail = [l for l in lines if "property oracle" in l or "BREAK" in l or "disagreement" in l][:6]
            results[pid] = {"exit": p.returncode, "verdict": verdict, "detail": detail,
                            "wall_s": round(time.time() - t0, 1), "tier": tier, "seed": seed}
            print(f"{os.path.basename(sd)} {pid}: exit={p.returncode} {verdict} ({results[pid]['wall_s']}s)")
            for d in detail:
                print("    " + d[:300])
            # keep the replay the check wrote, next to the seed
            for l in verdict:
                if "replay=" in l:
                    rp = l.split("replay=")[1].split()[0]
                    if os.path.exists(rp):
                        dst = os.path.join(sd, f"replay-{pid}.json")
                        # the worktree path is irrelevant for replay; keep as is
                        open(dst, "w").write(open(rp).read())
    finally:
        subprocess.call(["git", "-C", "/repo", "worktree", "remove", "--force", wt])
        subprocess.call(["git", "-C", "/repo", "worktree", "prune"])
    rf = os.path.join(sd, "results.json")
    old = json.load(open(rf)) if os.path.exists(rf) else {}
    old.update(results)
    json.dump(old, open(rf, "w"), indent=1)
    # restore generated facts to the real tree for the touched properties
    for pid in pids:
        spec = os.path.join(V, "harness", "props", f"{pid}.facts.json")
        if os.path.exists(spec):
            subprocess.call([os.path.join(V, "build", "translator"), "-repo", "/repo", "-spec", spec, "-ns", pid,
                             "-out", os.path.join(V, "lean", "ArvVerif", "Gen", f"Facts{pid}.lean")])


if __name__ == "__main__":
    main()
