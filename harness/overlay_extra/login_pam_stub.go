// Sandbox accommodation (recorded in MANIFEST.hooks / DESIGN.md section 9): the real login_pam.go
// imports a cgo PAM binding whose C header is not installed here, so lib/controller does not build.
// This stub has the same type and methods; PAM login is not involved in any verified property.
package localdb

import (
	"context"
	"errors"

	"git.arvados.org/arvados.git/sdk/go/arvados"
)

type pamLoginController struct {
	Cluster *arvados.Cluster
	Parent  *Conn
}

func (ctrl *pamLoginController) Logout(ctx context.Context, opts arvados.LogoutOptions) (arvados.LogoutResponse, error) {
	return noopLogout(ctrl.Cluster, opts)
}

func (ctrl *pamLoginController) Login(ctx context.Context, opts arvados.LoginOptions) (arvados.LoginResponse, error) {
	return arvados.LoginResponse{}, errors.New("interactive login is not available")
}

func (ctrl *pamLoginController) UserAuthenticate(ctx context.Context, opts arvados.UserAuthenticateOptions) (arvados.APIClientAuthorization, error) {
	return arvados.APIClientAuthorization{}, errors.New("PAM is not available in the verification sandbox")
}
