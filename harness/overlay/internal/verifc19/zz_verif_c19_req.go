// Verification helper for C19 (token salting). Injected with `go test -overlay`; not part of the
// repository. Shared by the C19 drivers in sdk/go/auth, lib/controller, lib/controller/federation
// and services/keepstore: case-field decoding, construction of the incoming *http.Request from the
// value-level description in a case line, and a canonical byte dump of an outgoing request.
package verifc19

import (
	"bufio"
	"bytes"
	"encoding/base64"
	"encoding/hex"
	"fmt"
	"io/ioutil"
	"net/http"
	"net/url"
	"os"
	"sort"
	"strings"
)

// Unhex decodes a standalone field: "-" is the empty string.
func Unhex(s string) string {
	if s == "-" || s == "" {
		return ""
	}
	b, err := hex.DecodeString(s)
	if err != nil {
		panic("bad hex field " + s)
	}
	return string(b)
}

// Hex encodes a standalone field: the empty string is "-".
func Hex(s string) string {
	if s == "" {
		return "-"
	}
	return hex.EncodeToString([]byte(s))
}

// HexList joins hex-encoded strings with ','; the empty list is "-", an empty member is "".
func HexList(ss []string) string {
	if len(ss) == 0 {
		return "-"
	}
	out := make([]string, len(ss))
	for i, s := range ss {
		out[i] = hex.EncodeToString([]byte(s))
	}
	return strings.Join(out, ",")
}

func escapeAll(s string) string {
	var b strings.Builder
	for i := 0; i < len(s); i++ {
		fmt.Fprintf(&b, "%%%02X", s[i])
	}
	return b.String()
}

func escapeNonAlnum(s string) string {
	var b strings.Builder
	for i := 0; i < len(s); i++ {
		c := s[i]
		if c >= '0' && c <= '9' || c >= 'a' && c <= 'z' || c >= 'A' && c <= 'Z' {
			b.WriteByte(c)
		} else {
			fmt.Fprintf(&b, "%%%02X", c)
		}
	}
	return b.String()
}

// EncodeItems turns an item list ("-" or ','-joined items) into a raw
// application/x-www-form-urlencoded string in the given order. An item is "!" (a segment with an
// invalid percent escape) or <khex><sep><vhex>; the separator selects one of several valid
// encodings of the same key/value pair: '=' url.QueryEscape for both, '~' every byte of the key
// percent-escaped, '^' every non-alphanumeric byte of the key and every byte of the value
// percent-escaped.
func EncodeItems(spec string) string {
	if spec == "-" || spec == "" {
		return ""
	}
	var segs []string
	for _, it := range strings.Split(spec, ",") {
		if it == "!" {
			segs = append(segs, "%zz=1")
			continue
		}
		i := strings.IndexAny(it, "=~^")
		if i < 0 {
			panic("bad item " + it)
		}
		k, v := Unhex(it[:i]), Unhex(it[i+1:])
		switch it[i] {
		case '=':
			segs = append(segs, url.QueryEscape(k)+"="+url.QueryEscape(v))
		case '~':
			segs = append(segs, escapeAll(k)+"="+url.QueryEscape(v))
		case '^':
			segs = append(segs, escapeNonAlnum(k)+"="+escapeAll(v))
		}
	}
	return strings.Join(segs, "&")
}

// Incoming is the request a case line describes, as raw pieces.
type Incoming struct {
	Method   string
	Auth     []string // Authorization header values
	RawQuery string
	Cookie   []string // Cookie header values
	CT       []string // Content-Type header values
	Body     string
}

// ParseIncoming decodes the six request fields M A Q K T B of a case line.
func ParseIncoming(m, a, q, k, t, b string) Incoming {
	in := Incoming{Method: m}
	switch {
	case a == "-":
	case strings.HasPrefix(a, "p."):
		in.Auth = []string{Unhex(a[2:])}
	case strings.HasPrefix(a, "b."):
		up := strings.SplitN(a[2:], ".", 2)
		in.Auth = []string{"Basic " + base64.StdEncoding.EncodeToString([]byte(Unhex(up[0])+":"+Unhex(up[1])))}
	default:
		panic("bad A field")
	}
	in.RawQuery = EncodeItems(q)
	switch {
	case k == "-":
	case strings.HasPrefix(k, "t."):
		in.Cookie = []string{"arvados_api_token=" + base64.URLEncoding.EncodeToString([]byte(Unhex(k[2:])))}
	case strings.HasPrefix(k, "r."):
		in.Cookie = []string{Unhex(k[2:])}
	default:
		panic("bad K field")
	}
	if t != "-" {
		in.CT = []string{Unhex(t)}
	}
	switch {
	case b == "-":
	case strings.HasPrefix(b, "f."):
		in.Body = EncodeItems(b[2:])
	case strings.HasPrefix(b, "o."):
		in.Body = Unhex(b[2:])
	default:
		panic("bad B field")
	}
	return in
}

// Request builds the incoming server-side request.
func (in Incoming) Request() *http.Request {
	hdr := http.Header{"X-Request-Id": {"req-verif"}}
	if in.Auth != nil {
		hdr["Authorization"] = in.Auth
	}
	if in.Cookie != nil {
		hdr["Cookie"] = in.Cookie
	}
	if in.CT != nil {
		hdr["Content-Type"] = in.CT
	}
	return &http.Request{
		Method:        in.Method,
		URL:           &url.URL{Scheme: "https", Host: "home.example", Path: "/arvados/v1/workflows/zrmte-7fd4e-000000000000000", RawQuery: in.RawQuery},
		Proto:         "HTTP/1.1",
		ProtoMajor:    1,
		ProtoMinor:    1,
		Header:        hdr,
		Body:          ioutil.NopCloser(strings.NewReader(in.Body)),
		ContentLength: int64(len(in.Body)),
		Host:          "home.example",
		RemoteAddr:    "10.0.0.1:1234",
	}
}

// Dump renders an outgoing request (body already read) as bytes: request line, headers sorted by
// name, blank line, body.
func Dump(r *http.Request, body []byte) string {
	var b bytes.Buffer
	fmt.Fprintf(&b, "%s %s\n", r.Method, r.URL.String())
	fmt.Fprintf(&b, "Host: %s\n", r.Host)
	var keys []string
	for k := range r.Header {
		keys = append(keys, k)
	}
	sort.Strings(keys)
	for _, k := range keys {
		for _, v := range r.Header[k] {
			fmt.Fprintf(&b, "%s: %s\n", k, v)
		}
	}
	b.WriteString("\n")
	b.Write(body)
	return b.String()
}

// Run is the driver loop: one result line per case line.
func Run(fn func(string) string) error {
	in, err := os.Open(os.Getenv("VERIF_CASES"))
	if err != nil {
		return nil
	}
	defer in.Close()
	outf, err := os.Create(os.Getenv("VERIF_OUT"))
	if err != nil {
		return err
	}
	defer outf.Close()
	w := bufio.NewWriter(outf)
	defer w.Flush()
	sc := bufio.NewScanner(in)
	sc.Buffer(make([]byte, 1<<20), 1<<26)
	for sc.Scan() {
		fmt.Fprintln(w, safe(fn, sc.Text()))
	}
	return sc.Err()
}

func safe(fn func(string) string, line string) (out string) {
	defer func() {
		if r := recover(); r != nil {
			out = strings.Join(strings.Fields(fmt.Sprintf("panic %v", r)), " ")
		}
	}()
	return fn(line)
}
