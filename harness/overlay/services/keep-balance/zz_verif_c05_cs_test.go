// Verification driver for C05, second op: the real BlockStateMap (AddReplicas, IncreaseDesired),
// ComputeChangeSets (worker pool over all blocks) and collectStatistics (lost-blocks report).
//
//	cs <minMtime> <order> <services> <blocks>
//	order  := "ri" (index entries first, then collections) | "ir" (collections first)
//	blocks := blk ("~" blk)*      blk := hash32 ":" replicas ":" colls
//	colls  := "-" | coll ("&" coll)*    coll := <pdh index> "*" <replication> "*" ("-" | class ("+" class)*)
//
// Result: classes=.. mounts=.. # <blk> ~ <blk> ...   with <blk> := lost=<0|1> T=.. P=.. refs=<pdhs of the
// lost-blocks line, sorted | ->  (a block that no op mentioned: "absent"), then " # stats=lost:<n>,trashes:<n>,pulls:<n>"
package main

import (
	"bytes"
	"encoding/json"
	"fmt"
	"io/ioutil"
	"sort"
	"strconv"
	"strings"

	"git.arvados.org/arvados.git/sdk/go/arvados"
	"github.com/prometheus/client_golang/prometheus"
	"github.com/sirupsen/logrus"
)

func verifC05RunCS(f []string) (out string) {
	defer func() {
		if r := recover(); r != nil {
			out = fmt.Sprintf("panic %v", r)
		}
	}()
	if len(f) != 5 || !verifC05Int.MatchString(f[1]) || (f[2] != "ri" && f[2] != "ir") || f[4] == "" {
		return "bad-op"
	}
	minMtime, _ := strconv.ParseInt(f[1], 10, 64)
	logger := logrus.New()
	logger.Out = ioutil.Discard
	var lostBuf bytes.Buffer
	bal := &Balancer{Logger: logger, KeepServices: map[string]*KeepService{}, MinMtime: minMtime,
		BlockStateMap: NewBlockStateMap(), Metrics: newMetrics(prometheus.NewRegistry()), lostBlocks: &lostBuf}
	srvs, all, ok := verifC05Services(bal, f[3])
	if !ok {
		return "bad-op"
	}
	type repOp struct {
		mnt   *KeepMount
		blkid arvados.SizedDigest
		mtime int64
	}
	type collOp struct {
		pdh     string
		classes []string
		n       int
		blkid   arvados.SizedDigest
	}
	var hashes []string
	var reps []repOp
	var colls []collOp
	seen := map[string]bool{}
	for _, b := range strings.Split(f[4], "~") {
		p := strings.Split(b, ":")
		if len(p) != 3 || !verifC05Hash.MatchString(p[0]) || seen[p[0]] {
			return "bad-op"
		}
		seen[p[0]] = true
		hashes = append(hashes, p[0])
		blkid := arvados.SizedDigest(p[0] + "+123")
		if p[1] != "-" {
			for _, r := range strings.Split(p[1], ",") {
				at := strings.Split(r, "@")
				if len(at) != 2 || !verifC05Int.MatchString(at[1]) {
					return "bad-op"
				}
				ix := strings.Split(at[0], ".")
				if len(ix) != 2 || !verifC05Nat.MatchString(ix[0]) || !verifC05Nat.MatchString(ix[1]) {
					return "bad-op"
				}
				si, _ := strconv.Atoi(ix[0])
				mi, _ := strconv.Atoi(ix[1])
				if si >= len(all) || mi >= len(all[si]) {
					return "bad-op"
				}
				mt, _ := strconv.ParseInt(at[1], 10, 64)
				reps = append(reps, repOp{all[si][mi], blkid, mt})
			}
		}
		if p[2] != "-" {
			for _, c := range strings.Split(p[2], "&") {
				q := strings.Split(c, "*")
				if len(q) != 3 || !verifC05Nat.MatchString(q[0]) || !verifC05Nat.MatchString(q[1]) {
					return "bad-op"
				}
				n, _ := strconv.Atoi(q[1])
				var classes []string
				if q[2] != "-" {
					for _, cl := range strings.Split(q[2], "+") {
						if !verifC05Class.MatchString(cl) || strings.HasSuffix(cl, "!") {
							return "bad-op"
						}
						classes = append(classes, cl)
					}
				}
				colls = append(colls, collOp{"pdh" + q[0], classes, n, blkid})
			}
		}
	}
	bal.cleanupMounts()
	doReps := func() {
		for _, r := range reps {
			bal.BlockStateMap.AddReplicas(r.mnt, []arvados.KeepServiceIndexEntry{{SizedDigest: r.blkid, Mtime: r.mtime}})
		}
	}
	doColls := func() {
		for _, c := range colls {
			bal.BlockStateMap.IncreaseDesired(c.pdh, c.classes, c.n, []arvados.SizedDigest{c.blkid})
		}
	}
	if f[2] == "ri" {
		doReps()
		doColls()
	} else {
		doColls()
		doReps()
	}
	bal.ComputeChangeSets()

	var ms []string
	for si, srv := range srvs {
		for mi, mnt := range all[si] {
			kept := false
			for _, m := range srv.mounts {
				kept = kept || m == mnt
			}
			if !kept {
				ms = append(ms, fmt.Sprintf("%d.%d:x", si, mi))
				continue
			}
			ro := 0
			if mnt.ReadOnly {
				ro = 1
			}
			ms = append(ms, fmt.Sprintf("%d.%d:%d:%d", si, mi, ro, mnt.Replication))
		}
	}
	lostRefs := map[string][]string{}
	lostSeen := map[string]bool{}
	for _, line := range strings.Split(strings.TrimSuffix(lostBuf.String(), "\n"), "\n") {
		if line == "" {
			continue
		}
		w := strings.Split(line, " ")
		if lostSeen[w[0]] {
			return "lost-block-reported-twice"
		}
		lostSeen[w[0]] = true
		refs := append([]string(nil), w[1:]...)
		sort.Strings(refs)
		lostRefs[w[0]] = refs
	}
	dash := func(l []string, sep string) string {
		if len(l) == 0 {
			return "-"
		}
		return strings.Join(l, sep)
	}
	var blocks []string
	for _, h := range hashes {
		if _, present := bal.BlockStateMap.entries[arvados.SizedDigest(h+"+123")]; !present {
			blocks = append(blocks, "absent")
			continue
		}
		var ts, ps []string
		for si, srv := range srvs {
			var tl []Trash
			for _, t := range srv.ChangeSet.Trashes {
				if string(t.SizedDigest[:32]) == h {
					tl = append(tl, t)
				}
			}
			if len(tl) > 0 {
				sort.Slice(tl, func(i, j int) bool {
					if tl[i].From.UUID != tl[j].From.UUID {
						return tl[i].From.UUID < tl[j].From.UUID
					}
					return tl[i].Mtime < tl[j].Mtime
				})
				j, err := json.Marshal(tl)
				if err != nil {
					return "json-error"
				}
				ts = append(ts, fmt.Sprintf("%d:%s", si, j))
			}
			var pl []Pull
			for _, p := range srv.ChangeSet.Pulls {
				if string(p.SizedDigest[:32]) == h {
					pl = append(pl, p)
				}
			}
			if len(pl) > 0 {
				sort.Slice(pl, func(i, j int) bool { return pl[i].To.UUID < pl[j].To.UUID })
				j, err := json.Marshal(pl)
				if err != nil {
					return "json-error"
				}
				ps = append(ps, fmt.Sprintf("%d:%s", si, j))
			}
		}
		lost := 0
		if lostSeen[h] {
			lost = 1
		}
		blocks = append(blocks, fmt.Sprintf("lost=%d T=%s P=%s refs=%s", lost, dash(ts, ";"), dash(ps, ";"), dash(lostRefs[h], ",")))
	}
	return fmt.Sprintf("classes=%s mounts=%s # %s # stats=lost:%d,trashes:%d,pulls:%d",
		strings.Join(bal.classes, ","), dash(ms, ","), strings.Join(blocks, " ~ "),
		bal.stats.lost.blocks, bal.stats.trashes, bal.stats.pulls)
}
