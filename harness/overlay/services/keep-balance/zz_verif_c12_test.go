// Verification driver for C12 (keep-balance's server ranking). Injected with `go test -overlay`.
package main

import (
	"bufio"
	"crypto/md5"
	"fmt"
	"io/ioutil"
	"os"
	"runtime"
	"sort"
	"strconv"
	"strings"
	"sync/atomic"
	"testing"

	"git.arvados.org/arvados.git/sdk/go/arvados"
	"github.com/prometheus/client_golang/prometheus"
	"github.com/sirupsen/logrus"
)

// verifC12Point is called by the add-only instrumented copy of balance.go that the C12 plugin
// generates from the current working tree (translator/instrument, points inside balanceBlock). It
// is a no-op unless a `balpair` case installs a hook that parks one balanceBlock call at its k-th
// point while another block is balanced on the same Balancer.
var verifC12Hook atomic.Value // func(string)

func verifC12Point(id string) {
	if h, ok := verifC12Hook.Load().(func(string)); ok && h != nil {
		h(id)
	}
}

const verifC12Digits = "0123456789abcdefghijklmnopqrstuvwxyz"

func verifC12Balancer(uuids []string, rep int) (*Balancer, []*KeepService) {
	logger := logrus.New()
	logger.Out = ioutil.Discard
	bal := &Balancer{Logger: logger, KeepServices: map[string]*KeepService{}}
	var srvs []*KeepService
	for i, u := range uuids {
		srv := &KeepService{KeepService: arvados.KeepService{UUID: u}}
		srv.mounts = []*KeepMount{{
			KeepMount:   arvados.KeepMount{UUID: fmt.Sprintf("zzzzz-mount-%015x", i), Replication: rep},
			KeepService: srv,
		}}
		srv.ChangeSet = &ChangeSet{}
		srvs = append(srvs, srv)
		bal.KeepServices[u] = srv
	}
	bal.MinMtime = 1000000
	bal.cleanupMounts()
	return bal, srvs
}

// verifC12Wanted: the servers on which the balancer wants a replica of blkid (pull targets, plus
// the holder of the only existing replica when it is one of the d wanted places).
func verifC12Wanted(srvs []*KeepService, blkid arvados.SizedDigest, holder, d int) ([]int, string) {
	var wanted []int
	for i, srv := range srvs {
		for _, tr := range srv.Trashes {
			if tr.SizedDigest == blkid {
				return nil, "unexpected-trash"
			}
		}
		for _, pl := range srv.Pulls {
			if pl.SizedDigest == blkid {
				wanted = append(wanted, i)
				break
			}
		}
	}
	if len(wanted) == d-1 {
		wanted = append(wanted, holder)
	}
	if len(wanted) != d {
		return nil, fmt.Sprintf("unexpected-wanted d=%d %v", d, wanted)
	}
	sort.Ints(wanted)
	return wanted, ""
}

// verifC12PairRun balances two blocks on ONE Balancer: the call for `first` is parked at its k-th
// instrumented point (k = 0: never), the call for `second` then runs from start to end, and the
// first call is resumed. Returns the wanted servers of both blocks and the point where the first
// call was parked ("" if it ended before its k-th point).
func verifC12PairRun(first, second string, uuids []string, rep, d, k int) (wf, ws []int, parkedAt, errs string) {
	bal, srvs := verifC12Balancer(uuids, rep)
	bal.setupLookupTables()
	mk := func(h string) (arvados.SizedDigest, *BlockState) {
		return arvados.SizedDigest(h + "+3"), &BlockState{
			Replicas: []Replica{{KeepMount: srvs[0].mounts[0], Mtime: 1}},
			Desired:  map[string]int{"default": d * rep},
		}
	}
	idF, blkF := mk(first)
	idS, blkS := mk(second)
	var n int32
	parked := make(chan string, 1)
	release := make(chan struct{})
	done := make(chan string, 1)
	verifC12Hook.Store(func(id string) {
		if k > 0 && atomic.AddInt32(&n, 1) == int32(k) {
			parked <- id
			<-release
		}
	})
	defer verifC12Hook.Store(func(string) {})
	go func() {
		defer func() {
			if r := recover(); r != nil {
				done <- fmt.Sprintf("panic %v", r)
			} else {
				done <- ""
			}
		}()
		bal.balanceBlock(idF, blkF)
	}()
	select {
	case parkedAt = <-parked:
		bal.balanceBlock(idS, blkS)
		close(release)
		errs = <-done
	case errs = <-done:
		// the first call ended before its k-th point: nothing left to interleave with
		verifC12Hook.Store(func(string) {})
		bal.balanceBlock(idS, blkS)
	}
	if errs != "" {
		return
	}
	if wf, errs = verifC12Wanted(srvs, idF, 0, d); errs != "" {
		return
	}
	ws, errs = verifC12Wanted(srvs, idS, 0, d)
	return
}

// verifC12Pair: the server ranking of two blocks (recovered as in verifC12Rank, desired
// replication 1..N) when their balanceBlock calls overlap on one Balancer, for every point at
// which one call can be suspended while the other one runs, in both roles. Output
// "orderA / orderB" when every schedule gives the same two rankings, otherwise
// "schedule-dependent ..." naming the first schedule that does not.
func verifC12Pair(hashA, hashB string, uuids []string, rep int) (out string) {
	defer func() {
		if r := recover(); r != nil {
			out = fmt.Sprintf("panic %v", r)
		}
	}()
	type res struct{ a, b string }
	rankings := func(swap bool, k int) (r res, parkedAny bool, point string) {
		first, second := hashA, hashB
		if swap {
			first, second = hashB, hashA
		}
		var ordF, ordS []string
		seenF, seenS := map[int]bool{}, map[int]bool{}
		badF, badS := "", ""
		for d := 1; d <= len(uuids); d++ {
			wf, ws, at, errs := verifC12PairRun(first, second, uuids, rep, d, k)
			if errs != "" {
				return res{errs, errs}, parkedAny, at
			}
			if at != "" {
				parkedAny = true
				if point == "" {
					point = at
				}
			}
			fresh := func(w []int, seen map[int]bool, order *[]string, bad *string) {
				var f []int
				for _, i := range w {
					if !seen[i] {
						f = append(f, i)
						seen[i] = true
					}
				}
				if len(f) != 1 && *bad == "" {
					*bad = fmt.Sprintf("not-nested d=%d %v", d, f)
				}
				if len(f) == 1 {
					*order = append(*order, uuids[f[0]])
				}
			}
			fresh(wf, seenF, &ordF, &badF)
			fresh(ws, seenS, &ordS, &badS)
		}
		rf, rs := strings.Join(ordF, ","), strings.Join(ordS, ",")
		if badF != "" {
			rf = badF
		}
		if badS != "" {
			rs = badS
		}
		if swap {
			return res{rs, rf}, parkedAny, point
		}
		return res{rf, rs}, parkedAny, point
	}
	base, _, _ := rankings(false, 0)
	if strings.HasPrefix(base.a, "panic") || strings.HasPrefix(base.a, "unexpected") {
		return base.a
	}
	schedules := 0
	for _, swap := range []bool{false, true} {
		for k := 1; k <= 400; k++ {
			r, parkedAny, point := rankings(swap, k)
			if !parkedAny {
				break
			}
			schedules++
			if r != base {
				who := "first"
				if swap {
					who = "second"
				}
				return fmt.Sprintf("schedule-dependent (%s block suspended at its point %d = %s while the other block is balanced): %s / %s ; undisturbed: %s / %s", who, k, point, r.a, r.b, base.a, base.b)
			}
		}
	}
	if schedules == 0 {
		return "unexpected-no-points"
	}
	return base.a + " / " + base.b
}

// verifC12Sweep: n blocks balanced by ONE ComputeChangeSets call (the real worker pool, with at
// least 8 workers). Block i has the hash md5(seed:i), one replica on server i mod N and desired
// replication d. Output: per block the d servers the balancer wants it on, as indices into uuids.
func verifC12Sweep(seed string, uuids []string, n, d int) (out string) {
	defer func() {
		if r := recover(); r != nil {
			out = fmt.Sprintf("panic %v", r)
		}
	}()
	if len(uuids) > len(verifC12Digits) || d < 1 || d > len(uuids) {
		return "bad-op"
	}
	procs := runtime.NumCPU()
	if procs < 8 {
		procs = 8
	}
	defer runtime.GOMAXPROCS(runtime.GOMAXPROCS(procs))
	bal, srvs := verifC12Balancer(uuids, 1)
	bal.Metrics = newMetrics(prometheus.NewRegistry())
	bal.BlockStateMap = NewBlockStateMap()
	ids := make([]arvados.SizedDigest, n)
	for i := 0; i < n; i++ {
		ids[i] = arvados.SizedDigest(fmt.Sprintf("%x+3", md5.Sum([]byte(fmt.Sprintf("%s:%d", seed, i)))))
		bal.BlockStateMap.AddReplicas(srvs[i%len(srvs)].mounts[0], []arvados.KeepServiceIndexEntry{{SizedDigest: ids[i], Mtime: 1}})
		bal.BlockStateMap.IncreaseDesired("", nil, d, []arvados.SizedDigest{ids[i]})
	}
	bal.ComputeChangeSets()
	pulled := make(map[arvados.SizedDigest][]int, n)
	for i, srv := range srvs {
		if len(srv.Trashes) > 0 {
			return "unexpected-trash"
		}
		for _, pl := range srv.Pulls {
			pulled[pl.SizedDigest] = append(pulled[pl.SizedDigest], i)
		}
	}
	var sb strings.Builder
	for i, id := range ids {
		w := pulled[id]
		if len(w) == d-1 {
			w = append(w, i%len(srvs))
		}
		if len(w) != d {
			return fmt.Sprintf("unexpected-wanted block=%d d=%d %v", i, d, w)
		}
		sort.Ints(w)
		if i > 0 {
			sb.WriteByte(',')
		}
		for _, x := range w {
			sb.WriteByte(verifC12Digits[x])
		}
	}
	return sb.String()
}

// verifC12Rank recovers the order in which balanceBlock ranks the servers for a block, by asking
// for desired replication 1..N with a single old replica on the first server: the set of wanted
// slots (pull targets plus the replica holder once it is in the top d) grows by one server per
// step, in ranking order. Every mount has replication rep and the desired replication is d*rep, so
// that the number of wanted slots is d while the desired count exceeds the slot count for d > N/rep.
func verifC12Rank(hash string, uuids []string, rep int) (out string) {
	defer func() {
		if r := recover(); r != nil {
			out = fmt.Sprintf("panic %v", r)
		}
	}()
	logger := logrus.New()
	logger.Out = ioutil.Discard
	var order []string
	seen := map[string]bool{}
	for d := 1; d <= len(uuids); d++ {
		bal := &Balancer{Logger: logger, KeepServices: map[string]*KeepService{}}
		var srvs []*KeepService
		for i, u := range uuids {
			srv := &KeepService{KeepService: arvados.KeepService{UUID: u}}
			srv.mounts = []*KeepMount{{
				KeepMount:   arvados.KeepMount{UUID: fmt.Sprintf("zzzzz-mount-%015x", i), Replication: rep},
				KeepService: srv,
			}}
			srv.ChangeSet = &ChangeSet{}
			srvs = append(srvs, srv)
			bal.KeepServices[u] = srv
		}
		bal.MinMtime = 1000000
		bal.cleanupMounts()
		bal.setupLookupTables()
		blk := &BlockState{
			Replicas: []Replica{{KeepMount: srvs[0].mounts[0], Mtime: 1}},
			Desired:  map[string]int{"default": d * rep},
		}
		bal.balanceBlock(arvados.SizedDigest(hash+"+3"), blk)
		var wanted []string
		for _, srv := range srvs {
			if len(srv.Trashes) > 0 {
				return "unexpected-trash"
			}
			if len(srv.Pulls) > 0 {
				wanted = append(wanted, srv.UUID)
			}
		}
		if len(wanted) == d-1 {
			wanted = append(wanted, uuids[0])
		}
		if len(wanted) != d {
			return fmt.Sprintf("unexpected-wanted d=%d %v", d, wanted)
		}
		var fresh []string
		for _, u := range wanted {
			if !seen[u] {
				fresh = append(fresh, u)
				seen[u] = true
			}
		}
		if len(fresh) != 1 {
			return fmt.Sprintf("not-nested d=%d %v", d, fresh)
		}
		order = append(order, fresh[0])
	}
	if len(order) == 0 {
		return "-"
	}
	return strings.Join(order, ",")
}

func TestVerifC12(t *testing.T) {
	in, err := os.Open(os.Getenv("VERIF_CASES"))
	if err != nil {
		t.Skip("VERIF_CASES not set")
	}
	defer in.Close()
	outf, err := os.Create(os.Getenv("VERIF_OUT"))
	if err != nil {
		t.Fatal(err)
	}
	defer outf.Close()
	w := bufio.NewWriter(outf)
	defer w.Flush()
	sc := bufio.NewScanner(in)
	sc.Buffer(make([]byte, 1<<20), 1<<26)
	for sc.Scan() {
		f := strings.Split(sc.Text(), " ")
		if f[0] == "balpair" && (len(f) == 4 || len(f) == 5) && f[3] != "-" {
			// balpair <hashA> <hashB> <uuid,...> [rep]
			rep := 1
			if len(f) == 5 {
				rep, _ = strconv.Atoi(f[4])
			}
			if rep < 1 || f[1] == f[2] {
				fmt.Fprintln(w, "bad-op")
				continue
			}
			fmt.Fprintln(w, verifC12Pair(f[1], f[2], strings.Split(f[3], ","), rep))
			continue
		}
		if f[0] == "balsweep" && len(f) == 4 && f[2] != "-" {
			// balsweep <seed32> <uuid,...> <n>:<d>
			nd := strings.Split(f[3], ":")
			if len(nd) != 2 {
				fmt.Fprintln(w, "bad-op")
				continue
			}
			n, _ := strconv.Atoi(nd[0])
			d, _ := strconv.Atoi(nd[1])
			if n < 1 {
				fmt.Fprintln(w, "bad-op")
				continue
			}
			fmt.Fprintln(w, verifC12Sweep(f[1], strings.Split(f[2], ","), n, d))
			continue
		}
		if (len(f) != 3 && len(f) != 4) || f[0] != "bal" || f[2] == "-" {
			fmt.Fprintln(w, "bad-op")
			continue
		}
		rep := 1
		if len(f) == 4 {
			rep, _ = strconv.Atoi(f[3])
			if rep < 1 {
				fmt.Fprintln(w, "bad-op")
				continue
			}
		}
		fmt.Fprintln(w, verifC12Rank(f[1], strings.Split(f[2], ","), rep))
	}
}
