// Verification driver for C12 (keep-balance's server ranking). Injected with `go test -overlay`.
package main

import (
	"bufio"
	"fmt"
	"io/ioutil"
	"os"
	"strconv"
	"strings"
	"testing"

	"git.arvados.org/arvados.git/sdk/go/arvados"
	"github.com/sirupsen/logrus"
)

// verifC12Rank recovers the order in which balanceBlock ranks the servers for a block, by asking
// for desired replication 1..N with a single old replica on the first server: the set of wanted
// slots (pull targets plus the replica holder once it is in the top d) grows by one server per
// step, in ranking order. Every mount has replication rep and the desired replication is d*rep, so
// that the number of wanted slots is d while the desired count exceeds the slot count for d > N/rep.
func verifC12Rank(hash string, uuids []string, rep int) (out string) {
	defer func() {
		if r := recover(); r != nil {
			out = fmt.Sprintf("panic %v", r)
		}
	}()
	logger := logrus.New()
	logger.Out = ioutil.Discard
	var order []string
	seen := map[string]bool{}
	for d := 1; d <= len(uuids); d++ {
		bal := &Balancer{Logger: logger, KeepServices: map[string]*KeepService{}}
		var srvs []*KeepService
		for i, u := range uuids {
			srv := &KeepService{KeepService: arvados.KeepService{UUID: u}}
			srv.mounts = []*KeepMount{{
				KeepMount:   arvados.KeepMount{UUID: fmt.Sprintf("zzzzz-mount-%015x", i), Replication: rep},
				KeepService: srv,
			}}
			srv.ChangeSet = &ChangeSet{}
			srvs = append(srvs, srv)
			bal.KeepServices[u] = srv
		}
		bal.MinMtime = 1000000
		bal.cleanupMounts()
		bal.setupLookupTables()
		blk := &BlockState{
			Replicas: []Replica{{KeepMount: srvs[0].mounts[0], Mtime: 1}},
			Desired:  map[string]int{"default": d * rep},
		}
		bal.balanceBlock(arvados.SizedDigest(hash+"+3"), blk)
		var wanted []string
		for _, srv := range srvs {
			if len(srv.Trashes) > 0 {
				return "unexpected-trash"
			}
			if len(srv.Pulls) > 0 {
				wanted = append(wanted, srv.UUID)
			}
		}
		if len(wanted) == d-1 {
			wanted = append(wanted, uuids[0])
		}
		if len(wanted) != d {
			return fmt.Sprintf("unexpected-wanted d=%d %v", d, wanted)
		}
		var fresh []string
		for _, u := range wanted {
			if !seen[u] {
				fresh = append(fresh, u)
				seen[u] = true
			}
		}
		if len(fresh) != 1 {
			return fmt.Sprintf("not-nested d=%d %v", d, fresh)
		}
		order = append(order, fresh[0])
	}
	if len(order) == 0 {
		return "-"
	}
	return strings.Join(order, ",")
}

func TestVerifC12(t *testing.T) {
	in, err := os.Open(os.Getenv("VERIF_CASES"))
	if err != nil {
		t.Skip("VERIF_CASES not set")
	}
	defer in.Close()
	outf, err := os.Create(os.Getenv("VERIF_OUT"))
	if err != nil {
		t.Fatal(err)
	}
	defer outf.Close()
	w := bufio.NewWriter(outf)
	defer w.Flush()
	sc := bufio.NewScanner(in)
	sc.Buffer(make([]byte, 1<<20), 1<<26)
	for sc.Scan() {
		f := strings.Split(sc.Text(), " ")
		if (len(f) != 3 && len(f) != 4) || f[0] != "bal" || f[2] == "-" {
			fmt.Fprintln(w, "bad-op")
			continue
		}
		rep := 1
		if len(f) == 4 {
			rep, _ = strconv.Atoi(f[3])
			if rep < 1 {
				fmt.Fprintln(w, "bad-op")
				continue
			}
		}
		fmt.Fprintln(w, verifC12Rank(f[1], strings.Split(f[2], ","), rep))
	}
}
