// Verification driver for C05, third op: one whole sweep of the real Balancer.Run against a stub
// world generated from the case line — keep_services list, /mounts of every keepstore, block indexes
// (text, timestamps in nanoseconds or — old keepstore — in seconds), the discovery document
// (BlobSignatureTTL, default replication), the collections list (paged; the stub honours `select`
// like the API server and the controller's router do), PUT /trash and PUT /pull.
//
//	gs <flags> <M> <defrepl> <pagesize> <secs> <services> <blocks> <colls>
//	flags    := <commitPulls><commitTrash><safe>     three characters 0|1; safe=1: SafeRendezvousState is
//	            the current state (no ClearTrashLists)
//	M        := the instant "now − BlobSignatureTTL", in seconds since the epoch (the stub derives the TTL
//	            it announces from the wall clock, so that bal.MinMtime falls within [M, M+1h) seconds)
//	secs     := one character per service: 1 = this keepstore reports index timestamps in seconds
//	blocks   := blk ("~" blk)*     blk := hash32 ":" ("-" | rep ("," rep)*)
//	rep      := <svc index> "." <mount index> "@" <off>     the replica was written at M+off seconds;
//	            off <= -1 (older than the TTL) or off >= 3600 (newer). A device is one store: the index of a
//	            mount lists the replicas given for any mount with the same non-blank DeviceID.
//	colls    := "-" | coll ("&" coll)*
//	coll     := <pdh index> "*" ("d" | <replication_desired>) "*" ("-" | class ("+" class)*) "*" ("-" | <block index> ("+" <block index>)*)
//
// Result: classes=.. mounts=.. # <blk> ~ <blk> ... # stats=lost:<n>,trashes:<n>,pulls:<n> # sent=T:<x>,P:<y> clear=<n> minmtime=<ok|off>
// with <blk> as in op cs (computed change sets; block_mtime printed as offset from M in seconds when it is a
// whole number of seconds in nanosecond scale, else raw with prefix "r"), x,y ∈ none | same | diff (what the
// keepstores received in their last PUT, compared entry by entry with the computed lists of that service).
// When Run fails: "err <class> # sent=.. clear=..".
package main

import (
	"bytes"
	"encoding/json"
	"fmt"
	"io/ioutil"
	"net/http"
	"os"
	"path/filepath"
	"regexp"
	"sort"
	"strconv"
	"strings"
	"sync"
	"time"

	"git.arvados.org/arvados.git/sdk/go/arvados"
	"github.com/prometheus/client_golang/prometheus"
	"github.com/sirupsen/logrus"
)

var (
	verifC05Nat10 = regexp.MustCompile(`^[0-9]{7,10}$`)
	verifC05Off   = regexp.MustCompile(`^-?[0-9]{1,6}$`)
)

type verifC05Coll struct {
	pdh     string
	repl    *int
	classes []string
	blocks  []int
}

type verifC05World struct {
	mtx      sync.Mutex
	m        int64 // seconds
	ttl      int64
	defrepl  int
	secs     []bool
	srvs     []*KeepService // template (uuid, ro, mounts) built by verifC05Services
	all      [][]*KeepMount
	hashes   []string
	reps     [][][3]int64 // per block: (si, mi, off)
	colls    []verifC05Coll
	ddSeen   bool
	clears   int
	lastPut  map[string]map[string][]byte // host → "trash"/"pull" → last body received after the discovery doc
	badIndex bool
}

func (w *verifC05World) host(i int) string { return fmt.Sprintf("keep%d.example:25107", i) }

func (w *verifC05World) devKey(si, mi int) string {
	if d := w.all[si][mi].DeviceID; d != "" {
		return "d:" + d
	}
	return fmt.Sprintf("m:%d.%d", si, mi)
}

func verifC05Resp(req *http.Request, code int, body string) *http.Response {
	return &http.Response{
		StatusCode: code, Status: fmt.Sprintf("%d", code), Proto: "HTTP/1.1", ProtoMajor: 1, ProtoMinor: 1,
		Header:  http.Header{"Content-Type": []string{"application/json"}},
		Body:    ioutil.NopCloser(strings.NewReader(body)),
		Request: req, ContentLength: int64(len(body)),
	}
}

func (w *verifC05World) RoundTrip(req *http.Request) (*http.Response, error) {
	var body []byte
	if req.Body != nil {
		body, _ = ioutil.ReadAll(req.Body)
		req.Body.Close()
	}
	w.mtx.Lock()
	defer w.mtx.Unlock()
	if req.Method != "PUT" {
		req.Body = ioutil.NopCloser(bytes.NewReader(body))
		req.ParseForm()
	}
	code, out := w.serve(req, body)
	return verifC05Resp(req, code, out), nil
}

func (w *verifC05World) serve(req *http.Request, body []byte) (int, string) {
	p := req.URL.Path
	si := -1
	for i := range w.srvs {
		if req.URL.Host == w.host(i) {
			si = i
		}
	}
	switch {
	case p == "/arvados/v1/keep_services":
		var items []arvados.KeepService
		for i, s := range w.srvs {
			items = append(items, arvados.KeepService{
				UUID: s.UUID, ServiceHost: fmt.Sprintf("keep%d.example", i), ServicePort: 25107,
				ServiceType: "disk", ReadOnly: s.ReadOnly,
			})
		}
		// a gateway that keep-balance must leave alone
		items = append(items, arvados.KeepService{UUID: "zzzzz-bi6l4-gateway00000000", ServiceHost: "gw.example", ServicePort: 25107, ServiceType: "nondisk"})
		off, _ := strconv.Atoi(req.Form.Get("offset"))
		avail := len(items)
		if off > len(items) {
			off = len(items)
		}
		buf, _ := json.Marshal(arvados.KeepServiceList{Items: items[off:], ItemsAvailable: avail, Offset: off})
		return 200, string(buf)
	case p == "/mounts" && si >= 0:
		ms := []arvados.KeepMount{}
		for _, m := range w.all[si] {
			ms = append(ms, m.KeepMount)
		}
		buf, _ := json.Marshal(ms)
		return 200, string(buf)
	case p == "/arvados/v1/users/current":
		return 200, `{"uuid":"zzzzz-tpzed-000000000000000","is_admin":true,"is_active":true}`
	case p == "/discovery/v1/apis/arvados/v1/rest":
		w.ddSeen = true
		return 200, fmt.Sprintf(`{"defaultCollectionReplication":%d,"blobSignatureTtl":%d}`, w.defrepl, w.ttl)
	case strings.HasPrefix(p, "/mounts/") && strings.HasSuffix(p, "/blocks") && si >= 0:
		uuid := strings.TrimSuffix(strings.TrimPrefix(p, "/mounts/"), "/blocks")
		mi := -1
		for i, m := range w.all[si] {
			if m.UUID == uuid {
				mi = i
			}
		}
		if mi < 0 {
			return 404, `{"errors":["no such mount"]}`
		}
		dk := w.devKey(si, mi)
		var out strings.Builder
		for bi, h := range w.hashes {
			for _, r := range w.reps[bi] {
				if w.devKey(int(r[0]), int(r[1])) != dk {
					continue
				}
				t := w.m + r[2]
				if !w.secs[si] {
					t *= 1000000000
				}
				fmt.Fprintf(&out, "%s+123 %d\n", h, t)
			}
		}
		out.WriteString("\n")
		return 200, out.String()
	case (p == "/trash" || p == "/pull") && si >= 0 && req.Method == "PUT":
		if !w.ddSeen {
			var l []interface{}
			if p == "/trash" && json.Unmarshal(body, &l) == nil && len(l) == 0 {
				w.clears++
			} else {
				w.clears += 1000 // anything else before the state was read
			}
			return 200, `{}`
		}
		if w.lastPut[w.host(si)] == nil {
			w.lastPut[w.host(si)] = map[string][]byte{}
		}
		w.lastPut[w.host(si)][p[1:]] = body
		return 200, `{}`
	case p == "/arvados/v1/collections":
		filters := req.Form.Get("filters")
		if strings.Contains(filters, `"modified_at","=",null`) {
			return 200, `{"items":[],"items_available":0}`
		}
		limit, err := strconv.Atoi(req.Form.Get("limit"))
		if err != nil {
			limit = 1000
		}
		var sel []string
		if s := req.Form.Get("select"); s != "" {
			json.Unmarshal([]byte(s), &sel)
		}
		var raw [][]interface{}
		if filters != "" {
			json.Unmarshal([]byte(filters), &raw)
		}
		var items []map[string]interface{}
		for k, c := range w.colls {
			uuid := fmt.Sprintf("zzzzz-4zz18-%015d", k)
			ts := time.Unix(1400000000+int64(k/2), 0).UTC()
			ok := true
			for _, f := range raw {
				a, _ := f[0].(string)
				o, _ := f[1].(string)
				v, _ := f[2].(string)
				var cmp int
				if a == "uuid" {
					cmp = strings.Compare(uuid, v)
				} else {
					t2, _ := time.Parse(time.RFC3339Nano, v)
					if ts.Before(t2) {
						cmp = -1
					} else if ts.After(t2) {
						cmp = 1
					}
				}
				switch o {
				case "=":
					ok = ok && cmp == 0
				case "!=":
					ok = ok && cmp != 0
				case "<":
					ok = ok && cmp < 0
				case "<=":
					ok = ok && cmp <= 0
				case ">":
					ok = ok && cmp > 0
				case ">=":
					ok = ok && cmp >= 0
				default:
					ok = false
				}
			}
			if !ok {
				continue
			}
			mt := ""
			pdh := c.pdh
			if len(c.blocks) == 0 {
				// an empty manifest is accepted only under the portable data hash of the empty collection
				pdh = "d41d8cd98f00b204e9800998ecf8427e+0"
			}
			if len(c.blocks) > 0 {
				mt = "."
				for _, bi := range c.blocks {
					mt += " " + w.hashes[bi] + "+123"
				}
				mt += fmt.Sprintf(" 0:%d:f\n", 123*len(c.blocks))
			}
			full := map[string]interface{}{
				"kind":                    "arvados#collection",
				"uuid":                    uuid,
				"modified_at":             ts.Format(time.RFC3339Nano),
				"portable_data_hash":      pdh,
				"unsigned_manifest_text":  mt,
				"replication_desired":     c.repl,
				"storage_classes_desired": c.classes,
				"name":                    fmt.Sprintf("collection %d", k),
			}
			// the API server (ApplicationController#index) and the controller's router
			// (applySelectParam) return only the selected attributes
			item := full
			if len(sel) > 0 {
				item = map[string]interface{}{"kind": full["kind"]}
				for _, a := range sel {
					if v, ok := full[a]; ok {
						item[a] = v
					}
				}
			}
			items = append(items, item)
		}
		avail := len(items)
		if len(items) > limit {
			items = items[:limit]
		}
		if items == nil {
			items = []map[string]interface{}{}
		}
		resp := map[string]interface{}{"items": items}
		if req.Form.Get("count") != "none" {
			resp["items_available"] = avail
		}
		buf, _ := json.Marshal(resp)
		return 200, string(buf)
	}
	return 404, `{"errors":["not found"]}`
}

func verifC05RunGS(f []string, tmp string) (out string) {
	defer func() {
		if r := recover(); r != nil {
			out = fmt.Sprintf("panic %v", r)
		}
	}()
	if len(f) != 9 || len(f[1]) != 3 || strings.Trim(f[1], "01") != "" || !verifC05Nat10.MatchString(f[2]) ||
		!verifC05Nat.MatchString(f[3]) || !verifC05Nat.MatchString(f[4]) || f[7] == "" {
		return "bad-op"
	}
	m, _ := strconv.ParseInt(f[2], 10, 64)
	if m < 1000000 || m > 4000000000 {
		return "bad-op"
	}
	defrepl, _ := strconv.Atoi(f[3])
	pageSize, _ := strconv.Atoi(f[4])
	if defrepl > 9 || pageSize > 9 {
		return "bad-op"
	}
	probe := &Balancer{KeepServices: map[string]*KeepService{}}
	srvs, all, ok := verifC05Services(probe, f[6])
	if !ok {
		return "bad-op"
	}
	w := &verifC05World{m: m, defrepl: defrepl, srvs: srvs, all: all, lastPut: map[string]map[string][]byte{}}
	if f[5] == "-" {
		if len(srvs) != 0 {
			return "bad-op"
		}
	} else {
		if len(f[5]) != len(srvs) || strings.Trim(f[5], "01") != "" {
			return "bad-op"
		}
		for _, c := range f[5] {
			w.secs = append(w.secs, c == '1')
		}
	}
	seen := map[string]bool{}
	for _, b := range strings.Split(f[7], "~") {
		p := strings.Split(b, ":")
		if len(p) != 2 || !verifC05Hash.MatchString(p[0]) || seen[p[0]] {
			return "bad-op"
		}
		seen[p[0]] = true
		w.hashes = append(w.hashes, p[0])
		var rs [][3]int64
		if p[1] != "-" {
			for _, r := range strings.Split(p[1], ",") {
				at := strings.Split(r, "@")
				if len(at) != 2 || !verifC05Off.MatchString(at[1]) {
					return "bad-op"
				}
				ix := strings.Split(at[0], ".")
				if len(ix) != 2 || !verifC05Nat.MatchString(ix[0]) || !verifC05Nat.MatchString(ix[1]) {
					return "bad-op"
				}
				si, _ := strconv.Atoi(ix[0])
				mi, _ := strconv.Atoi(ix[1])
				if si >= len(all) || mi >= len(all[si]) {
					return "bad-op"
				}
				off, _ := strconv.ParseInt(at[1], 10, 64)
				if off >= 0 && off < 3600 {
					return "bad-op"
				}
				rs = append(rs, [3]int64{int64(si), int64(mi), off})
			}
		}
		w.reps = append(w.reps, rs)
	}
	if f[8] != "-" {
		for _, c := range strings.Split(f[8], "&") {
			q := strings.Split(c, "*")
			if len(q) != 4 || !verifC05Nat.MatchString(q[0]) || (q[1] != "d" && !verifC05Nat.MatchString(q[1])) {
				return "bad-op"
			}
			vc := verifC05Coll{pdh: "pdh" + q[0], classes: []string{}}
			if q[1] != "d" {
				n, _ := strconv.Atoi(q[1])
				vc.repl = &n
			}
			if q[2] != "-" {
				for _, cl := range strings.Split(q[2], "+") {
					if !verifC05Class.MatchString(cl) || strings.HasSuffix(cl, "!") {
						return "bad-op"
					}
					vc.classes = append(vc.classes, cl)
				}
			}
			if q[3] != "-" {
				for _, b := range strings.Split(q[3], "+") {
					if !verifC05Nat.MatchString(b) {
						return "bad-op"
					}
					bi, _ := strconv.Atoi(b)
					if bi >= len(w.hashes) {
						return "bad-op"
					}
					vc.blocks = append(vc.blocks, bi)
				}
			}
			w.colls = append(w.colls, vc)
		}
	}

	logger := logrus.New()
	logger.Out = ioutil.Discard
	client := &arvados.Client{APIHost: "zzzzz.arvadosapi.com", AuthToken: "xyzzy", Client: &http.Client{Transport: w}}
	cluster := &arvados.Cluster{}
	cluster.Collections.BalanceTimeout = arvados.Duration(10 * time.Minute)
	cluster.Collections.BalanceCollectionBatch = pageSize
	cluster.Collections.BalanceCollectionBuffers = 4
	lostFile := filepath.Join(tmp, "c05-lost")
	bal := &Balancer{Logger: logger, Metrics: newMetrics(prometheus.NewRegistry()), LostBlocksFile: lostFile}
	opts := RunOptions{CommitPulls: f[1][0] == '1', CommitTrash: f[1][1] == '1', Logger: logger}
	if f[1][2] == '1' {
		opts.SafeRendezvousState = probe.rendezvousState()
	}
	// bal.MinMtime = now − TTL must fall just above M seconds
	w.ttl = time.Now().Unix() - m
	_, err := bal.Run(client, cluster, opts)

	sent := func(kind string) string {
		res := "none"
		for i := range srvs {
			body, got := w.lastPut[w.host(i)][kind]
			if !got {
				continue
			}
			if res == "none" {
				res = "same"
			}
			var want interface{}
			rs := bal.KeepServices[srvs[i].UUID]
			if rs == nil {
				return "diff"
			}
			if kind == "trash" {
				want = rs.ChangeSet.Trashes
			} else {
				want = rs.ChangeSet.Pulls
			}
			wj, _ := json.Marshal(want)
			var a, b []interface{}
			if json.Unmarshal(wj, &a) != nil || json.Unmarshal(body, &b) != nil || len(a) != len(b) {
				return "diff"
			}
			canon := func(l []interface{}) []string {
				var o []string
				for _, e := range l {
					j, _ := json.Marshal(e)
					o = append(o, string(j))
				}
				sort.Strings(o)
				return o
			}
			ca, cb := canon(a), canon(b)
			for k := range ca {
				if ca[k] != cb[k] {
					return "diff"
				}
			}
		}
		if res == "same" {
			// every service must have received its list
			for i := range srvs {
				if _, got := w.lastPut[w.host(i)][kind]; !got {
					return "diff"
				}
			}
		}
		return res
	}
	tail := fmt.Sprintf("sent=T:%s,P:%s clear=%d", sent("trash"), sent("pull"), w.clears)
	if err != nil {
		msg := err.Error()
		class := "other"
		for _, k := range []string{"received zero collections", "zero blocks have desired replication>0", "Default replication"} {
			if strings.Contains(msg, k) {
				class = strings.Fields(k)[0] + "-" + strings.Fields(k)[1]
			}
		}
		if os.Getenv("VERIF_C05_DEBUG") != "" {
			class += "(" + strings.Replace(msg, " ", "_", -1) + ")"
		}
		return fmt.Sprintf("err %s # %s", class, tail)
	}
	mm := "ok"
	if bal.MinMtime < m*1000000000 || bal.MinMtime >= (m+3600)*1000000000 {
		mm = "off"
	}

	// mounts as Run discovered and cleaned them up
	var ms []string
	live := make([]*KeepService, len(srvs))
	for i, s := range srvs {
		live[i] = bal.KeepServices[s.UUID]
		if live[i] == nil {
			return "service-missing"
		}
		for mi, tm := range all[i] {
			var km *KeepMount
			for _, x := range live[i].mounts {
				if x.UUID == tm.UUID {
					km = x
				}
			}
			if km == nil {
				ms = append(ms, fmt.Sprintf("%d.%d:x", i, mi))
				continue
			}
			ro := 0
			if km.ReadOnly {
				ro = 1
			}
			ms = append(ms, fmt.Sprintf("%d.%d:%d:%d", i, mi, ro, km.Replication))
		}
	}
	if len(bal.KeepServices) != len(srvs) {
		return "service-extra"
	}
	lostRefs := map[string][]string{}
	lostSeen := map[string]bool{}
	lb, _ := ioutil.ReadFile(lostFile)
	for _, line := range strings.Split(strings.TrimSuffix(string(lb), "\n"), "\n") {
		if line == "" {
			continue
		}
		wd := strings.Split(line, " ")
		if lostSeen[wd[0]] {
			return "lost-block-reported-twice"
		}
		lostSeen[wd[0]] = true
		refs := append([]string(nil), wd[1:]...)
		sort.Strings(refs)
		lostRefs[wd[0]] = refs
	}
	dash := func(l []string, sep string) string {
		if len(l) == 0 {
			return "-"
		}
		return strings.Join(l, sep)
	}
	offOf := func(t int64) string {
		if t%1000000000 == 0 && t/1000000000-m > -100000000 && t/1000000000-m < 100000000 {
			return strconv.FormatInt(t/1000000000-m, 10)
		}
		return "\"r" + strconv.FormatInt(t, 10) + "\""
	}
	var blocks []string
	for _, h := range w.hashes {
		if _, present := bal.BlockStateMap.entries[arvados.SizedDigest(h+"+123")]; !present {
			blocks = append(blocks, "absent")
			continue
		}
		var ts, ps []string
		for i, srv := range live {
			var tl []string
			var tlist []Trash
			for _, t := range srv.ChangeSet.Trashes {
				if string(t.SizedDigest[:32]) == h {
					tlist = append(tlist, t)
				}
			}
			sort.Slice(tlist, func(a, b int) bool {
				if tlist[a].From.UUID != tlist[b].From.UUID {
					return tlist[a].From.UUID < tlist[b].From.UUID
				}
				return tlist[a].Mtime < tlist[b].Mtime
			})
			for _, t := range tlist {
				j, err := json.Marshal(t)
				if err != nil {
					return "json-error"
				}
				// print the timestamp relative to M
				js := strings.Replace(string(j), fmt.Sprintf(`"block_mtime":%d`, t.Mtime), `"block_mtime":`+offOf(t.Mtime), 1)
				tl = append(tl, js)
			}
			if len(tl) > 0 {
				ts = append(ts, fmt.Sprintf("%d:[%s]", i, strings.Join(tl, ",")))
			}
			var pl []Pull
			for _, p := range srv.ChangeSet.Pulls {
				if string(p.SizedDigest[:32]) == h {
					pl = append(pl, p)
				}
			}
			if len(pl) > 0 {
				sort.Slice(pl, func(a, b int) bool { return pl[a].To.UUID < pl[b].To.UUID })
				j, err := json.Marshal(pl)
				if err != nil {
					return "json-error"
				}
				ps = append(ps, fmt.Sprintf("%d:%s", i, j))
			}
		}
		lost := 0
		if lostSeen[h] {
			lost = 1
		}
		blocks = append(blocks, fmt.Sprintf("lost=%d T=%s P=%s refs=%s", lost, dash(ts, ";"), dash(ps, ";"), dash(lostRefs[h], ",")))
	}
	return fmt.Sprintf("classes=%s mounts=%s # %s # stats=lost:%d,trashes:%d,pulls:%d # %s minmtime=%s",
		strings.Join(bal.classes, ","), dash(ms, ","), strings.Join(blocks, " ~ "),
		bal.stats.lost.blocks, bal.stats.trashes, bal.stats.pulls, tail, mm)
}
