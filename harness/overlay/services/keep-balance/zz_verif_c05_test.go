// Verification driver for C05 (keep-balance's per-block trash/pull decisions). Injected with
// `go test -overlay`; nothing is written into /repo.
//
// Case line (fields separated by one space):
//
//	bb <hash32> <minMtime> <services> <replicas> <desired>
//	services := "-" | svc (";" svc)*        svc   := uuid "/" ro "/" ("-" | mount ("|" mount)*)
//	mount    := dev "," ro "," repl "," ("-" | class ("+" class)*)      dev "-" = blank DeviceID
//	class    := name | name "!"             ("!" = map value false; the key still counts in the code)
//	replicas := "-" | rep ("," rep)*        rep   := <svc index> "." <mount index> "@" <mtime>
//	desired  := "-" | name "=" n ("," name "=" n)*
//
// Result line:
//
//	classes=<bal.classes> mounts=<si.mi:ro:repl | si.mi:x (dropped by cleanupMounts)>,... # lost=<0|1>
//	T=<si>:<JSON of that service's trash list>;... P=<si>:<JSON of its pull list>;...
//	bs=<needed,unneeded,pulling,unachievable> cs=<class:needed,unneeded,pulling,unachievable;...>
package main

import (
	"bufio"
	"encoding/json"
	"fmt"
	"io/ioutil"
	"log"
	"os"
	"regexp"
	"sort"
	"strconv"
	"strings"
	"testing"

	"git.arvados.org/arvados.git/sdk/go/arvados"
	"github.com/sirupsen/logrus"
)

var (
	verifC05Hash  = regexp.MustCompile(`^[0-9a-f]{32}$`)
	verifC05Int   = regexp.MustCompile(`^-?[0-9]{1,18}$`)
	verifC05Nat   = regexp.MustCompile(`^[0-9]{1,6}$`)
	verifC05UUID  = regexp.MustCompile(`^[a-z0-9-]+$`)
	verifC05Dev   = regexp.MustCompile(`^[A-Za-z0-9_.]+$`)
	verifC05Class = regexp.MustCompile(`^[a-z0-9_]+!?$`)
)

func verifC05MountUUID(si, mi int) string {
	return fmt.Sprintf("zzzzz-nyw5e-s%05dm%08d", si, mi)
}

func verifC05BS(b balancedBlockState) string {
	u := 0
	if b.unachievable {
		u = 1
	}
	return fmt.Sprintf("%d,%d,%d,%d", b.needed, b.unneeded, b.pulling, u)
}

// verifC05Services builds the keep services and their mounts from the <services> field.
func verifC05Services(bal *Balancer, spec string) (srvs []*KeepService, all [][]*KeepMount, ok bool) {
	if spec != "-" {
		for si, s := range strings.Split(spec, ";") {
			p := strings.Split(s, "/")
			if len(p) != 3 || !verifC05UUID.MatchString(p[0]) || (p[1] != "0" && p[1] != "1") || bal.KeepServices[p[0]] != nil {
				return nil, nil, false
			}
			srv := &KeepService{KeepService: arvados.KeepService{
				UUID:        p[0],
				ServiceHost: fmt.Sprintf("keep%d.example", si),
				ServicePort: 25107,
				ServiceType: "disk",
				ReadOnly:    p[1] == "1",
			}, ChangeSet: &ChangeSet{}}
			if p[2] != "-" {
				for mi, m := range strings.Split(p[2], "|") {
					q := strings.Split(m, ",")
					if len(q) != 4 || (q[0] != "-" && !verifC05Dev.MatchString(q[0])) || (q[1] != "0" && q[1] != "1") || !verifC05Int.MatchString(q[2]) {
						return nil, nil, false
					}
					repl, _ := strconv.Atoi(q[2])
					km := arvados.KeepMount{UUID: verifC05MountUUID(si, mi), ReadOnly: q[1] == "1", Replication: repl}
					if q[0] != "-" {
						km.DeviceID = q[0]
					}
					if q[3] != "-" {
						km.StorageClasses = map[string]bool{}
						for _, c := range strings.Split(q[3], "+") {
							if !verifC05Class.MatchString(c) {
								return nil, nil, false
							}
							name := strings.TrimSuffix(c, "!")
							if _, dup := km.StorageClasses[name]; dup {
								return nil, nil, false
							}
							km.StorageClasses[name] = !strings.HasSuffix(c, "!")
						}
					}
					srv.mounts = append(srv.mounts, &KeepMount{KeepMount: km, KeepService: srv})
				}
			}
			srvs = append(srvs, srv)
			all = append(all, append([]*KeepMount(nil), srv.mounts...))
			bal.KeepServices[srv.UUID] = srv
		}
	}
	return srvs, all, true
}

func verifC05Run(f []string) (out string) {
	defer func() {
		if r := recover(); r != nil {
			out = fmt.Sprintf("panic %v", r)
		}
	}()
	if len(f) != 6 || f[0] != "bb" || !verifC05Hash.MatchString(f[1]) || !verifC05Int.MatchString(f[2]) {
		return "bad-op"
	}
	minMtime, _ := strconv.ParseInt(f[2], 10, 64)
	logger := logrus.New()
	logger.Out = ioutil.Discard
	bal := &Balancer{Logger: logger, KeepServices: map[string]*KeepService{}, MinMtime: minMtime}
	srvs, all, ok := verifC05Services(bal, f[3])
	if !ok {
		return "bad-op"
	}
	blk := &BlockState{Desired: map[string]int{}}
	if f[4] != "-" {
		for _, r := range strings.Split(f[4], ",") {
			at := strings.Split(r, "@")
			if len(at) != 2 || !verifC05Int.MatchString(at[1]) {
				return "bad-op"
			}
			ix := strings.Split(at[0], ".")
			if len(ix) != 2 || !verifC05Nat.MatchString(ix[0]) || !verifC05Nat.MatchString(ix[1]) {
				return "bad-op"
			}
			si, _ := strconv.Atoi(ix[0])
			mi, _ := strconv.Atoi(ix[1])
			if si >= len(all) || mi >= len(all[si]) {
				return "bad-op"
			}
			mt, _ := strconv.ParseInt(at[1], 10, 64)
			blk.Replicas = append(blk.Replicas, Replica{KeepMount: all[si][mi], Mtime: mt})
		}
	}
	if f[5] != "-" {
		for _, d := range strings.Split(f[5], ",") {
			kv := strings.Split(d, "=")
			if len(kv) != 2 || !verifC05Class.MatchString(kv[0]) || strings.HasSuffix(kv[0], "!") || !verifC05Nat.MatchString(kv[1]) {
				return "bad-op"
			}
			if _, dup := blk.Desired[kv[0]]; dup {
				return "bad-op"
			}
			blk.Desired[kv[0]], _ = strconv.Atoi(kv[1])
		}
	}

	bal.cleanupMounts()
	bal.setupLookupTables()
	res := bal.balanceBlock(arvados.SizedDigest(f[1]+"+123"), blk)

	var ms []string
	for si, srv := range srvs {
		for mi, mnt := range all[si] {
			kept := false
			for _, m := range srv.mounts {
				kept = kept || m == mnt
			}
			if !kept {
				ms = append(ms, fmt.Sprintf("%d.%d:x", si, mi))
				continue
			}
			ro := 0
			if mnt.ReadOnly {
				ro = 1
			}
			ms = append(ms, fmt.Sprintf("%d.%d:%d:%d", si, mi, ro, mnt.Replication))
		}
	}
	var ts, ps []string
	for si, srv := range srvs {
		if len(srv.ChangeSet.Trashes) > 0 {
			l := srv.ChangeSet.Trashes
			sort.Slice(l, func(i, j int) bool {
				if l[i].From.UUID != l[j].From.UUID {
					return l[i].From.UUID < l[j].From.UUID
				}
				return l[i].Mtime < l[j].Mtime
			})
			j, err := json.Marshal(l)
			if err != nil {
				return "json-error"
			}
			ts = append(ts, fmt.Sprintf("%d:%s", si, j))
		}
		if len(srv.ChangeSet.Pulls) > 0 {
			l := srv.ChangeSet.Pulls
			sort.Slice(l, func(i, j int) bool { return l[i].To.UUID < l[j].To.UUID })
			j, err := json.Marshal(l)
			if err != nil {
				return "json-error"
			}
			ps = append(ps, fmt.Sprintf("%d:%s", si, j))
		}
	}
	var cs []string
	for _, c := range bal.classes {
		cs = append(cs, c+":"+verifC05BS(res.classState[c]))
	}
	lost := 0
	if res.lost {
		lost = 1
	}
	dash := func(l []string, sep string) string {
		if len(l) == 0 {
			return "-"
		}
		return strings.Join(l, sep)
	}
	return fmt.Sprintf("classes=%s mounts=%s # lost=%d T=%s P=%s bs=%s cs=%s",
		strings.Join(bal.classes, ","), dash(ms, ","), lost, dash(ts, ";"), dash(ps, ";"),
		verifC05BS(res.blockState), dash(cs, ";"))
}

func TestVerifC05(t *testing.T) {
	in, err := os.Open(os.Getenv("VERIF_CASES"))
	if err != nil {
		t.Skip("VERIF_CASES not set")
	}
	defer in.Close()
	outf, err := os.Create(os.Getenv("VERIF_OUT"))
	if err != nil {
		t.Fatal(err)
	}
	defer outf.Close()
	w := bufio.NewWriter(outf)
	defer w.Flush()
	log.SetOutput(ioutil.Discard) // cleanupMounts reports replication<=0 through the global logger
	tmp := t.TempDir()
	sc := bufio.NewScanner(in)
	sc.Buffer(make([]byte, 1<<20), 1<<26)
	for sc.Scan() {
		f := strings.Split(sc.Text(), " ")
		if len(f) > 0 && f[0] == "cs" {
			fmt.Fprintln(w, verifC05RunCS(f))
		} else if len(f) > 0 && f[0] == "gs" {
			fmt.Fprintln(w, verifC05RunGS(f, tmp))
		} else {
			fmt.Fprintln(w, verifC05Run(f))
		}
	}
}
