// Verification driver for C06 (keep-balance acts only on a complete view). Injected with
// `go test -overlay`; not part of the repository. One result line per case line.
//
//   page <pageSize> <cap> <pop> <sched> <fail> <cbfail>
//        runs the real EachCollection against an in-process stub of the collections list endpoint
//        over a scripted table; prints every request (count, limit, order, filters, flags) and every
//        callback uuid in order, then the class of the returned error.
//   run <flags> <nsvc> <ncoll> <pagesize> <kind>
//        runs the real Balancer.Run against stub API + stub keepstores, once without a failure and
//        once per request number j with a failure (<kind>) injected at the j-th request; prints for
//        each run which step of Run the failing request belongs to, whether Run returned an error
//        and the pull/trash requests that arrived after the failure.
//        <kind> = gate: interleaving exploration of GetCurrentState. The check builds keep-balance with an
//        add-only instrumented copy of the current balance.go (verifC06Point before every statement of the
//        goroutines GetCurrentState starts). For one mount's index request, for the collection processor
//        and the collection scanner ("other"), for a sample of hold positions j and for every pause
//        position p: "other" is held at its j-th statement, then the index request fails, the failing
//        worker runs up to its p-th statement after the failure and pauses there while "other" is
//        released and runs on (6 statements or to its end), then the worker continues.
//   gcs <nsvc> <ncoll> <pagesize> <bufs> <idxfail> <badcoll> <pagefail> <other> <hold> <pause>
//        one run of the real GetCurrentState (instrumented) with the index request of server <idxfail>
//        failing ("-" = none) under the interleaving (<other>, <hold>, <pause>) as above (0 0 0 = free
//        running), collection <badcoll> carrying a malformed manifest (addCollection fails) and the
//        <pagefail>-th collections request answered with a 500; prints the label path of every goroutine
//        (w=…;…|p=…|s=…), whether GetCurrentState returned an error, and the number of collections requests.
package main

import (
	"bufio"
	"bytes"
	"context"
	"encoding/json"
	"errors"
	"fmt"
	"io"
	"io/ioutil"
	"net/http"
	"net/http/httptest"
	"os"
	"path/filepath"
	"runtime"
	"sort"
	"strconv"
	"strings"
	"sync"
	"testing"
	"time"

	"git.arvados.org/arvados.git/sdk/go/arvados"
	"github.com/prometheus/client_golang/prometheus"
	"github.com/sirupsen/logrus"
)

// ---------------------------------------------------------------------------- (a) paging

var verifC06Base = time.Date(2020, 1, 1, 0, 0, 0, 0, time.UTC)

const verifC06Tick = 1000003 // ns per model time unit (odd, so that sub-second digits vary)

func verifC06Time(t int) time.Time {
	if t == 0 {
		return time.Time{}
	}
	return verifC06Base.Add(time.Duration(t) * verifC06Tick)
}

// verifC06TimeBack renders a timestamp operand as the model's natural number.
func verifC06TimeBack(s string) string {
	tm, err := time.Parse(time.RFC3339Nano, s)
	if err != nil {
		return "badtime(" + s + ")"
	}
	if tm.IsZero() {
		return "0"
	}
	d := tm.Sub(verifC06Base)
	if d <= 0 || d%verifC06Tick != 0 {
		return "offgrid(" + s + ")"
	}
	return strconv.Itoa(int(d / verifC06Tick))
}

func verifC06UUID(u int) string { return fmt.Sprintf("zzzzz-4zz18-%015d", u) }

func verifC06UUIDBack(s string) string {
	if !strings.HasPrefix(s, "zzzzz-4zz18-") || len(s) != 27 {
		return "baduuid(" + s + ")"
	}
	n, err := strconv.Atoi(strings.TrimLeft(s[12:], "0"))
	if err != nil {
		if strings.Trim(s[12:], "0") == "" {
			return "0"
		}
		return "baduuid(" + s + ")"
	}
	return strconv.Itoa(n)
}

type verifC06Row struct {
	uuid int
	time int
}

type verifC06Op struct {
	kind byte
	u, t int
}

type verifC06API struct {
	mtx      sync.Mutex
	rows     []verifC06Row
	sched    map[int][]verifC06Op
	cap      int
	fails    map[int]string // request number -> failure kind ("" = 500); a fault sequence has several entries
	failKind string         // kind of the failure being served
	nreq     int
	trace    []string
	budget   int  // more collections requests than this = the scan is not terminating
	runaway  bool
	cutLen   int         // fail kind "c": the failing response is cut to this many bytes
	bodyLen  map[int]int // length of the complete body of request k
}

var verifC06LastAPI *verifC06API

func (api *verifC06API) apply(op verifC06Op) {
	switch op.kind {
	case 'm':
		for i := range api.rows {
			if api.rows[i].uuid == op.u {
				api.rows[i].time = op.t
			}
		}
	case 'a', 'd':
		var keep []verifC06Row
		for _, r := range api.rows {
			if r.uuid != op.u {
				keep = append(keep, r)
			}
		}
		if op.kind == 'a' {
			keep = append(keep, verifC06Row{op.u, op.t})
		}
		api.rows = keep
	}
}

type verifC06Filter struct {
	attr, op string
	operand  interface{}
}

func (f verifC06Filter) render() string {
	var v string
	switch x := f.operand.(type) {
	case nil:
		v = "null"
	case string:
		if f.attr == "modified_at" {
			v = verifC06TimeBack(x)
		} else if f.attr == "uuid" {
			v = verifC06UUIDBack(x)
		} else {
			v = x
		}
	default:
		v = fmt.Sprintf("%v", x)
	}
	return f.attr + f.op + v
}

// match evaluates one filter on one row the way the API server's SQL would.
func (f verifC06Filter) match(r verifC06Row) (bool, error) {
	cmp := 0
	switch f.attr {
	case "modified_at":
		s, ok := f.operand.(string)
		if !ok {
			if f.operand == nil && f.op == "=" {
				return r.time == 0, nil
			}
			return false, fmt.Errorf("bad operand")
		}
		tm, err := time.Parse(time.RFC3339Nano, s)
		if err != nil {
			return false, err
		}
		rt := verifC06Time(r.time)
		switch {
		case rt.Before(tm):
			cmp = -1
		case rt.After(tm):
			cmp = 1
		}
	case "uuid":
		s, ok := f.operand.(string)
		if !ok {
			return false, fmt.Errorf("bad operand")
		}
		cmp = strings.Compare(verifC06UUID(r.uuid), s)
	default:
		return false, fmt.Errorf("unsupported attr %q", f.attr)
	}
	switch f.op {
	case "=":
		return cmp == 0, nil
	case "!=":
		return cmp != 0, nil
	case "<":
		return cmp < 0, nil
	case "<=":
		return cmp <= 0, nil
	case ">":
		return cmp > 0, nil
	case ">=":
		return cmp >= 0, nil
	}
	return false, fmt.Errorf("unsupported operator %q", f.op)
}

func verifC06Resp(req *http.Request, code int, body string) *http.Response {
	return &http.Response{
		StatusCode: code,
		Status:     fmt.Sprintf("%d %s", code, http.StatusText(code)),
		Header:     http.Header{"Content-Type": {"application/json"}},
		Body:       ioutil.NopCloser(strings.NewReader(body)),
		Request:    req,
	}
}

func (api *verifC06API) RoundTrip(req *http.Request) (*http.Response, error) {
	api.mtx.Lock()
	defer api.mtx.Unlock()
	if req.URL.Path != "/arvados/v1/collections" {
		return verifC06Resp(req, 404, `{"errors":["not found"]}`), nil
	}
	if err := req.ParseForm(); err != nil {
		return verifC06Resp(req, 400, `{"errors":["bad form"]}`), nil
	}
	k := api.nreq
	api.nreq++
	if k >= api.budget {
		api.runaway = true
		return nil, errors.New("verif: request budget exceeded")
	}
	for _, op := range api.sched[k] {
		api.apply(op)
	}
	form := req.Form
	var filters []verifC06Filter
	if fs := form.Get("filters"); fs != "" {
		var raw [][]interface{}
		if err := json.Unmarshal([]byte(fs), &raw); err != nil {
			return verifC06Resp(req, 422, `{"errors":["bad filters"]}`), nil
		}
		for _, r := range raw {
			if len(r) != 3 {
				return verifC06Resp(req, 422, `{"errors":["bad filter"]}`), nil
			}
			a, _ := r[0].(string)
			o, _ := r[1].(string)
			filters = append(filters, verifC06Filter{a, o, r[2]})
		}
	}
	var fr []string
	for _, f := range filters {
		fr = append(fr, f.render())
	}
	fstr := "-"
	if len(fr) > 0 {
		fstr = strings.Join(fr, ",")
	}
	flags := ""
	if form.Get("include_trash") == "true" {
		flags += "t"
	}
	if form.Get("include_old_versions") == "true" {
		flags += "o"
	}
	order := strings.Replace(form.Get("order"), " ", "", -1)
	api.trace = append(api.trace, fmt.Sprintf("q:%s:%s:%s:%s:%s", form.Get("count"), form.Get("limit"), order, fstr, flags))
	cut := false
	if kind, failing := api.fails[k]; failing {
		api.failKind = kind
		switch kind {
		case "n":
			return nil, errors.New("verif: injected transport error")
		case "j":
			return verifC06Resp(req, 200, `{"items":[{"uuid":"zzzzz-4zz18-0000`), nil
		case "e", "b", "h", "l", "c":
			cut = true // 200 with the real body cut short: at byte 0, 1, half, last, or api.cutLen
		default:
			return verifC06Resp(req, 500, `{"errors":["verif: injected failure"]}`), nil
		}
	}
	var rows []verifC06Row
	for _, r := range api.rows {
		ok := true
		for _, f := range filters {
			m, err := f.match(r)
			if err != nil {
				return verifC06Resp(req, 422, `{"errors":["`+err.Error()+`"]}`), nil
			}
			ok = ok && m
		}
		if ok {
			rows = append(rows, r)
		}
	}
	avail := len(rows)
	switch order {
	case "modified_at,uuid":
		sort.SliceStable(rows, func(i, j int) bool {
			ti, tj := verifC06Time(rows[i].time), verifC06Time(rows[j].time)
			if !ti.Equal(tj) {
				return ti.Before(tj)
			}
			return verifC06UUID(rows[i].uuid) < verifC06UUID(rows[j].uuid)
		})
	case "":
	default:
		return verifC06Resp(req, 422, `{"errors":["unsupported order"]}`), nil
	}
	limit := 100
	if l := form.Get("limit"); l != "" {
		n, err := strconv.Atoi(l)
		if err != nil || n < 0 {
			return verifC06Resp(req, 422, `{"errors":["bad limit"]}`), nil
		}
		limit = n
	}
	if api.cap > 0 && limit > api.cap {
		limit = api.cap
	}
	if len(rows) > limit {
		rows = rows[:limit]
	}
	type item struct {
		UUID       string    `json:"uuid"`
		ModifiedAt time.Time `json:"modified_at"`
		PDH        string    `json:"portable_data_hash"`
		Manifest   string    `json:"unsigned_manifest_text"`
	}
	out := struct {
		Items          []item `json:"items"`
		ItemsAvailable *int   `json:"items_available,omitempty"`
	}{Items: []item{}}
	for _, r := range rows {
		out.Items = append(out.Items, item{verifC06UUID(r.uuid), verifC06Time(r.time), "d41d8cd98f00b204e9800998ecf8427e+0", ""})
	}
	if form.Get("count") != "none" {
		out.ItemsAvailable = &avail
	}
	buf, _ := json.Marshal(out)
	if api.bodyLen == nil {
		api.bodyLen = map[int]int{}
	}
	api.bodyLen[k] = len(buf)
	if cut {
		n := 0
		switch api.failKind {
		case "b":
			n = 1
		case "h":
			n = len(buf) / 2
		case "l":
			n = len(buf) - 1
		case "c":
			n = api.cutLen
		}
		if n >= len(buf) {
			n = len(buf) - 1
		}
		return verifC06Resp(req, 200, string(buf[:n])), nil
	}
	return verifC06Resp(req, 200, string(buf)), nil
}

// verifC06PageCut: `pagecut <pageSize> <pop> <k>` — the k-th collections request of a scan over a static
// table is answered with status 200 and its real body cut to n bytes, for every n from 0 to len-1.
// Prints len=<len> ok=<n:complete|n:missing.<uuid>,…> listing the cuts after which the scan returned nil.
func verifC06PageCut(f []string) string {
	if len(f) != 4 {
		return "bad-op"
	}
	k, err := strconv.Atoi(f[3])
	if err != nil || k < 0 {
		return "bad-op"
	}
	line := []string{"page", f[1], "0", f[2], "-", "-", "-"}
	if r := verifC06Page(line); r == "bad-op" {
		return "bad-op"
	}
	total, made := verifC06LastAPI.bodyLen[k]
	if !made {
		return "len=0 ok=-"
	}
	var want []string
	if f[2] != "-" {
		for _, p := range strings.Split(f[2], ",") {
			want = append(want, strings.Split(p, ":")[0])
		}
	}
	var ok []string
	for n := 0; n < total; n++ {
		line[5] = fmt.Sprintf("%dc%d", k, n)
		r := verifC06Page(line)
		i := strings.LastIndex(r, "=")
		if i < 0 {
			return "unexpected " + r
		}
		if r[i+1:] != "ok" {
			continue
		}
		seen := map[string]bool{}
		for _, e := range strings.Split(r[:i], "|") {
			if strings.HasPrefix(e, "c:") {
				seen[e[2:]] = true
			}
		}
		verdict := "complete"
		for _, u := range want {
			if !seen[u] {
				verdict = "missing." + u
				break
			}
		}
		ok = append(ok, fmt.Sprintf("%d:%s", n, verdict))
	}
	if len(ok) == 0 {
		return fmt.Sprintf("len=%d ok=-", total)
	}
	return fmt.Sprintf("len=%d ok=%s", total, strings.Join(ok, ","))
}

var verifC06ErrCallback = errors.New("verif: callback error")

func verifC06Page(f []string) string {
	if len(f) != 7 {
		return "bad-op"
	}
	pageSize, err1 := strconv.Atoi(f[1])
	cp, err2 := strconv.Atoi(f[2])
	if err1 != nil || err2 != nil {
		return "bad-op"
	}
	api := &verifC06API{sched: map[int][]verifC06Op{}, cap: cp, fails: map[int]string{}}
	verifC06LastAPI = api
	if f[3] != "-" {
		for _, p := range strings.Split(f[3], ",") {
			ut := strings.Split(p, ":")
			if len(ut) != 2 {
				return "bad-op"
			}
			u, e1 := strconv.Atoi(ut[0])
			t, e2 := strconv.Atoi(ut[1])
			if e1 != nil || e2 != nil {
				return "bad-op"
			}
			api.rows = append(api.rows, verifC06Row{u, t})
		}
	}
	if f[4] != "-" {
		for _, item := range strings.Split(f[4], ";") {
			i := strings.Index(item, ":")
			if i < 0 {
				return "bad-op"
			}
			k, err := strconv.Atoi(item[:i])
			if err != nil {
				return "bad-op"
			}
			for _, o := range strings.Split(item[i+1:], ",") {
				if len(o) < 2 {
					return "bad-op"
				}
				op := verifC06Op{kind: o[0]}
				ut := strings.Split(o[1:], ":")
				var e1, e2 error
				op.u, e1 = strconv.Atoi(ut[0])
				if op.kind == 'd' {
					if len(ut) != 1 {
						return "bad-op"
					}
				} else if op.kind == 'm' || op.kind == 'a' {
					if len(ut) != 2 {
						return "bad-op"
					}
					op.t, e2 = strconv.Atoi(ut[1])
				} else {
					return "bad-op"
				}
				if e1 != nil || e2 != nil {
					return "bad-op"
				}
				api.sched[k] = append(api.sched[k], op)
			}
		}
	}
	if f[5] != "-" {
		// one failure `<k>[kind]`, or a fault sequence `<k>[kind]+<k>[kind]+…`
		for _, s := range strings.Split(f[5], "+") {
			kind := ""
			if i := strings.IndexByte(s, 'c'); i > 0 {
				n, err := strconv.Atoi(s[i+1:])
				if err != nil {
					return "bad-op"
				}
				kind, api.cutLen, s = "c", n, s[:i]
			} else if n := len(s); n > 0 && strings.IndexByte("njebhl", s[n-1]) >= 0 {
				kind = s[n-1:]
				s = s[:n-1]
			}
			k, err := strconv.Atoi(s)
			if err != nil || k < 0 {
				return "bad-op"
			}
			if _, dup := api.fails[k]; dup {
				return "bad-op"
			}
			api.fails[k] = kind
		}
	}
	cbFail := -1
	if f[6] != "-" {
		n, err := strconv.Atoi(f[6])
		if err != nil {
			return "bad-op"
		}
		cbFail = n
	}
	// C06_paging_progress: at most K + 3*|table| + 3 page requests once the table is constant from
	// request K on (+ the two count requests); anything beyond a generous multiple of that is reported
	// as a scan that does not terminate.
	nops, maxk := 0, 0
	for k, ops := range api.sched {
		nops += len(ops)
		if k > maxk {
			maxk = k
		}
	}
	api.budget = maxk + 4*(len(api.rows)+nops) + 16
	client := &arvados.Client{APIHost: "zzzzz.arvadosapi.com", AuthToken: "xyzzy", Client: &http.Client{Transport: api}}
	ctx, cancel := context.WithTimeout(context.Background(), 60*time.Second)
	defer cancel()
	calls := 0
	err := EachCollection(ctx, client, pageSize, func(c arvados.Collection) error {
		api.mtx.Lock()
		api.trace = append(api.trace, "c:"+verifC06UUIDBack(c.UUID))
		api.mtx.Unlock()
		calls++
		if calls-1 == cbFail {
			return verifC06ErrCallback
		}
		return nil
	}, nil)
	out := "ok"
	switch {
	case err == nil:
	case api.runaway:
		out = "runaway"
	case err == verifC06ErrCallback:
		out = "err-callback"
	case ctx.Err() != nil:
		out = "timeout"
	case strings.HasPrefix(err.Error(), "BUG:"):
		out = "err-bug"
	case strings.HasPrefix(err.Error(), "Retrieved "):
		out = "err-count"
	default:
		out = "err-request"
	}
	return strings.Join(api.trace, "|") + "=" + out
}

// ---------------------------------------------------------------------------- schedule controller

// verifC06Ctl is consulted by the hook the instrumenter inserted into GetCurrentState's goroutines.
var verifC06Ctl *verifC06Sched

func verifC06Point(label string) {
	if c := verifC06Ctl; c != nil {
		c.point(label)
	}
}

func verifC06Goid() int64 {
	var buf [64]byte
	n := runtime.Stack(buf[:], false)
	s := strings.TrimPrefix(string(buf[:n]), "goroutine ")
	if i := strings.IndexByte(s, ' '); i > 0 {
		id, _ := strconv.ParseInt(s[:i], 10, 64)
		return id
	}
	return -1
}

type verifC06Sched struct {
	mtx sync.Mutex
	// parameters (0 = count only)
	other   int // goroutine literal held before the failure: 1 = collection processor, 2 = collection scanner
	holdAt  int // "other" is held at its holdAt-th statement until the failing worker reaches its pause
	pauseAt int // the failing worker pauses at its pauseAt-th statement after the failure ...
	advance int // ... until "other" has executed this many further statements, or has ended
	// state
	counts        map[int]int // statements executed per goroutine literal
	victim        int64       // goroutine id of the worker whose request failed (0: not yet)
	victimPts     int
	otherHeld     bool
	otherReleased bool
	otherExit     bool
	seenPoints    bool
	record        bool
	lit           map[int64]int   // goroutine id -> goroutine literal
	paths         map[int64][]int // goroutine id -> labels reported (0 = exit)
	order         []int64
}

func (c *verifC06Sched) waitFor(cond func() bool, d time.Duration) {
	deadline := time.Now().Add(d)
	for {
		c.mtx.Lock()
		ok := cond()
		c.mtx.Unlock()
		if ok || time.Now().After(deadline) {
			return
		}
		time.Sleep(200 * time.Microsecond)
	}
}

func (c *verifC06Sched) point(label string) {
	if len(label) < 4 || label[0] != 'g' {
		return
	}
	dot := strings.IndexByte(label, '.')
	g, err := strconv.Atoi(label[1:dot])
	if err != nil {
		return
	}
	exit := label[dot+1:] == "exit"
	id := verifC06Goid()
	c.mtx.Lock()
	c.seenPoints = true
	if !exit {
		c.counts[g]++
	}
	if c.record {
		if _, ok := c.paths[id]; !ok {
			c.lit[id] = g
			c.order = append(c.order, id)
		}
		n := 0
		if !exit {
			n, _ = strconv.Atoi(label[dot+1:])
		}
		c.paths[id] = append(c.paths[id], n)
	}
	if c.victim != 0 && id == c.victim {
		if exit {
			c.otherReleased = true
			c.mtx.Unlock()
			return
		}
		c.victimPts++
		if c.pauseAt > 0 && c.victimPts == c.pauseAt {
			c.otherReleased = true
			base := c.counts[c.other]
			c.mtx.Unlock()
			c.waitFor(func() bool { return c.otherExit || c.counts[c.other] >= base+c.advance }, 500*time.Millisecond)
			return
		}
		c.mtx.Unlock()
		return
	}
	if c.holdAt > 0 && g == c.other {
		if exit {
			c.otherExit = true
			c.mtx.Unlock()
			return
		}
		if c.counts[g] == c.holdAt && !c.otherReleased {
			c.otherHeld = true
			c.mtx.Unlock()
			c.waitFor(func() bool { return c.otherReleased }, 3*time.Second)
			return
		}
	}
	c.mtx.Unlock()
}

// gate parks the failing request until "other" is held (or has ended), then marks the calling
// goroutine as the failing worker.
func (c *verifC06Sched) gate() {
	if c.holdAt > 0 {
		c.waitFor(func() bool { return c.otherHeld || c.otherExit }, 3*time.Second)
	}
	c.mtx.Lock()
	c.victim = verifC06Goid()
	c.mtx.Unlock()
}

// ---------------------------------------------------------------------------- (c) sweep abort

type verifC06World struct {
	mtx      sync.Mutex
	nsvc     int
	ncoll    int
	failAt   int
	failKind string
	nreq     int
	ddSeen   bool
	failed   bool   // the injected failure has happened
	failStep string // step of Run the failing request belongs to
	gateHost string // gate mode: the index request of this host fails, under control of sched
	badColl  int    // index of the collection whose manifest is malformed (-1: none)
	pageFail int    // this collections request (0-based, null-check excluded) is answered with a 500 (-1: none)
	pageFailEmpty bool // … or with status 200 and a zero-length body
	collReqs int
	sched    *verifC06Sched
	// commit requests seen after the failure (or, without a failure, after GetCurrentState began)
	pullsAfter, trashAfter, nonemptyAfter int
	pulls, trash, nonempty                int
	trashAfterDD                          int
}

func (w *verifC06World) host(i int) string { return fmt.Sprintf("keep%d.zzzzz.arvadosapi.com:25107", i) }

func (w *verifC06World) stepOf(req *http.Request) string {
	p := req.URL.Path
	switch {
	case p == "/arvados/v1/keep_services":
		return "bal.DiscoverKeepServices"
	case p == "/mounts":
		return "srv.discoverMounts"
	case p == "/arvados/v1/users/current":
		return "bal.CheckSanityEarly"
	case p == "/arvados/v1/collections" && strings.Contains(req.Form.Get("filters"), `"modified_at","=",null`):
		return "bal.CheckSanityEarly"
	case p == "/trash" && !w.ddSeen:
		return "bal.ClearTrashLists"
	case p == "/trash":
		return "bal.CommitTrash"
	case p == "/pull":
		return "bal.CommitPulls"
	case p == "/discovery/v1/apis/arvados/v1/rest", p == "/arvados/v1/collections", strings.HasPrefix(p, "/mounts/"):
		return "bal.GetCurrentState"
	}
	return "unknown(" + p + ")"
}

func (w *verifC06World) RoundTrip(req *http.Request) (*http.Response, error) {
	var body []byte
	if req.Body != nil {
		body, _ = ioutil.ReadAll(req.Body)
		req.Body.Close()
		req.Body = ioutil.NopCloser(bytes.NewReader(body))
	}
	if w.gateHost != "" && req.URL.Host == w.gateHost && strings.HasPrefix(req.URL.Path, "/mounts/") {
		w.mtx.Lock()
		w.nreq++
		w.mtx.Unlock()
		w.sched.gate()
		w.mtx.Lock()
		w.failed = true
		w.failStep = "bal.GetCurrentState"
		w.mtx.Unlock()
		return nil, errors.New("verif: injected transport error (gated)")
	}
	w.mtx.Lock()
	defer w.mtx.Unlock()
	if req.Method != "PUT" {
		req.ParseForm()
	}
	j := w.nreq
	w.nreq++
	step := w.stepOf(req)
	p := req.URL.Path
	if p == "/discovery/v1/apis/arvados/v1/rest" {
		w.ddSeen = true
	}
	if p == "/pull" || p == "/trash" {
		var list []interface{}
		json.Unmarshal(body, &list)
		ne := 0
		if len(list) > 0 {
			ne = 1
		}
		if p == "/pull" {
			w.pulls++
		} else {
			w.trash++
			if w.ddSeen {
				w.trashAfterDD++
			}
		}
		w.nonempty += ne
		if w.failed {
			w.nonemptyAfter += ne
			if p == "/pull" {
				w.pullsAfter++
			} else {
				w.trashAfter++
			}
		}
	}
	code, out := w.serve(req)
	if j == w.failAt {
		w.failed = true
		w.failStep = step
		kind := w.failKind
		if (kind == "trunc" || kind == "empty") && req.Method == "PUT" {
			kind = "500" // a truncated body of a PUT response is not a failure
		}
		switch kind {
		case "empty":
			return verifC06Resp(req, code, ""), nil
		case "net":
			return nil, errors.New("verif: injected transport error")
		case "trunc":
			return verifC06Resp(req, code, out[:len(out)/2]), nil
		case "trunc1":
			if req.Method == "PUT" || len(out) == 0 {
				return verifC06Resp(req, 500, `{"errors":["verif: injected failure"]}`), nil
			}
			return verifC06Resp(req, code, out[:len(out)-1]), nil
		default:
			return verifC06Resp(req, 500, `{"errors":["verif: injected failure"]}`), nil
		}
	}
	return verifC06Resp(req, code, out), nil
}

const (
	verifC06Foo = "acbd18db4cc2f85cedef654fccc4a4d8+3"
	verifC06Bar = "37b51d194a7513e45b56f6524f2d51f2+3"
)

func (w *verifC06World) serve(req *http.Request) (int, string) {
	p := req.URL.Path
	switch {
	case p == "/arvados/v1/keep_services":
		var items []arvados.KeepService
		for i := 0; i < w.nsvc; i++ {
			items = append(items, arvados.KeepService{
				UUID:        fmt.Sprintf("zzzzz-bi6l4-%015d", i),
				ServiceHost: fmt.Sprintf("keep%d.zzzzz.arvadosapi.com", i),
				ServicePort: 25107,
				ServiceType: "disk",
			})
		}
		buf, _ := json.Marshal(arvados.KeepServiceList{Items: items, ItemsAvailable: len(items)})
		return 200, string(buf)
	case p == "/mounts":
		for i := 0; i < w.nsvc; i++ {
			if req.URL.Host == w.host(i) {
				buf, _ := json.Marshal([]arvados.KeepMount{{
					UUID:     fmt.Sprintf("zzzzz-ivpuk-%d00000000000000", i),
					DeviceID: fmt.Sprintf("keep%d-vol0", i),
				}})
				return 200, string(buf)
			}
		}
		return 404, `{}`
	case p == "/arvados/v1/users/current":
		return 200, `{"uuid":"zzzzz-tpzed-000000000000000","is_admin":true,"is_active":true}`
	case p == "/discovery/v1/apis/arvados/v1/rest":
		return 200, `{"defaultCollectionReplication":2}`
	case strings.HasPrefix(p, "/mounts/") && strings.HasSuffix(p, "/blocks"):
		// foo on every server (over-replicated), bar on server 0 only (under-replicated)
		out := ""
		if req.URL.Host == w.host(0) {
			out += verifC06Bar + " 12345678\n"
		}
		out += verifC06Foo + " 12345678\n\n"
		return 200, out
	case p == "/trash", p == "/pull":
		return 200, `{}`
	case p == "/arvados/v1/collections":
		filters := req.Form.Get("filters")
		if strings.Contains(filters, `"modified_at","=",null`) {
			return 200, `{"items":[],"items_available":0}`
		}
		k := w.collReqs
		w.collReqs++
		if k == w.pageFail {
			if w.pageFailEmpty {
				return 200, ""
			}
			return 500, `{"errors":["verif: injected failure"]}`
		}
		// all collections share one timestamp, so that every paging mode is exercised
		limit, _ := strconv.Atoi(req.Form.Get("limit"))
		type item struct {
			UUID       string `json:"uuid"`
			ModifiedAt string `json:"modified_at"`
			PDH        string `json:"portable_data_hash"`
			Manifest   string `json:"unsigned_manifest_text"`
		}
		var raw [][]interface{}
		if filters != "" {
			json.Unmarshal([]byte(filters), &raw)
		}
		const ts = "2014-02-03T17:22:54Z"
		var items []item
		for i := 0; i < w.ncoll; i++ {
			uuid := fmt.Sprintf("zzzzz-4zz18-%015d", i)
			ok := true
			for _, f := range raw {
				a, _ := f[0].(string)
				o, _ := f[1].(string)
				v, _ := f[2].(string)
				var cmp int
				if a == "uuid" {
					cmp = strings.Compare(uuid, v)
				} else {
					t1, _ := time.Parse(time.RFC3339Nano, ts)
					t2, _ := time.Parse(time.RFC3339Nano, v)
					if t1.Before(t2) {
						cmp = -1
					} else if t1.After(t2) {
						cmp = 1
					}
				}
				switch o {
				case "=":
					ok = ok && cmp == 0
				case "!=":
					ok = ok && cmp != 0
				case "<":
					ok = ok && cmp < 0
				case "<=":
					ok = ok && cmp <= 0
				case ">":
					ok = ok && cmp > 0
				case ">=":
					ok = ok && cmp >= 0
				}
			}
			if ok {
				m := ". " + verifC06Foo + " 0:3:foo\n"
				if i%2 == 1 {
					m = ". " + verifC06Bar + " 0:3:bar\n"
				}
				if i == w.badColl {
					m = ". x\n" // fewer than 3 tokens: SizedDigests, hence addCollection, fails
				}
				items = append(items, item{uuid, ts, "fa7aeb5140e2848d39b416daeef4ffc5+45", m})
			}
		}
		avail := len(items)
		if len(items) > limit {
			items = items[:limit]
		}
		if items == nil {
			items = []item{}
		}
		buf, _ := json.Marshal(map[string]interface{}{"items": items, "items_available": avail})
		return 200, string(buf)
	}
	return 404, `{"errors":["not found"]}`
}

type verifC06RunOut struct {
	w   *verifC06World
	err error
}

func verifC06RunOnce(flags string, nsvc, ncoll, pageSize, failAt int, kind, tmp string) verifC06RunOut {
	return verifC06RunWorld(flags, nsvc, ncoll, pageSize, failAt, kind, tmp, "", nil)
}

func verifC06RunWorld(flags string, nsvc, ncoll, pageSize, failAt int, kind, tmp, gateHost string, sched *verifC06Sched) verifC06RunOut {
	w := &verifC06World{nsvc: nsvc, ncoll: ncoll, failAt: failAt, failKind: kind, gateHost: gateHost, sched: sched,
		badColl: -1, pageFail: -1}
	verifC06Ctl = sched
	defer func() { verifC06Ctl = nil }()
	logger := logrus.New()
	logger.Out = ioutil.Discard
	client := &arvados.Client{APIHost: "zzzzz.arvadosapi.com", AuthToken: "xyzzy", Client: &http.Client{Transport: w}}
	cluster := &arvados.Cluster{}
	cluster.Collections.BalanceTimeout = arvados.Duration(30 * time.Second)
	cluster.Collections.BalanceCollectionBatch = pageSize
	cluster.Collections.BalanceCollectionBuffers = 4
	bal := &Balancer{
		Logger:  logger,
		Metrics: newMetrics(prometheus.NewRegistry()),
	}
	if flags[0] == '1' {
		bal.LostBlocksFile = filepath.Join(tmp, fmt.Sprintf("lost-%d", failAt))
	}
	opts := RunOptions{
		CommitPulls: flags[3] == '1',
		CommitTrash: flags[4] == '1',
		Logger:      logger,
	}
	if flags[1] == '0' {
		// make the rendezvous state "safe": no ClearTrashLists
		probe := &Balancer{KeepServices: map[string]*KeepService{}}
		for i := 0; i < nsvc; i++ {
			u := fmt.Sprintf("zzzzz-bi6l4-%015d", i)
			probe.KeepServices[u] = &KeepService{KeepService: arvados.KeepService{
				UUID:        u,
				ServiceHost: fmt.Sprintf("keep%d.zzzzz.arvadosapi.com", i),
				ServicePort: 25107,
				ServiceType: "disk",
			}}
		}
		opts.SafeRendezvousState = probe.rendezvousState()
	} else if flags[2] == '1' {
		opts.SafeRendezvousState = "something else"
	}
	_, err := bal.Run(client, cluster, opts)
	return verifC06RunOut{w, err}
}

func verifC06Run(f []string, tmp string) string {
	if len(f) != 6 || len(f[1]) != 5 || strings.Trim(f[1], "01") != "" {
		return "bad-op"
	}
	nsvc, e1 := strconv.Atoi(f[2])
	ncoll, e2 := strconv.Atoi(f[3])
	pageSize, e3 := strconv.Atoi(f[4])
	if e1 != nil || e2 != nil || e3 != nil || nsvc < 1 {
		return "bad-op"
	}
	token := func(r verifC06RunOut) string {
		w := r.w
		e := 0
		if r.err != nil {
			e = 1
		}
		if w.failed {
			return fmt.Sprintf("%s:%d:%d:%d:%d", w.failStep, e, w.pullsAfter, w.trashAfter, w.nonemptyAfter)
		}
		step := "none"
		if r.err != nil {
			msg := r.err.Error()
			switch {
			case strings.Contains(msg, "received zero collections"), strings.Contains(msg, "zero blocks have desired"),
				strings.Contains(msg, "deferred errors"), strings.Contains(msg, "Default replication"):
				step = "bal.CheckSanityLate"
			default:
				step = "unexpected-error(" + strings.Replace(msg, " ", "_", -1) + ")"
			}
			return fmt.Sprintf("%s:%d:%d:%d:%d", step, e, w.pulls, w.trashAfterDD, w.nonempty)
		}
		return fmt.Sprintf("%s:%d:%d:%d:%d", step, e, w.pulls, w.trash, w.nonempty)
	}
	if f[5] == "gate" {
		// count the statements each goroutine of GetCurrentState executes in a clean sweep
		probe := &verifC06Sched{counts: map[int]int{}}
		base := verifC06RunWorld(f[1], nsvc, ncoll, pageSize, -1, "net", tmp, "", probe)
		out := []string{token(base)}
		if !probe.seenPoints {
			return "not-instrumented"
		}
		host := base.w.host(nsvc - 1)
		for other := 1; other <= 2; other++ {
			total := probe.counts[other]
			holds := map[int]bool{}
			var order []int
			for _, j := range []int{3, 4, 6, 7, total / 2, total - 1} {
				if j >= 1 && j <= total && !holds[j] {
					holds[j] = true
					order = append(order, j)
				}
			}
			for _, j := range order {
				for p := 1; p <= 4; p++ {
					sc := &verifC06Sched{counts: map[int]int{}, other: other, holdAt: j, pauseAt: p, advance: 6}
					out = append(out, token(verifC06RunWorld(f[1], nsvc, ncoll, pageSize, -1, "net", tmp, host, sc)))
				}
			}
		}
		return strings.Join(out, ",")
	}
	base := verifC06RunOnce(f[1], nsvc, ncoll, pageSize, -1, f[5], tmp)
	out := []string{token(base)}
	for j := 0; j < base.w.nreq; j++ {
		out = append(out, token(verifC06RunOnce(f[1], nsvc, ncoll, pageSize, j, f[5], tmp)))
	}
	return strings.Join(out, ",")
}

func verifC06GCS(f []string) string {
	if len(f) != 11 {
		return "bad-op"
	}
	num := func(s string) (int, bool) {
		if s == "-" {
			return -1, true
		}
		n, err := strconv.Atoi(s)
		return n, err == nil && n >= 0
	}
	pageFailEmpty := false
	if n := len(f[7]); n > 1 && f[7][n-1] == 'e' {
		pageFailEmpty = true
		f = append([]string{}, f...)
		f[7] = f[7][:n-1]
	}
	var v [10]int
	for i := 1; i <= 10; i++ {
		n, ok := num(f[i])
		if !ok {
			return "bad-op"
		}
		v[i-1] = n
	}
	nsvc, ncoll, pageSize, bufs, idxFail, badColl, pageFail, other, hold, pause := v[0], v[1], v[2], v[3], v[4], v[5], v[6], v[7], v[8], v[9]
	if nsvc < 1 || bufs < 1 || idxFail >= nsvc {
		return "bad-op"
	}
	sched := &verifC06Sched{counts: map[int]int{}, other: other, holdAt: hold, pauseAt: pause, advance: 6,
		record: true, lit: map[int64]int{}, paths: map[int64][]int{}}
	w := &verifC06World{nsvc: nsvc, ncoll: ncoll, failAt: -1, sched: sched, badColl: badColl, pageFail: -1}
	logger := logrus.New()
	logger.Out = ioutil.Discard
	client := &arvados.Client{APIHost: "zzzzz.arvadosapi.com", AuthToken: "xyzzy", Client: &http.Client{Transport: w}}
	bal := &Balancer{Logger: logger, Metrics: newMetrics(prometheus.NewRegistry())}
	if err := bal.DiscoverKeepServices(client); err != nil {
		return "setup-failed"
	}
	for _, srv := range bal.KeepServices {
		if err := srv.discoverMounts(client); err != nil {
			return "setup-failed"
		}
	}
	bal.cleanupMounts()
	if idxFail >= 0 {
		w.gateHost = w.host(idxFail)
	}
	w.mtx.Lock()
	w.pageFail = pageFail
	w.pageFailEmpty = pageFailEmpty
	w.collReqs = 0
	w.mtx.Unlock()
	ctx, cancel := context.WithTimeout(context.Background(), 30*time.Second)
	defer cancel()
	verifC06Ctl = sched
	err := bal.GetCurrentState(ctx, client, pageSize, bufs)
	verifC06Ctl = nil
	if ctx.Err() != nil {
		return "timeout"
	}
	if !sched.seenPoints {
		return "not-instrumented"
	}
	render := func(p []int) string {
		parts := make([]string, len(p))
		for i, n := range p {
			parts[i] = strconv.Itoa(n)
		}
		return strings.Join(parts, ".")
	}
	var ws []string
	pp, sp := "-", "-"
	for _, id := range sched.order {
		switch sched.lit[id] {
		case 0:
			ws = append(ws, render(sched.paths[id]))
		case 1:
			pp = render(sched.paths[id])
		case 2:
			sp = render(sched.paths[id])
		}
	}
	sort.Strings(ws)
	res := 0
	if err != nil {
		res = 1
	}
	return fmt.Sprintf("w=%s|p=%s|s=%s|res=%d|creq=%d", strings.Join(ws, ";"), pp, sp, res, w.collReqs)
}

func verifC06Case(line, tmp string) (out string) {
	defer func() {
		if r := recover(); r != nil {
			out = strings.Replace(fmt.Sprintf("panic %v", r), "\n", " ", -1)
		}
	}()
	f := strings.Split(line, " ")
	switch f[0] {
	case "page":
		return verifC06Page(f)
	case "pagecut":
		return verifC06PageCut(f)
	case "run":
		return verifC06Run(f, tmp)
	case "gcs":
		return verifC06GCS(f)
	}
	return "bad-op"
}

var _ = httptest.NewRecorder
var _ io.Reader

func TestVerifC06(t *testing.T) {
	in, err := os.Open(os.Getenv("VERIF_CASES"))
	if err != nil {
		t.Skip("VERIF_CASES not set")
	}
	defer in.Close()
	outf, err := os.Create(os.Getenv("VERIF_OUT"))
	if err != nil {
		t.Fatal(err)
	}
	defer outf.Close()
	w := bufio.NewWriter(outf)
	defer w.Flush()
	tmp := t.TempDir()
	sc := bufio.NewScanner(in)
	sc.Buffer(make([]byte, 1<<20), 1<<26)
	for sc.Scan() {
		fmt.Fprintln(w, verifC06Case(sc.Text(), tmp))
	}
}
