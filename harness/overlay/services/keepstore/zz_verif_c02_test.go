// Verification driver for C02 (keepstore PUT is all-or-nothing and survives process death).
// Injected with `go test -overlay` together with an instrumented copy of unix_volume.go (every
// filesystem call of WriteBlock/Touch/Trash/Untrash/EmptyTrash is preceded by verifPoint(id)).
// Not part of the repository.
//
// One case line = one history on a fresh Directory volume:
//
//   hist <op>;<op>;...        (hists …: the same with DriverParameters.Serialize = true)
//
// Environment ops (done by the parent, they stand for "what was on disk before" / "time passes"):
//   seed:<B>:intact|corrupt|longer|shorter|trash
//                                   plant a copy of body B: intact block file; damaged block file
//                                   (corrupt = other bytes, longer = the block followed by extra bytes,
//                                   shorter = the first half of the block); trashed intact copy
//   tick                            every timestamp becomes old, every trash deadline expires, a full
//                                   marker becomes stale
//   full                            the volume is marked full the way keepstore marks it itself:
//                                   symlink <root>/full -> <current unix time> (honoured for an hour)
// Process ops (each runs in a CHILD process = one keepstore process lifetime; the child dies by
// SIGKILL at the chosen point or exits right after the operation returned):
//   put:<B>:<mode>                  PUT /<md5 B> through the router        mode = run | k<i> | c<i> | m<j>x<n>
//                                   (m: the context is cancelled when WriteBlock, having read j
//                                   chunks of n bytes from putWithPipe's pipe, asks for more)
//                                   | f<i> | f<i>k<j>: fault injection: when the i-th point is
//                                   WriteBlock's Chtimes or Rename, the temp file is unlinked just
//                                   before the call, so that the call fails (ENOENT) and WriteBlock
//                                   takes its error return; PutBlock then tries the volume again;
//                                   k<j>: SIGKILL at the j-th point afterwards
//   wb:<B>:<chunk>:<rd>:<limit>:<mode>  UnixVolume.WriteBlock with a scripted reader
//                                   rd = eof | e<j> (error after j chunks) | x<j> (SIGKILL in the
//                                   Read call after j chunks); limit = RLIMIT_FSIZE bytes (0 = none)
//   put2:<B>:<n>:<ja>:<jb>:<end>    two overlapping PUTs of the same block in one process: A is held when
//                                   its WriteBlock has read ja chunks of n bytes, B is started and held
//                                   after jb chunks, A runs to its end (acknowledged), then B is
//                                   cancelled (end=cancel), runs to its end (finish) or the process is
//                                   killed (kill)
//   pool:<S>:<A>:<B>:<ja>           buffer-pool reuse in one process: while another request holds a buffer,
//                                   an upload of S is cut short by the client (half the announced body:
//                                   500); then PUT A is held when its WriteBlock has read ja chunks of
//                                   4096 bytes, PUT B runs from start to end, A is released. (One P, GC
//                                   off, so that sync.Pool's choice of buffer does not depend on luck.)
//   touch:<B>:<mode>  del:<B>:<lt>:<mode>  untrash:<B>:<mode>  empty:<mode>     mode = run | k<i>
// k<i>: SIGKILL itself when the i-th verifPoint (0-based, counted over the whole op) is reached;
// c<i>: cancel the request context (CloseNotify) at that point instead.
// B = <size>.<seed> names a deterministic body.
//
// After every process op the parent builds a FRESH volume manager + router on the same directory
// and prints  <result>,<points reached> ; get=... idx=... ls=...   (ops joined by " | ").
package main

import (
	"bytes"
	"context"
	"crypto/md5"
	"encoding/json"
	"errors"
	"fmt"
	"io"
	"io/ioutil"
	"net/http"
	"net/http/httptest"
	"net/url"
	"os"
	"os/exec"
	"os/signal"
	"path/filepath"
	"runtime"
	"runtime/debug"
	"sort"
	"strconv"
	"strings"
	"sync"
	"sync/atomic"
	"syscall"
	"testing"
	"time"

	"bufio"

	"git.arvados.org/arvados.git/sdk/go/arvados"
	"github.com/prometheus/client_golang/prometheus"
	"github.com/sirupsen/logrus"
)

const (
	verifC02Token  = "verifc02systemroottokenxxxxxxxxxxxxxxxxxxxxxxxxxxxxx"
	verifC02Future = 4000000000
	verifC02Mark   = "VERIFC02 "
)

func verifC02Body(spec string) []byte {
	f := strings.Split(spec, ".")
	size, err1 := strconv.Atoi(f[0])
	seed, err2 := strconv.Atoi(f[1])
	if len(f) != 2 || err1 != nil || err2 != nil || size < 0 || size > 1<<22 {
		panic("bad body spec")
	}
	b := make([]byte, size)
	for i := range b {
		b[i] = byte((seed*31 + i*7 + (i>>8)*13) % 256)
	}
	return b
}

func verifC02Corrupt(body []byte) []byte {
	return append([]byte("CORRUPT"), body[:len(body)/2]...)
}

func verifC02Hash(b []byte) string { return fmt.Sprintf("%x", md5.Sum(b)) }

func verifC02Cluster(root string, lifetime time.Duration) *arvados.Cluster {
	cluster := &arvados.Cluster{}
	cluster.SystemRootToken = verifC02Token
	cluster.Collections.BlobSigning = false
	cluster.Collections.BlobSigningTTL = arvados.Duration(time.Hour)
	cluster.Collections.BlobTrash = true
	cluster.Collections.BlobTrashLifetime = arvados.Duration(lifetime)
	cluster.Collections.BlobDeleteConcurrency = 1
	if mv := os.Getenv("VERIF_C02_MV"); mv != "" {
		// several Directory volumes <root>/m<i>, one per descriptor (flag R = ReadOnly)
		cluster.Volumes = map[string]arvados.Volume{}
		for i, d := range strings.Split(mv, ",") {
			params, _ := json.Marshal(map[string]interface{}{"Root": filepath.Join(root, fmt.Sprintf("m%d", i))})
			cluster.Volumes[fmt.Sprintf("zzzzz-nyw5e-%015d", i)] = arvados.Volume{Replication: 1, Driver: "Directory",
				DriverParameters: params, ReadOnly: strings.Contains(d[1:], "R")}
		}
		return cluster
	}
	params, _ := json.Marshal(map[string]interface{}{"Root": root, "Serialize": os.Getenv("VERIF_C02_SERIALIZE") == "1"})
	cluster.Volumes = map[string]arvados.Volume{
		"zzzzz-nyw5e-000000000000000": {Replication: 1, Driver: "Directory", DriverParameters: params},
	}
	return cluster
}

// makeRRVolumeManager ranges over a Go map: the mount order differs from process to process. The
// case line fixes it (the property is stated for every order; the model takes the order as input).
func verifC02SortMounts(vm *RRVolumeManager) {
	for _, l := range [][]*VolumeMount{vm.mounts, vm.readables, vm.writables} {
		l := l
		sort.Slice(l, func(i, j int) bool { return l[i].UUID < l[j].UUID })
	}
}

type verifC02Server struct {
	cluster *arvados.Cluster
	volmgr  *RRVolumeManager
	handler http.Handler
}

func verifC02NewServer(root string, lifetime time.Duration) (*verifC02Server, error) {
	logger := logrus.New()
	logger.Out = ioutil.Discard
	if bufs == nil {
		bufs = newBufferPool(logger, 4, BlockSize)
	}
	cluster := verifC02Cluster(root, lifetime)
	reg := prometheus.NewRegistry()
	vm, err := makeRRVolumeManager(logger, cluster, arvados.URL{}, newVolumeMetricsVecs(reg))
	if err != nil {
		return nil, err
	}
	verifC02SortMounts(vm)
	h := MakeRESTRouter(context.Background(), cluster, reg, vm, NewWorkQueue(), NewWorkQueue())
	return &verifC02Server{cluster: cluster, volmgr: vm, handler: h}, nil
}

// response recorder that also implements http.CloseNotifier, so that handlePUT's
// contextForResponse can be cancelled the way a client hang-up cancels it.
type verifC02Resp struct {
	*httptest.ResponseRecorder
	closed chan bool
	once   sync.Once
}

func (r *verifC02Resp) CloseNotify() <-chan bool { return r.closed }

// The moment the handler starts to answer is reported at once (unbuffered write to stdout), so
// that the parent knows about an acknowledgement even if the process is killed right after it.
func (r *verifC02Resp) WriteHeader(code int) {
	r.once.Do(func() { os.Stdout.WriteString(verifC02Mark + "W " + strconv.Itoa(code) + "\n") })
	r.ResponseRecorder.WriteHeader(code)
}

func (r *verifC02Resp) Write(b []byte) (int, error) {
	r.once.Do(func() { os.Stdout.WriteString(verifC02Mark + "W 200\n") })
	return r.ResponseRecorder.Write(b)
}

func verifC02Request(method, path string, body []byte) *http.Request {
	req := &http.Request{
		Method:     method,
		URL:        &url.URL{Path: path},
		Proto:      "HTTP/1.1",
		ProtoMajor: 1,
		ProtoMinor: 1,
		Header:     http.Header{"Authorization": []string{"Bearer " + verifC02Token}},
		Host:       "keep.example",
	}
	if body != nil {
		req.Body = ioutil.NopCloser(bytes.NewReader(body))
		req.ContentLength = int64(len(body))
	}
	return req
}

// ---------------------------------------------------------------------------- child process

// verifC02Gate stands in for the UnixVolume in the child's volume manager during a PUT. Put is
// UnixVolume.Put's one line (`putWithPipe(ctx, loc, block, v)`, tied in Tie/C02.lean) with the gate
// as the BlockWriter, so that the reader WriteBlock gets from putWithPipe can be wrapped; Compare
// and Put remember the request context, so that "cancel" can wait until it really is done.
type verifC02Gate struct {
	*UnixVolume
	mu   sync.Mutex
	ctx  context.Context
	wrap func(context.Context, io.Reader) io.Reader
	idx  int
}

// mount number of the volume the request is working on (mv cases; one request per child process)
var verifC02CurVol int32 = -1

func (g *verifC02Gate) Touch(loc string) error {
	atomic.StoreInt32(&verifC02CurVol, int32(g.idx))
	return g.UnixVolume.Touch(loc)
}

func (g *verifC02Gate) setCtx(ctx context.Context) {
	g.mu.Lock()
	g.ctx = ctx
	g.mu.Unlock()
}

func (g *verifC02Gate) getCtx() context.Context {
	g.mu.Lock()
	defer g.mu.Unlock()
	return g.ctx
}

func (g *verifC02Gate) Compare(ctx context.Context, loc string, expect []byte) error {
	atomic.StoreInt32(&verifC02CurVol, int32(g.idx))
	g.setCtx(ctx)
	return g.UnixVolume.Compare(ctx, loc, expect)
}

func (g *verifC02Gate) Put(ctx context.Context, loc string, block []byte) error {
	atomic.StoreInt32(&verifC02CurVol, int32(g.idx))
	g.setCtx(ctx)
	return putWithPipe(ctx, loc, block, g)
}

func (g *verifC02Gate) WriteBlock(ctx context.Context, loc string, rdr io.Reader) error {
	if g.wrap != nil {
		rdr = g.wrap(ctx, rdr)
	}
	return g.UnixVolume.WriteBlock(ctx, loc, rdr)
}

// verifC02GateReader hands WriteBlock at most chunk bytes per Read and fires once, in the Read
// call that follows the cancelAfter-th chunk.
type verifC02GateReader struct {
	inner       io.Reader
	chunk       int
	cancelAfter int
	delivered   int
	fired       bool
	fire        func()
}

func (r *verifC02GateReader) Read(p []byte) (int, error) {
	if !r.fired && r.delivered == r.cancelAfter {
		r.fired = true
		r.fire()
	}
	if len(p) > r.chunk {
		p = p[:r.chunk]
	}
	n, err := r.inner.Read(p)
	if n > 0 {
		r.delivered++
	}
	return n, err
}

type verifC02Reader struct {
	data      []byte
	chunk     int
	off       int
	delivered int
	errAfter  int
	killAfter int
}

func (r *verifC02Reader) Read(p []byte) (int, error) {
	if r.killAfter >= 0 && r.delivered == r.killAfter {
		os.Stdout.WriteString(verifC02Mark + "X\n")
		syscall.Kill(os.Getpid(), syscall.SIGKILL)
		select {}
	}
	if r.errAfter >= 0 && r.delivered == r.errAfter {
		return 0, errors.New("verif: injected reader error")
	}
	if r.off == len(r.data) {
		return 0, io.EOF
	}
	n := r.chunk
	if n > len(p) {
		n = len(p)
	}
	if n > len(r.data)-r.off {
		n = len(r.data) - r.off
	}
	copy(p, r.data[r.off:r.off+n])
	r.off += n
	r.delivered++
	return n, nil
}

func verifC02WriterRunning() bool {
	buf := make([]byte, 1<<20)
	n := runtime.Stack(buf, true)
	return bytes.Contains(buf[:n], []byte("UnixVolume).WriteBlock"))
}

// TestVerifC02Child is the body of the child process (selected by VERIF_C02_CHILD).
func TestVerifC02Child(t *testing.T) {
	spec := os.Getenv("VERIF_C02_CHILD")
	if spec == "" {
		t.Skip("not a child")
	}
	root := os.Getenv("VERIF_C02_ROOT")
	say := func(s string) { os.Stdout.WriteString(verifC02Mark + s + "\n") }
	defer func() {
		if r := recover(); r != nil {
			say(fmt.Sprintf("R panic:%v", r))
			os.Exit(0)
		}
	}()
	f := strings.Split(spec, ":")
	mode := f[len(f)-1]
	target := -1
	var mvVols []string
	if f[0] == "mv" {
		mvVols = strings.Split(f[2], ",")
	}
	if f[0] != "put2" && f[0] != "pool" && len(mode) > 1 && (mode[0] == 'k' || mode[0] == 'c') {
		target, _ = strconv.Atoi(mode[1:])
	}
	faultAt := -1
	if f[0] == "put" && len(mode) > 1 && mode[0] == 'f' {
		fk := strings.Split(mode[1:], "k")
		faultAt, _ = strconv.Atoi(fk[0])
		if len(fk) == 2 {
			target, _ = strconv.Atoi(fk[1])
		} else if len(fk) != 1 {
			panic("bad f mode")
		}
	}
	midAfter, midChunk := -1, 0
	if f[0] != "put2" && f[0] != "pool" && len(mode) > 1 && mode[0] == 'm' {
		jc := strings.Split(mode[1:], "x")
		if len(jc) != 2 {
			panic("bad m mode")
		}
		midAfter, _ = strconv.Atoi(jc[0])
		midChunk, _ = strconv.Atoi(jc[1])
		if midChunk < 1 {
			panic("bad m mode")
		}
	}
	lifetime := time.Hour
	if f[0] == "del" && f[2] == "0" {
		lifetime = 0
	}
	srv, err := verifC02NewServer(root, lifetime)
	if err != nil {
		say("R setup-error")
		os.Exit(0)
	}
	resp := &verifC02Resp{ResponseRecorder: httptest.NewRecorder(), closed: make(chan bool, 1)}
	handlerDone := make(chan struct{})
	var gate *verifC02Gate
	var gates []*verifC02Gate
	if f[0] == "put" || f[0] == "put2" || f[0] == "pool" {
		mnt := srv.volmgr.AllWritable()[0]
		gate = &verifC02Gate{UnixVolume: mnt.Volume.(*UnixVolume)}
		mnt.Volume = gate
		gates = []*verifC02Gate{gate}
	}
	if f[0] == "mv" {
		for i, mnt := range srv.volmgr.Mounts() {
			g := &verifC02Gate{UnixVolume: mnt.Volume.(*UnixVolume), idx: i}
			mnt.Volume = g
			gates = append(gates, g)
		}
	}
	// the client goes away now; returns when the request context is done (and, for a cancellation
	// seen from the WriteBlock goroutine, when the handler has answered, so that what the writer
	// sees next does not depend on goroutine scheduling)
	cancelNow := func(waitHandler bool) {
		time.Sleep(5 * time.Millisecond)
		resp.closed <- true
		for _, g := range gates {
			if ctx := g.getCtx(); ctx != nil {
				select {
				case <-ctx.Done():
				case <-time.After(300 * time.Second):
					say("R cancel-timeout")
					os.Exit(0)
				}
			}
		}
		if waitHandler {
			select {
			case <-handlerDone:
			case <-time.After(300 * time.Second):
				say("R cancel-timeout")
				os.Exit(0)
			}
		}
	}
	if gate != nil && midAfter >= 0 {
		gate.wrap = func(_ context.Context, r io.Reader) io.Reader {
			return &verifC02GateReader{inner: r, chunk: midChunk, cancelAfter: midAfter, fire: func() {
				say("C")
				cancelNow(true)
			}}
		}
	}
	var mu sync.Mutex
	count := 0
	verifPointHook.Store(func(id string) {
		mu.Lock()
		n := count
		count++
		mu.Unlock()
		if mvVols != nil {
			cur := int(atomic.LoadInt32(&verifC02CurVol))
			say(fmt.Sprintf("P %d/%s", cur, id))
			if id == "WriteBlock:os.Chtimes:7" && cur >= 0 && cur < len(mvVols) && strings.Contains(mvVols[cur][1:], "X") {
				// a failing volume: unlink the temp file of the running WriteBlock, the Chtimes that follows fails
				h := verifC02Hash(verifC02Body(f[1]))
				names, _ := filepath.Glob(filepath.Join(root, fmt.Sprintf("m%d", cur), h[:3], "tmp"+h+"*"))
				best, bestT := "", time.Time{}
				for _, nm := range names {
					if fi, err := os.Lstat(nm); err == nil && (best == "" || fi.ModTime().After(bestT)) {
						best, bestT = nm, fi.ModTime()
					}
				}
				if best != "" {
					os.Remove(best)
					say("F")
				}
			}
		} else {
			say("P " + id)
		}
		if n == faultAt && (id == "WriteBlock:os.Chtimes:7" || id == "WriteBlock:v.os.Rename:13") {
			// unlink the newest temp file of this block: the call that follows fails with ENOENT
			h := verifC02Hash(verifC02Body(f[1]))
			names, _ := filepath.Glob(filepath.Join(root, h[:3], "tmp"+h+"*"))
			best, bestT := "", time.Time{}
			for _, nm := range names {
				if fi, err := os.Lstat(nm); err == nil && (best == "" || fi.ModTime().After(bestT)) {
					best, bestT = nm, fi.ModTime()
				}
			}
			if best != "" {
				os.Remove(best)
				say("F")
			}
		}
		if n != target {
			return
		}
		if mode[0] == 'k' || mode[0] == 'f' {
			syscall.Kill(os.Getpid(), syscall.SIGKILL)
			select {}
		}
		cancelNow(strings.HasPrefix(id, "WriteBlock:"))
	})
	result := "bad-op"
	switch f[0] {
	case "put", "mv":
		body := verifC02Body(f[1])
		srv.handler.ServeHTTP(resp, verifC02Request("PUT", "/"+verifC02Hash(body), body))
		close(handlerDone)
		for i := 0; i < 20000 && verifC02WriterRunning(); i++ {
			time.Sleep(time.Millisecond)
		}
		result = strconv.Itoa(resp.Code)
		if resp.Code == 200 && strings.TrimSpace(resp.Body.String()) != fmt.Sprintf("%s+%d", verifC02Hash(body), len(body)) {
			result = "200-bad-locator"
		}
	case "put2":
		body := verifC02Body(f[1])
		chunk, _ := strconv.Atoi(f[2])
		ja, _ := strconv.Atoi(f[3])
		jb, _ := strconv.Atoi(f[4])
		if chunk < 1 {
			panic("bad chunk")
		}
		type role struct {
			pauseAt        int
			paused, resume chan struct{}
			ctx            context.Context
			resp           *verifC02Resp
			done           chan struct{}
		}
		mk := func(j int) *role {
			return &role{pauseAt: j, paused: make(chan struct{}), resume: make(chan struct{}), done: make(chan struct{}),
				resp: &verifC02Resp{ResponseRecorder: httptest.NewRecorder(), closed: make(chan bool, 1)}}
		}
		roles := []*role{mk(ja), mk(jb)}
		var wrapMu sync.Mutex
		nWrap := 0
		gate.wrap = func(ctx context.Context, r io.Reader) io.Reader {
			wrapMu.Lock()
			i := nWrap
			nWrap++
			wrapMu.Unlock()
			if i >= len(roles) {
				return r
			}
			ro := roles[i]
			ro.ctx = ctx
			return &verifC02GateReader{inner: r, chunk: chunk, cancelAfter: ro.pauseAt, fire: func() {
				close(ro.paused)
				<-ro.resume
			}}
		}
		start := func(ro *role) bool {
			go func() {
				srv.handler.ServeHTTP(ro.resp, verifC02Request("PUT", "/"+verifC02Hash(body), body))
				close(ro.done)
			}()
			select {
			case <-ro.paused:
				return true
			case <-ro.done:
			case <-time.After(300 * time.Second):
			}
			return false
		}
		wait := func(c chan struct{}) {
			select {
			case <-c:
			case <-time.After(300 * time.Second):
				say("R put2-timeout")
				os.Exit(0)
			}
		}
		a, b := roles[0], roles[1]
		if !start(a) || !start(b) {
			say("R no-overlap")
			os.Exit(0)
		}
		close(a.resume)
		wait(a.done)
		switch f[5] {
		case "kill":
			syscall.Kill(os.Getpid(), syscall.SIGKILL)
			select {}
		case "cancel":
			b.resp.closed <- true
			select {
			case <-b.ctx.Done():
			case <-time.After(300 * time.Second):
				say("R cancel-timeout")
				os.Exit(0)
			}
			wait(b.done)
			close(b.resume)
		case "finish":
			close(b.resume)
			wait(b.done)
		default:
			panic("bad end")
		}
		for i := 0; i < 20000 && verifC02WriterRunning(); i++ {
			time.Sleep(time.Millisecond)
		}
		result = fmt.Sprintf("%d&%d", a.resp.Code, b.resp.Code)
	case "pool":
		runtime.GOMAXPROCS(1)
		debug.SetGCPercent(-1)
		bodyS, bodyA, bodyB := verifC02Body(f[1]), verifC02Body(f[2]), verifC02Body(f[3])
		ja, _ := strconv.Atoi(f[4])
		held := bufs.Get(BlockSize) // some other request is in flight and holds a buffer
		_ = held
		// the client announces len(S) bytes, sends half of them and goes away
		respS := &verifC02Resp{ResponseRecorder: httptest.NewRecorder(), closed: make(chan bool, 1)}
		reqS := verifC02Request("PUT", "/"+verifC02Hash(bodyS), bodyS)
		reqS.Body = ioutil.NopCloser(bytes.NewReader(bodyS[:len(bodyS)/2]))
		srv.handler.ServeHTTP(respS, reqS)
		paused, resume, doneA := make(chan struct{}), make(chan struct{}), make(chan struct{})
		var wrapMu sync.Mutex
		nWrap := 0
		gate.wrap = func(ctx context.Context, r io.Reader) io.Reader {
			wrapMu.Lock()
			i := nWrap
			nWrap++
			wrapMu.Unlock()
			if i != 0 {
				return r
			}
			return &verifC02GateReader{inner: r, chunk: 4096, cancelAfter: ja, fire: func() {
				close(paused)
				<-resume
			}}
		}
		respA := &verifC02Resp{ResponseRecorder: httptest.NewRecorder(), closed: make(chan bool, 1)}
		respB := &verifC02Resp{ResponseRecorder: httptest.NewRecorder(), closed: make(chan bool, 1)}
		go func() {
			srv.handler.ServeHTTP(respA, verifC02Request("PUT", "/"+verifC02Hash(bodyA), bodyA))
			close(doneA)
		}()
		select {
		case <-paused:
		case <-doneA:
			say("R no-overlap")
			os.Exit(0)
		case <-time.After(300 * time.Second):
			say("R pool-timeout")
			os.Exit(0)
		}
		srv.handler.ServeHTTP(respB, verifC02Request("PUT", "/"+verifC02Hash(bodyB), bodyB))
		close(resume)
		select {
		case <-doneA:
		case <-time.After(300 * time.Second):
			say("R pool-timeout")
			os.Exit(0)
		}
		for i := 0; i < 20000 && verifC02WriterRunning(); i++ {
			time.Sleep(time.Millisecond)
		}
		result = fmt.Sprintf("%d&%d&%d", respS.Code, respA.Code, respB.Code)
	case "touch":
		body := verifC02Body(f[1])
		srv.handler.ServeHTTP(resp, verifC02Request("TOUCH", "/"+verifC02Hash(body), nil))
		result = strconv.Itoa(resp.Code)
	case "del":
		body := verifC02Body(f[1])
		srv.handler.ServeHTTP(resp, verifC02Request("DELETE", "/"+verifC02Hash(body), nil))
		result = strconv.Itoa(resp.Code)
		if resp.Code == 200 {
			var r struct {
				Deleted int `json:"copies_deleted"`
				Failed  int `json:"copies_failed"`
			}
			json.Unmarshal(resp.Body.Bytes(), &r)
			result = fmt.Sprintf("200/%d/%d", r.Deleted, r.Failed)
		}
	case "untrash":
		body := verifC02Body(f[1])
		srv.handler.ServeHTTP(resp, verifC02Request("PUT", "/untrash/"+verifC02Hash(body), nil))
		result = strconv.Itoa(resp.Code)
	case "empty":
		for _, m := range srv.volmgr.AllWritable() {
			m.EmptyTrash()
		}
		result = "done"
	case "wb":
		body := verifC02Body(f[1])
		chunk, _ := strconv.Atoi(f[2])
		limit, _ := strconv.Atoi(f[4])
		rdr := &verifC02Reader{data: body, chunk: chunk, errAfter: -1, killAfter: -1}
		switch {
		case f[3] == "eof":
		case f[3][0] == 'e':
			rdr.errAfter, _ = strconv.Atoi(f[3][1:])
		case f[3][0] == 'x':
			rdr.killAfter, _ = strconv.Atoi(f[3][1:])
		}
		if chunk < 1 {
			panic("bad chunk")
		}
		if limit > 0 {
			signal.Ignore(syscall.SIGXFSZ)
			lim := syscall.Rlimit{Cur: uint64(limit), Max: uint64(limit)}
			if err := syscall.Setrlimit(syscall.RLIMIT_FSIZE, &lim); err != nil {
				panic(err)
			}
		}
		vol := srv.volmgr.AllWritable()[0].Volume.(*UnixVolume)
		err := vol.WriteBlock(context.Background(), verifC02Hash(body), rdr)
		if err == nil {
			result = "ok"
		} else {
			result = "err"
		}
	}
	say("R " + result)
	os.Exit(0)
}

// ---------------------------------------------------------------------------- parent

type verifC02Hist struct {
	root   string
	ticks  int
	bodies []string // body specs in order of first appearance
}

func (h *verifC02Hist) note(spec string) []byte {
	for _, b := range h.bodies {
		if b == spec {
			return verifC02Body(spec)
		}
	}
	h.bodies = append(h.bodies, spec)
	return verifC02Body(spec)
}

func verifC02TrashDeadline(name string) (string, int64, bool) {
	i := strings.Index(name, ".trash.")
	if i < 0 {
		return "", 0, false
	}
	d, err := strconv.ParseInt(name[i+7:], 10, 64)
	if err != nil {
		return "", 0, false
	}
	return name[:i], d, true
}

// every file below root, as (relative dir, name)
func (h *verifC02Hist) walk(fn func(dir, name string, fi os.FileInfo)) {
	filepath.Walk(h.root, func(path string, fi os.FileInfo, err error) error {
		if err != nil || path == h.root {
			return nil
		}
		rel, _ := filepath.Rel(h.root, path)
		if fi.IsDir() {
			fn(rel, "", fi)
		} else {
			d := filepath.Dir(rel)
			if d == "." {
				d = ""
			}
			fn(d, filepath.Base(rel), fi)
		}
		return nil
	})
}

// Trash() names the file after the wall clock; bring every not-yet-expired deadline to one fixed
// future value so that the listing does not depend on the second in which the op ran.
func (h *verifC02Hist) normalise() {
	type ent struct {
		dir, name, base string
		d               int64
	}
	var ents []ent
	now := time.Now().Unix()
	h.walk(func(dir, name string, fi os.FileInfo) {
		if base, d, ok := verifC02TrashDeadline(name); ok && d > now && d != verifC02Future {
			ents = append(ents, ent{dir, name, base, d})
		}
	})
	sort.Slice(ents, func(i, j int) bool { return ents[i].d < ents[j].d })
	for _, e := range ents {
		os.Rename(filepath.Join(h.root, e.dir, e.name), filepath.Join(h.root, e.dir, fmt.Sprintf("%s.trash.%d", e.base, verifC02Future)))
	}
}

func (h *verifC02Hist) full() {
	p := filepath.Join(h.root, "full")
	os.Remove(p)
	if err := os.Symlink(strconv.FormatInt(time.Now().Unix(), 10), p); err != nil {
		panic(err)
	}
}

func (h *verifC02Hist) tick() {
	h.ticks++
	if p := filepath.Join(h.root, "full"); func() bool { _, err := os.Lstat(p); return err == nil }() {
		os.Remove(p)
		os.Symlink("1000000000", p)
	}
	old := time.Date(2001, 1, 1, 0, 0, 0, 0, time.UTC)
	var renames [][2]string
	h.walk(func(dir, name string, fi os.FileInfo) {
		if name == "" {
			return
		}
		p := filepath.Join(h.root, dir, name)
		os.Chtimes(p, old, old)
		if base, d, ok := verifC02TrashDeadline(name); ok && d == verifC02Future {
			renames = append(renames, [2]string{p, filepath.Join(h.root, dir, fmt.Sprintf("%s.trash.%d", base, 100+h.ticks))})
		}
	})
	for _, r := range renames {
		os.Rename(r[0], r[1])
	}
}

func (h *verifC02Hist) seed(spec, kind string) {
	body := h.note(spec)
	hash := verifC02Hash(body)
	dir := filepath.Join(h.root, hash[:3])
	os.MkdirAll(dir, 0755)
	old := time.Date(2001, 1, 1, 0, 0, 0, 0, time.UTC)
	var p string
	switch kind {
	case "intact":
		p = filepath.Join(dir, hash)
	case "corrupt":
		p = filepath.Join(dir, hash)
		body = verifC02Corrupt(body)
	case "longer":
		p = filepath.Join(dir, hash)
		body = append(append([]byte{}, body...), []byte("EXTRA")...)
	case "shorter":
		p = filepath.Join(dir, hash)
		body = body[:len(body)/2]
	case "trash":
		p = filepath.Join(dir, fmt.Sprintf("%s.trash.%d", hash, verifC02Future))
	default:
		panic("bad seed kind")
	}
	if err := ioutil.WriteFile(p, body, 0644); err != nil {
		panic(err)
	}
	os.Chtimes(p, old, old)
}

func (h *verifC02Hist) child(spec string) string {
	cmd := exec.Command(os.Args[0], "-test.run=^TestVerifC02Child$")
	cmd.Env = append(os.Environ(), "VERIF_C02_CHILD="+spec, "VERIF_C02_ROOT="+h.root)
	var stdout bytes.Buffer
	cmd.Stdout = &stdout
	cmd.Stderr = ioutil.Discard
	err := cmd.Run()
	var points []string
	result := ""
	acked := ""
	for _, l := range strings.Split(stdout.String(), "\n") {
		if !strings.HasPrefix(l, verifC02Mark) {
			continue
		}
		l = l[len(verifC02Mark):]
		switch {
		case strings.HasPrefix(l, "P "):
			points = append(points, l[2:])
		case l == "X" || l == "C" || l == "F":
			points = append(points, l)
		case strings.HasPrefix(l, "W "):
			acked = l[2:]
		case strings.HasPrefix(l, "R "):
			result = l[2:]
		}
	}
	if result == "" {
		result = "exit-unknown"
		if ee, ok := err.(*exec.ExitError); ok {
			if ws, ok := ee.Sys().(syscall.WaitStatus); ok && ws.Signaled() && ws.Signal() == syscall.SIGKILL {
				result = "killed"
				if acked != "" {
					// the process had started to answer before it died
					result = "killed/" + acked
				}
			}
		}
	}
	if len(points) == 0 {
		return result + ",-"
	}
	return result + "," + strings.Join(points, ",")
}

func (h *verifC02Hist) observe() string {
	srv, err := verifC02NewServer(h.root, time.Hour)
	if err != nil {
		return "restart-failed"
	}
	return h.observeWith(srv)
}

func (h *verifC02Hist) observeWith(srv *verifC02Server) string {
	var out []string
	for _, spec := range h.bodies {
		hash := verifC02Hash(verifC02Body(spec))
		resp := httptest.NewRecorder()
		srv.handler.ServeHTTP(resp, verifC02Request("GET", "/"+hash, nil))
		if resp.Code == 200 {
			out = append(out, fmt.Sprintf("get:%s=200/%d/%s", spec, resp.Body.Len(), verifC02Hash(resp.Body.Bytes())))
		} else {
			out = append(out, fmt.Sprintf("get:%s=%d", spec, resp.Code))
		}
	}
	resp := httptest.NewRecorder()
	srv.handler.ServeHTTP(resp, verifC02Request("GET", "/index", nil))
	text := resp.Body.String()
	state := "complete"
	if !strings.HasSuffix(text, "\n\n") && text != "\n" {
		state = "truncated"
	}
	var lines []string
	cutoff := time.Now().Add(-time.Hour).UnixNano()
	for _, l := range strings.Split(strings.TrimRight(text, "\n"), "\n") {
		if l == "" {
			continue
		}
		parts := strings.Split(l, " ")
		age := "bad"
		if len(parts) == 2 {
			if ns, err := strconv.ParseInt(parts[1], 10, 64); err == nil {
				age = "new"
				if ns < cutoff {
					age = "old"
				}
			}
		}
		lines = append(lines, parts[0]+"@"+age)
	}
	sort.Strings(lines)
	if len(lines) == 0 {
		lines = []string{"-"}
	}
	out = append(out, fmt.Sprintf("idx=%d/%s:%s", resp.Code, state, strings.Join(lines, ",")))
	var ls []string
	now := time.Now().Unix()
	h.walk(func(dir, name string, fi os.FileInfo) {
		if name == "" {
			ls = append(ls, dir+"/")
			return
		}
		if strings.HasPrefix(name, "tmp") && len(name) >= 35 {
			name = name[:35] + "*"
		} else if base, d, ok := verifC02TrashDeadline(name); ok {
			if d <= now {
				name = base + ".trash.E"
			} else {
				name = base + ".trash.F"
			}
		}
		ls = append(ls, fmt.Sprintf("%s/%s:%d", dir, name, fi.Size()))
	})
	sort.Strings(ls)
	if len(ls) == 0 {
		ls = []string{"-"}
	}
	out = append(out, "ls="+strings.Join(ls, ","))
	return strings.Join(out, " ")
}

func verifC02Run(line string, tmp string, n int) (out string) {
	defer func() {
		if r := recover(); r != nil {
			out = fmt.Sprintf("panic %v", r)
		}
	}()
	f := strings.Split(line, " ")
	if len(f) == 2 && f[0] == "points" {
		// the instrumenter's point list is checked by the model; nothing to run here
		return "points-ok"
	}
	if len(f) == 2 && f[0] == "mv" {
		return verifC02RunMV(f[1], tmp, n)
	}
	if len(f) != 2 || (f[0] != "hist" && f[0] != "hists") {
		return "bad-op"
	}
	// hists: the volume is configured with Serialize: true (children inherit the environment)
	if f[0] == "hists" {
		os.Setenv("VERIF_C02_SERIALIZE", "1")
	} else {
		os.Setenv("VERIF_C02_SERIALIZE", "0")
	}
	h := &verifC02Hist{root: filepath.Join(tmp, fmt.Sprintf("vol%d", n))}
	if err := os.Mkdir(h.root, 0755); err != nil {
		panic(err)
	}
	defer os.RemoveAll(h.root)
	var res []string
	for _, op := range strings.Split(f[1], ";") {
		g := strings.Split(op, ":")
		switch {
		case g[0] == "seed" && len(g) == 3:
			h.seed(g[1], g[2])
		case g[0] == "tick" && len(g) == 1:
			h.tick()
		case g[0] == "full" && len(g) == 1:
			h.full()
		case g[0] == "put" && len(g) == 3, g[0] == "touch" && len(g) == 3, g[0] == "untrash" && len(g) == 3,
			g[0] == "del" && len(g) == 4, g[0] == "wb" && len(g) == 6, g[0] == "put2" && len(g) == 6:
			h.note(g[1])
			r := h.child(op)
			h.normalise()
			res = append(res, r+" ; "+h.observe())
		case g[0] == "pool" && len(g) == 5:
			h.note(g[1])
			h.note(g[2])
			h.note(g[3])
			r := h.child(op)
			h.normalise()
			res = append(res, r+" ; "+h.observe())
		case g[0] == "empty" && len(g) == 2:
			r := h.child(op)
			h.normalise()
			res = append(res, r+" ; "+h.observe())
		default:
			return "bad-op"
		}
	}
	if len(res) == 0 {
		return "env-only ; " + h.observe()
	}
	return strings.Join(res, " | ")
}

// mv <B>:<v0>,<v1>,…:<mode> — one PUT on a server with several Directory volumes (see the Lean driver).
func verifC02RunMV(spec string, tmp string, n int) string {
	g := strings.Split(spec, ":")
	if len(g) != 3 {
		return "bad-op"
	}
	vols := strings.Split(g[1], ",")
	if len(vols) == 0 || len(vols) > 4 {
		return "bad-op"
	}
	for _, d := range vols {
		if d == "" || !strings.Contains("-icl", d[:1]) || strings.Trim(d[1:], "RFX") != "" {
			return "bad-op"
		}
	}
	if m := g[2]; !(m == "run" || (len(m) > 1 && (m[0] == 'k' || m[0] == 'c') && strings.Trim(m[1:], "0123456789") == "")) {
		return "bad-op"
	}
	os.Setenv("VERIF_C02_SERIALIZE", "0")
	os.Setenv("VERIF_C02_MV", g[1])
	defer os.Unsetenv("VERIF_C02_MV")
	base := filepath.Join(tmp, fmt.Sprintf("vol%d", n))
	if err := os.Mkdir(base, 0755); err != nil {
		panic(err)
	}
	defer os.RemoveAll(base)
	body := verifC02Body(g[0])
	hash := verifC02Hash(body)
	kinds := map[byte]string{'i': "intact", 'c': "corrupt", 'l': "longer"}
	for i, d := range vols {
		sub := &verifC02Hist{root: filepath.Join(base, fmt.Sprintf("m%d", i))}
		if err := os.Mkdir(sub.root, 0755); err != nil {
			panic(err)
		}
		if k, ok := kinds[d[0]]; ok {
			sub.seed(g[0], k)
		}
		if strings.Contains(d[1:], "F") {
			sub.full()
		}
	}
	h := &verifC02Hist{root: base}
	r := h.child("mv:" + spec)
	// what the restarted server shows: GET over all mounts, GET on each volume alone, /index, listing
	srv, err := verifC02NewServer(base, time.Hour)
	if err != nil {
		return r + " ; restart-failed"
	}
	get := func(s *verifC02Server) string {
		resp := httptest.NewRecorder()
		s.handler.ServeHTTP(resp, verifC02Request("GET", "/"+hash, nil))
		if resp.Code == 200 {
			return fmt.Sprintf("200/%d/%s", resp.Body.Len(), verifC02Hash(resp.Body.Bytes()))
		}
		return strconv.Itoa(resp.Code)
	}
	out := []string{fmt.Sprintf("get:%s=%s", g[0], get(srv))}
	os.Unsetenv("VERIF_C02_MV")
	for i := range vols {
		one, err := verifC02NewServer(filepath.Join(base, fmt.Sprintf("m%d", i)), time.Hour)
		if err != nil {
			return r + " ; restart-failed"
		}
		out = append(out, fmt.Sprintf("v%d:get=%s", i, get(one)))
	}
	os.Setenv("VERIF_C02_MV", g[1])
	h.bodies = nil
	rest := (&verifC02Hist{root: base}).observeWith(srv)
	return r + " ; " + strings.Join(out, " ") + " " + rest
}

func TestVerifC02(t *testing.T) {
	in, err := os.Open(os.Getenv("VERIF_CASES"))
	if err != nil {
		t.Skip("VERIF_CASES not set")
	}
	defer in.Close()
	outf, err := os.Create(os.Getenv("VERIF_OUT"))
	if err != nil {
		t.Fatal(err)
	}
	defer outf.Close()
	w := bufio.NewWriter(outf)
	defer w.Flush()
	tmp, err := ioutil.TempDir("", "verif-c02-")
	if err != nil {
		t.Fatal(err)
	}
	defer os.RemoveAll(tmp)
	// GetDeviceID runs `findmnt` twice per volume start (0.1-0.4 s); the device id plays no role
	// here, so let the lookup fail at once (blank DeviceID) in this process and its children.
	os.Setenv("PATH", "/nonexistent")
	sc := bufio.NewScanner(in)
	sc.Buffer(make([]byte, 1<<20), 1<<26)
	n := 0
	for sc.Scan() {
		n++
		fmt.Fprintln(w, verifC02Run(sc.Text(), tmp, n))
	}
}
