// Verification driver for C19 (token salting): keepstore's remoteProxy.remoteClient (keep) and the
// token part of remoteProxy.Get (keepget), with a pre-populated remote keep client whose HTTP
// client records the requests it is asked to send. Injected with `go test -overlay`; not part of
// the repository. One result line per case line.
package main

import (
	"bytes"
	"context"
	"io/ioutil"
	"net/http"
	"net/http/httptest"
	"strconv"
	"strings"
	"sync"
	"testing"

	"git.arvados.org/arvados.git/internal/verifc19"
	"git.arvados.org/arvados.git/sdk/go/arvados"
	"git.arvados.org/arvados.git/sdk/go/arvadosclient"
	"git.arvados.org/arvados.git/sdk/go/auth"
	"git.arvados.org/arvados.git/sdk/go/keepclient"
)

type verifC19KeepRecorder struct {
	mtx   sync.Mutex
	auths [][]string
	dumps []string
}

func (rec *verifC19KeepRecorder) Do(req *http.Request) (*http.Response, error) {
	rec.mtx.Lock()
	rec.auths = append(rec.auths, req.Header["Authorization"])
	rec.dumps = append(rec.dumps, verifc19.Dump(req, nil))
	rec.mtx.Unlock()
	return &http.Response{
		StatusCode: 404, Status: "404 Not Found", Proto: "HTTP/1.1", ProtoMajor: 1, ProtoMinor: 1,
		Header: http.Header{}, Body: ioutil.NopCloser(bytes.NewReader(nil)), Request: req,
	}, nil
}

func verifC19Proxy(remote string) (*remoteProxy, *verifC19KeepRecorder) {
	rec := &verifC19KeepRecorder{}
	kc := &keepclient.KeepClient{
		Arvados:    &arvadosclient.ArvadosClient{ApiToken: "xxx"},
		HTTPClient: rec,
	}
	roots := map[string]string{"zrmte-bi6l4-000000000000000": "http://keep0.remote.example", "zrmte-bi6l4-000000000000001": "http://keep1.remote.example"}
	kc.SetServiceRoots(roots, roots, nil)
	return &remoteProxy{clients: map[string]*keepclient.KeepClient{remote: kc}}, rec
}

func verifC19Case(line string) string {
	f := strings.Split(line, " ")
	if len(f) != 3 {
		return "bad-op"
	}
	remote, token := verifc19.Unhex(f[1]), verifc19.Unhex(f[2])
	switch f[0] {
	case "keep":
		rp, _ := verifC19Proxy(remote)
		kc, err := rp.remoteClient(remote, arvados.RemoteCluster{Host: "remote.example"}, token)
		switch err {
		case nil:
			if rp.clients[remote].Arvados.ApiToken != "xxx" {
				return "shared-client-modified"
			}
			return "ok " + verifc19.Hex(kc.Arvados.ApiToken)
		case auth.ErrSalted:
			return "err salted"
		case auth.ErrObsoleteToken:
			return "err obsolete"
		case auth.ErrTokenFormat:
			return "err format"
		}
		return "err other"
	case "keepget":
		rp, rec := verifC19Proxy(remote)
		cluster := &arvados.Cluster{RemoteClusters: map[string]arvados.RemoteCluster{remote: {Host: "remote.example"}}}
		req := httptest.NewRequest("GET", "/acbd18db4cc2f85cedef654fccc4a4d8+3+R"+remote+"-0123456789abcdef0123456789abcdef01234567@5f000000", nil)
		req.Header["Authorization"] = []string{"OAuth2 " + token}
		w := httptest.NewRecorder()
		rp.Get(context.Background(), w, req, cluster, nil)
		if len(rec.auths) == 0 {
			return "refused " + strconv.Itoa(w.Code)
		}
		var distinct []string
		seen := map[string]bool{}
		for _, a := range rec.auths {
			k := strings.Join(a, "\x00")
			if !seen[k] {
				seen[k] = true
				distinct = append(distinct, a...)
			}
		}
		return "sent " + verifc19.HexList(distinct) + " status=" + strconv.Itoa(w.Code) + " X=" + verifc19.Hex(strings.Join(rec.dumps, "\n"))
	}
	return "bad-op"
}

func TestVerifC19(t *testing.T) {
	if err := verifc19.Run(verifC19Case); err != nil {
		t.Fatal(err)
	}
}
