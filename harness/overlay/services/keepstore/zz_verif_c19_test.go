// Verification driver for C19 (token salting): keepstore's remoteProxy.remoteClient (keep) and the
// token part of remoteProxy.Get (keepget), with a pre-populated remote keep client whose HTTP
// client records the requests it is asked to send. Injected with `go test -overlay`; not part of
// the repository. One result line per case line.
package main

import (
	"bytes"
	"context"
	"encoding/json"
	"fmt"
	"io/ioutil"
	"net"
	"net/http"
	"net/http/httptest"
	"sort"
	"strconv"
	"strings"
	"sync"
	"testing"

	"git.arvados.org/arvados.git/internal/verifc19"
	"git.arvados.org/arvados.git/sdk/go/arvados"
	"git.arvados.org/arvados.git/sdk/go/arvadosclient"
	"git.arvados.org/arvados.git/sdk/go/auth"
	"git.arvados.org/arvados.git/sdk/go/keepclient"
)

type verifC19KeepRecorder struct {
	mtx   sync.Mutex
	auths [][]string
	hosts []string
	dumps []string
}

func (rec *verifC19KeepRecorder) Do(req *http.Request) (*http.Response, error) {
	rec.mtx.Lock()
	rec.auths = append(rec.auths, req.Header["Authorization"])
	rec.hosts = append(rec.hosts, req.URL.Host)
	rec.dumps = append(rec.dumps, verifc19.Dump(req, nil))
	rec.mtx.Unlock()
	return &http.Response{
		StatusCode: 404, Status: "404 Not Found", Proto: "HTTP/1.1", ProtoMajor: 1, ProtoMinor: 1,
		Header: http.Header{}, Body: ioutil.NopCloser(bytes.NewReader(nil)), Request: req,
	}, nil
}

// one remoteProxy with a pre-populated keep client per remote cluster; the keep services of remote
// number i are keep0.r<i>.example and keep1.r<i>.example, all requests go to one recorder
func verifC19Proxy(remotes ...string) (*remoteProxy, *verifC19KeepRecorder) {
	rec := &verifC19KeepRecorder{}
	rp := &remoteProxy{clients: map[string]*keepclient.KeepClient{}}
	for i, remote := range remotes {
		if _, ok := rp.clients[remote]; ok {
			continue
		}
		kc := &keepclient.KeepClient{
			Arvados:    &arvadosclient.ArvadosClient{ApiToken: "xxx"},
			HTTPClient: rec,
		}
		roots := map[string]string{
			"zrmte-bi6l4-000000000000000": "http://keep0.r" + strconv.Itoa(i) + ".example",
			"zrmte-bi6l4-000000000000001": "http://keep1.r" + strconv.Itoa(i) + ".example",
		}
		kc.SetServiceRoots(roots, roots, nil)
		rp.clients[remote] = kc
	}
	return rp, rec
}

type verifC19Step struct {
	remotes []string
	token   string
}

func verifC19Steps(spec string) (steps []verifC19Step, all []string) {
	for _, it := range strings.Split(spec, ";") {
		p := strings.SplitN(it, ":", 2)
		var st verifC19Step
		for _, r := range strings.Split(p[0], "+") {
			st.remotes = append(st.remotes, verifc19.Unhex(r))
		}
		st.token = verifc19.Unhex(p[1])
		steps = append(steps, st)
		all = append(all, st.remotes...)
	}
	return
}

func verifC19SaltErr(err error) string {
	switch err {
	case auth.ErrSalted:
		return "err-salted"
	case auth.ErrObsoleteToken:
		return "err-obsolete"
	case auth.ErrTokenFormat:
		return "err-format"
	}
	return "err-other"
}

// sequences on ONE remoteProxy
func verifC19Seq(op, spec string) string {
	steps, all := verifC19Steps(spec)
	rp, rec := verifC19Proxy(all...)
	index := map[string]int{} // remote -> number used in the keep service host names
	for i, r := range all {
		if _, ok := index[r]; !ok {
			index[r] = i
		}
	}
	cluster := &arvados.Cluster{RemoteClusters: map[string]arvados.RemoteCluster{}}
	for _, r := range all {
		cluster.RemoteClusters[r] = arvados.RemoteCluster{Host: "remote.example"}
	}
	var out []string
	for _, st := range steps {
		if op == "keepseq" {
			kc, err := rp.remoteClient(st.remotes[0], arvados.RemoteCluster{Host: "remote.example"}, st.token)
			if err != nil {
				out = append(out, verifC19SaltErr(err))
			} else {
				out = append(out, "ok-"+verifc19.Hex(kc.Arvados.ApiToken))
			}
			continue
		}
		path := "/acbd18db4cc2f85cedef654fccc4a4d8+3"
		for _, r := range st.remotes {
			path += "+R" + r + "-0123456789abcdef0123456789abcdef01234567@5f000000"
		}
		req := httptest.NewRequest("GET", path, nil)
		req.Header["Authorization"] = []string{"OAuth2 " + st.token}
		w := httptest.NewRecorder()
		n0 := len(rec.auths)
		rp.Get(context.Background(), w, req, cluster, nil)
		if len(rec.auths) == n0 {
			out = append(out, "refused-"+strconv.Itoa(w.Code))
			continue
		}
		// distinct (destination remote, Authorization) pairs of this step
		var pairs []string
		seen := map[string]bool{}
		for i := n0; i < len(rec.auths); i++ {
			dest := "unknown-host-" + rec.hosts[i]
			for r, n := range index {
				if strings.HasSuffix(rec.hosts[i], ".r"+strconv.Itoa(n)+".example") {
					dest = verifc19.Hex(r)
				}
			}
			p := "sent-" + verifc19.HexList(rec.auths[i]) + "@" + dest
			if !seen[p] {
				seen[p] = true
				pairs = append(pairs, p)
			}
		}
		out = append(out, strings.Join(pairs, "|"))
	}
	// the cached per-remote clients must never have been given a caller's token
	for _, kc := range rp.clients {
		if kc.Arvados.ApiToken != "xxx" {
			return "shared-client-modified"
		}
	}
	return strings.Join(out, ";")
}

// ---- kproc: a keepstore process that has just started (no remote keep client yet) --------------
//
// The remote clusters' API endpoints are played by ONE loopback TLS server that is addressed under
// a different 127.x.y.z address for every (case, remote) — keepclient caches service lists per API
// host for the life of the process, so a fresh host makes every case start from "never talked to
// this remote". The block requests of the keep clients that remoteProxy builds are observed through
// the process-wide default keep HTTP client (hook in sdk/go/keepclient), which answers 404.

type verifC19Net struct {
	mtx     sync.Mutex
	events  []string
	dumps   []string
	remotes map[string]string // API host (ip:port) and keep host tag -> remote id
	port    string
	n       int
}

var verifC19NetOnce sync.Once
var verifC19TheNet *verifC19Net

func (vn *verifC19Net) add(ev, dump string) {
	vn.mtx.Lock()
	vn.events = append(vn.events, ev)
	vn.dumps = append(vn.dumps, dump)
	vn.mtx.Unlock()
}

func (vn *verifC19Net) remoteOf(key string) (string, bool) {
	vn.mtx.Lock()
	defer vn.mtx.Unlock()
	r, ok := vn.remotes[key]
	return r, ok
}

// block requests (keepclient's HTTPClient)
func (vn *verifC19Net) Do(req *http.Request) (*http.Response, error) {
	dest := "x." + verifc19.Hex(req.URL.Scheme+"://"+req.URL.Host)
	if h := strings.Split(req.URL.Host, "."); len(h) == 3 && h[2] == "example:25107" {
		if r, ok := vn.remoteOf(h[1]); ok {
			dest = "r." + verifc19.Hex(r)
		}
	}
	vn.add("b@"+dest+"@"+verifc19.Hex(strings.TrimPrefix(req.URL.Path, "/"))+"@"+verifc19.HexList(req.Header["Authorization"]),
		verifc19.Dump(req, nil))
	return &http.Response{
		StatusCode: 404, Status: "404 Not Found", Proto: "HTTP/1.1", ProtoMajor: 1, ProtoMinor: 1,
		Header: http.Header{}, Body: ioutil.NopCloser(bytes.NewReader(nil)), Request: req,
	}, nil
}

// the remote clusters' API endpoints
func (vn *verifC19Net) ServeHTTP(w http.ResponseWriter, r *http.Request) {
	remote, ok := vn.remoteOf(r.Host)
	who := verifc19.Hex(remote)
	if !ok {
		who = "unknown-" + verifc19.Hex(r.Host)
	}
	body, _ := ioutil.ReadAll(r.Body)
	r.URL.Host, r.URL.Scheme = r.Host, "https"
	auths := verifc19.HexList(r.Header["Authorization"])
	w.Header().Set("Content-Type", "application/json")
	switch {
	case r.Method == "GET" && r.URL.Path == "/discovery/v1/apis/arvados/v1/rest" && r.URL.RawQuery == "":
		vn.add("d@"+who+"@"+auths, verifc19.Dump(r, body))
		json.NewEncoder(w).Encode(map[string]interface{}{"defaultCollectionReplication": 2})
	case r.Method == "GET" && r.URL.Path == "/arvados/v1/keep_services/accessible" && r.URL.RawQuery == "":
		vn.add("s@"+who+"@"+auths, verifc19.Dump(r, body))
		tag := strings.Replace(strings.Split(r.Host, ":")[0], ".", "-", -1)
		var items []map[string]interface{}
		for i := 0; i < 2; i++ {
			items = append(items, map[string]interface{}{
				"uuid": "zrmte-bi6l4-00000000000000" + strconv.Itoa(i), "service_host": "keep" + strconv.Itoa(i) + "." + tag + ".example",
				"service_port": 25107, "service_ssl_flag": false, "service_type": "disk", "read_only": false})
		}
		json.NewEncoder(w).Encode(map[string]interface{}{"kind": "arvados#keepServiceList", "items": items})
	default:
		vn.add("o@"+who+"@"+verifc19.Hex(r.Method+" "+r.URL.RequestURI())+"@"+auths, verifc19.Dump(r, body))
		http.Error(w, `{"errors":["not found"]}`, http.StatusNotFound)
	}
}

func verifC19GetNet() *verifC19Net {
	verifC19NetOnce.Do(func() {
		vn := &verifC19Net{remotes: map[string]string{}}
		ln, err := net.Listen("tcp4", "0.0.0.0:0")
		if err != nil {
			panic(err)
		}
		srv := httptest.NewUnstartedServer(vn)
		srv.Listener.Close()
		srv.Listener = ln
		srv.Config.ErrorLog = nil
		srv.StartTLS()
		_, vn.port, _ = net.SplitHostPort(ln.Addr().String())
		keepclient.VerifC19SetDefaultClient(vn)
		verifC19TheNet = vn
	})
	return verifC19TheNet
}

// a new API address for a remote cluster of the current case
func (vn *verifC19Net) newRemote(remote string) string {
	vn.mtx.Lock()
	defer vn.mtx.Unlock()
	vn.n++
	n := vn.n
	ip := fmt.Sprintf("127.%d.%d.%d", 1+(n/62500)%120, (n/250)%250, 1+n%250)
	vn.remotes[ip+":"+vn.port] = remote
	vn.remotes[strings.Replace(ip, ".", "-", -1)] = remote
	return ip + ":" + vn.port
}

// kproc <configured remotes> <step>;...   step = <Authorization values>:<hash>+<hint>+...
func verifC19Proc(cfg, spec string) string {
	vn := verifC19GetNet()
	cluster := &arvados.Cluster{RemoteClusters: map[string]arvados.RemoteCluster{}}
	if cfg != "-" {
		for _, r := range strings.Split(cfg, ",") {
			remote := verifc19.Unhex(r)
			cluster.RemoteClusters[remote] = arvados.RemoteCluster{Host: vn.newRemote(remote), Insecure: true, Scheme: "https", Proxy: true}
		}
	}
	rp := &remoteProxy{}
	var out []string
	vn.mtx.Lock()
	d0 := len(vn.dumps)
	vn.mtx.Unlock()
	for _, st := range strings.Split(spec, ";") {
		p := strings.SplitN(st, ":", 2)
		var parts []string
		for _, h := range strings.Split(p[1], "+") {
			parts = append(parts, verifc19.Unhex(h))
		}
		req := httptest.NewRequest("GET", "/"+strings.Join(parts, "+"), nil)
		if p[0] != "-" {
			var vals []string
			for _, v := range strings.Split(p[0], ",") {
				vals = append(vals, verifc19.Unhex(v))
			}
			req.Header["Authorization"] = vals
		}
		vn.mtx.Lock()
		n0 := len(vn.events)
		vn.mtx.Unlock()
		w := httptest.NewRecorder()
		rp.Get(context.Background(), w, req, cluster, nil)
		vn.mtx.Lock()
		evs := append([]string(nil), vn.events[n0:]...)
		vn.mtx.Unlock()
		var distinct []string
		seen := map[string]bool{}
		for _, ev := range evs {
			if !seen[ev] {
				seen[ev] = true
				distinct = append(distinct, ev)
			}
		}
		if len(distinct) == 0 {
			distinct = []string{"-"}
		}
		out = append(out, strconv.Itoa(w.Code)+"/"+strings.Join(distinct, "|"))
	}
	// the tokens the cached per-remote clients hold
	var held []string
	rp.mtx.Lock()
	for _, kc := range rp.clients {
		held = append(held, kc.Arvados.ApiToken)
	}
	rp.mtx.Unlock()
	sort.Strings(held)
	vn.mtx.Lock()
	dump := strings.Join(vn.dumps[d0:], "\n")
	vn.mtx.Unlock()
	return strings.Join(out, ";") + " C=" + verifc19.HexList(held) + " X=" + verifc19.Hex(dump)
}

func verifC19Case(line string) string {
	f := strings.Split(line, " ")
	if len(f) == 3 && f[0] == "kproc" {
		return verifC19Proc(f[1], f[2])
	}
	if len(f) == 2 && (f[0] == "keepseq" || f[0] == "keepgetseq") {
		return verifC19Seq(f[0], f[1])
	}
	if len(f) != 3 {
		return "bad-op"
	}
	remote, token := verifc19.Unhex(f[1]), verifc19.Unhex(f[2])
	switch f[0] {
	case "keep":
		rp, _ := verifC19Proxy(remote)
		kc, err := rp.remoteClient(remote, arvados.RemoteCluster{Host: "remote.example"}, token)
		switch err {
		case nil:
			if rp.clients[remote].Arvados.ApiToken != "xxx" {
				return "shared-client-modified"
			}
			return "ok " + verifc19.Hex(kc.Arvados.ApiToken)
		case auth.ErrSalted:
			return "err salted"
		case auth.ErrObsoleteToken:
			return "err obsolete"
		case auth.ErrTokenFormat:
			return "err format"
		}
		return "err other"
	case "keepget":
		rp, rec := verifC19Proxy(remote)
		cluster := &arvados.Cluster{RemoteClusters: map[string]arvados.RemoteCluster{remote: {Host: "remote.example"}}}
		req := httptest.NewRequest("GET", "/acbd18db4cc2f85cedef654fccc4a4d8+3+R"+remote+"-0123456789abcdef0123456789abcdef01234567@5f000000", nil)
		req.Header["Authorization"] = []string{"OAuth2 " + token}
		w := httptest.NewRecorder()
		rp.Get(context.Background(), w, req, cluster, nil)
		if len(rec.auths) == 0 {
			return "refused " + strconv.Itoa(w.Code)
		}
		var distinct []string
		seen := map[string]bool{}
		for _, a := range rec.auths {
			k := strings.Join(a, "\x00")
			if !seen[k] {
				seen[k] = true
				distinct = append(distinct, a...)
			}
		}
		return "sent " + verifc19.HexList(distinct) + " status=" + strconv.Itoa(w.Code) + " X=" + verifc19.Hex(strings.Join(rec.dumps, "\n"))
	}
	return "bad-op"
}

func TestVerifC19(t *testing.T) {
	if err := verifc19.Run(verifC19Case); err != nil {
		t.Fatal(err)
	}
}
