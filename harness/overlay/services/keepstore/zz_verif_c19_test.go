// Verification driver for C19 (token salting): keepstore's remoteProxy.remoteClient (keep) and the
// token part of remoteProxy.Get (keepget), with a pre-populated remote keep client whose HTTP
// client records the requests it is asked to send. Injected with `go test -overlay`; not part of
// the repository. One result line per case line.
package main

import (
	"bytes"
	"context"
	"io/ioutil"
	"net/http"
	"net/http/httptest"
	"strconv"
	"strings"
	"sync"
	"testing"

	"git.arvados.org/arvados.git/internal/verifc19"
	"git.arvados.org/arvados.git/sdk/go/arvados"
	"git.arvados.org/arvados.git/sdk/go/arvadosclient"
	"git.arvados.org/arvados.git/sdk/go/auth"
	"git.arvados.org/arvados.git/sdk/go/keepclient"
)

type verifC19KeepRecorder struct {
	mtx   sync.Mutex
	auths [][]string
	hosts []string
	dumps []string
}

func (rec *verifC19KeepRecorder) Do(req *http.Request) (*http.Response, error) {
	rec.mtx.Lock()
	rec.auths = append(rec.auths, req.Header["Authorization"])
	rec.hosts = append(rec.hosts, req.URL.Host)
	rec.dumps = append(rec.dumps, verifc19.Dump(req, nil))
	rec.mtx.Unlock()
	return &http.Response{
		StatusCode: 404, Status: "404 Not Found", Proto: "HTTP/1.1", ProtoMajor: 1, ProtoMinor: 1,
		Header: http.Header{}, Body: ioutil.NopCloser(bytes.NewReader(nil)), Request: req,
	}, nil
}

// one remoteProxy with a pre-populated keep client per remote cluster; the keep services of remote
// number i are keep0.r<i>.example and keep1.r<i>.example, all requests go to one recorder
func verifC19Proxy(remotes ...string) (*remoteProxy, *verifC19KeepRecorder) {
	rec := &verifC19KeepRecorder{}
	rp := &remoteProxy{clients: map[string]*keepclient.KeepClient{}}
	for i, remote := range remotes {
		if _, ok := rp.clients[remote]; ok {
			continue
		}
		kc := &keepclient.KeepClient{
			Arvados:    &arvadosclient.ArvadosClient{ApiToken: "xxx"},
			HTTPClient: rec,
		}
		roots := map[string]string{
			"zrmte-bi6l4-000000000000000": "http://keep0.r" + strconv.Itoa(i) + ".example",
			"zrmte-bi6l4-000000000000001": "http://keep1.r" + strconv.Itoa(i) + ".example",
		}
		kc.SetServiceRoots(roots, roots, nil)
		rp.clients[remote] = kc
	}
	return rp, rec
}

type verifC19Step struct {
	remotes []string
	token   string
}

func verifC19Steps(spec string) (steps []verifC19Step, all []string) {
	for _, it := range strings.Split(spec, ";") {
		p := strings.SplitN(it, ":", 2)
		var st verifC19Step
		for _, r := range strings.Split(p[0], "+") {
			st.remotes = append(st.remotes, verifc19.Unhex(r))
		}
		st.token = verifc19.Unhex(p[1])
		steps = append(steps, st)
		all = append(all, st.remotes...)
	}
	return
}

func verifC19SaltErr(err error) string {
	switch err {
	case auth.ErrSalted:
		return "err-salted"
	case auth.ErrObsoleteToken:
		return "err-obsolete"
	case auth.ErrTokenFormat:
		return "err-format"
	}
	return "err-other"
}

// sequences on ONE remoteProxy
func verifC19Seq(op, spec string) string {
	steps, all := verifC19Steps(spec)
	rp, rec := verifC19Proxy(all...)
	index := map[string]int{} // remote -> number used in the keep service host names
	for i, r := range all {
		if _, ok := index[r]; !ok {
			index[r] = i
		}
	}
	cluster := &arvados.Cluster{RemoteClusters: map[string]arvados.RemoteCluster{}}
	for _, r := range all {
		cluster.RemoteClusters[r] = arvados.RemoteCluster{Host: "remote.example"}
	}
	var out []string
	for _, st := range steps {
		if op == "keepseq" {
			kc, err := rp.remoteClient(st.remotes[0], arvados.RemoteCluster{Host: "remote.example"}, st.token)
			if err != nil {
				out = append(out, verifC19SaltErr(err))
			} else {
				out = append(out, "ok-"+verifc19.Hex(kc.Arvados.ApiToken))
			}
			continue
		}
		path := "/acbd18db4cc2f85cedef654fccc4a4d8+3"
		for _, r := range st.remotes {
			path += "+R" + r + "-0123456789abcdef0123456789abcdef01234567@5f000000"
		}
		req := httptest.NewRequest("GET", path, nil)
		req.Header["Authorization"] = []string{"OAuth2 " + st.token}
		w := httptest.NewRecorder()
		n0 := len(rec.auths)
		rp.Get(context.Background(), w, req, cluster, nil)
		if len(rec.auths) == n0 {
			out = append(out, "refused-"+strconv.Itoa(w.Code))
			continue
		}
		// distinct (destination remote, Authorization) pairs of this step
		var pairs []string
		seen := map[string]bool{}
		for i := n0; i < len(rec.auths); i++ {
			dest := "unknown-host-" + rec.hosts[i]
			for r, n := range index {
				if strings.HasSuffix(rec.hosts[i], ".r"+strconv.Itoa(n)+".example") {
					dest = verifc19.Hex(r)
				}
			}
			p := "sent-" + verifc19.HexList(rec.auths[i]) + "@" + dest
			if !seen[p] {
				seen[p] = true
				pairs = append(pairs, p)
			}
		}
		out = append(out, strings.Join(pairs, "|"))
	}
	// the cached per-remote clients must never have been given a caller's token
	for _, kc := range rp.clients {
		if kc.Arvados.ApiToken != "xxx" {
			return "shared-client-modified"
		}
	}
	return strings.Join(out, ";")
}

func verifC19Case(line string) string {
	f := strings.Split(line, " ")
	if len(f) == 2 && (f[0] == "keepseq" || f[0] == "keepgetseq") {
		return verifC19Seq(f[0], f[1])
	}
	if len(f) != 3 {
		return "bad-op"
	}
	remote, token := verifc19.Unhex(f[1]), verifc19.Unhex(f[2])
	switch f[0] {
	case "keep":
		rp, _ := verifC19Proxy(remote)
		kc, err := rp.remoteClient(remote, arvados.RemoteCluster{Host: "remote.example"}, token)
		switch err {
		case nil:
			if rp.clients[remote].Arvados.ApiToken != "xxx" {
				return "shared-client-modified"
			}
			return "ok " + verifc19.Hex(kc.Arvados.ApiToken)
		case auth.ErrSalted:
			return "err salted"
		case auth.ErrObsoleteToken:
			return "err obsolete"
		case auth.ErrTokenFormat:
			return "err format"
		}
		return "err other"
	case "keepget":
		rp, rec := verifC19Proxy(remote)
		cluster := &arvados.Cluster{RemoteClusters: map[string]arvados.RemoteCluster{remote: {Host: "remote.example"}}}
		req := httptest.NewRequest("GET", "/acbd18db4cc2f85cedef654fccc4a4d8+3+R"+remote+"-0123456789abcdef0123456789abcdef01234567@5f000000", nil)
		req.Header["Authorization"] = []string{"OAuth2 " + token}
		w := httptest.NewRecorder()
		rp.Get(context.Background(), w, req, cluster, nil)
		if len(rec.auths) == 0 {
			return "refused " + strconv.Itoa(w.Code)
		}
		var distinct []string
		seen := map[string]bool{}
		for _, a := range rec.auths {
			k := strings.Join(a, "\x00")
			if !seen[k] {
				seen[k] = true
				distinct = append(distinct, a...)
			}
		}
		return "sent " + verifc19.HexList(distinct) + " status=" + strconv.Itoa(w.Code) + " X=" + verifc19.Hex(strings.Join(rec.dumps, "\n"))
	}
	return "bad-op"
}

func TestVerifC19(t *testing.T) {
	if err := verifc19.Run(verifC19Case); err != nil {
		t.Fatal(err)
	}
}
