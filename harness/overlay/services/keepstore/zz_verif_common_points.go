// Added by `go test -overlay` for verification builds only (not part of the repository).
// verifPoint is called by the instrumented copy of unix_volume.go that the C02/C04 checks generate
// from the current working tree (translator/instrument). It is a no-op unless a driver installs a
// hook (kill-at-point for C02, park-and-release schedule controller for C04).
package main

import "sync/atomic"

var verifPointHook atomic.Value // func(id string)

func verifPoint(id string) {
	if h, ok := verifPointHook.Load().(func(string)); ok && h != nil {
		h(id)
	}
}
