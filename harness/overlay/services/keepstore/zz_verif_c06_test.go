// Verification driver for C06 (index producer: keepstore handleIndex). Injected with
// `go test -overlay`; not part of the repository. One result line per case line.
//
//   prod <hexwritten:ok;…>   a router whose readable volumes' IndexTo write the given bytes and
//                            return nil (ok=1) or an error (ok=0); GET /index through the real mux
//                            and handleIndex; prints the response body in hex.
//   prodm <hexwritten:ok>    the same through GET /mounts/{uuid}/blocks for a single mount
package main

import (
	"bufio"
	"encoding/hex"
	"errors"
	"fmt"
	"io"
	"net/http"
	"net/http/httptest"
	"os"
	"strings"
	"testing"

	"git.arvados.org/arvados.git/sdk/go/arvados"
	"github.com/gorilla/mux"
	"github.com/sirupsen/logrus"
)

// verifC06Vol implements only what handleIndex uses; any other Volume method panics (nil embedded
// interface) and is reported as a panic result line.
type verifC06Vol struct {
	Volume
	written []byte
	ok      bool
}

func (v *verifC06Vol) IndexTo(prefix string, w io.Writer) error {
	if _, err := w.Write(v.written); err != nil {
		return err
	}
	if !v.ok {
		return errors.New("verif: injected IndexTo error")
	}
	return nil
}

func (v *verifC06Vol) String() string { return "verifC06Vol" }

func verifC06Prod(f []string) (out string) {
	defer func() {
		if r := recover(); r != nil {
			out = strings.Replace(fmt.Sprintf("panic %v", r), "\n", " ", -1)
		}
	}()
	if len(f) != 2 {
		return "bad-op"
	}
	vm := &RRVolumeManager{mountMap: map[string]*VolumeMount{}, iostats: map[Volume]*ioStats{}}
	if f[1] != "-" {
		for i, spec := range strings.Split(f[1], ";") {
			p := strings.Split(spec, ":")
			if len(p) != 2 || (p[1] != "0" && p[1] != "1") {
				return "bad-op"
			}
			var data []byte
			if p[0] != "-" {
				var err error
				data, err = hex.DecodeString(p[0])
				if err != nil {
					return "bad-op"
				}
			}
			mnt := &VolumeMount{
				KeepMount: arvados.KeepMount{UUID: fmt.Sprintf("zzzzz-nyw5e-%015d", i)},
				Volume:    &verifC06Vol{written: data, ok: p[1] == "1"},
			}
			vm.mounts = append(vm.mounts, mnt)
			vm.readables = append(vm.readables, mnt)
			vm.mountMap[mnt.UUID] = mnt
		}
	}
	logger := logrus.New()
	logger.Out = io.Discard
	rtr := &router{
		Router:  mux.NewRouter(),
		cluster: &arvados.Cluster{SystemRootToken: "verif-system-root-token"},
		logger:  logger,
		volmgr:  vm,
	}
	rtr.HandleFunc(`/index`, rtr.handleIndex).Methods("GET", "HEAD")
	rtr.HandleFunc(`/mounts/{uuid}/blocks`, rtr.handleIndex).Methods("GET")
	path := "/index"
	if f[0] == "prodm" {
		if len(vm.mounts) != 1 {
			return "bad-op"
		}
		path = "/mounts/" + vm.mounts[0].UUID + "/blocks"
	}
	req := httptest.NewRequest("GET", path, nil)
	req.Header.Set("Authorization", "OAuth2 verif-system-root-token")
	rec := httptest.NewRecorder()
	rtr.ServeHTTP(rec, req)
	if rec.Code != 200 {
		return fmt.Sprintf("status%d", rec.Code)
	}
	if rec.Body.Len() == 0 {
		return "-"
	}
	return hex.EncodeToString(rec.Body.Bytes())
}

var _ = http.StatusOK

func TestVerifC06(t *testing.T) {
	in, err := os.Open(os.Getenv("VERIF_CASES"))
	if err != nil {
		t.Skip("VERIF_CASES not set")
	}
	defer in.Close()
	outf, err := os.Create(os.Getenv("VERIF_OUT"))
	if err != nil {
		t.Fatal(err)
	}
	defer outf.Close()
	w := bufio.NewWriter(outf)
	defer w.Flush()
	sc := bufio.NewScanner(in)
	sc.Buffer(make([]byte, 1<<20), 1<<26)
	for sc.Scan() {
		f := strings.Split(sc.Text(), " ")
		switch f[0] {
		case "prod", "prodm":
			fmt.Fprintln(w, verifC06Prod(f))
		default:
			fmt.Fprintln(w, "bad-op")
		}
	}
}
