// Verification driver for C04 (a freshly written or touched block survives garbage collection for
// the TTL). Injected with `go test -overlay`; not part of the repository.
//
// Two kinds of case lines (see /verif/notes/C04.md for the full grammar):
//
//   hist <ttl> <life> <blobtrash 0|1> <conc 0|1> <vols> <init> <ops>
//        sequential history through the real router / trash worker on 1-2 Directory volumes.
//        Logical time: one unit = verifC04Unit of real time; "time passes" by aging every file
//        (mtime and trash deadline are shifted back), one unit after every op plus explicit ticks.
//   race <serialize 0|1> <life 0|1> <pre a|g|c> <age o|f> <pop touch|put> <top del|ti|untrash> <sched>
//        two goroutines (P = TOUCH/PUT request, T = DELETE request / TrashItem / untrash request) run against the
//        instrumented unix_volume.go; each parks at every verifPoint; the controller releases
//        exactly one at a time according to <sched> (letters P/T), then drains with PTPT...
package main

import (
	"bufio"
	"bytes"
	"context"
	"crypto/md5"
	"encoding/json"
	"fmt"
	"io/ioutil"
	"math"
	"net/http"
	"net/http/httptest"
	"os"
	"path/filepath"
	"regexp"
	"sort"
	"strconv"
	"strings"
	"sync"
	"sync/atomic"
	"testing"
	"time"

	"git.arvados.org/arvados.git/lib/config"
	"git.arvados.org/arvados.git/sdk/go/arvados"
	"git.arvados.org/arvados.git/sdk/go/ctxlog"
	"github.com/prometheus/client_golang/prometheus"
	"github.com/sirupsen/logrus"
)

const verifC04Unit = 100 * time.Second
const verifC04MaxDrift = 20 * time.Second
const verifC04Token = "verifc04systemroottokenxxxxxxxxxxxxxxxxxxxxxxxxxxxxxxxx"

var verifC04Logger = func() *logrus.Logger {
	l := logrus.New()
	l.Out = ioutil.Discard
	return l
}()

func verifC04Body(i int) []byte    { return []byte(fmt.Sprintf("verif-c04-block-%d", i)) }
func verifC04Corrupt(i int) []byte { return []byte(fmt.Sprintf("verif-c04-corrupt-%d!", i)) }
func verifC04Hash(i int) string    { return fmt.Sprintf("%x", md5.Sum(verifC04Body(i))) }

var verifC04BlockRe = regexp.MustCompile(`^[0-9a-f]{32}$`)
var verifC04TrashRe = regexp.MustCompile(`^([0-9a-f]{32})\.trash\.(-?\d+)$`)

// ---------------------------------------------------------------------------- lock wrapper

// verifC04Locker replaces the volume's Serialize mutex (same mutual exclusion) so that the
// schedule controller can tell deterministically whether a goroutine is waiting for it.
type verifC04Locker struct {
	m       sync.Mutex
	c       *sync.Cond
	held    bool
	waiting int
}

func verifC04NewLocker() *verifC04Locker {
	l := &verifC04Locker{}
	l.c = sync.NewCond(&l.m)
	return l
}

func (l *verifC04Locker) Lock() {
	l.m.Lock()
	if l.held {
		l.waiting++
		for l.held {
			l.c.Wait()
		}
		l.waiting--
	}
	l.held = true
	l.m.Unlock()
}

func (l *verifC04Locker) Unlock() {
	l.m.Lock()
	l.held = false
	l.c.Broadcast()
	l.m.Unlock()
}

func (l *verifC04Locker) blocked() bool {
	l.m.Lock()
	defer l.m.Unlock()
	return l.held && l.waiting > 0
}

// ---------------------------------------------------------------------------- server

type verifC04Server struct {
	cluster *arvados.Cluster
	volmgr  *RRVolumeManager
	router  http.Handler
	trashq  *WorkQueue
	roots   []string
	uuids   []string
	lockers []*verifC04Locker
	full    []bool
}

var verifC04BufsSet bool

func verifC04UUID(i int) string { return fmt.Sprintf("zzzzz-nyw5e-%015d", i) }

// vols: one entry per volume, e.g. "ws" (writable, Serialize), "rn" (read-only, no Serialize)
func verifC04NewServer(base string, vols []string) (*verifC04Server, error) {
	ldr := config.NewLoader(bytes.NewBufferString("Clusters: {zzzzz: {}}"), verifC04Logger)
	ldr.Path = "-"
	cfg, err := ldr.Load()
	if err != nil {
		return nil, err
	}
	cluster, err := cfg.GetCluster("")
	if err != nil {
		return nil, err
	}
	cluster.SystemRootToken = verifC04Token
	cluster.Collections.BlobSigning = false
	cluster.Volumes = map[string]arvados.Volume{}
	s := &verifC04Server{cluster: cluster}
	for i, v := range vols {
		if (len(v) != 2 && !(len(v) == 3 && v[2] == 'f')) || (v[0] != 'w' && v[0] != 'r' && v[0] != 'a') || (v[1] != 's' && v[1] != 'n') {
			return nil, fmt.Errorf("hist: bad volume spec %q", v)
		}
		root := filepath.Join(base, fmt.Sprintf("v%d", i))
		if err := os.MkdirAll(root, 0755); err != nil {
			return nil, err
		}
		params, _ := json.Marshal(map[string]interface{}{"Root": root, "Serialize": v[1] == 's'})
		vol := arvados.Volume{Driver: "Directory", DriverParameters: params, ReadOnly: v[0] == 'r', Replication: 1}
		if v[0] == 'a' {
			// read-only for THIS server only (Volumes.*.AccessViaHosts.<url>.ReadOnly): the mount is
			// read-only although the volume's own ReadOnly flag is false
			vol.AccessViaHosts = map[arvados.URL]arvados.VolumeAccess{arvados.URL{}: {ReadOnly: true}}
		}
		cluster.Volumes[verifC04UUID(i)] = vol
		s.roots = append(s.roots, root)
		s.full = append(s.full, len(v) == 3)
		s.uuids = append(s.uuids, verifC04UUID(i))
	}
	reg := prometheus.NewRegistry()
	if !verifC04BufsSet {
		verifC04BufsSet = true
		bufs = newBufferPool(verifC04Logger, 4, BlockSize)
		// sync.Pool drops its 64 MiB buffers at every GC and clearing a new one costs ~50 ms; the
		// requests of one case run one at a time, so a fixed set handed out in turn is enough.
		var stash [4][]byte
		var next uint32
		bufs.Pool.New = func() interface{} {
			i := atomic.AddUint32(&next, 1) % uint32(len(stash))
			if stash[i] == nil {
				stash[i] = make([]byte, BlockSize)
			}
			return stash[i]
		}
	}
	vm, err := makeRRVolumeManager(verifC04Logger, cluster, arvados.URL{}, newVolumeMetricsVecs(reg))
	if err != nil {
		return nil, err
	}
	// cluster.Volumes is a map, so the mount order is random; fix it to the order of the case line.
	byUUID := func(l []*VolumeMount) {
		sort.Slice(l, func(i, j int) bool { return l[i].UUID < l[j].UUID })
	}
	byUUID(vm.mounts)
	byUUID(vm.readables)
	byUUID(vm.writables)
	for _, mnt := range vm.mounts {
		uv, ok := mnt.Volume.(*UnixVolume)
		if !ok {
			return nil, fmt.Errorf("not a UnixVolume")
		}
		var l *verifC04Locker
		if uv.locker != nil {
			l = verifC04NewLocker()
			uv.locker = l
		}
		s.lockers = append(s.lockers, l)
	}
	s.volmgr = vm
	s.trashq = NewWorkQueue()
	s.router = MakeRESTRouter(context.Background(), cluster, reg, vm, NewWorkQueue(), s.trashq)
	go RunTrashWorker(vm, verifC04Logger, cluster, s.trashq)
	return s, nil
}

func (s *verifC04Server) close() {
	s.trashq.Close()
}

func (s *verifC04Server) do(method, uri string, body []byte, auth bool) *httptest.ResponseRecorder {
	resp := httptest.NewRecorder()
	req, _ := http.NewRequest(method, uri, bytes.NewReader(body))
	if auth {
		req.Header.Set("Authorization", "OAuth2 "+verifC04Token)
	}
	s.router.ServeHTTP(resp, req)
	return resp
}

func (s *verifC04Server) wipe() error {
	for _, r := range s.roots {
		ents, err := ioutil.ReadDir(r)
		if err != nil {
			return err
		}
		for _, e := range ents {
			if err := os.RemoveAll(filepath.Join(r, e.Name())); err != nil {
				return err
			}
		}
	}
	s.volmgr.counter = 0
	// volumes flagged 'f': the marker IsFull() looks for (a symlink <root>/full -> <unix time>, younger
	// than an hour), so that WriteBlock answers FullError
	for i, r := range s.roots {
		if s.full[i] {
			if err := os.Symlink(strconv.FormatInt(time.Now().Unix(), 10), filepath.Join(r, "full")); err != nil {
				return err
			}
		}
	}
	return nil
}

func verifC04HashIndex(name string) int {
	for i := 0; i < 8; i++ {
		if verifC04Hash(i) == name {
			return i
		}
	}
	return -1
}

func verifC04ParseHash(sym string) (int, error) {
	if len(sym) < 2 || sym[0] != 'h' {
		return 0, fmt.Errorf("hist: bad hash symbol %q", sym)
	}
	i, err := strconv.ParseUint(sym[1:], 10, 31)
	if err != nil || i > 7 {
		return 0, fmt.Errorf("hist: bad hash symbol %q", sym)
	}
	return int(i), nil
}

func (s *verifC04Server) blockPath(vol, hi int) string {
	h := verifC04Hash(hi)
	return filepath.Join(s.roots[vol], h[:3], h)
}

func (s *verifC04Server) plant(vol, hi int, good bool, mtime time.Time, trashDeadline *int64) error {
	p := s.blockPath(vol, hi)
	if trashDeadline != nil {
		p = fmt.Sprintf("%s.trash.%d", p, *trashDeadline)
	}
	if err := os.MkdirAll(filepath.Dir(p), 0755); err != nil {
		return err
	}
	data := verifC04Body(hi)
	if !good {
		data = verifC04Corrupt(hi)
	}
	if err := ioutil.WriteFile(p, data, 0644); err != nil {
		return err
	}
	return os.Chtimes(p, mtime, mtime)
}

// listing prints every file of every volume in canonical form:
//   block  h<i>:<g|c>:<age units>          trash  h<i>.T<remaining units>:<g|c>:<age units>
func (s *verifC04Server) listing(now time.Time) string {
	var vols []string
	for _, root := range s.roots {
		var ents []string
		filepath.Walk(root, func(path string, info os.FileInfo, err error) error {
			if err != nil || info.IsDir() || (info.Name() == "full" && filepath.Dir(path) == root) {
				return nil
			}
			name := info.Name()
			data, _ := ioutil.ReadFile(path)
			age := int(math.Floor((float64(now.Sub(info.ModTime())) + float64(verifC04Unit)/4) / float64(verifC04Unit)))
			cls := func(hi int) string {
				if bytes.Equal(data, verifC04Body(hi)) {
					return "g"
				}
				return "c"
			}
			if verifC04BlockRe.MatchString(name) && verifC04HashIndex(name) >= 0 {
				hi := verifC04HashIndex(name)
				ents = append(ents, fmt.Sprintf("h%d:%s:%d", hi, cls(hi), age))
			} else if m := verifC04TrashRe.FindStringSubmatch(name); m != nil && verifC04HashIndex(m[1]) >= 0 {
				hi := verifC04HashIndex(m[1])
				d, _ := strconv.ParseInt(m[2], 10, 64)
				rem := int(math.Floor((float64(d-now.Unix()) + 75) / verifC04Unit.Seconds()))
				ents = append(ents, fmt.Sprintf("h%d.T%d:%s:%d", hi, rem, cls(hi), age))
			} else {
				ents = append(ents, "?"+name)
			}
			return nil
		})
		sort.Strings(ents)
		if len(ents) == 0 {
			vols = append(vols, "-")
		} else {
			vols = append(vols, strings.Join(ents, ","))
		}
	}
	return strings.Join(vols, "/")
}

// age makes d logical units pass: every block file and trashed file gets d units older, every
// trash deadline d units nearer. All keepstore code compares only differences to time.Now().
func (s *verifC04Server) age(d int) error {
	shift := time.Duration(d) * verifC04Unit
	if d == 0 {
		return nil
	}
	for _, root := range s.roots {
		var files []string
		filepath.Walk(root, func(path string, info os.FileInfo, err error) error {
			if err == nil && !info.IsDir() && !(info.Name() == "full" && filepath.Dir(path) == root) {
				files = append(files, path)
			}
			return nil
		})
		sort.Strings(files) // smaller deadlines first, so a shifted name never hits an unshifted one
		for _, path := range files {
			fi, err := os.Stat(path)
			if err != nil {
				return err
			}
			mt := fi.ModTime().Add(-shift)
			if err := os.Chtimes(path, mt, mt); err != nil {
				return err
			}
			if m := verifC04TrashRe.FindStringSubmatch(filepath.Base(path)); m != nil {
				dl, _ := strconv.ParseInt(m[2], 10, 64)
				np := filepath.Join(filepath.Dir(path), fmt.Sprintf("%s.trash.%d", m[1], dl-int64(shift/time.Second)))
				if _, err := os.Stat(np); err == nil {
					return fmt.Errorf("aging collision on %s", np)
				}
				if err := os.Rename(path, np); err != nil {
					return err
				}
			}
		}
	}
	return nil
}

// trashRequest builds one trash-list entry: mref = v0|v1 (the timestamp stored on that volume right
// now), v0+|v1+ (one nanosecond later), a<k> (an unrelated time k units ago); mount = -|0|1|x.
func (s *verifC04Server) trashRequest(vols []string, hi int, mref, mount string) (TrashRequest, error) {
	var bm int64
	plus := strings.HasSuffix(mref, "+")
	mref = strings.TrimSuffix(mref, "+")
	switch {
	case mref == "v0" || mref == "v1":
		vol := int(mref[1] - '0')
		if vol < len(vols) {
			if fi, err := os.Stat(s.blockPath(vol, hi)); err == nil {
				bm = fi.ModTime().UnixNano()
			}
		}
		if plus && bm != 0 {
			bm++
		}
	case strings.HasPrefix(mref, "a"):
		a, e := strconv.Atoi(mref[1:])
		if e != nil || a < 0 {
			return TrashRequest{}, fmt.Errorf("bad mref")
		}
		bm = time.Now().Add(-time.Duration(a) * verifC04Unit).UnixNano()
	default:
		return TrashRequest{}, fmt.Errorf("bad mref")
	}
	tr := TrashRequest{Locator: verifC04Hash(hi), BlockMtime: bm}
	switch mount {
	case "-":
	case "0", "1":
		tr.MountUUID = verifC04UUID(int(mount[0] - '0'))
	case "x":
		tr.MountUUID = "zzzzz-nyw5e-999999999999999"
	default:
		return TrashRequest{}, fmt.Errorf("bad mount")
	}
	return tr, nil
}

func (s *verifC04Server) waitTrashIdle() error {
	deadline := time.Now().Add(30 * time.Second)
	for time.Now().Before(deadline) {
		st := s.trashq.Status()
		if st.InProgress == 0 && st.Queued == 0 {
			return nil
		}
		time.Sleep(200 * time.Microsecond)
	}
	return fmt.Errorf("trash queue did not drain")
}

// ---------------------------------------------------------------------------- history mode

var verifC04Servers = map[string]*verifC04Server{}
var verifC04ServerSeq int

func verifC04GetServer(base string, vols []string) (*verifC04Server, error) {
	key := strings.Join(vols, ",")
	if s, ok := verifC04Servers[key]; ok {
		return s, s.wipe()
	}
	verifC04ServerSeq++
	s, err := verifC04NewServer(filepath.Join(base, fmt.Sprintf("%s.%d", strings.Replace(key, ",", "_", -1), verifC04ServerSeq)), vols)
	if err != nil {
		return nil, err
	}
	verifC04Servers[key] = s
	return s, s.wipe()
}

func verifC04Hist(base string, f []string) (string, error) {
	if len(f) != 8 {
		return "", fmt.Errorf("hist: want 8 fields")
	}
	ttl, err1 := strconv.Atoi(f[1])
	life, err2 := strconv.Atoi(f[2])
	conc, err3 := strconv.Atoi(f[4])
	if err1 != nil || err2 != nil || err3 != nil || (f[3] != "0" && f[3] != "1") || ttl < 0 || life < 0 {
		return "", fmt.Errorf("hist: bad config")
	}
	vols := strings.Split(f[5], ",")
	if len(vols) < 1 || len(vols) > 2 {
		return "", fmt.Errorf("hist: 1-2 volumes")
	}
	s, err := verifC04GetServer(base, vols)
	if err != nil {
		return "", err
	}
	s.cluster.Collections.BlobSigningTTL = arvados.Duration(time.Duration(ttl) * verifC04Unit)
	s.cluster.Collections.BlobTrashLifetime = arvados.Duration(time.Duration(life) * verifC04Unit)
	s.cluster.Collections.BlobTrash = f[3] == "1"
	s.cluster.Collections.BlobDeleteConcurrency = conc
	start := time.Now()
	// initial files
	if f[6] != "-" {
		for _, it := range strings.Split(f[6], ",") {
			p := strings.Split(it, ":")
			if len(p) != 4 && len(p) != 5 {
				return "", fmt.Errorf("hist: bad init item %q", it)
			}
			vol, e1 := strconv.Atoi(p[0])
			hi, e2 := verifC04ParseHash(p[1])
			age, e3 := strconv.Atoi(p[3])
			if e1 != nil || e2 != nil || e3 != nil || vol < 0 || vol >= len(vols) || (p[2] != "g" && p[2] != "c") || age < 1 {
				return "", fmt.Errorf("hist: bad init item %q", it)
			}
			mt := start.Add(-time.Duration(age) * verifC04Unit)
			if len(p) == 5 {
				if !strings.HasPrefix(p[4], "T") {
					return "", fmt.Errorf("hist: bad init item %q", it)
				}
				rem, e := strconv.Atoi(p[4][1:])
				if e != nil {
					return "", fmt.Errorf("hist: bad init item %q", it)
				}
				// half a unit early, so a planted deadline never equals one computed by Trash
				dl := start.Unix() + int64(rem)*int64(verifC04Unit/time.Second) - int64(verifC04Unit/time.Second)/2
				err = s.plant(vol, hi, p[2] == "g", mt, &dl)
			} else {
				err = s.plant(vol, hi, p[2] == "g", mt, nil)
			}
			if err != nil {
				return "", err
			}
		}
	}
	var res []string
	snaps := []string{s.listing(time.Now())}
	if f[7] != "-" {
		for _, op := range strings.Split(f[7], ";") {
			p := strings.Split(op, ":")
			r := ""
			auto := true
			switch {
			case p[0] == "tick" && len(p) == 2:
				d, e := strconv.Atoi(p[1])
				if e != nil || d < 0 {
					return "", fmt.Errorf("hist: bad op %q", op)
				}
				if err := s.age(d); err != nil {
					return "", err
				}
				r = "-"
				auto = false
			case p[0] == "empty" && len(p) == 1:
				for _, mnt := range s.volmgr.writables { // as keepstore.go emptyTrash(h.volmgr.writables, ...)
					mnt.EmptyTrash()
				}
				r = "-"
			case p[0] == "tl" && len(p) == 2:
				// a trash list of several items in ONE PUT /trash: ReplaceQueue, then the trash worker
				// takes and runs them one after the other (item := <h>/<mref>/<mount>, '&'-separated)
				var trs []TrashRequest
				for _, it := range strings.Split(p[1], "&") {
					q := strings.Split(it, "/")
					if len(q) != 3 {
						return "", fmt.Errorf("hist: bad op %q", op)
					}
					hi, e := verifC04ParseHash(q[0])
					if e != nil {
						return "", e
					}
					tr, e := s.trashRequest(vols, hi, q[1], q[2])
					if e != nil {
						return "", fmt.Errorf("hist: bad op %q", op)
					}
					trs = append(trs, tr)
				}
				body, _ := json.Marshal(trs)
				r = strconv.Itoa(s.do("PUT", "/trash", body, true).Code)
				if err := s.waitTrashIdle(); err != nil {
					return "", err
				}
			case len(p) >= 2:
				hi, e := verifC04ParseHash(p[1])
				if e != nil {
					return "", e
				}
				h := verifC04Hash(hi)
				switch {
				case p[0] == "put" && len(p) == 2:
					r = strconv.Itoa(s.do("PUT", "/"+h, verifC04Body(hi), true).Code)
				case p[0] == "putbad" && len(p) == 2:
					r = strconv.Itoa(s.do("PUT", "/"+h, verifC04Corrupt(hi), true).Code)
				case p[0] == "touch" && len(p) == 2:
					r = strconv.Itoa(s.do("TOUCH", "/"+h, nil, true).Code)
				case p[0] == "utouch" && len(p) == 2:
					r = strconv.Itoa(s.do("TOUCH", "/"+h, nil, false).Code)
				case p[0] == "get" && len(p) == 2:
					resp := s.do("GET", "/"+h, nil, true)
					r = strconv.Itoa(resp.Code)
					if resp.Code == 200 && !bytes.Equal(resp.Body.Bytes(), verifC04Body(hi)) {
						r = "200bad"
					}
				case (p[0] == "del" || p[0] == "udel" || p[0] == "ndel" || p[0] == "odel") && len(p) == 2:
					var stamped time.Time
					if p[0] == "ndel" || p[0] == "odel" {
						// every copy of h gets an age half a second below (ndel) / above (odel) the TTL,
						// right before the request. For ndel the wall clock is first brought into the
						// first third of a second, so that mtime+TTL falls into the same whole second
						// as the request (the boundary a whole-second comparison gets wrong).
						off := 500 * time.Millisecond
						if p[0] == "odel" {
							off = -off
						} else {
							for f := time.Now().Nanosecond(); f < 50e6 || f > 350e6; f = time.Now().Nanosecond() {
								time.Sleep(10 * time.Millisecond)
							}
						}
						stamped = time.Now()
						mt := stamped.Add(-s.cluster.Collections.BlobSigningTTL.Duration()).Add(off)
						for vi := range vols {
							if _, err := os.Stat(s.blockPath(vi, hi)); err == nil {
								if err := os.Chtimes(s.blockPath(vi, hi), mt, mt); err != nil {
									return "", err
								}
							}
						}
					}
					resp := s.do("DELETE", "/"+h, nil, p[0] != "udel")
					if p[0] == "ndel" && time.Since(stamped) > 400*time.Millisecond {
						return "", errVerifC04Slow
					}
					r = strconv.Itoa(resp.Code)
					if resp.Code == 200 {
						var jr struct {
							Deleted int `json:"copies_deleted"`
							Failed  int `json:"copies_failed"`
						}
						if err := json.Unmarshal(resp.Body.Bytes(), &jr); err != nil {
							r += ":?"
						} else {
							r += fmt.Sprintf(":%d.%d", jr.Deleted, jr.Failed)
						}
					}
				case p[0] == "untrash" && len(p) == 2:
					r = strconv.Itoa(s.do("PUT", "/untrash/"+h, nil, true).Code)
				case p[0] == "uuntrash" && len(p) == 2:
					r = strconv.Itoa(s.do("PUT", "/untrash/"+h, nil, false).Code)
				case p[0] == "ti" && len(p) == 4:
					tr, e := s.trashRequest(vols, hi, p[2], p[3])
					if e != nil {
						return "", fmt.Errorf("hist: bad op %q", op)
					}
					body, _ := json.Marshal([]TrashRequest{tr})
					r = strconv.Itoa(s.do("PUT", "/trash", body, true).Code)
					if err := s.waitTrashIdle(); err != nil {
						return "", err
					}
				default:
					return "", fmt.Errorf("hist: bad op %q", op)
				}
			default:
				return "", fmt.Errorf("hist: bad op %q", op)
			}
			res = append(res, r)
			snaps = append(snaps, s.listing(time.Now()))
			if auto {
				if err := s.age(1); err != nil {
					return "", err
				}
			}
		}
	}
	now := time.Now()
	if now.Sub(start) > verifC04MaxDrift {
		return "", errVerifC04Slow
	}
	rs := "-"
	if len(res) > 0 {
		rs = strings.Join(res, ",")
	}
	return "res=" + rs + " dirs=" + strings.Join(snaps, "|"), nil
}

var errVerifC04Slow = fmt.Errorf("slow")

// ---------------------------------------------------------------------------- race mode

type verifC04Thread struct {
	arrive  chan string
	release chan struct{}
	done    chan string
	state   int // 0 parked, 1 blocked, 2 done
	at      string
	result  string
}

type verifC04Ctl struct {
	th     map[byte]*verifC04Thread
	locker *verifC04Locker
	pid    string
	trace  []string
}

func verifC04Label(id string) string {
	if i := strings.LastIndex(id, ":"); i >= 0 {
		return id[:i]
	}
	return id
}

func verifC04ThreadOf(id string) byte {
	if strings.HasPrefix(id, "Trash:") || strings.HasPrefix(id, "Mtime:") || strings.HasPrefix(id, "Untrash:") {
		return 'T'
	}
	return 'P'
}

// flockWaiter reports whether some thread of this process is blocked in flock(2) (a "->" line of
// /proc/locks carrying our pid).
func (c *verifC04Ctl) flockWaiter() bool {
	data, err := ioutil.ReadFile("/proc/locks")
	if err != nil {
		return false
	}
	for _, l := range strings.Split(string(data), "\n") {
		fs := strings.Fields(l)
		if len(fs) >= 6 && fs[1] == "->" && fs[2] == "FLOCK" && fs[5] == c.pid {
			return true
		}
	}
	return false
}

func (c *verifC04Ctl) isBlocked(x byte) bool {
	if c.locker != nil && c.locker.blocked() {
		return true
	}
	return c.flockWaiter()
}

// settle waits until thread x is parked at a point, finished, or blocked in a lock.
func (c *verifC04Ctl) settle(x byte) error {
	t := c.th[x]
	start := time.Now()
	// Only the steps that begin with v.lock / v.lockfile can wait; any other step is examined for
	// blocking only after a long silence (a mutated tree may block elsewhere). Two lock users never
	// wait for each other (both take the Serialize mutex before the flock), so while the other
	// thread is waiting, x cannot be; the lock indicators would show the other thread's wait.
	other := c.th[byte('P'+'T'-x)]
	canBlock := (strings.HasSuffix(t.at, ":v.lock") || strings.HasSuffix(t.at, ":v.lockfile")) && other.state != 1
	wait := 20 * time.Millisecond
	if canBlock {
		wait = 50 * time.Microsecond
	}
	for {
		timer := time.NewTimer(wait)
		select {
		case id := <-t.arrive:
			timer.Stop()
			t.state, t.at = 0, verifC04Label(id)
			return nil
		case r := <-t.done:
			timer.Stop()
			t.state, t.result = 2, r
			return nil
		case <-timer.C:
		}
		if other.state != 1 && c.isBlocked(x) {
			// re-check arrival once: the indicator and the channels are read at different instants
			select {
			case id := <-t.arrive:
				t.state, t.at = 0, verifC04Label(id)
				return nil
			case r := <-t.done:
				t.state, t.result = 2, r
				return nil
			default:
			}
			t.state = 1
			return nil
		}
		if time.Since(start) > 60*time.Second {
			return fmt.Errorf("thread %c stuck after %s", x, t.at)
		}
		if wait < 2*time.Millisecond {
			wait *= 2
		}
	}
}

func (c *verifC04Ctl) step(x byte) error {
	t := c.th[x]
	if t.state != 0 {
		return nil // finished, or still waiting for a lock: the turn is a stutter
	}
	label := t.at
	t.release <- struct{}{}
	if err := c.settle(x); err != nil {
		return err
	}
	ev := string(x) + ":" + label
	if t.state == 1 {
		ev += "!"
	}
	c.trace = append(c.trace, ev)
	// a lock released by this step lets the other thread finish its pending acquire
	y := byte('P' + 'T' - x)
	o := c.th[y]
	if o.state == 1 && !c.isBlocked(y) {
		// A waiter line of /proc/locks is reliable when present, but one read of that file can
		// miss a line while other processes' locks come and go. So "not listed" only means: look
		// again. settle returns with state 1 if y turns out to be still waiting (no event then).
		if err := c.settle(y); err != nil {
			return err
		}
		if o.state != 1 {
			c.trace = append(c.trace, string(y)+"~")
		}
	}
	return nil
}

// abort lets both goroutines run to completion unsupervised after a controller error and discards
// the server they may still be using.
func (c *verifC04Ctl) abort(key string) {
	verifPointHook.Store(func(string) {})
	for _, x := range []byte{'P', 'T'} {
		t := c.th[x]
		go func() {
			for range t.arrive {
			}
		}()
		close(t.release)
	}
	for _, x := range []byte{'P', 'T'} {
		if t := c.th[x]; t.state != 2 {
			select {
			case <-t.done:
			case <-time.After(10 * time.Second):
			}
		}
	}
	delete(verifC04Servers, key)
}

func verifC04Race(base string, f []string) (string, error) {
	if len(f) != 8 {
		return "", fmt.Errorf("race: want 8 fields")
	}
	for i, allowed := range map[int]string{1: "0 1", 2: "0 1", 3: "a g c", 4: "o f", 5: "touch put", 6: "del ti untrash"} {
		ok := false
		for _, a := range strings.Fields(allowed) {
			ok = ok || a == f[i]
		}
		if !ok {
			return "", fmt.Errorf("race: bad field %d", i)
		}
	}
	for _, ch := range f[7] {
		if ch != 'P' && ch != 'T' {
			return "", fmt.Errorf("race: bad schedule")
		}
	}
	vol := "wn"
	if f[1] == "1" {
		vol = "ws"
	}
	s, err := verifC04GetServer(base, []string{vol})
	if err != nil {
		return "", err
	}
	const ttl, lifeUnits, oldAge, freshAge = 10, 5, 20, 1
	s.cluster.Collections.BlobSigningTTL = arvados.Duration(ttl * verifC04Unit)
	s.cluster.Collections.BlobTrashLifetime = 0
	if f[2] == "1" {
		s.cluster.Collections.BlobTrashLifetime = arvados.Duration(lifeUnits * verifC04Unit)
	}
	s.cluster.Collections.BlobTrash = true
	s.cluster.Collections.BlobDeleteConcurrency = 1
	start := time.Now()
	age := oldAge
	if f[4] == "f" {
		age = freshAge
	}
	mt := start.Add(-time.Duration(age) * verifC04Unit)
	if f[3] != "a" {
		if err := s.plant(0, 0, f[3] == "g", mt, nil); err != nil {
			return "", err
		}
	}
	if f[6] == "untrash" {
		// an old intact copy in the trash, 3 units of lifetime left
		dl := start.Unix() + 3*int64(verifC04Unit/time.Second)
		if err := s.plant(0, 0, true, start.Add(-30*verifC04Unit), &dl); err != nil {
			return "", err
		}
	}
	h := verifC04Hash(0)
	ctl := &verifC04Ctl{th: map[byte]*verifC04Thread{}, locker: s.lockers[0], pid: strconv.Itoa(os.Getpid())}
	for _, x := range []byte{'P', 'T'} {
		ctl.th[x] = &verifC04Thread{arrive: make(chan string), release: make(chan struct{}), done: make(chan string, 1)}
	}
	verifPointHook.Store(func(id string) {
		t := ctl.th[verifC04ThreadOf(id)]
		t.arrive <- id
		<-t.release
	})
	defer verifPointHook.Store(func(string) {})
	run := func(x byte, fn func() string) {
		go func() {
			r := "panic"
			defer func() {
				if e := recover(); e != nil {
					r = fmt.Sprintf("panic:%v", e)
				}
				ctl.th[x].done <- r
			}()
			r = fn()
		}()
	}
	run('P', func() string {
		if f[5] == "touch" {
			return strconv.Itoa(s.do("TOUCH", "/"+h, nil, true).Code)
		}
		return strconv.Itoa(s.do("PUT", "/"+h, verifC04Body(0), true).Code)
	})
	if err := ctl.settle('P'); err != nil {
		ctl.abort(vol)
		return "", err
	}
	run('T', func() string {
		if f[6] == "untrash" {
			return strconv.Itoa(s.do("PUT", "/untrash/"+h, nil, true).Code)
		}
		if f[6] == "del" {
			resp := s.do("DELETE", "/"+h, nil, true)
			r := strconv.Itoa(resp.Code)
			if resp.Code == 200 {
				var jr struct {
					Deleted int `json:"copies_deleted"`
					Failed  int `json:"copies_failed"`
				}
				json.Unmarshal(resp.Body.Bytes(), &jr)
				r += fmt.Sprintf(":%d.%d", jr.Deleted, jr.Failed)
			}
			return r
		}
		var bm int64
		if f[3] != "a" {
			bm = mt.UnixNano()
		}
		TrashItem(s.volmgr, verifC04Logger, s.cluster, TrashRequest{Locator: h, BlockMtime: bm})
		return "-"
	})
	if err := ctl.settle('T'); err != nil {
		ctl.abort(vol)
		return "", err
	}
	sched := f[7] + strings.Repeat("PT", 30)
	for i := 0; i < len(sched); i++ {
		if err := ctl.step(sched[i]); err != nil {
			ctl.abort(vol)
			return "", err
		}
	}
	if ctl.th['P'].state != 2 || ctl.th['T'].state != 2 {
		defer ctl.abort(vol)
		return "", fmt.Errorf("threads did not finish: P=%d@%s T=%d@%s", ctl.th['P'].state, ctl.th['P'].at, ctl.th['T'].state, ctl.th['T'].at)
	}
	verifPointHook.Store(func(string) {})
	get := s.do("GET", "/"+h, nil, true)
	gs := strconv.Itoa(get.Code)
	if get.Code == 200 && !bytes.Equal(get.Body.Bytes(), verifC04Body(0)) {
		gs = "200bad"
	}
	now := time.Now()
	if now.Sub(start) > verifC04MaxDrift {
		return "", errVerifC04Slow
	}
	tr := "-"
	if len(ctl.trace) > 0 {
		tr = strings.Join(ctl.trace, ",")
	}
	return fmt.Sprintf("P=%s T=%s get=%s dir=%s trace=%s", ctl.th['P'].result, ctl.th['T'].result, gs, s.listing(now), tr), nil
}

// ---------------------------------------------------------------------------- test entry

func verifC04Case(base, line string) (out string) {
	defer func() {
		if e := recover(); e != nil {
			out = "panic " + strings.Join(strings.Fields(fmt.Sprint(e)), "_")
		}
	}()
	f := strings.Split(line, " ")
	for attempt := 0; ; attempt++ {
		var r string
		var err error
		switch f[0] {
		case "hist":
			r, err = verifC04Hist(base, f)
		case "race":
			r, err = verifC04Race(base, f)
		default:
			return "bad-op"
		}
		if err == errVerifC04Slow && attempt < 3 {
			continue
		}
		if err != nil {
			if strings.HasPrefix(err.Error(), "hist: ") || strings.HasPrefix(err.Error(), "race: ") {
				return "bad-op"
			}
			return "error " + strings.Join(strings.Fields(err.Error()), "_")
		}
		return r
	}
}

func TestVerifC04(t *testing.T) {
	cin, cout := os.Getenv("VERIF_CASES"), os.Getenv("VERIF_OUT")
	if cin == "" || cout == "" {
		t.Skip("VERIF_CASES / VERIF_OUT not set")
	}
	ctxlog.SetLevel("panic")
	in, err := os.Open(cin)
	if err != nil {
		t.Fatal(err)
	}
	defer in.Close()
	out, err := os.Create(cout)
	if err != nil {
		t.Fatal(err)
	}
	defer out.Close()
	base, err := ioutil.TempDir(filepath.Dir(cout), "c04vols.")
	if err != nil {
		t.Fatal(err)
	}
	defer os.RemoveAll(base)
	w := bufio.NewWriter(out)
	defer w.Flush()
	sc := bufio.NewScanner(in)
	sc.Buffer(make([]byte, 1<<20), 1<<24)
	for sc.Scan() {
		fmt.Fprintln(w, verifC04Case(base, sc.Text()))
	}
}
