// Verification driver for C01 (keepstore never serves or accepts a block whose content mismatches
// its hash). Injected with `go test -overlay`; not part of the repository.
//
// One case per line:
//   c01 <vols> <reqs>
//   vols := vol ('/' vol)*                 1..3 Directory volumes, in mount order
//   vol  := flags ':' repl ':' files [':' faults]   flags: w|r (writable/read-only) + optional f (full marker)
//   faults := fault (',' fault)*           I/O faults of block paths, produced with file-system means that bind root too:
//   fault := 'i' hash   the planted file is immutable (FS_IMMUTABLE_FL): readable, but Touch (open O_RDWR) and
//                       renaming the temp file over it fail with EPERM
//          | 'd' hash   a directory sits at the block path: reading gives EISDIR, rename onto it fails
//          | 'n' hash   a regular file sits where the block directory <root>/<hash[0:3]> should be: stat gives
//                       ENOTDIR (= not found), MkdirAll fails
//          | 'l' hash   the block directory is immutable: TempFile fails, existing files are read/touched as usual
//   files:= '-' | file (',' file)*         file := <hash32> '=' content
//   content := 'x' hex*                    literal bytes
//            | 's' md5 '.' len '.' gen     symbolic: gen := 'R' seed 'n' len ('~f' bitpos | '~t' len | '~a' hex | '~z' total)*
//                                          (md5(seed) repeated to len bytes, page number xor-ed into each 4 KiB page)
//   reqs := req (';' req)*
//   req  := 'G:' hash [':' hint] | 'H:' hash | 'P:' hash ':' content [':nocl']
//         | 'Gb:' hash | 'Pb:' hash ':' content     the same with every pool buffer taken and the client gone
//                                                   (handler called directly with a CloseNotifier recorder)
//         | 'Ps:' hash ':' content                  PUT whose body is one byte shorter than its Content-Length
//         | 'X:' volidx ':' hash ':' content ':' ('k'|'n')   not a request: the stored bytes change behind the
//                                                   server's back — the file under the block path of hash on
//                                                   that volume is overwritten in place with content; k = the
//                                                   file's previous mtime is put back (silent decay, a restore
//                                                   that preserves timestamps), n = it gets a new mtime
// Unit-level cases for the byte loops (same driver, other first token):
//   c01cmp <hash32> <expect hex|-> <chunks> <sep|last>    compareReaderWithBuf over a reader that returns the
//        given chunks (',' separated hex, 'e' = a zero-length read, '-' = none), EOF on a separate read
//        or together with the last chunk  ->  nil | collision | corrupt | err
//   c01gwp <buflen> <chunks> <ok|ueof|notexist|other>     getWithPipe over a BlockReader that writes the chunks and
//        ends that way  ->  <n>,<md5 of buf[:n]>,<nil|notexist|other>
// One result line per case: per request
//   G/H: <status>,<content-length header|->,<body length|->,<body md5|->
//   P:   <status>,<X-Keep-Replicas-Stored|->,<fresh-router GET status>.<len>.<md5> | -
//   X:   X
// followed by '|' and the listing of every volume after the request (volumes joined by '/', files
// sorted by name and joined by ',', each <name>=<size>.<md5>, '-' for an empty volume); requests are
// joined by ';'.
package main

import (
	"bufio"
	"bytes"
	"context"
	"crypto/md5"
	"encoding/hex"
	"encoding/json"
	"fmt"
	"io"
	"io/ioutil"
	"net/http"
	"net/http/httptest"
	"os"
	"path/filepath"
	"sort"
	"strconv"
	"strings"
	"syscall"
	"testing"
	"time"
	"unsafe"

	"git.arvados.org/arvados.git/sdk/go/arvados"
	"git.arvados.org/arvados.git/sdk/go/ctxlog"
	"github.com/prometheus/client_golang/prometheus"
	"github.com/sirupsen/logrus"
)

type verifC01Vol struct {
	ro    bool
	full  bool
	repl  int
	files [][2]string // hash, content spec
	faults [][2]string // kind, hash
	root  string
}

// verifC01SetImmutable sets or clears FS_IMMUTABLE_FL (what `chattr +i` does).
func verifC01SetImmutable(path string, on bool) error {
	f, err := os.Open(path)
	if err != nil {
		return err
	}
	defer f.Close()
	var flags int64
	if _, _, e := syscall.Syscall(syscall.SYS_IOCTL, f.Fd(), 0x80086601, uintptr(unsafe.Pointer(&flags))); e != 0 {
		return e
	}
	if on {
		flags |= 0x10
	} else if flags&0x10 == 0 {
		return nil
	} else {
		flags &^= 0x10
	}
	if _, _, e := syscall.Syscall(syscall.SYS_IOCTL, f.Fd(), 0x40086602, uintptr(unsafe.Pointer(&flags))); e != 0 {
		return e
	}
	return nil
}

// verifC01ClearImmutable clears the immutable flag of everything below root (so that it can be removed).
func verifC01ClearImmutable(root string) {
	filepath.Walk(root, func(path string, fi os.FileInfo, err error) error {
		if err == nil && (fi.IsDir() || fi.Mode().IsRegular()) {
			verifC01SetImmutable(path, false)
		}
		return nil
	})
}

var verifC01Logger = func() *logrus.Logger {
	l := logrus.New()
	l.Out = ioutil.Discard
	return l
}()

// verifC01Expand builds the bytes a generator descriptor stands for. With skipLast the last op is
// left out (used for sparse planting).
func verifC01Expand(gen string, skipLast bool) ([]byte, error) {
	ops := strings.Split(gen, "~")
	if skipLast {
		ops = ops[:len(ops)-1]
	}
	base := ops[0]
	if len(base) < 2 || base[0] != 'R' {
		return nil, fmt.Errorf("bad generator")
	}
	sn := strings.SplitN(base[1:], "n", 2)
	if len(sn) != 2 {
		return nil, fmt.Errorf("bad generator")
	}
	n, err := strconv.Atoi(sn[1])
	if err != nil {
		return nil, err
	}
	pat := md5.Sum([]byte(sn[0]))
	buf := make([]byte, n)
	for i := 0; i < n; i += copy(buf[i:], pat[:]) {
	}
	// make every 4 KiB page distinct (a purely periodic block would hide chunk-offset bugs)
	for k := 0; k*4096+8 <= n; k++ {
		for j := 0; j < 8; j++ {
			buf[k*4096+j] ^= byte(uint64(k) >> uint(8*j))
		}
	}
	for _, op := range ops[1:] {
		if op == "" {
			return nil, fmt.Errorf("bad generator op")
		}
		switch op[0] {
		case 'f':
			p, err := strconv.Atoi(op[1:])
			if err != nil || p/8 >= len(buf) {
				return nil, fmt.Errorf("bad flip")
			}
			buf[p/8] ^= 1 << uint(p%8)
		case 't':
			p, err := strconv.Atoi(op[1:])
			if err != nil || p > len(buf) {
				return nil, fmt.Errorf("bad trunc")
			}
			buf = buf[:p]
		case 'a':
			more, err := hex.DecodeString(op[1:])
			if err != nil {
				return nil, err
			}
			buf = append(buf, more...)
		case 'z':
			// zero bytes appended up to a total length
			p, err := strconv.Atoi(op[1:])
			if err != nil || p < len(buf) {
				return nil, fmt.Errorf("bad zero-extension")
			}
			buf = append(buf, make([]byte, p-len(buf))...)
		default:
			return nil, fmt.Errorf("bad generator op")
		}
	}
	return buf, nil
}

// verifC01Content expands a content spec to bytes (and checks the generator's digest and length).
func verifC01Content(spec string) ([]byte, error) {
	if spec == "" {
		return nil, fmt.Errorf("empty content spec")
	}
	switch spec[0] {
	case 'x':
		return hex.DecodeString(spec[1:])
	case 's':
		parts := strings.SplitN(spec[1:], ".", 3)
		if len(parts) != 3 {
			return nil, fmt.Errorf("bad symbolic content")
		}
		wantLen, err := strconv.Atoi(parts[1])
		if err != nil {
			return nil, err
		}
		buf, err := verifC01Expand(parts[2], false)
		if err != nil {
			return nil, err
		}
		if len(buf) != wantLen || fmt.Sprintf("%x", md5.Sum(buf)) != parts[0] {
			return nil, fmt.Errorf("generator digest mismatch")
		}
		return buf, nil
	}
	return nil, fmt.Errorf("bad content spec")
}

// verifC01Plant writes a content under path. A symbolic content whose last op is a zero-extension
// is written as a sparse file (prefix + truncate); its digest is checked through the listing.
func verifC01Plant(path, spec string) error {
	if spec != "" && spec[0] == 's' {
		parts := strings.SplitN(spec[1:], ".", 3)
		if len(parts) == 3 {
			ops := strings.Split(parts[2], "~")
			if last := ops[len(ops)-1]; len(ops) > 1 && last[0] == 'z' {
				total, err := strconv.ParseInt(last[1:], 10, 64)
				if err != nil || fmt.Sprintf("%d", total) != parts[1] {
					return fmt.Errorf("bad zero-extension")
				}
				prefix, err := verifC01Expand(parts[2], true)
				if err != nil || int64(len(prefix)) > total {
					return fmt.Errorf("bad zero-extension")
				}
				if err := ioutil.WriteFile(path, prefix, 0644); err != nil {
					return err
				}
				return os.Truncate(path, total)
			}
		}
	}
	data, err := verifC01Content(spec)
	if err != nil {
		return err
	}
	return ioutil.WriteFile(path, data, 0644)
}

func verifC01ParseVols(s string) ([]*verifC01Vol, error) {
	var vols []*verifC01Vol
	for _, vs := range strings.Split(s, "/") {
		p := strings.Split(vs, ":")
		if len(p) != 3 && len(p) != 4 {
			return nil, fmt.Errorf("bad vol")
		}
		v := &verifC01Vol{}
		switch p[0] {
		case "w":
		case "r":
			v.ro = true
		case "wf":
			v.full = true
		case "rf":
			v.ro, v.full = true, true
		default:
			return nil, fmt.Errorf("bad flags")
		}
		r, err := strconv.Atoi(p[1])
		if err != nil || r < 0 {
			return nil, fmt.Errorf("bad repl")
		}
		v.repl = r
		if p[2] != "-" {
			for _, fs := range strings.Split(p[2], ",") {
				kv := strings.SplitN(fs, "=", 2)
				if len(kv) != 2 || len(kv[0]) != 32 {
					return nil, fmt.Errorf("bad file")
				}
				v.files = append(v.files, [2]string{kv[0], kv[1]})
			}
		}
		if len(p) == 4 {
			planted := map[string]bool{}
			for _, kv := range v.files {
				planted[kv[0]] = true
			}
			seen := map[string]bool{}
			for _, fs := range strings.Split(p[3], ",") {
				if len(fs) != 33 || !strings.ContainsRune("idnl", rune(fs[0])) || seen[fs[1:]] {
					return nil, fmt.Errorf("bad fault")
				}
				for _, c := range fs[1:] {
					if !strings.ContainsRune("0123456789abcdef", c) {
						return nil, fmt.Errorf("bad fault")
					}
				}
				seen[fs[1:]] = true
				v.faults = append(v.faults, [2]string{fs[:1], fs[1:]})
			}
			for _, ft := range v.faults {
				switch ft[0] {
				case "i":
					if !planted[ft[1]] {
						return nil, fmt.Errorf("bad fault")
					}
				case "d":
					if planted[ft[1]] {
						return nil, fmt.Errorf("bad fault")
					}
				case "n":
					for h := range planted {
						if h[:3] == ft[1][:3] {
							return nil, fmt.Errorf("bad fault")
						}
					}
					for _, o := range v.faults {
						if o[1] != ft[1] && o[1][:3] == ft[1][:3] {
							return nil, fmt.Errorf("bad fault")
						}
					}
				}
			}
		}
		vols = append(vols, v)
	}
	if len(vols) < 1 || len(vols) > 3 {
		return nil, fmt.Errorf("bad vol count")
	}
	return vols, nil
}

// verifC01Server builds a volume manager whose mounts are in the order of vols (the manager takes
// them from a Go map, so construction is retried until the order is the requested one), and a
// router over it, served by a real HTTP server.
func verifC01Server(vols []*verifC01Vol) (*httptest.Server, error) {
	cluster := &arvados.Cluster{}
	cluster.Collections.BlobSigning = false
	cluster.API.MaxKeepBlobBuffers = 4
	for try := 0; try < 2000; try++ {
		cluster.Volumes = map[string]arvados.Volume{}
		var uuids []string
		for i, v := range vols {
			uuid := fmt.Sprintf("zzzzz-nyw5e-%015d", i)
			uuids = append(uuids, uuid)
			params, _ := json.Marshal(map[string]interface{}{"Root": v.root})
			cluster.Volumes[uuid] = arvados.Volume{
				Driver:           "Directory",
				DriverParameters: params,
				ReadOnly:         v.ro,
				Replication:      v.repl,
			}
		}
		reg := prometheus.NewRegistry()
		vm, err := makeRRVolumeManager(verifC01Logger, cluster, arvados.URL{}, newVolumeMetricsVecs(reg))
		if err != nil {
			return nil, err
		}
		ok := len(vm.AllReadable()) == len(vols)
		for i, m := range vm.AllReadable() {
			if ok && m.UUID != uuids[i] {
				ok = false
			}
		}
		if !ok {
			continue
		}
		ctx := ctxlog.Context(context.Background(), verifC01Logger)
		h := MakeRESTRouter(ctx, cluster, reg, vm, NewWorkQueue(), NewWorkQueue())
		return httptest.NewServer(h), nil
	}
	return nil, fmt.Errorf("could not obtain requested mount order")
}

func verifC01Listing(vols []*verifC01Vol) string {
	var out []string
	for _, v := range vols {
		var ents []string
		filepath.Walk(v.root, func(path string, fi os.FileInfo, err error) error {
			if err != nil || fi.IsDir() {
				return nil
			}
			rel, _ := filepath.Rel(v.root, path)
			if rel == "full" {
				return nil
			}
			for _, ft := range v.faults {
				if ft[0] == "n" && rel == ft[1][:3] {
					return nil
				}
			}
			name := strings.Replace(rel, "/", "!", -1)
			if base := filepath.Base(rel); len(base) == 32 && rel == base[:3]+"/"+base {
				name = base
			}
			if fi.Mode()&os.ModeType != 0 {
				ents = append(ents, name+"=special")
				return nil
			}
			f, err := os.Open(path)
			if err != nil {
				ents = append(ents, name+"=unreadable")
				return nil
			}
			defer f.Close()
			h := md5.New()
			n, _ := io.Copy(h, f)
			ents = append(ents, fmt.Sprintf("%s=%d.%x", name, n, h.Sum(nil)))
			return nil
		})
		sort.Strings(ents)
		if len(ents) == 0 {
			out = append(out, "-")
		} else {
			out = append(out, strings.Join(ents, ","))
		}
	}
	return strings.Join(out, "/")
}

func verifC01Get(srv *httptest.Server, method, path string) string {
	req, err := http.NewRequest(method, srv.URL+path, nil)
	if err != nil {
		return "reqerr"
	}
	resp, err := srv.Client().Do(req)
	if err != nil {
		return "httperr"
	}
	defer resp.Body.Close()
	h := md5.New()
	n, err := io.Copy(h, resp.Body)
	if err != nil {
		// e.g. body shorter than the announced Content-Length
		return fmt.Sprintf("%d,%s,bodyerr,%d", resp.StatusCode, verifC01Hdr(resp.Header.Get("Content-Length")), n)
	}
	if resp.StatusCode != 200 {
		return fmt.Sprintf("%d,-,-,-", resp.StatusCode)
	}
	return fmt.Sprintf("%d,%s,%d,%x", resp.StatusCode, verifC01Hdr(resp.Header.Get("Content-Length")), n, h.Sum(nil))
}

func verifC01Hdr(s string) string {
	if s == "" {
		return "-"
	}
	return strings.Replace(strings.Replace(s, " ", "_", -1), ",", "_", -1)
}

// verifC01GoneRecorder is a response recorder whose client has already gone away.
type verifC01GoneRecorder struct {
	*httptest.ResponseRecorder
	gone chan bool
}

func (r *verifC01GoneRecorder) CloseNotify() <-chan bool { return r.gone }

// verifC01Direct calls the router directly. With starve, every buffer of the pool is held and the
// client is reported gone, so the handler can only give up waiting for a buffer.
func verifC01Direct(h http.Handler, req *http.Request, starve bool) *httptest.ResponseRecorder {
	rec := httptest.NewRecorder()
	if !starve {
		h.ServeHTTP(rec, req)
		return rec
	}
	var held [][]byte
	for i := 0; i < bufs.Cap(); i++ {
		held = append(held, bufs.Get(BlockSize))
	}
	gone := make(chan bool, 1)
	gone <- true
	h.ServeHTTP(&verifC01GoneRecorder{rec, gone}, req)
	for _, b := range held {
		bufs.Put(b)
	}
	// let the handler's leftover "return the buffer I was waiting for" goroutine finish
	for i := 0; i < 1000 && bufs.Len() > 0; i++ {
		time.Sleep(time.Millisecond)
	}
	return rec
}

func verifC01RecGet(rec *httptest.ResponseRecorder) string {
	if rec.Code != 200 {
		return fmt.Sprintf("%d,-,-,-", rec.Code)
	}
	return fmt.Sprintf("%d,%s,%d,%x", rec.Code, verifC01Hdr(rec.Header().Get("Content-Length")), rec.Body.Len(), md5.Sum(rec.Body.Bytes()))
}

type verifC01NoLenReader struct{ r io.Reader }

func (r verifC01NoLenReader) Read(p []byte) (int, error) { return r.r.Read(p) }

type verifC01ChunkReader struct {
	chunks      [][]byte
	eofWithLast bool
}

func (r *verifC01ChunkReader) Read(p []byte) (int, error) {
	if len(r.chunks) == 0 {
		return 0, io.EOF
	}
	c := r.chunks[0]
	n := copy(p, c)
	if n < len(c) {
		r.chunks[0] = c[n:]
		return n, nil
	}
	r.chunks = r.chunks[1:]
	if len(r.chunks) == 0 && r.eofWithLast {
		return n, io.EOF
	}
	return n, nil
}

type verifC01StubBlockReader struct {
	chunks [][]byte
	end    error
}

func (s *verifC01StubBlockReader) ReadBlock(ctx context.Context, loc string, w io.Writer) error {
	for _, c := range s.chunks {
		if _, err := w.Write(c); err != nil {
			return err
		}
	}
	return s.end
}

func verifC01Chunks(s string) ([][]byte, error) {
	if s == "-" {
		return nil, nil
	}
	var out [][]byte
	for _, c := range strings.Split(s, ",") {
		if c == "e" {
			out = append(out, []byte{})
			continue
		}
		b, err := hex.DecodeString(c)
		if err != nil || len(b) == 0 {
			return nil, fmt.Errorf("bad chunk")
		}
		out = append(out, b)
	}
	return out, nil
}

func verifC01Unit(f []string) string {
	switch {
	case f[0] == "c01cmp" && len(f) == 5 && len(f[1]) == 32:
		var expect []byte
		if f[2] != "-" {
			var err error
			if expect, err = hex.DecodeString(f[2]); err != nil || len(expect) == 0 {
				return "bad-op"
			}
		}
		chunks, err := verifC01Chunks(f[3])
		if err != nil || (f[4] != "sep" && f[4] != "last") {
			return "bad-op"
		}
		err = compareReaderWithBuf(context.Background(), &verifC01ChunkReader{chunks, f[4] == "last"}, expect, f[1])
		switch err {
		case nil:
			return "nil"
		case CollisionError:
			return "collision"
		case DiskHashError:
			return "corrupt"
		}
		return "err"
	case f[0] == "c01gwp" && len(f) == 4:
		n, err := strconv.Atoi(f[1])
		if err != nil || n < 0 || n > 1<<20 {
			return "bad-op"
		}
		chunks, err := verifC01Chunks(f[2])
		if err != nil {
			return "bad-op"
		}
		var end error
		switch f[3] {
		case "ok":
		case "ueof":
			end = io.ErrUnexpectedEOF
		case "notexist":
			end = os.ErrNotExist
		case "other":
			end = fmt.Errorf("stub failure")
		default:
			return "bad-op"
		}
		buf := make([]byte, n)
		got, err := getWithPipe(context.Background(), "x", buf, &verifC01StubBlockReader{chunks, end})
		class := "nil"
		if os.IsNotExist(err) {
			class = "notexist"
		} else if err != nil {
			class = "other"
		}
		if got < 0 || got > n {
			return fmt.Sprintf("%d,out-of-range,%s", got, class)
		}
		return fmt.Sprintf("%d,%x,%s", got, md5.Sum(buf[:got]), class)
	}
	return "bad-op"
}

func verifC01Case(line string, tmpParent string) (out string) {
	defer func() {
		if r := recover(); r != nil {
			out = fmt.Sprintf("panic %v", r)
		}
	}()
	f := strings.Split(line, " ")
	if f[0] == "c01cmp" || f[0] == "c01gwp" {
		return verifC01Unit(f)
	}
	if len(f) != 3 || f[0] != "c01" {
		return "bad-op"
	}
	vols, err := verifC01ParseVols(f[1])
	if err != nil {
		return "bad-op"
	}
	tmp, err := ioutil.TempDir(tmpParent, "c01vols")
	if err != nil {
		return "setup-failed " + err.Error()
	}
	defer os.RemoveAll(tmp)
	for _, v := range vols {
		if len(v.faults) > 0 {
			defer verifC01ClearImmutable(tmp)
			break
		}
	}
	for i, v := range vols {
		v.root = filepath.Join(tmp, fmt.Sprintf("v%d", i))
		if err := os.Mkdir(v.root, 0755); err != nil {
			return "setup-failed"
		}
		for _, kv := range v.files {
			dir := filepath.Join(v.root, kv[0][:3])
			os.MkdirAll(dir, 0755)
			if err := verifC01Plant(filepath.Join(dir, kv[0]), kv[1]); err != nil {
				return "bad-op"
			}
		}
		if v.full {
			if err := os.Symlink(fmt.Sprintf("%d", time.Now().Unix()), filepath.Join(v.root, "full")); err != nil {
				return "setup-failed"
			}
		}
		// I/O faults: first everything that creates something, then the immutable flags
		for _, ft := range v.faults {
			dir := filepath.Join(v.root, ft[1][:3])
			var err error
			switch ft[0] {
			case "d":
				err = os.MkdirAll(filepath.Join(dir, ft[1]), 0755)
			case "n":
				err = ioutil.WriteFile(dir, nil, 0644)
			case "l":
				err = os.MkdirAll(dir, 0755)
			}
			if err != nil {
				return "setup-failed fault"
			}
		}
		for _, ft := range v.faults {
			dir := filepath.Join(v.root, ft[1][:3])
			var err error
			switch ft[0] {
			case "i":
				err = verifC01SetImmutable(filepath.Join(dir, ft[1]), true)
			case "l":
				err = verifC01SetImmutable(dir, true)
			}
			if err != nil {
				return "setup-failed immutable-flag-unsupported"
			}
		}
	}
	srv, err := verifC01Server(vols)
	if err != nil {
		return "setup-failed " + strings.Replace(err.Error(), " ", "_", -1)
	}
	defer srv.Close()
	var results []string
	for _, rs := range strings.Split(f[2], ";") {
		p := strings.Split(rs, ":")
		var res string
		switch {
		case (p[0] == "G" || p[0] == "H") && (len(p) == 2 || (len(p) == 3 && p[0] == "G")) && len(p[1]) == 32:
			path := "/" + p[1]
			if len(p) == 3 {
				path += "+" + p[2]
			}
			method := "GET"
			if p[0] == "H" {
				method = "HEAD"
			}
			res = verifC01Get(srv, method, path)
		case p[0] == "P" && (len(p) == 3 || (len(p) == 4 && p[3] == "nocl")) && len(p[1]) == 32:
			body, err := verifC01Content(p[2])
			if err != nil {
				return "bad-op"
			}
			var rdr io.Reader = bytes.NewReader(body)
			if len(p) == 4 {
				// unknown length: chunked transfer encoding, ContentLength -1 at the server
				rdr = verifC01NoLenReader{rdr}
			}
			req, err := http.NewRequest("PUT", srv.URL+"/"+p[1], rdr)
			if err != nil {
				return "bad-op"
			}
			resp, err := srv.Client().Do(req)
			if err != nil {
				res = "httperr,-,-"
				break
			}
			io.Copy(ioutil.Discard, resp.Body)
			resp.Body.Close()
			fg := "-"
			if resp.StatusCode == 200 {
				srv2, err := verifC01Server(vols)
				if err != nil {
					return "setup-failed"
				}
				g := strings.Split(verifC01Get(srv2, "GET", "/"+p[1]), ",")
				srv2.Close()
				if len(g) == 4 {
					fg = g[0] + "." + g[2] + "." + g[3]
				} else {
					fg = "malformed"
				}
			}
			res = fmt.Sprintf("%d,%s,%s", resp.StatusCode, verifC01Hdr(resp.Header.Get("X-Keep-Replicas-Stored")), fg)
		case p[0] == "Gb" && len(p) == 2 && len(p[1]) == 32:
			req, err := http.NewRequest("GET", "/"+p[1], nil)
			if err != nil {
				return "bad-op"
			}
			res = verifC01RecGet(verifC01Direct(srv.Config.Handler, req, true))
		case (p[0] == "Pb" || p[0] == "Ps") && len(p) == 3 && len(p[1]) == 32:
			body, err := verifC01Content(p[2])
			if err != nil {
				return "bad-op"
			}
			req, err := http.NewRequest("PUT", "/"+p[1], bytes.NewReader(body))
			if err != nil {
				return "bad-op"
			}
			if p[0] == "Ps" {
				req.ContentLength = int64(len(body)) + 1
			}
			rec := verifC01Direct(srv.Config.Handler, req, p[0] == "Pb")
			fg := "-"
			if rec.Code == 200 {
				srv2, err := verifC01Server(vols)
				if err != nil {
					return "setup-failed"
				}
				g := strings.Split(verifC01Get(srv2, "GET", "/"+p[1]), ",")
				srv2.Close()
				if len(g) == 4 {
					fg = g[0] + "." + g[2] + "." + g[3]
				} else {
					fg = "malformed"
				}
			}
			res = fmt.Sprintf("%d,%s,%s", rec.Code, verifC01Hdr(rec.Header().Get("X-Keep-Replicas-Stored")), fg)
		case p[0] == "X" && len(p) == 5 && len(p[2]) == 32 && (p[4] == "k" || p[4] == "n"):
			idx, err := strconv.Atoi(p[1])
			if err != nil || idx < 0 || idx >= len(vols) || len(vols[idx].faults) > 0 {
				return "bad-op"
			}
			dir := filepath.Join(vols[idx].root, p[2][:3])
			path := filepath.Join(dir, p[2])
			old, statErr := os.Stat(path)
			os.MkdirAll(dir, 0755)
			if err := verifC01Plant(path, p[3]); err != nil {
				return "bad-op"
			}
			ts := time.Now()
			if p[4] == "k" && statErr == nil {
				ts = old.ModTime()
			}
			if err := os.Chtimes(path, ts, ts); err != nil {
				return "setup-failed chtimes"
			}
			res = "X"
		default:
			return "bad-op"
		}
		results = append(results, res+"|"+verifC01Listing(vols))
	}
	return strings.Join(results, ";")
}

func TestVerifC01(t *testing.T) {
	in, err := os.Open(os.Getenv("VERIF_CASES"))
	if err != nil {
		t.Skip("VERIF_CASES not set")
	}
	defer in.Close()
	outPath := os.Getenv("VERIF_OUT")
	outf, err := os.Create(outPath)
	if err != nil {
		t.Fatal(err)
	}
	defer outf.Close()
	ctxlog.SetLevel("panic")
	// GetDeviceID runs `findmnt` twice per volume per volume manager (~80 ms each in this sandbox);
	// the device id plays no role in this property, so let the lookup fail fast ("" device id).
	os.Setenv("PATH", "/nonexistent")
	bufs = newBufferPool(verifC01Logger, 4, BlockSize)
	// volumes left behind by a crashed run may contain immutable files; other shards of this run work
	// in the same directory at the same time, so only what is older than any running case is removed
	if old, _ := filepath.Glob(filepath.Join(filepath.Dir(outPath), "c01vols*")); len(old) > 0 {
		for _, d := range old {
			if fi, err := os.Stat(d); err == nil && time.Since(fi.ModTime()) > 2*time.Hour {
				verifC01ClearImmutable(d)
				os.RemoveAll(d)
			}
		}
	}
	w := bufio.NewWriter(outf)
	defer w.Flush()
	sc := bufio.NewScanner(in)
	sc.Buffer(make([]byte, 1<<20), 1<<28)
	for sc.Scan() {
		fmt.Fprintln(w, verifC01Case(sc.Text(), filepath.Dir(outPath)))
	}
}
