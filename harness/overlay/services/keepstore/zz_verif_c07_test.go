// Verification driver for C07 (keepstore GET signature gate, PUT reply signing). Injected with
// `go test -overlay`; not part of the repository. One result line per case line. String
// arguments are hex ("-" = empty).
//
//	get <loc> <tok> <signing 0|1> <ttlNs> <key> <present> <nominalNowNs>
//	     GET /<loc> with "Authorization: Bearer <tok>"        -> <status> [hex(body) if 200]
//	     (<present> is for the model: "absent" or "p"+hex(body) of the stored block)
//	geturl <rawpath> <none|hdr> <signing 0|1> <ttlNs> <key> <present> <nominalNowNs>
//	     http.NewRequest("GET", "http://keep.example"+rawpath) with the raw Authorization value
//	                                   -> badurl | 301 hex(Location path) | <status> [hex(body)]
//	getremote <loc> <tok> <remote ids a,b|-> <ttlNs> <key> <rpresent> <nominalNowNs> [<mode>]
//	     mode = what the stub remote does with every request: ok (default: serve what it holds,
//	     else 404) | a status code | drop (close the connection) | short (200 with a 1-byte body);
//	     the keepclients have Retries = 2
//	     BlobSigning on; the listed remote clusters are configured and all resolve to one stub
//	     Keep server (keepclients pre-seeded, so no discovery request is made)
//	              -> <status> [hex(body)] | <hex forwarded locator> <hex forwarded token> [; …] or "| -"
//	getnow <loc> <tok> <ttlNs> <key> <present> <nominalNowNs>
//	     BlobSigning on; sign <loc> with keepstore's SignLocator for the whole second that has
//	     already begun (expiry instant strictly in the past), GET it at once with the same token;
//	     repeated until the GET completed within that second
//	                                                          -> <status> [hex(body)] exp t0ns t1ns
//	put <body> <tok> <tok2> <signing 0|1> <ttlNs> <key> <nominalNowNs>
//	     PUT /md5(body) with tok; then GET the returned locator with tok and with tok2
//	     -> <putStatus> hex(returnedLocator) <getStatusTok> <getStatusTok2> t0 t1
package main

import (
	"bufio"
	"bytes"
	"context"
	"crypto/md5"
	"encoding/hex"
	"encoding/json"
	"fmt"
	"io/ioutil"
	"net/http"
	"net/http/httptest"
	"net/url"
	"os"
	"path/filepath"
	"strconv"
	"strings"
	"testing"
	"time"

	"git.arvados.org/arvados.git/lib/config"
	"git.arvados.org/arvados.git/sdk/go/arvados"
	"git.arvados.org/arvados.git/sdk/go/arvadosclient"
	"git.arvados.org/arvados.git/sdk/go/ctxlog"
	"git.arvados.org/arvados.git/sdk/go/keepclient"
	"github.com/prometheus/client_golang/prometheus"
)

// Blocks stored before the first case runs; the generator knows this list.
var verifC07Stored = []string{"foo", "", "verif-c07 block", "bar\n"}

func verifC07Hex(s string) string {
	if s == "-" {
		return ""
	}
	b, err := hex.DecodeString(s)
	if err != nil {
		panic("bad hex field")
	}
	return string(b)
}

func verifC07Enc(s string) string {
	if s == "" {
		return "-"
	}
	return hex.EncodeToString([]byte(s))
}

func verifC07Int(s string) int64 {
	v, err := strconv.ParseInt(s, 10, 64)
	if err != nil {
		panic("bad int field")
	}
	return v
}

type verifC07Env struct {
	cluster    *arvados.Cluster
	h          *handler
	remote     *httptest.Server // stub Keep service of every configured remote cluster
	remoteSeen []string         // "<hex locator> <hex token>" per request it received
	remoteMode string           // what the stub remote does: ok | <status code> | drop | short
}

var verifC07NoKeepAlive = &http.Client{Transport: &http.Transport{DisableKeepAlives: true}}

// Blocks the stub remote Keep service holds; the generator knows this list.
var verifC07Remote = []string{"remote-only block", "foo", "another remote block\n"}

func (e *verifC07Env) do(method, loc, tok string, body []byte) *httptest.ResponseRecorder {
	resp := httptest.NewRecorder()
	req := &http.Request{
		Method:     method,
		URL:        &url.URL{Path: "/" + loc},
		Proto:      "HTTP/1.1",
		ProtoMajor: 1,
		ProtoMinor: 1,
		Header:     http.Header{},
		Host:       "keep.example",
	}
	if body != nil {
		req.Body = ioutil.NopCloser(bytes.NewReader(body))
		req.ContentLength = int64(len(body))
	}
	req.Header["Authorization"] = []string{"Bearer " + tok}
	e.h.ServeHTTP(resp, req)
	return resp
}

func (e *verifC07Env) config(signing string, ttlNs int64, key string) {
	e.cluster.Collections.BlobSigning = signing == "1"
	e.cluster.Collections.BlobSigningTTL = arvados.Duration(ttlNs)
	e.cluster.Collections.BlobSigningKey = key
}

func (e *verifC07Env) run(line string) (out string) {
	defer func() {
		if r := recover(); r != nil {
			out = fmt.Sprintf("panic %v", r)
		}
	}()
	f := strings.Split(line, " ")
	switch {
	case f[0] == "get" && len(f) == 8:
		e.config(f[3], verifC07Int(f[4]), verifC07Hex(f[5]))
		resp := e.do("GET", verifC07Hex(f[1]), verifC07Hex(f[2]), nil)
		if resp.Code == 200 {
			return "200 " + verifC07Enc(resp.Body.String())
		}
		return strconv.Itoa(resp.Code)
	case f[0] == "geturl" && len(f) == 8:
		// raw request target and raw Authorization header value, as a client would send them
		e.config(f[3], verifC07Int(f[4]), verifC07Hex(f[5]))
		req, err := http.NewRequest("GET", "http://keep.example"+verifC07Hex(f[1]), nil)
		if err != nil {
			return "badurl"
		}
		if f[2] != "none" {
			req.Header["Authorization"] = []string{verifC07Hex(f[2])}
		}
		resp := httptest.NewRecorder()
		e.h.ServeHTTP(resp, req)
		switch resp.Code {
		case 200:
			return "200 " + verifC07Enc(resp.Body.String())
		case 301:
			u, err := url.Parse(resp.Header().Get("Location"))
			if err != nil {
				return "301 unparsable-location"
			}
			return "301 " + verifC07Enc(u.Path)
		}
		return strconv.Itoa(resp.Code)
	case f[0] == "getremote" && (len(f) == 8 || len(f) == 9):
		// remote-proxy exit: the configured remote clusters all resolve to one stub Keep server
		e.config("1", verifC07Int(f[4]), verifC07Hex(f[5]))
		e.remoteMode = "ok"
		if len(f) == 9 {
			e.remoteMode = f[8]
		}
		e.cluster.RemoteClusters = map[string]arvados.RemoteCluster{}
		clients := map[string]*keepclient.KeepClient{}
		if f[3] != "-" {
			for _, id := range strings.Split(f[3], ",") {
				e.cluster.RemoteClusters[id] = arvados.RemoteCluster{Host: "localhost:9"}
				kc := &keepclient.KeepClient{
					Arvados:       &arvadosclient.ArvadosClient{ApiServer: "localhost:9", ApiToken: "xxx"},
					Want_replicas: 1,
					Retries:       2,
					// no connection reuse: net/http silently repeats a GET whose reused
					// connection was closed, which would make the request count of the
					// "drop" mode depend on timing
					HTTPClient: verifC07NoKeepAlive,
				}
				kc.SetServiceRoots(map[string]string{id + "-bi6l4-000000000000000": e.remote.URL}, nil, nil)
				clients[id] = kc
			}
		}
		rtr := e.h.Handler.(*router)
		rtr.remoteProxy.mtx.Lock()
		rtr.remoteProxy.clients = clients
		rtr.remoteProxy.mtx.Unlock()
		e.remoteSeen = nil
		resp := e.do("GET", verifC07Hex(f[1]), verifC07Hex(f[2]), nil)
		st := strconv.Itoa(resp.Code)
		if resp.Code == 200 {
			st = "200 " + verifC07Enc(resp.Body.String())
		}
		seen := "-"
		if len(e.remoteSeen) > 0 {
			seen = strings.Join(e.remoteSeen, " ; ")
		}
		return st + " | " + seen
	case f[0] == "getnow" && len(f) == 7:
		e.config("1", verifC07Int(f[3]), verifC07Hex(f[4]))
		var out string
		for attempt := 0; attempt < 1000; attempt++ {
			t0 := time.Now()
			if t0.Nanosecond() == 0 {
				continue
			}
			exp := t0.Unix()
			signed := SignLocator(e.cluster, verifC07Hex(f[1]), verifC07Hex(f[2]), time.Unix(exp, 0))
			resp := e.do("GET", signed, verifC07Hex(f[2]), nil)
			t1 := time.Now()
			st := strconv.Itoa(resp.Code)
			if resp.Code == 200 {
				st = "200 " + verifC07Enc(resp.Body.String())
			}
			out = fmt.Sprintf("%s %d %d %d", st, exp, t0.UnixNano(), t1.UnixNano())
			if t1.Unix() == exp {
				break
			}
		}
		return out
	case f[0] == "put" && len(f) == 8:
		e.config(f[4], verifC07Int(f[5]), verifC07Hex(f[6]))
		body := []byte(verifC07Hex(f[1]))
		t0 := time.Now().Unix()
		resp := e.do("PUT", fmt.Sprintf("%x", md5.Sum(body)), verifC07Hex(f[2]), body)
		t1 := time.Now().Unix()
		if resp.Code != 200 {
			return fmt.Sprintf("%d - 0 0 %d %d", resp.Code, t0, t1)
		}
		loc := strings.TrimSuffix(resp.Body.String(), "\n")
		g1 := e.do("GET", loc, verifC07Hex(f[2]), nil)
		g2 := e.do("GET", loc, verifC07Hex(f[3]), nil)
		if g1.Code == 200 && !bytes.Equal(g1.Body.Bytes(), body) {
			return "wrong-body"
		}
		return fmt.Sprintf("200 %s %d %d %d %d", verifC07Enc(loc), g1.Code, g2.Code, t0, t1)
	}
	return "bad-op"
}

func TestVerifC07(t *testing.T) {
	in, err := os.Open(os.Getenv("VERIF_CASES"))
	if err != nil {
		t.Skip("VERIF_CASES not set")
	}
	defer in.Close()
	outf, err := os.Create(os.Getenv("VERIF_OUT"))
	if err != nil {
		t.Fatal(err)
	}
	defer outf.Close()
	w := bufio.NewWriter(outf)
	defer w.Flush()

	tmp, err := ioutil.TempDir(filepath.Dir(os.Getenv("VERIF_OUT")), "verif-c07-vol-")
	if err != nil {
		t.Fatal(err)
	}
	defer os.RemoveAll(tmp)
	ldr := config.NewLoader(bytes.NewBufferString("Clusters: {zzzzz: {}}"), ctxlog.TestLogger(t))
	ldr.Path = "-"
	ldr.SkipLegacy = true
	ldr.SkipAPICalls = true
	cfg, err := ldr.Load()
	if err != nil {
		t.Fatal(err)
	}
	cluster, err := cfg.GetCluster("")
	if err != nil {
		t.Fatal(err)
	}
	cluster.SystemRootToken = "verif-c07-system-root-token"
	cluster.Collections.BlobSigningKey = "setup-key" // replaced per case
	cluster.Services.Controller.ExternalURL = arvados.URL{Scheme: "https", Host: "localhost:9"}
	params, _ := json.Marshal(map[string]interface{}{"Root": tmp})
	cluster.Volumes = map[string]arvados.Volume{
		"zzzzz-nyw5e-000000000000000": {Replication: 1, Driver: "Directory", DriverParameters: params},
	}
	env := &verifC07Env{cluster: cluster, h: &handler{}}
	env.remote = httptest.NewServer(http.HandlerFunc(func(w http.ResponseWriter, r *http.Request) {
		loc := strings.TrimPrefix(r.URL.Path, "/")
		env.remoteSeen = append(env.remoteSeen, verifC07Enc(loc)+" "+verifC07Enc(strings.TrimPrefix(r.Header.Get("Authorization"), "OAuth2 ")))
		switch mode := env.remoteMode; {
		case mode == "drop":
			// fault: the connection is closed without an answer
			if hj, ok := w.(http.Hijacker); ok {
				if conn, _, err := hj.Hijack(); err == nil {
					conn.Close()
					return
				}
			}
			panic(http.ErrAbortHandler)
		case mode == "short":
			w.Header().Set("Content-Length", "1")
			w.Write([]byte("x"))
			return
		case mode != "ok" && mode != "":
			code, _ := strconv.Atoi(mode)
			http.Error(w, "stub remote fault", code)
			return
		}
		for _, b := range verifC07Remote {
			if strings.HasPrefix(loc, fmt.Sprintf("%x", md5.Sum([]byte(b)))) {
				w.Header().Set("Content-Length", strconv.Itoa(len(b)))
				w.Write([]byte(b))
				return
			}
		}
		http.Error(w, "not found", http.StatusNotFound)
	}))
	defer env.remote.Close()
	if err := env.h.setup(context.Background(), cluster, "", prometheus.NewRegistry(), testServiceURL); err != nil {
		t.Fatal(err)
	}
	for _, b := range verifC07Stored {
		err := env.h.volmgr.AllWritable()[0].Put(context.Background(), fmt.Sprintf("%x", md5.Sum([]byte(b))), []byte(b))
		if err != nil {
			t.Fatal(err)
		}
	}

	sc := bufio.NewScanner(in)
	sc.Buffer(make([]byte, 1<<20), 1<<26)
	for sc.Scan() {
		fmt.Fprintln(w, env.run(sc.Text()))
	}
}
