// Verification driver for C17 (crunch-run output copier). Injected with `go test -overlay`; not
// part of the repository. One result line per case line.
//
// Case line (fields separated by one space; names/paths/targets hex-encoded; "-" = empty list):
//
//	copy <blocksize> <ctrOutHex> <host> <mounts> <secrets> <colls>
//	 host    = ';'-list of <relpathHex>:f:<seed>.<len> | <relpathHex>:d: | <relpathHex>:l:<targetHex> | <relpathHex>:p: (also :s: :c: :b: socket, character device, block device)
//	           paths are relative to a fresh temp root R, parents first; hostOutputDir = R/h1/h2/o
//	 mounts  = ';'-list of <ctrPathHex>:<kind>:<flags>:<coll>:<pathHex>   flags ⊆ "wx" or "-", coll = index or "-"
//	 secrets = ','-list of <ctrPathHex>
//	 colls   = '|'-list of collections; collection = ';'-list of <streamNameHex>:<blocks>:<toks>,
//	           blocks = ','-list of <seed>.<len>, toks = ','-list of <pos>.<len>.<nameHex>
//
// Result: "ok <bytes PutB'ed> <listing>" where listing = ';'-list (sorted) of <pathHex>=f.<size>.<md5>
// and <pathHex>=d (empty directories only), read back from the returned manifest through a
// collection filesystem over the same fake Keep store; or "err <class>"; or "panic <class>"; or
// "diverge" (the plan grew beyond 2000 directories: unbounded recursion, stopped by the watchdog);
// or "hang" (Copy did not return within 15 s + 5 s grace, e.g. a deadlock while flushing);
// or "skip-config".
package crunchrun

import (
	"bufio"
	"crypto/md5"
	"encoding/hex"
	"errors"
	"fmt"
	"io"
	"io/ioutil"
	"os"
	"path/filepath"
	"runtime/debug"
	"sort"
	"strconv"
	"strings"
	"sync"
	"syscall"
	"testing"
	"time"

	"git.arvados.org/arvados.git/sdk/go/arvados"
	"git.arvados.org/arvados.git/sdk/go/arvadosclient"
	"git.arvados.org/arvados.git/sdk/go/manifest"
)

type verifC17Keep struct {
	mu       sync.Mutex
	blocks   map[string][]byte
	putBytes int64
}

func (k *verifC17Keep) PutB(buf []byte) (string, int, error) {
	k.mu.Lock()
	defer k.mu.Unlock()
	h := fmt.Sprintf("%x", md5.Sum(buf))
	k.blocks[h] = append([]byte(nil), buf...)
	k.putBytes += int64(len(buf))
	return fmt.Sprintf("%s+%d", h, len(buf)), 1, nil
}

func (k *verifC17Keep) ReadAt(locator string, p []byte, off int) (int, error) {
	k.mu.Lock()
	defer k.mu.Unlock()
	if len(locator) < 32 {
		return 0, errors.New("bad locator")
	}
	b, ok := k.blocks[locator[:32]]
	if !ok {
		return 0, os.ErrNotExist
	}
	if off > len(b) {
		return 0, io.ErrUnexpectedEOF
	}
	n := copy(p, b[off:])
	if n < len(p) {
		return n, io.ErrUnexpectedEOF
	}
	return n, nil
}

func (k *verifC17Keep) ManifestFileReader(m manifest.Manifest, filename string) (arvados.File, error) {
	return nil, errors.New("not implemented")
}
func (k *verifC17Keep) LocalLocator(locator string) (string, error) { return locator, nil }
func (k *verifC17Keep) ClearBlockCache()                            {}

type verifC17Arv struct {
	manifests map[string]string
}

func (a *verifC17Arv) Create(string, arvadosclient.Dict, interface{}) error {
	return errors.New("not implemented")
}
func (a *verifC17Arv) Get(resourceType string, uuid string, parameters arvadosclient.Dict, output interface{}) error {
	if resourceType != "collections" {
		return errors.New("not implemented")
	}
	txt, ok := a.manifests[uuid]
	if !ok {
		return arvadosclient.ErrInvalidArgument
	}
	output.(*arvados.Collection).ManifestText = txt
	output.(*arvados.Collection).PortableDataHash = uuid
	return nil
}
func (a *verifC17Arv) Update(string, string, arvadosclient.Dict, interface{}) error {
	return errors.New("not implemented")
}
func (a *verifC17Arv) Call(method, resourceType, uuid, action string, parameters arvadosclient.Dict, output interface{}) error {
	return errors.New("not implemented")
}
func (a *verifC17Arv) CallRaw(method string, resourceType string, uuid string, action string, parameters arvadosclient.Dict) (io.ReadCloser, error) {
	return nil, errors.New("not implemented")
}
func (a *verifC17Arv) Discovery(key string) (interface{}, error) {
	return nil, errors.New("not implemented")
}

type verifC17Logger struct{}

func (verifC17Logger) Printf(string, ...interface{}) {}

func verifC17Content(seed, n int) []byte {
	b := make([]byte, n)
	for i := range b {
		b[i] = byte((seed*seed*31 + seed*7 + i*i*(seed%7+1) + i*(seed%13+3)*5 + (i/256)*11) % 256)
	}
	return b
}

func verifC17Unhex(s string) string {
	if s == "-" {
		return ""
	}
	b, err := hex.DecodeString(s)
	if err != nil {
		panic("bad-op")
	}
	return string(b)
}

func verifC17List(s, sep string) []string {
	if s == "-" || s == "" {
		return nil
	}
	return strings.Split(s, sep)
}

func verifC17SeedLen(s string) (int, int) {
	p := strings.Split(s, ".")
	if len(p) != 2 {
		panic("bad-op")
	}
	a, err1 := strconv.Atoi(p[0])
	b, err2 := strconv.Atoi(p[1])
	if err1 != nil || err2 != nil {
		panic("bad-op")
	}
	return a, b
}

func verifC17ErrClass(err error) string {
	msg := err.Error()
	switch {
	case strings.HasPrefix(msg, "error scanning files to copy to output: "):
		switch {
		case strings.Contains(msg, "not in any mount"):
			return "err notmounted"
		case strings.Contains(msg, "too many symlinks"):
			return "err symlinks"
		case strings.Contains(msg, "output: lstat "):
			return "err lstat"
		case strings.Contains(msg, "unsupported mount"):
			return "err kind"
		case strings.Contains(msg, "Unsupported file type"):
			return "err type"
		case strings.Contains(msg, "error retrieving collection record"):
			return "err manifest"
		case strings.Contains(msg, "not bind-mounted"):
			return "err hostroot"
		}
		return "err scan-other"
	case strings.HasPrefix(msg, "error creating Collection.FileSystem"):
		return "err fs"
	case strings.HasPrefix(msg, "error making directory"):
		return "err mkdir"
	case strings.HasPrefix(msg, "error flushing"):
		return "err flush"
	case strings.HasPrefix(msg, "error copying file"):
		return "err copy"
	}
	return "err unknown"
}

// verifC17Listing reads every file of the collection back through a collection filesystem.
func verifC17Listing(fs arvados.CollectionFileSystem, dir string, out *[]string) error {
	f, err := fs.Open(dir)
	if err != nil {
		return err
	}
	fis, err := f.Readdir(-1)
	f.Close()
	if err != nil {
		return err
	}
	if len(fis) == 0 && dir != "/" {
		*out = append(*out, hex.EncodeToString([]byte(dir))+"=d")
	}
	for _, fi := range fis {
		p := dir + "/" + fi.Name()
		if dir == "/" {
			p = "/" + fi.Name()
		}
		if fi.IsDir() {
			if err := verifC17Listing(fs, p, out); err != nil {
				return err
			}
			continue
		}
		rf, err := fs.Open(p)
		if err != nil {
			return err
		}
		data, err := ioutil.ReadAll(rf)
		rf.Close()
		if err != nil {
			return fmt.Errorf("read %q: %v", p, err)
		}
		if int64(len(data)) != fi.Size() {
			return fmt.Errorf("read %q: %d bytes, size %d", p, len(data), fi.Size())
		}
		*out = append(*out, fmt.Sprintf("%s=f.%d.%x", hex.EncodeToString([]byte(p)), len(data), md5.Sum(data)))
	}
	return nil
}

func verifC17Case(line string) (out string) {
	var root string
	defer func() {
		if root != "" {
			os.RemoveAll(root)
		}
		if r := recover(); r != nil {
			msg := fmt.Sprint(r)
			switch {
			case msg == "bad-op":
				out = "bad-op"
			case strings.Contains(msg, "slice bounds out of range"):
				out = "panic bounds"
			default:
				out = "panic other " + strings.Join(strings.Fields(msg), "_")
			}
		}
	}()
	f := strings.Split(line, " ")
	if len(f) != 7 || f[0] != "copy" {
		return "bad-op"
	}
	blocksize, err := strconv.Atoi(f[1])
	if err != nil || blocksize < 1 {
		return "bad-op"
	}
	ctrOut := verifC17Unhex(f[2])

	keep := &verifC17Keep{blocks: map[string][]byte{}}
	arv := &verifC17Arv{manifests: map[string]string{}}

	// collections
	var pdhs []string
	for ci, cs := range verifC17List(f[6], "|") {
		var txt strings.Builder
		for _, ss := range verifC17List(cs, ";") {
			p := strings.Split(ss, ":")
			if len(p) != 3 {
				return "bad-op"
			}
			txt.WriteString(manifest.EscapeName(verifC17Unhex(p[0])))
			for _, bs := range verifC17List(p[1], ",") {
				seed, n := verifC17SeedLen(bs)
				data := verifC17Content(seed, n)
				h := fmt.Sprintf("%x", md5.Sum(data))
				keep.blocks[h] = data
				fmt.Fprintf(&txt, " %s+%d", h, n)
			}
			for _, ts := range verifC17List(p[2], ",") {
				q := strings.Split(ts, ".")
				if len(q) != 3 {
					return "bad-op"
				}
				fmt.Fprintf(&txt, " %s:%s:%s", q[0], q[1], manifest.EscapeName(verifC17Unhex(q[2])))
			}
			txt.WriteString("\n")
		}
		pdh := fmt.Sprintf("%032x+%d", ci+1, 10+ci)
		pdhs = append(pdhs, pdh)
		arv.manifests[pdh] = txt.String()
	}

	// mounts
	mounts := map[string]arvados.Mount{}
	for _, ms := range verifC17List(f[4], ";") {
		p := strings.Split(ms, ":")
		if len(p) != 5 {
			return "bad-op"
		}
		m := arvados.Mount{Kind: p[1], Path: verifC17Unhex(p[4])}
		m.Writable = strings.Contains(p[2], "w")
		m.ExcludeFromOutput = strings.Contains(p[2], "x")
		if p[3] != "-" {
			i, err := strconv.Atoi(p[3])
			if err != nil || i < 0 {
				return "bad-op"
			}
			if i < len(pdhs) {
				m.PortableDataHash = pdhs[i]
			} else {
				m.PortableDataHash = fmt.Sprintf("%032x+%d", 9999, 0)
			}
		}
		mounts[verifC17Unhex(p[0])] = m
	}
	for mnt, m := range mounts {
		// Configurations outside the property's quantifier that the model does not cover (see
		// notes/C17.md): a tmp mount other than the output directory (walkHostFS computes its host
		// path from the output directory: slice-bounds panic or another file; below the output path
		// it also restarts the symlink budget), a writable collection mount.
		if (m.Kind == "tmp" && mnt != ctrOut) || (m.Kind == "collection" && m.Writable) {
			return "skip-config"
		}
	}
	secrets := map[string]arvados.Mount{}
	for _, s := range verifC17List(f[5], ",") {
		secrets[verifC17Unhex(s)] = arvados.Mount{Kind: "text", Content: "xyzzy"}
	}

	// host tree
	root, err = ioutil.TempDir("", "verif-c17.")
	if err != nil {
		return "harness-error " + err.Error()
	}
	hostOut := filepath.Join(root, "h1", "h2", "o")
	if err := os.MkdirAll(hostOut, 0755); err != nil {
		return "harness-error " + err.Error()
	}
	for _, es := range verifC17List(f[3], ";") {
		p := strings.Split(es, ":")
		if len(p) != 3 {
			return "bad-op"
		}
		hp := root + "/" + verifC17Unhex(p[0])
		switch p[1] {
		case "f":
			seed, n := verifC17SeedLen(p[2])
			err = ioutil.WriteFile(hp, verifC17Content(seed, n), 0644)
		case "d":
			err = os.MkdirAll(hp, 0755)
		case "l":
			err = os.Symlink(verifC17Unhex(p[2]), hp)
		case "p":
			err = syscall.Mkfifo(hp, 0644)
		case "s":
			// a socket inode (what bind(2) on a unix socket leaves behind)
			err = syscall.Mknod(hp, syscall.S_IFSOCK|0644, 0)
		case "c", "b":
			// character device 1:3 (null) / block device 7:0 (loop0); where mknod of devices is not
			// permitted (no CAP_MKNOD) a FIFO stands in: every kind is "not regular, not directory,
			// not symlink" for the copier
			mode := uint32(syscall.S_IFCHR | 0644)
			dev := 1<<8 | 3
			if p[1] == "b" {
				mode = uint32(syscall.S_IFBLK | 0644)
				dev = 7 << 8
			}
			err = syscall.Mknod(hp, mode, dev)
			if err == syscall.EPERM {
				err = syscall.Mkfifo(hp, 0644)
			}
		default:
			return "bad-op"
		}
		if err != nil {
			return "harness-error " + strings.Join(strings.Fields(err.Error()), "_")
		}
	}

	old := arvados.VerifC17SetMaxBlockSize(blocksize)
	defer arvados.VerifC17SetMaxBlockSize(old)

	cp := &copier{
		client:        nil,
		arvClient:     arv,
		keepClient:    keep,
		hostOutputDir: hostOut,
		ctrOutputDir:  ctrOut,
		mounts:        mounts,
		secretMounts:  secrets,
		logger:        verifC17Logger{},
	}
	// Copy runs in its own goroutine under a watchdog: a collection mounted above the output path
	// makes walkMountsBelow re-enter the output directory with a fresh symlink budget, so a link
	// back into that collection recurses without bound (finding F17c). The watchdog notices the
	// runaway plan and removes the host tree; the next Lstat fails and the recursion unwinds.
	type copyResult struct {
		txt string
		err error
		pan interface{}
	}
	resc := make(chan copyResult, 1)
	go func() {
		defer func() {
			if r := recover(); r != nil {
				resc <- copyResult{pan: r}
			}
		}()
		txt, err := cp.Copy()
		resc <- copyResult{txt: txt, err: err}
	}()
	var res copyResult
	diverged := false
	hung := false
	start := time.Now()
	var firedAt time.Time
	tick := time.NewTicker(10 * time.Millisecond)
waiting:
	for {
		select {
		case res = <-resc:
			break waiting
		case <-tick.C:
			if !diverged && (len(cp.dirs) > 2000 || len(cp.manifest) > 4<<20 || time.Since(start) > 15*time.Second) {
				diverged = true
				firedAt = time.Now()
				os.RemoveAll(root)
			}
			if diverged && time.Since(firedAt) > 5*time.Second {
				// Not a runaway walk (that ends at the next Lstat): Copy is blocked, e.g. in
				// Flush/MarshalManifest. Its goroutines are abandoned.
				hung = true
				break waiting
			}
		}
	}
	tick.Stop()
	if hung {
		return "hang"
	}
	if diverged {
		return "diverge"
	}
	if res.pan != nil {
		panic(res.pan)
	}
	txt, err := res.txt, res.err
	if err != nil {
		return verifC17ErrClass(err)
	}
	fs, err := (&arvados.Collection{ManifestText: txt}).FileSystem(nil, keep)
	if err != nil {
		return "reload-error " + strings.Join(strings.Fields(err.Error()), "_")
	}
	var listing []string
	if err := verifC17Listing(fs, "/", &listing); err != nil {
		return "reload-error " + strings.Join(strings.Fields(err.Error()), "_")
	}
	sort.Strings(listing)
	l := strings.Join(listing, ";")
	if l == "" {
		l = "-"
	}
	return fmt.Sprintf("ok %d %s", keep.putBytes, l)
}

func TestVerifC17(t *testing.T) {
	debug.SetMaxStack(256 << 20)
	in, err := os.Open(os.Getenv("VERIF_CASES"))
	if err != nil {
		t.Skip("VERIF_CASES not set")
	}
	defer in.Close()
	outf, err := os.Create(os.Getenv("VERIF_OUT"))
	if err != nil {
		t.Fatal(err)
	}
	defer outf.Close()
	sc := bufio.NewScanner(in)
	sc.Buffer(make([]byte, 1<<20), 1<<26)
	for sc.Scan() {
		fmt.Fprintln(outf, verifC17Case(sc.Text()))
	}
}
