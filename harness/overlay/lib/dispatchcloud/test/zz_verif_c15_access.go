// Read-only accessors for the C15 end-to-end driver (injected with `go test -overlay`; not part of
// the repository). They expose the stub cloud's ground truth: which VMs exist, and the API-side
// container records of the test queue.
package test

// VerifC15ID returns the instance id of the VM.
func (svm *StubVM) VerifC15ID() string { return string(svm.id) }

// VerifC15VMs returns the VMs that currently exist in the instance set.
func (sis *StubInstanceSet) VerifC15VMs() []*StubVM {
	sis.mtx.RLock()
	defer sis.mtx.RUnlock()
	var r []*StubVM
	for _, svm := range sis.servers {
		r = append(r, svm)
	}
	return r
}

// VerifC15Ctr is the API-side (not cached) record of a container.
type VerifC15Ctr struct {
	UUID     string
	State    string
	Priority int64
}

// VerifC15All returns a copy of the API-side records.
func (q *Queue) VerifC15All() []VerifC15Ctr {
	q.mtx.Lock()
	defer q.mtx.Unlock()
	var r []VerifC15Ctr
	for _, ctr := range q.Containers {
		r = append(r, VerifC15Ctr{ctr.UUID, string(ctr.State), ctr.Priority})
	}
	return r
}

// VerifC15ClearKilled forgets that a crunch-run process of this container was once sent SIGTERM on
// this VM. The stub keeps that flag forever, so a container that is started again on the same VM
// would exit at once, every time (a real crunch-run process has no memory of its predecessors).
func (svm *StubVM) VerifC15ClearKilled(uuid string) {
	svm.Lock()
	defer svm.Unlock()
	delete(svm.killing, uuid)
}
