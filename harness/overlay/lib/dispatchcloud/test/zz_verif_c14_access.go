// Read-only accessors for the C14/C15 end-to-end drivers (injected with `go test -overlay`;
// not part of the repository). They expose the stub cloud's ground truth: which VMs exist and
// which crunch-run processes are alive on each.
package test

import "sort"

// VerifC14ID returns the instance id of the VM.
func (svm *StubVM) VerifC14ID() string { return string(svm.id) }

// VerifC14Procs returns the container UUIDs that have a live (not exited) crunch-run stub
// process on this VM.
func (svm *StubVM) VerifC14Procs() []string {
	svm.Lock()
	defer svm.Unlock()
	var r []string
	for uuid, p := range svm.running {
		if !p.exited {
			r = append(r, uuid)
		}
	}
	sort.Strings(r)
	return r
}

// VerifC14VMs returns the VMs that currently exist in the instance set.
func (sis *StubInstanceSet) VerifC14VMs() []*StubVM {
	sis.mtx.RLock()
	defer sis.mtx.RUnlock()
	var r []*StubVM
	for _, svm := range sis.servers {
		r = append(r, svm)
	}
	return r
}

// VerifC14State returns the API-side (not cached) record of a container.
func (q *Queue) VerifC14State(uuid string) (state string, priority int64, ok bool) {
	q.mtx.Lock()
	defer q.mtx.Unlock()
	for _, ctr := range q.Containers {
		if ctr.UUID == uuid {
			return string(ctr.State), ctr.Priority, true
		}
	}
	return "", 0, false
}

// VerifC14All returns a copy of the API-side records.
func (q *Queue) VerifC14All() map[string]string {
	q.mtx.Lock()
	defer q.mtx.Unlock()
	r := map[string]string{}
	for _, ctr := range q.Containers {
		r[ctr.UUID] = string(ctr.State)
	}
	return r
}

// VerifC14SetPriority changes a container's priority on the API side.
func (q *Queue) VerifC14SetPriority(uuid string, prio int64) {
	q.mtx.Lock()
	defer q.mtx.Unlock()
	for i := range q.Containers {
		if q.Containers[i].UUID == uuid {
			q.Containers[i].Priority = prio
		}
	}
}
