// Verification driver for C16, part A (ChooseInstanceType / EstimateScratchSpace /
// estimateDockerImageSize). Injected with `go test -overlay`; not part of the repository.
// One result line per case line; see lean/ArvVerif/Driver/C16.lean for the line protocol.
package dispatchcloud

import (
	"bufio"
	"encoding/hex"
	"fmt"
	"os"
	"sort"
	"strconv"
	"strings"
	"testing"
	"time"

	"git.arvados.org/arvados.git/sdk/go/arvados"
)

// how many times ChooseInstanceType is called per case (each call iterates the map in a fresh
// random order), each time on a freshly built map filled in a rotated insertion order
const verifC16Repeats = 8

func verifC16Split(s, sep string) []string {
	if s == "-" {
		return nil
	}
	return strings.Split(s, sep)
}

func verifC16Types(s string) ([]arvados.InstanceType, error) {
	var out []arvados.InstanceType
	for _, f := range verifC16Split(s, ",") {
		p := strings.Split(f, ":")
		if len(p) != 6 {
			return nil, fmt.Errorf("bad type")
		}
		var n [5]int64
		for i := 0; i < 5; i++ {
			v, err := strconv.ParseInt(p[i], 10, 64)
			if err != nil {
				return nil, err
			}
			n[i] = v
		}
		if p[5] != "0" && p[5] != "1" {
			return nil, fmt.Errorf("bad bool")
		}
		out = append(out, arvados.InstanceType{
			Name:         "t" + p[0],
			ProviderType: "p" + p[0],
			VCPUs:        int(n[1]),
			RAM:          arvados.ByteSize(n[2]),
			Scratch:      arvados.ByteSize(n[3]),
			Price:        float64(n[4]) / 64,
			Preemptible:  p[5] == "1",
		})
	}
	return out, nil
}

func verifC16Image(s string) (string, error) {
	if s == "-" {
		return "", nil
	}
	b, err := hex.DecodeString(s)
	return string(b), err
}

func verifC16Mounts(s string) (map[string]arvados.Mount, error) {
	ms := map[string]arvados.Mount{}
	for i, f := range verifC16Split(s, ";") {
		p := strings.Split(f, "=")
		if len(p) != 2 {
			return nil, fmt.Errorf("bad mount")
		}
		c, err := strconv.ParseInt(p[1], 10, 64)
		if err != nil {
			return nil, err
		}
		ms[fmt.Sprintf("/m%d", i)] = arvados.Mount{Kind: p[0], Capacity: c}
	}
	return ms, nil
}

func verifC16Names(ts []arvados.InstanceType) string {
	ns := make([]string, len(ts))
	for i, t := range ts {
		ns[i] = strings.TrimPrefix(t.Name, "t")
	}
	if len(ns) == 0 {
		return "-"
	}
	return strings.Join(ns, ",")
}

func verifC16Case(line string) (out string) {
	defer func() {
		if r := recover(); r != nil {
			out = fmt.Sprintf("panic %v", r)
		}
	}()
	f := strings.Split(line, " ")
	switch {
	case f[0] == "cq":
		return verifC16CQ(f)
	case f[0] == "choose" && len(f) == 6:
		reserve, err := strconv.ParseInt(f[1], 10, 64)
		if err != nil {
			return "bad-op"
		}
		types, err := verifC16Types(f[2])
		if err != nil {
			return "bad-op"
		}
		p := strings.Split(f[3], ":")
		if len(p) != 4 || (p[3] != "0" && p[3] != "1") {
			return "bad-op"
		}
		var n [3]int64
		for i := 0; i < 3; i++ {
			n[i], err = strconv.ParseInt(p[i], 10, 64)
			if err != nil {
				return "bad-op"
			}
		}
		image, err := verifC16Image(f[4])
		if err != nil {
			return "bad-op"
		}
		mounts, err := verifC16Mounts(f[5])
		if err != nil {
			return "bad-op"
		}
		ctr := &arvados.Container{
			ContainerImage:       image,
			Mounts:               mounts,
			RuntimeConstraints:   arvados.RuntimeConstraints{VCPUs: int(n[0]), RAM: n[1], KeepCacheRAM: n[2]},
			SchedulingParameters: arvados.SchedulingParameters{Preemptible: p[3] == "1"},
		}
		seen := map[string]bool{}
		for rep := 0; rep < verifC16Repeats; rep++ {
			cc := &arvados.Cluster{InstanceTypes: map[string]arvados.InstanceType{}}
			cc.Containers.ReserveExtraRAM = arvados.ByteSize(reserve)
			for i := range types {
				t := types[(i+rep)%len(types)]
				cc.InstanceTypes[t.Name] = t
			}
			best, err := ChooseInstanceType(cc, ctr)
			var o string
			switch e := err.(type) {
			case nil:
				// report every field, so that a result that is not a configured type is seen
				if cfg, ok := cc.InstanceTypes[best.Name]; !ok || cfg != best {
					o = fmt.Sprintf("ok:not-a-configured-type(%+v)", best)
				} else {
					o = "ok:" + strings.TrimPrefix(best.Name, "t")
				}
			case ConstraintsNotSatisfiableError:
				o = "unsat:" + verifC16Names(e.AvailableTypes)
				if best != (arvados.InstanceType{}) {
					o += ":and-a-type(" + best.Name + ")"
				}
			default:
				if err == ErrInstanceTypesNotConfigured {
					o = "notconf"
				} else {
					o = "err:other"
				}
				if best != (arvados.InstanceType{}) {
					o += ":and-a-type(" + best.Name + ")"
				}
			}
			seen[o] = true
		}
		var outs []string
		for o := range seen {
			outs = append(outs, o)
		}
		sort.Strings(outs)
		return strings.Join(outs, "|")
	case f[0] == "arith" && len(f) == 3:
		image, err := verifC16Image(f[1])
		if err != nil {
			return "bad-op"
		}
		mounts, err := verifC16Mounts(f[2])
		if err != nil {
			return "bad-op"
		}
		ctr := &arvados.Container{ContainerImage: image, Mounts: mounts}
		return fmt.Sprintf("img=%d scratch=%d", estimateDockerImageSize(image), EstimateScratchSpace(ctr))
	}
	return "bad-op"
}

func TestVerifC16(t *testing.T) {
	in, err := os.Open(os.Getenv("VERIF_CASES"))
	if err != nil {
		t.Skip("VERIF_CASES not set")
	}
	defer in.Close()
	outf, err := os.Create(os.Getenv("VERIF_OUT"))
	if err != nil {
		t.Fatal(err)
	}
	defer outf.Close()
	w := bufio.NewWriter(outf)
	defer w.Flush()
	sc := bufio.NewScanner(in)
	sc.Buffer(make([]byte, 1<<20), 1<<26)
	for sc.Scan() {
		out := verifC16Case(sc.Text())
		if strings.HasPrefix(out, "timeout") {
			// a verdict must not depend on the load of the machine: run the case once more, alone
			time.Sleep(100 * time.Millisecond)
			out = verifC16Case(sc.Text())
		}
		fmt.Fprintln(w, out)
	}
}
